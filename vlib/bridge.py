'''In-memory client <-> server bridge for the shelve database channel.

The pipeline side is the REAL dawgie.db.shelve.comms.Worker protocol object
(with a fake transport and its own virtual clock for its LoopingCall); the
client side is the REAL blocking client code (Connector.__do, comms.acquire,
comms.release, dawgie.pl.message.receive) talking to a FakeSocket returned by
a replaced dawgie.security.connect.  Bytes cross in chunk sizes chosen by the
caller (`chunker`), so framing is on the path.

Nothing listens, nothing sleeps.  Call install() after vlib.boot.boot().
'''

import twisted.internet.task

CONNS = []  # every connection made since install()/reset(), in order


class Transport:
    def __init__(self, conn):
        self.conn = conn
        self.closed = False

    def write(self, b):
        if self.closed:
            self.conn.write_after_close += 1
            return
        self.conn.to_client += b
        self.conn.written.append(b)

    def loseConnection(self):
        if not self.closed:
            self.closed = True
            self.conn.server_closed = True
            # Twisted contract: connectionLost follows (in a LATER reactor iteration), nothing is delivered afterwards
            if self.conn.defer_lost:
                return
            if not self.conn.lost:
                self.conn.lost = True
                self.conn.worker.connectionLost(None)


class Conn:
    '''one database connection: real comms.Worker + fake transport + own clock'''

    def __init__(self, address=('client', 0), chunker=None):
        import dawgie.db.shelve.comms as comms

        self.clock = twisted.internet.task.Clock()
        self.worker = comms.Worker(address)
        lc = getattr(self.worker, '_Worker__looping_call')
        lc.clock = self.clock
        self.transport = Transport(self)
        self.worker.transport = self.transport
        self.to_client = b''
        self.written = []
        self.write_after_close = 0
        self.server_closed = False
        self.lost = False
        self.client_closed = False
        self.chunker = chunker
        self.delivered_after_close = 0
        self.defer_lost = False  # True: connectionLost after a server-side close is delivered by deliver_lost()
        CONNS.append(self)

    # ---- client -> server
    def send(self, data):
        if self.chunker is None:
            chunks = [data]
        else:
            chunks = self.chunker(data)
        for c in chunks:
            if self.transport.closed or self.lost:
                self.delivered_after_close += len(c)
                continue
            self.worker.dataReceived(c)

    def drop(self):
        '''the client's connection goes away (process death, close)'''
        if not self.lost:
            self.lost = True
            self.transport.closed = True
            self.worker.connectionLost(None)

    def deliver_lost(self):
        '''the reactor gets round to telling the protocol that the connection it closed is gone'''
        if not self.lost:
            self.lost = True
            self.worker.connectionLost(None)

    def poll(self, seconds=3):
        '''one tick of this connection's looping call'''
        self.clock.advance(seconds)

    @property
    def has_lock(self):
        return getattr(self.worker, '_Worker__has_lock')


class FakeSocket:
    '''what dawgie.security.connect returns to the real client code'''

    def __init__(self, conn, on_starve=None):
        self.conn = conn
        self.on_starve = on_starve

    def sendall(self, b):
        self.conn.send(b)

    def recv(self, n):
        spins = 0
        while not self.conn.to_client:
            if self.conn.server_closed or self.conn.lost:
                return b''
            spins += 1
            if spins > 200:
                raise TimeoutError('fake socket starved')
            if self.on_starve is not None:
                self.on_starve(self.conn)
            else:
                self.conn.poll()
        out, self.conn.to_client = self.conn.to_client[:n], self.conn.to_client[n:]
        return out

    def close(self):
        self.conn.client_closed = True
        self.conn.drop()


STATE = {'chunker': None, 'on_starve': None}


def connect(_address):
    return FakeSocket(Conn(chunker=STATE['chunker']), STATE['on_starve'])


def install(chunker=None, on_starve=None):
    import dawgie.security

    STATE['chunker'] = chunker
    STATE['on_starve'] = on_starve
    dawgie.security.use_tls = lambda: True  # no legacy handshake wrapper on this channel (module Frame covers it)
    dawgie.security.connect = connect
    CONNS.clear()


def fixed_chunks(size):
    return lambda data: [data[i : i + size] for i in range(0, len(data), size)]
