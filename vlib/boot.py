'''Harness bootstrap: make the DAWGIE working tree importable in a deterministic
environment.  Must be called before anything imports dawgie.

 * the Twisted reactor is a MemoryReactorClock (virtual time, no sockets)
 * dawgie.context points at a scratch directory
 * pydot's svg writer is a no-op (graph *levels* are still computed by
   dawgie.pl.dag.Node.graph, only the `dot` subprocess is removed)

Nothing in /repo is modified; everything here replaces the *environment* of the
code under test (network, clock, graphviz), never its logic.
'''

import os
import sys
import tempfile

REPO_PY = os.environ.get('VERIF_REPO_PY', '/repo/Python')
_state = {}


def install_reactor():
    import twisted.internet
    from twisted.internet.testing import MemoryReactorClock

    if 'twisted.internet.reactor' in sys.modules:
        r = sys.modules['twisted.internet.reactor']
        if isinstance(r, MemoryReactorClock):
            return r
        raise RuntimeError('a real reactor is already installed')
    r = MemoryReactorClock()
    # MemoryReactorClock lacks a few things dawgie touches at import/start
    if not hasattr(r, 'callFromThread'):
        r.callFromThread = lambda f, *a, **k: f(*a, **k)
    if not hasattr(r, 'getThreadPool'):
        r.getThreadPool = lambda: None
    from twisted.internet import main

    main.installReactor(r)
    return r


def boot(workdir=None, stub_svg=True):
    '''returns (reactor, workdir)'''
    if _state:
        return _state['reactor'], _state['workdir']
    if REPO_PY not in sys.path:
        sys.path.insert(0, REPO_PY)
    if workdir is None:
        base = os.environ.get('VERIF_WORK', '/verif/.work')
        os.makedirs(base, exist_ok=True)
        workdir = tempfile.mkdtemp(prefix='h', dir=base)
    for d in ['db', 'dbs', 'logs', 'stg', 'fe', 'ae']:
        os.makedirs(os.path.join(workdir, d), exist_ok=True)
    os.environ.setdefault('DAWGIE_FE_PATH', os.path.join(workdir, 'fe'))
    reactor = install_reactor()
    if stub_svg:
        import pydot

        def write_svg(self, path, *a, **k):
            with open(path, 'wb') as f:
                f.write(b'<svg/>')
            return True

        pydot.Dot.write_svg = write_svg
    import dawgie.context

    assert dawgie.__file__.startswith(REPO_PY), dawgie.__file__
    dawgie.context.db_impl = 'shelve'
    dawgie.context.db_name = 'verif'
    dawgie.context.db_path = os.path.join(workdir, 'db')
    dawgie.context.data_dbs = os.path.join(workdir, 'dbs')
    dawgie.context.data_log = os.path.join(workdir, 'logs')
    dawgie.context.data_stg = os.path.join(workdir, 'stg')
    dawgie.context.fe_path = os.path.join(workdir, 'fe')
    dawgie.context.ae_base_path = os.path.join(workdir, 'ae')
    # fe.submit.Process walks up from ae_base_path until it finds a `.git` DIRECTORY (and would walk for ever where
    # there is none, e.g. inside a git worktree whose .git is a file): the scratch engine is its own repository root
    os.makedirs(os.path.join(workdir, 'ae', '.git'), exist_ok=True)
    dawgie.context.git_rev = 'rev0'
    _state.update(reactor=reactor, workdir=workdir)
    return reactor, workdir
