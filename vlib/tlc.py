'''Thin wrapper around TLC (tla2tools 1.8): run, parse statistics, PrintT lines,
coverage and counterexamples.'''

import json
import os
import re
import shutil
import subprocess
import tempfile
import time

JAR = '/opt/veriftools/tla/tla2tools.jar:/opt/veriftools/tla/CommunityModules-deps.jar'
SPEC_DIR = os.path.join(os.path.dirname(os.path.dirname(os.path.abspath(__file__))), 'spec')


class TLCResult:
    def __init__(self):
        self.rc = None
        self.out = ''
        self.generated = 0
        self.distinct = 0
        self.depth = 0
        self.wall = 0.0
        self.ok = False  # "No error has been found"
        self.violated = None  # name of violated invariant/property
        self.prints = []  # parsed PrintT tuples/strings (raw text lines starting with << )
        self.coverage = {}  # action -> (distinct, total)
        self.error = None
        self.timed_out = False

    def summary(self):
        return {
            'rc': self.rc,
            'generated': self.generated,
            'distinct': self.distinct,
            'depth': self.depth,
            'wall_s': round(self.wall, 2),
            'ok': self.ok,
            'violated': self.violated,
            'error': self.error,
        }


def write_cfg(path, spec='Spec', constants=None, invariants=(), properties=(), extra=()):
    lines = [f'SPECIFICATION {spec}']
    if constants:
        lines.append('CONSTANTS')
        for k, v in constants.items():
            lines.append(f'  {k} {v}' if v.startswith('<-') else f'  {k} = {v}')
    for i in invariants:
        lines.append(f'INVARIANT {i}')
    for p in properties:
        lines.append(f'PROPERTY {p}')
    lines.extend(extra)
    if not any(x.startswith('CHECK_DEADLOCK') for x in extra):
        lines.append('CHECK_DEADLOCK FALSE')
    with open(path, 'wt', encoding='utf-8') as f:
        f.write('\n'.join(lines) + '\n')
    return path


def tla_set(items):
    return '{' + ', '.join(json.dumps(i) for i in items) + '}'


_RE_STATS = re.compile(r'(\d+) states generated, (\d+) distinct states found')
_RE_DEPTH = re.compile(r'depth of the complete state graph search is (\d+)')
_RE_VIOL_INV = re.compile(r'Invariant (\S+) is violated')
_RE_VIOL_PROP = re.compile(r'(?:Action property|Temporal properties|property) (\S+)? ?(?:is|were) violated')
_RE_COV = re.compile(r'^<(\w+) line \d+, col \d+ to line \d+, col \d+ of module (\w+)>: (\d+):(\d+)', re.M)


def run(
    module,
    cfg,
    workers=16,
    mode='check',
    env=None,
    timeout=3600,
    coverage=False,
    simulate=None,
    seed=None,
    depth=None,
    cwd=None,
    extra_args=(),
    heap='8g',
    deadlock=False,
    out_file=None,
):
    '''module: path (relative to spec dir) of the .tla; cfg: path of the cfg'''
    cwd = cwd or SPEC_DIR
    meta = tempfile.mkdtemp(prefix='tlcmeta', dir=os.environ.get('VERIF_WORK', '/verif/.work') if os.path.isdir(os.environ.get('VERIF_WORK', '/verif/.work')) else None)
    cmd = [
        'java',
        '-XX:+UseParallelGC',
        f'-Xmx{heap}',
        '-cp',
        JAR,
        'tlc2.TLC',
        '-workers',
        str(workers),
        '-metadir',
        meta,
        '-noGenerateSpecTE',
        '-config',
        cfg,
    ]
    if coverage:
        cmd += ['-coverage', '1']
    if simulate:
        cmd += ['-simulate', simulate]
    if seed is not None:
        cmd += ['-seed', str(seed)]
    if depth is not None:
        cmd += ['-depth', str(depth)]
    if deadlock:
        cmd += ['-deadlock']
    cmd += list(extra_args)
    cmd.append(module)
    e = dict(os.environ)
    if env:
        e.update(env)
    res = TLCResult()
    t0 = time.time()
    try:
        if out_file:
            with open(out_file, 'wt', encoding='utf-8') as of:
                p = subprocess.run(cmd, cwd=cwd, env=e, stdout=of, stderr=subprocess.STDOUT, timeout=timeout, check=False)
            with open(out_file, 'rt', encoding='utf-8', errors='replace') as of:
                res.out = of.read()
        else:
            p = subprocess.run(cmd, cwd=cwd, env=e, stdout=subprocess.PIPE, stderr=subprocess.STDOUT, timeout=timeout, check=False)
            res.out = p.stdout.decode('utf-8', 'replace')
        res.rc = p.returncode
    except subprocess.TimeoutExpired as ex:
        res.timed_out = True
        res.rc = -9
        res.out = (ex.stdout or b'').decode('utf-8', 'replace') if not out_file else open(out_file, 'rt', errors='replace').read()
        subprocess.run(['pkill', '-f', meta], check=False)
    res.wall = time.time() - t0
    shutil.rmtree(meta, True)
    parse(res)
    return res


def parse(res):
    out = res.out
    m = None
    for m in _RE_STATS.finditer(out):
        pass
    if m:
        res.generated, res.distinct = int(m.group(1)), int(m.group(2))
    m = _RE_DEPTH.search(out)
    if m:
        res.depth = int(m.group(1))
    res.ok = 'No error has been found' in out or ('Finished in' in out and 'Error:' not in out and 'is violated' not in out and res.rc == 0)
    m = _RE_VIOL_INV.search(out)
    if m:
        res.violated = m.group(1).rstrip('.')
    elif 'violated' in out:
        m = re.search(r'(?:Action property|Temporal property|Property) (\w+)', out)
        res.violated = m.group(1) if m else 'property'
    if 'Error:' in out and not res.violated:
        i = out.index('Error:')
        res.error = out[i : i + 600]
    res.prints = joined_prints(out)
    for m in _RE_COV.finditer(out):
        res.coverage[m.group(1)] = (int(m.group(3)), int(m.group(4)))
    return res


def joined_prints(out):
    '''PrintT rows; TLC wraps values longer than ~80 characters over several lines: join until << >> balance'''
    rows = []
    cur = None
    for ln in out.splitlines():
        if cur is None:
            if ln.startswith('<<'):
                cur = ln
            else:
                continue
        else:
            cur += ' ' + ln.strip()
        if _balanced(cur):
            rows.append(cur)
            cur = None
        elif len(cur) > 2000000:
            cur = None
    return rows


def _balanced(text):
    depth = 0
    i = 0
    n = len(text)
    instr = False
    while i < n:
        c = text[i]
        if instr:
            if c == '\\':
                i += 1
            elif c == '"':
                instr = False
        elif c == '"':
            instr = True
        elif text.startswith('<<', i):
            depth += 1
            i += 1
        elif text.startswith('>>', i):
            depth -= 1
            i += 1
        elif c in '{[(':
            depth += 1
        elif c in '}])':
            depth -= 1
        i += 1
    return depth == 0 and not instr


def printed(res, tag):
    '''PrintT(<<"TAG", ...>>) lines as python lists (best effort TLA->python)'''
    rows = []
    pre = '<<"' + tag + '"'
    for ln in res.prints:
        ln = re.sub(r'^<<\s*', '<<', ln)
        if ln.startswith(pre):
            rows.append(tla_value(ln))
    return rows


def tla_value(text):
    '''parse the TLA+ value syntax TLC prints for tuples of strings / ints / sets / tuples'''
    pos = 0
    n = len(text)

    def ws():
        nonlocal pos
        while pos < n and text[pos] in ' \n\t':
            pos += 1

    def val():
        nonlocal pos
        ws()
        if text.startswith('<<', pos):
            pos += 2
            items = seq('>>')
            return items
        if text[pos] == '{':
            pos += 1
            return {'set': seq('}')}
        if text[pos] == '"':
            j = pos + 1
            buf = []
            while text[j] != '"':
                if text[j] == '\\':
                    j += 1
                    c = text[j]
                    buf.append({'n': '\n', 't': '\t'}.get(c, c))
                else:
                    buf.append(text[j])
                j += 1
            pos = j + 1
            return ''.join(buf)
        m = re.compile(r'-?\d+|TRUE|FALSE|[A-Za-z_]\w*').match(text, pos)
        if not m:
            raise ValueError(text[pos : pos + 40])
        pos = m.end()
        tok = m.group(0)
        if tok == 'TRUE':
            return True
        if tok == 'FALSE':
            return False
        try:
            return int(tok)
        except ValueError:
            return tok

    def seq(close):
        nonlocal pos
        items = []
        ws()
        if text.startswith(close, pos):
            pos += len(close)
            return items
        while True:
            items.append(val())
            ws()
            if text.startswith(close, pos):
                pos += len(close)
                return items
            if text[pos] == ',':
                pos += 1
            else:
                raise ValueError(text[pos : pos + 40])

    return val()
