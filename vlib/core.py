'''Common frame of every check: work directory, sharded harness runs, batched
TLC trace validation, verdict lines, known findings, evidence file.'''

import concurrent.futures
import fnmatch
import hashlib
import json
import os
import shutil
import subprocess
import sys
import time

from . import tlc

ROOT = os.path.dirname(os.path.dirname(os.path.abspath(__file__)))
REPO_PY = os.environ.get('VERIF_REPO_PY', '/repo/Python')
PY = '/venv/bin/python'
NPROC = int(os.environ.get('VERIF_NPROC', '16'))


class Machinery(Exception):
    '''machinery failure: exit 2, never a verdict'''


def harness_env():
    e = dict(os.environ)
    e['PYTHONPATH'] = REPO_PY + ':' + ROOT
    e['PYTHONDONTWRITEBYTECODE'] = '1'
    e['PYTHONHASHSEED'] = '0'
    e.pop('DAWGIE_VERIF', None)
    return e


class Check:
    def __init__(self, pid, tier='quick', seed=0, level='model_checking'):
        self.pid = pid
        self.tier = tier
        self.seed = seed
        self.level = level
        self.t0 = time.time()
        # runs against another tree (seeded changes) or another tier must not share scratch space with the registered run
        tag = pid + ('' if tier == 'quick' else '.' + tier) + ('.alt%d' % os.getpid() if os.environ.get('VERIF_REPO_PY') else '')
        self.work = os.path.join(ROOT, '.work', tag)
        shutil.rmtree(self.work, True)
        os.makedirs(self.work, exist_ok=True)
        os.environ['VERIF_WORK'] = self.work
        self.replays = os.path.join(ROOT, 'replays', pid)
        self.states = 0
        self.transitions = 0
        self.traces = 0
        self.trace_lines = 0
        self.samples = []
        self.mc_runs = []
        self.violations = []  # dicts: clause, signature, detail, replay
        self.known_hits = []
        self.drift = 0
        self.drift_samples = []
        self.counters = {}
        self.assumptions = []
        self.extra = {}
        self.findings = load_findings()

    # ------------------------------------------------------------------ TLC
    def note(self, msg):
        print(f'[{self.pid} +{time.time() - self.t0:6.1f}s] {msg}', flush=True)

    def mc(self, name, module, cfg_kwargs, workers=NPROC, timeout=3600, expect_ok=True, **kw):
        cfg = os.path.join(self.work, f'{name}.cfg')
        tlc.write_cfg(cfg, **cfg_kwargs)
        res = tlc.run(module, cfg, workers=workers, timeout=timeout, **kw)
        self.note(f'mc {name}: {res.distinct} distinct / {res.generated} generated, depth {res.depth}, ok={res.ok}, {res.wall:.1f}s')
        rec = res.summary()
        rec['name'] = name
        rec['module'] = module
        rec['invariants'] = list(cfg_kwargs.get('invariants', ())) + list(cfg_kwargs.get('properties', ()))
        self.mc_runs.append(rec)
        self.states += res.distinct
        self.transitions += res.generated
        if res.timed_out:
            raise Machinery(f'TLC timed out on {name}')
        if res.error and not res.violated:
            raise Machinery(f'TLC error in {name}: {res.error}')
        if expect_ok and not res.ok:
            # a counterexample of the MODEL is not an alarm (DESIGN 2.3): it is a wrong
            # specification unless the real code reproduces it, which the replay decides.
            with open(os.path.join(self.work, f'{name}.out'), 'wt') as f:
                f.write(res.out)
            raise Machinery(f'model {name} violates {res.violated}; see {self.work}/{name}.out')
        return res

    # ------------------------------------------------------------- harness
    def run_harness(self, module, jobs, shards=NPROC, timeout=3600, key='jobs'):
        '''run `python -m harness.<module> in out` over shards of jobs; returns list of ndjson paths'''
        shards = max(1, min(shards, len(jobs)))
        outs = []
        procs = []
        for i in range(shards):
            part = jobs[i::shards]
            inp = os.path.join(self.work, f'{module}.{i}.in.json')
            out = os.path.join(self.work, f'{module}.{i}.ndjson')
            with open(inp, 'wt') as f:
                json.dump({key: part}, f)
            err = open(os.path.join(self.work, f'{module}.{i}.err'), 'wb')
            procs.append((subprocess.Popen([PY, '-m', f'harness.{module}', inp, out], cwd=ROOT, env=harness_env(), stdout=err, stderr=err), out, err))
            outs.append(out)
        for p, out, err in procs:
            try:
                rc = p.wait(timeout=timeout)
            except subprocess.TimeoutExpired:
                p.kill()
                raise Machinery(f'harness {module} timed out')
            err.close()
            if rc != 0:
                with open(err.name, 'rt', errors='replace') as f:
                    tail = f.read()[-3000:]
                raise Machinery(f'harness {module} failed rc={rc}:\n{tail}')
        self.note(f'harness {module}: {len(jobs)} jobs in {shards} processes')
        return outs

    # ------------------------------------------------------- trace validation
    def validate(self, module, cfg_kwargs, trace_files, tags=('CLAUSE', 'DRIFT', 'CONSUMED'), timeout=7200, heap='12g', workers=2, name=None, max_bytes=350 * 1024 * 1024):
        '''TLC validates all trace files; they are concatenated into groups of at most max_bytes (TLC's Json module
        deserialises a whole file into memory) and each group is validated by one TLC process (measured here: several
        JVMs in parallel or many workers are slower than one process with two workers).  returns dict tag -> rows'''
        name = name or module.replace('.tla', '')
        cfg = os.path.join(self.work, f'{name}.trace.cfg')
        tlc.write_cfg(cfg, **cfg_kwargs)
        rows = {t: [] for t in tags}
        groups, cur, size = [], [], 0
        for fn in trace_files:
            sz = os.path.getsize(fn)
            if sz > max_bytes:
                # split one oversized shard by lines
                part, psz, k = [], 0, 0
                with open(fn, 'rb') as f:
                    for ln in f:
                        if psz + len(ln) > max_bytes and part:
                            pfn = f'{fn}.part{k}'
                            with open(pfn, 'wb') as o:
                                o.writelines(part)
                            groups.append([pfn])
                            part, psz, k = [], 0, k + 1
                        part.append(ln)
                        psz += len(ln)
                if part:
                    pfn = f'{fn}.part{k}'
                    with open(pfn, 'wb') as o:
                        o.writelines(part)
                    groups.append([pfn])
                continue
            if cur and size + sz > max_bytes:
                groups.append(cur)
                cur, size = [], 0
            cur.append(fn)
            size += sz
        if cur:
            groups.append(cur)
        total_lines = 0
        wall = 0.0
        for gi, group in enumerate(groups):
            allf = os.path.join(self.work, f'{name}.all{gi}.ndjson')
            with open(allf, 'wb') as out:
                for fn in group:
                    with open(fn, 'rb') as f:
                        shutil.copyfileobj(f, out)
            res = tlc.run(module, cfg, workers=workers, env={'TRACE_FILE': allf}, timeout=timeout, heap=heap)
            wall += res.wall
            if res.timed_out or not res.ok:
                with open(os.path.join(self.work, f'{name}.trace.out'), 'wt') as f:
                    f.write(res.out)
                raise Machinery(f'trace validation {name} failed: {res.error or res.violated or "timeout"} (see {self.work}/{name}.trace.out)')
            cons = tlc.printed(res, 'CONSUMED')
            if not cons or cons[-1][1] != cons[-1][2]:
                raise Machinery(f'trace validation {name}: not all lines consumed: {cons}')
            total_lines += cons[-1][1]
            self.states += res.distinct
            self.transitions += res.generated
            for t in tags:
                for r in tlc.printed(res, t):
                    rows[t].append(r)
            if len(groups) > 1:
                os.remove(allf)
        self.trace_lines += total_lines
        self.note(f'validated {total_lines} trace lines with {module} in {wall:.1f}s ({len(groups)} TLC run(s)): ' + ', '.join(f'{t}={len(v)}' for t, v in rows.items()))
        return rows

    # -------------------------------------------------------------- verdicts
    def add_violation(self, clause, signature, detail, replay_obj):
        '''signature: short canonical string identifying the failing input/history class'''
        for f in self.findings.get('findings', []):
            if f['property'] == self.pid and fnmatch.fnmatch(clause, f.get('clause', '*')) and fnmatch.fnmatch(signature, f['signature']):
                self.known_hits.append({'finding': f['id'], 'clause': clause, 'signature': signature, 'what': f['what']})
                return False
        os.makedirs(self.replays, exist_ok=True)
        hid = hashlib.sha1(json.dumps([clause, signature, detail], sort_keys=True, default=str).encode()).hexdigest()[:12]
        path = os.path.join(self.replays, f'{hid}.json')
        if len(self.violations) < 25:
            with open(path, 'wt') as f:
                json.dump({'property': self.pid, 'clause': clause, 'signature': signature, 'detail': detail, 'replay': replay_obj}, f, indent=1, default=str)
        self.violations.append({'clause': clause, 'signature': signature, 'detail': detail, 'replay': path})
        return True

    def finish(self, rule, exhaustive=False, explanation=None):
        wall = time.time() - self.t0
        seen = set()
        for k in self.known_hits:
            if k['finding'] not in seen:
                seen.add(k['finding'])
                print(f'KNOWN-FINDING: property={self.pid} {k["what"]}')
        cov = {
            'states': self.states,
            'transitions': self.transitions,
            'traces_validated_against_impl': self.traces,
            'trace_lines_validated': self.trace_lines,
            'samples': self.samples[:6] or ['(none)'],
            'rule': rule,
            'exhaustive': exhaustive,
            'mc_runs': self.mc_runs,
            'drift': self.drift,
            'drift_samples': self.drift_samples[:5],
            'counters': self.counters,
            'known_findings_hit': sorted(seen),
            'evaluations': max(1, self.traces),
            'distinct_nontrivial': self.counters.get('distinct_nontrivial', 0),
        }
        if explanation:
            cov['explanation'] = explanation
        cov.update(self.extra)
        ev = {
            'property_id': self.pid,
            'tier': self.tier,
            'seed': self.seed,
            'level': self.level,
            'coverage': cov,
            'assumptions': self.assumptions,
            'wall_s': round(wall, 2),
            'violations': len(self.violations),
        }
        os.makedirs(os.path.join(ROOT, 'evidence'), exist_ok=True)
        with open(os.path.join(ROOT, 'evidence', f'{self.pid}.json'), 'wt') as f:
            json.dump(ev, f, indent=1, default=str)
        if self.violations:
            import collections
            print('violations by clause:', dict(collections.Counter(v['clause'] for v in self.violations)))
            shown = set()
            for v in self.violations:
                key = (v['clause'], v['signature'])
                if key in shown:
                    continue
                shown.add(key)
                if len(shown) > 10:
                    break
                print(f'VIOLATION property={self.pid} replay={v["replay"]}')
                print(f'  clause {v["clause"]}: {v["signature"]}: {json.dumps(v["detail"], default=str)[:400]}')
            print(f'{self.pid}: {len(self.violations)} violating steps ({len(shown)} distinct signatures shown), wall {wall:.1f}s')
            return 1
        print(f'{self.pid}: held on everything explored: states={self.states} transitions={self.transitions} traces={self.traces} lines={self.trace_lines} drift={self.drift} wall={wall:.1f}s')
        return 0


def load_findings():
    fn = os.path.join(ROOT, 'known_findings.json')
    if os.path.isfile(fn):
        with open(fn, 'rt') as f:
            return json.load(f)
    return {'findings': [], 'fixed': []}


def main(run):
    '''run(check, args) -> exit code; wraps machinery failures as exit 2'''
    import argparse

    ap = argparse.ArgumentParser()
    ap.add_argument('pid')
    ap.add_argument('--tier', default=os.environ.get('VERIF_TIER', 'quick'))
    ap.add_argument('--replay', default=None)
    args = ap.parse_args()
    seed = int(os.environ.get('VERIF_SEED', '0') or 0)
    try:
        rc = run(args.pid, args.tier, seed, args.replay)
    except Machinery as ex:
        print(f'MACHINERY-FAILURE {args.pid}: {ex}', file=sys.stderr)
        print(f'MACHINERY-FAILURE {args.pid}: {ex}')
        sys.exit(2)
    finally:
        # scratch space of a run against another tree (seeded change) is not kept
        w = os.environ.get('VERIF_WORK', '')
        if os.environ.get('VERIF_REPO_PY') and '.alt' in os.path.basename(w) and not os.environ.get('VERIF_KEEP'):
            shutil.rmtree(w, True)
    sys.exit(rc)
