'''Generated algorithm engines.

A descriptor (plain JSON, normally chosen by TLC) is turned into the *source
text* of a real DAWGIE algorithm engine: one python package per task with the
factory functions DAWGIE scans for (task / analysis / regress / events) and a
bot module with Algorithm / Analyzer / Regression / StateVector / Value
classes.  The text can be written to disk (scan, compliance CLI) or executed
into in-memory modules (scheduler / dag replays).

descriptor = {
  "base": "vae",
  "pkgs": [ {"name": "t0",
             "algs": [ {"name": "a", "kind": "task"|"analysis"|"regress",
                        "ver": [1,0,0],
                        "svs": [ {"name": "s", "ver": [1,0,0],
                                  "vals": [ {"name": "v", "ver": [1,0,0]} ]} ],
                        "refs": [ {"pkg","alg","gran":"alg"|"sv"|"val","sv","val"} ],
                        "feedback": [ {"pkg","alg","gran":"sv"|"val","sv","val"} ],
                        "events": [ {"boot": true} | {"dow": 0, "time": [h,m,s]} |
                                    {"dom": 3, "time": ..} | {"day": [y,m,d], "time": ..} ]
                       } ] } ] }

run() of every generated algorithm is a pure function of its loaded inputs:
value content = (alg, value, tuple of input contents); root algorithms read
their content from vlib.engine.SOURCE[(target, alg)] (a revision counter).
'''

import os
import sys
import types

SOURCE = {}  # (target, 'pkg.alg') -> revision; read by root algorithms' run()
FAIL = {}  # (target, 'pkg.alg') -> 'fail' | 'invalid'; consulted by run()


def _cls(prefix, *parts):
    return prefix + '_' + '_'.join(parts)


def _kind_of(desc, pkg, alg):
    for p in desc['pkgs']:
        if p['name'] == pkg:
            for a in p['algs']:
                if a['name'] == alg:
                    return a['kind']
    raise KeyError((pkg, alg))


def _ref_expr(desc, base, ref):
    kind = _kind_of(desc, ref['pkg'], ref['alg'])
    fac = f'{base}.{ref["pkg"]}.{kind}'
    impl = f'{base}.{ref["pkg"]}.bot.{_cls("Alg", ref["alg"])}()'
    imp = f'import {base}.{ref["pkg"]}.bot'
    gran = ref.get('gran', 'alg')
    if gran == 'alg':
        return imp, f'dawgie.ALG_REF(factory={fac}, impl={impl})'
    if gran == 'sv':
        return imp, (
            f'(lambda i: dawgie.SV_REF(factory={fac}, impl=i, '
            f'item=i.sv_as_dict()[{ref["sv"]!r}]))({impl})'
        )
    return imp, (
        f'(lambda i: dawgie.V_REF(factory={fac}, impl=i, '
        f'item=i.sv_as_dict()[{ref["sv"]!r}], feat={ref["val"]!r}))({impl})'
    )


_BASES = {
    'task': ('dawgie.Algorithm', 'previous', 'def run(self, ds, ps):'),
    'analysis': ('dawgie.Analyzer', 'traits', 'def run(self, aspects):'),
    'regress': ('dawgie.Regression', 'variables', 'def run(self, ps, timeline):'),
}


def bot_source(desc, pkg):
    base = desc.get('base', 'vae')
    out = [
        'import dawgie',
        f'import {base}',
        f'import {base}.{pkg["name"]}',
        'import vlib.engine',
        '',
        'class Val(dawgie.Value):',
        '    def __init__(self, content=None, ver=(1, 0, 0)):',
        '        dawgie.Value.__init__(self)',
        '        self.content = content',
        '        self._version_ = dawgie.VERSION(*ver)',
        '    def features(self):',
        '        return []',
        '',
    ]
    for a in pkg['algs']:
        for sv in a['svs']:
            cn = _cls('SV', a['name'], sv['name'])
            out += [
                f'class {cn}(dawgie.StateVector):',
                '    def __init__(self):',
                '        dawgie.StateVector.__init__(self)',
                f'        self._version_ = dawgie.VERSION(*{tuple(sv.get("ver", (1, 0, 0)))!r})',
            ]
            for v in sv['vals']:
                vn = _cls('Val', a['name'], sv['name'], v['name'])
                out.append(f'        self[{v["name"]!r}] = {vn}()')
            out += [
                '    def name(self):',
                f'        return {sv["name"]!r}',
                '    def view(self, caller, visitor):',
                '        return',
                '',
            ]
            for v in sv['vals']:
                vn = _cls('Val', a['name'], sv['name'], v['name'])
                out += [
                    f'class {vn}(Val):',
                    '    def __init__(self, content=None):',
                    f'        Val.__init__(self, content, {tuple(v.get("ver", (1, 0, 0)))!r})',
                    '',
                ]
        bcls, dep, runsig = _BASES[a['kind']]
        cn = _cls('Alg', a['name'])
        out += [
            f'class {cn}({bcls}):',
            '    def __init__(self):',
            f'        {bcls}.__init__(self)',
            f'        self._version_ = dawgie.VERSION(*{tuple(a.get("ver", (1, 0, 0)))!r})',
            '        self._svs = ['
            + ', '.join(_cls('SV', a['name'], sv['name']) + '()' for sv in a['svs'])
            + ']',
            '    def name(self):',
            f'        return {a["name"]!r}',
            '    def state_vectors(self):',
            '        return self._svs',
        ]
        for meth, refs in ((dep, a.get('refs', [])), ('feedback', a.get('feedback', []))):
            out.append(f'    def {meth}(self):')
            exprs = []
            if desc.get('cache_refs'):
                # keep the referenced instances (as the repository's own test engine does), so that run()
                # sees what Dataset.load() put into them
                out.append(f"        if getattr(self, '_cache_{meth}', None) is not None:")
                out.append(f'            return self._cache_{meth}')
            for r in refs:
                imp, ex = _ref_expr(desc, base, r)
                out.append('        ' + imp)
                exprs.append(ex)
            if desc.get('cache_refs'):
                out.append(f'        self._cache_{meth} = [' + ', '.join(exprs) + ']')
                out.append(f'        return self._cache_{meth}')
            else:
                out.append('        return [' + ', '.join(exprs) + ']')
        if a.get('where'):
            # an explicit placement wish (dawgie.Distribution.cloud / cluster); absent = auto (the default where())
            out += ['    def where(self):', f'        return dawgie.Distribution.{a["where"]}']
        out += [
            f'    {runsig}',
            f'        return vlib.engine.run_hook(self, {pkg["name"]!r}, locals())',
            '',
        ]
    kinds = sorted({a['kind'] for a in pkg['algs']})
    for k, bot in (('task', 'dawgie.Task'), ('analysis', 'dawgie.Analysis'), ('regress', 'dawgie.Regress')):
        if k in kinds:
            out += [
                f'class Bot_{k}({bot}):',
                '    def list(self):',
                '        return ['
                + ', '.join(_cls('Alg', a['name']) + '()' for a in pkg['algs'] if a['kind'] == k)
                + ']',
                '',
            ]
    return '\n'.join(out) + '\n'


def _moment_expr(ev):
    args = []
    if ev.get('boot'):
        args.append('boot=True')
    if 'dow' in ev:
        args.append(f'dow={ev["dow"]}')
    if 'dom' in ev:
        args.append(f'dom={ev["dom"]}')
    if 'day' in ev:
        args.append('day=datetime.date(%d, %d, %d)' % tuple(ev['day']))
    if 'time' in ev:
        args.append('time=datetime.time(%d, %d, %d)' % tuple(ev['time']))
    return ', '.join(args)


def init_source(desc, pkg):
    base = desc.get('base', 'vae')
    name = pkg['name']
    kinds = sorted({a['kind'] for a in pkg['algs']})
    out = ['import datetime', 'import dawgie', '', 'ignore = False', '']
    def classes(k):
        return '[' + ', '.join(f'{base}.{name}.bot.' + _cls('Alg', a['name']) for a in pkg['algs'] if a['kind'] == k) + ']'

    newstyle = desc.get('style') == 'base'  # bots are dawgie.base.Task/Analysis/Regress objects (no deprecated subclassing)
    if 'task' in kinds:
        out += [
            "def task(prefix: str, ps_hint: int = 0, runid: int = -1, target: str = '__none__'):",
            f'    import {base}.{name}.bot',
            (f'    import dawgie.base\n    return dawgie.base.Task(prefix, ps_hint, runid, target, {classes("task")})' if newstyle else f'    return {base}.{name}.bot.Bot_task(prefix, ps_hint, runid, target)'),
            '',
        ]
    if 'analysis' in kinds:
        out += [
            'def analysis(prefix: str, ps_hint: int = 0, runid: int = -1):',
            f'    import {base}.{name}.bot',
            (f'    import dawgie.base\n    return dawgie.base.Analysis(prefix, ps_hint, runid, {classes("analysis")})' if newstyle else f'    return {base}.{name}.bot.Bot_analysis(prefix, ps_hint, runid)'),
            '',
        ]
    if 'regress' in kinds:
        out += [
            "def regress(prefix: str, ps_hint: int = 0, target: str = '__none__'):",
            f'    import {base}.{name}.bot',
            (f'    import dawgie.base\n    return dawgie.base.Regress(prefix, ps_hint, target, {classes("regress")})' if newstyle else f'    return {base}.{name}.bot.Bot_regress(prefix, ps_hint, target)'),
            '',
        ]
    evs = [(a, e) for a in pkg['algs'] for e in a.get('events', [])]
    if evs or pkg.get('events_factory'):
        out += ['def events():', f'    import {base}.{name}.bot', '    return [']
        for a, e in evs:
            out.append(
                f'        dawgie.schedule({a["kind"]}, {base}.{name}.bot.{_cls("Alg", a["name"])}(), {_moment_expr(e)}),'
            )
        out += ['    ]', '']
    return '\n'.join(out) + '\n'


def sources(desc):
    base = desc.get('base', 'vae')
    res = {f'{base}/__init__.py': ''}
    for p in desc['pkgs']:
        res[f'{base}/{p["name"]}/__init__.py'] = init_source(desc, p)
        res[f'{base}/{p["name"]}/bot.py'] = bot_source(desc, p)
    return res


def write(desc, root):
    '''write the engine below root; returns the ae_base_path'''
    for rel, text in sources(desc).items():
        fn = os.path.join(root, rel)
        os.makedirs(os.path.dirname(fn), exist_ok=True)
        with open(fn, 'wt', encoding='utf-8') as f:
            f.write(text)
    return os.path.join(root, desc.get('base', 'vae'))


def unload(base='vae'):
    for k in [k for k in sys.modules if k == base or k.startswith(base + '.')]:
        del sys.modules[k]


def load(desc):
    '''execute the engine into in-memory modules; returns the factories dict
    in the shape dawgie.pl.scan.for_factories returns'''
    import dawgie
    import dawgie.context

    base = desc.get('base', 'vae')
    unload(base)
    dawgie.context.ae_base_package = base
    srcs = sources(desc)
    top = types.ModuleType(base)
    top.__path__ = []
    sys.modules[base] = top
    mods = []
    for p in desc['pkgs']:
        m = types.ModuleType(f'{base}.{p["name"]}')
        m.__path__ = []
        m.__package__ = m.__name__
        sys.modules[m.__name__] = m
        setattr(top, p['name'], m)
        b = types.ModuleType(f'{base}.{p["name"]}.bot')
        b.__package__ = m.__name__
        sys.modules[b.__name__] = b
        m.bot = b
        mods.append((p, m, b))
    for p, m, b in mods:
        exec(compile(srcs[f'{base}/{p["name"]}/__init__.py'], m.__name__, 'exec'), m.__dict__)
    for p, m, b in mods:
        exec(compile(srcs[f'{base}/{p["name"]}/bot.py'], b.__name__, 'exec'), b.__dict__)
    facs = {e: [] for e in dawgie.Factories}
    for p, m, b in mods:
        for e in dawgie.Factories:
            if hasattr(m, e.name):
                facs[e].append(getattr(m, e.name))
    return facs


# --------------------------------------------------------------------------
# data plane: what run() does.  A harness may replace HOOK.

HOOK = None


def run_hook(alg, pkg, frame):
    if HOOK is not None:
        return HOOK(alg, pkg, frame)
    return None


# --------------------------------------------------------------------------
# helpers over descriptors


def alg_names(desc):
    return [f'{p["name"]}.{a["name"]}' for p in desc['pkgs'] for a in p['algs']]


def alg_of(desc, full):
    pkg, alg = full.split('.')
    for p in desc['pkgs']:
        if p['name'] == pkg:
            for a in p['algs']:
                if a['name'] == alg:
                    return a
    raise KeyError(full)


def simple(algs):
    '''shorthand descriptor: algs = [(name, kind, [input alg names])] ->
    one package per algorithm named t<i>, one state vector "s", one value "v",
    algorithm-level references'''
    pk = {}
    pkgs = []
    for i, (n, k, ins) in enumerate(algs):
        pk[n] = f't{i}'
    for i, (n, k, ins) in enumerate(algs):
        pkgs.append(
            {
                'name': pk[n],
                'algs': [
                    {
                        'name': n,
                        'kind': k,
                        'ver': [1, 0, 0],
                        'svs': [{'name': 's', 'ver': [1, 0, 0], 'vals': [{'name': 'v', 'ver': [1, 0, 0]}]}],
                        'refs': [{'pkg': pk[x], 'alg': x, 'gran': 'alg'} for x in ins],
                        'feedback': [],
                    }
                ],
            }
        )
    return {'base': 'vae', 'pkgs': pkgs}
