----------------------------- MODULE Moment_Gen -----------------------------
(* Export of the bounded input space of C20 (a) for the harness: the input
   space is the product Specs x (days x NowTimes); TLC prints the factors
   (with the calendar date of every day index, so that Python never computes
   a calendar of its own), the harness executes the product (sampled in the
   quick tier) and Moment_Trace validates every record. *)
EXTENDS Moment
VARIABLE x
DateOf(s) == IF s.k = "day" THEN Cal[s.n] ELSE [y |-> 0, m |-> 0, d |-> 0]
GenInit ==
    /\ x = 0
    /\ PrintT(<<"EPOCH", Cal[0].y, Cal[0].m, Cal[0].d>>)
    /\ \A s \in Specs : PrintT(<<"SPEC", s.k, s.n, s.t, DateOf(s).y, DateOf(s).m, DateOf(s).d>>)
    /\ \A i \in 0 .. (NowDays - 1) : PrintT(<<"DAY", i, Cal[i].y, Cal[i].m, Cal[i].d, WD(i), MonthEnd(i)>>)
    /\ \A t \in NowTimes : PrintT(<<"TOD", t>>)
    /\ \A sh \in Shapes : PrintT(<<"SHAPE", sh.boot, sh.day, sh.dom, sh.dow, sh.time, WellFormed(sh)>>)
    /\ PrintT(<<"SHAPEVALUES", 2, 15, Cal[DayIndex(2024, 2, 29)].y, Cal[DayIndex(2024, 2, 29)].m, Cal[DayIndex(2024, 2, 29)].d, ShapeNoon>>)
GenSpec == GenInit /\ [][UNCHANGED x]_x
=============================================================================
