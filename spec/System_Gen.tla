----------------------------- MODULE System_Gen -----------------------------
EXTENDS System, Json
VARIABLE h
gvars == <<vars, h>>
GenInit == Init /\ h = <<>>
E(n) == [ev |-> n]
GenNext ==
    \/ \E x \in Alg : Run(x) /\ h' = Append(h, [ev |-> "Run", x |-> x])
    \/ \E sc \in BOOLEAN : Tick(sc) /\ h' = Append(h, [ev |-> "Tick", sc |-> sc])
    \/ WorkerArrive /\ h' = Append(h, E("WorkerArrive"))
    \/ (~(\E x \in Alg : Avail(x)) /\ park = {} /\ free = 0 /\ UNCHANGED vars /\ h' = Append(h, [ev |-> "Tick", sc |-> FALSE]))      \* a dispatch that does nothing in the model
    \/ \E x \in Alg, ok \in BOOLEAN, new \in BOOLEAN : Reply(x, ok, new) /\ h' = Append(h, [ev |-> "Reply", x |-> x, ok |-> ok, new |-> new])
    \/ \E x \in Alg : OldReply(x) /\ h' = Append(h, [ev |-> "OldReply", x |-> x])
    \/ CompleteReload /\ h' = Append(h, E("CompleteReload"))
    \/ CompleteArchive /\ h' = Append(h, E("CompleteArchive"))
    \/ CompleteLoad /\ h' = Append(h, E("CompleteLoad"))
    \/ CompleteNavel /\ h' = Append(h, E("CompleteNavel"))
    \/ CmdReset /\ h' = Append(h, E("CmdReset"))
    \/ \E p \in Prios : SubmitBegin(p) /\ h' = Append(h, [ev |-> "SubmitBegin", p |-> p])
    \/ SubmitEnd /\ h' = Append(h, E("SubmitEnd"))
    \/ \E k \in K : PollerObserve(k) /\ h' = Append(h, [ev |-> "PollerObserve", k |-> k])
    \/ \E k \in K : PollerDone(k) /\ h' = Append(h, [ev |-> "PollerDone", k |-> k])
GenSpec == GenInit /\ [][GenNext]_gvars
(* guided instance: b is executing, then its upstream a is re-run and fails -- the scheduler withdraws b's target while
   b is still out on a worker (its `doing` entry goes, the unit does not) -- and from there everything *)
PT == [ev |-> "Tick", sc |-> FALSE]
Prefix == << [ev |-> "Run", x |-> B], PT, [ev |-> "Run", x |-> A], PT, [ev |-> "Reply", x |-> A, ok |-> FALSE, new |-> FALSE] >>
GuidedNext == GenNext /\ (Len(h) < Len(Prefix) => h'[Len(h')] = Prefix[Len(h) + 1])
GuidedSpec == GenInit /\ [][GuidedNext]_gvars
(* guided instance 2 (worker scarcity): new data is stored (archive due), a unit is released while no worker is there
   and waits in the farm -- and from there everything: workers arriving, scarce and plentiful passes, submissions *)
Prefix2 == << [ev |-> "Run", x |-> A], PT, [ev |-> "Reply", x |-> A, ok |-> TRUE, new |-> FALSE], [ev |-> "Run", x |-> A], [ev |-> "Tick", sc |-> TRUE] >>
Guided2Next == GenNext /\ (Len(h) < Len(Prefix2) => h'[Len(h')] = Prefix2[Len(h) + 1])
Guided2Spec == GenInit /\ [][Guided2Next]_gvars
View == vars
Emit == PrintT(<<"SCHED", ToJson([h |-> h'])>>)
EmitS10 == (RandomElement(1..10) = 1) => Emit
SimInv == PrintT(<<"SCHED", ToJson([h |-> h])>>)
=============================================================================
