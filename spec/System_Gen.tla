----------------------------- MODULE System_Gen -----------------------------
EXTENDS System, Json
VARIABLE h
gvars == <<vars, h>>
GenInit == Init /\ h = <<>>
E(n) == [ev |-> n]
GenNext ==
    \/ \E x \in Alg : Run(x) /\ h' = Append(h, [ev |-> "Run", x |-> x])
    \/ Tick /\ h' = Append(h, E("Tick"))
    \/ (~(\E x \in Alg : Avail(x)) /\ UNCHANGED vars /\ h' = Append(h, E("Tick")))      \* a dispatch that does nothing in the model
    \/ \E x \in Alg, ok \in BOOLEAN, new \in BOOLEAN : Reply(x, ok, new) /\ h' = Append(h, [ev |-> "Reply", x |-> x, ok |-> ok, new |-> new])
    \/ \E x \in Alg : OldReply(x) /\ h' = Append(h, [ev |-> "OldReply", x |-> x])
    \/ CompleteReload /\ h' = Append(h, E("CompleteReload"))
    \/ CompleteArchive /\ h' = Append(h, E("CompleteArchive"))
    \/ CompleteLoad /\ h' = Append(h, E("CompleteLoad"))
    \/ CompleteNavel /\ h' = Append(h, E("CompleteNavel"))
    \/ CmdReset /\ h' = Append(h, E("CmdReset"))
    \/ \E p \in Prios : SubmitBegin(p) /\ h' = Append(h, [ev |-> "SubmitBegin", p |-> p])
    \/ SubmitEnd /\ h' = Append(h, E("SubmitEnd"))
    \/ \E k \in K : PollerObserve(k) /\ h' = Append(h, [ev |-> "PollerObserve", k |-> k])
    \/ \E k \in K : PollerDone(k) /\ h' = Append(h, [ev |-> "PollerDone", k |-> k])
GenSpec == GenInit /\ [][GenNext]_gvars
(* guided instance: b is executing, then its upstream a is re-run and fails -- the scheduler withdraws b's target while
   b is still out on a worker (its `doing` entry goes, the unit does not) -- and from there everything *)
Prefix == << [ev |-> "Run", x |-> B], E("Tick"), [ev |-> "Run", x |-> A], E("Tick"), [ev |-> "Reply", x |-> A, ok |-> FALSE, new |-> FALSE] >>
GuidedNext == GenNext /\ (Len(h) < Len(Prefix) => h'[Len(h')] = Prefix[Len(h) + 1])
GuidedSpec == GenInit /\ [][GuidedNext]_gvars
View == vars
Emit == PrintT(<<"SCHED", ToJson([h |-> h'])>>)
EmitS10 == (RandomElement(1..10) = 1) => Emit
SimInv == PrintT(<<"SCHED", ToJson([h |-> h])>>)
=============================================================================
