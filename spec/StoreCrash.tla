---------------------------- MODULE StoreCrash ----------------------------
(***************************************************************************)
(* C07 -- content-addressed store: novelty signal, single copy, no         *)
(* dangling reference, at every step and across process crashes.           *)
(*                                                                         *)
(* Implementation-shaped part (what the code does, step for step):         *)
(*   client  dawgie.db.util.encode      StageMk     tempfile.mkstemp        *)
(*                                      StageWrite  pickle.dump + close     *)
(*                                      Digest      md5sum, sha1sum -> name *)
(*   server  dawgie.db.util.move        ExistsCheck os.path.exists(dbs/name)*)
(*           (comms.Worker.do,          Move        unlink(stg) | move      *)
(*            Func.set)                 Record      tables.prime[key]=name  *)
(*                                      Answer      reply `exists`;         *)
(*           model.Interface._update                isnew = not exists      *)
(* The process may die between any two steps (Crash): everything that is   *)
(* not on disk is gone, the next process opens the files (Reopen).  The    *)
(* prime table has a memory view (prime) and a disk view (dprime): whether *)
(* an assignment has reached the disk at the time of a crash depends on    *)
(* the dbm backend (dbm.dumb appends new keys at once, rewrites the index  *)
(* of existing keys only on sync/close; gdbm caches), so Record carries a  *)
(* flag `reach` chosen by the environment.  Close is the clean shutdown    *)
(* (sync), Purge is dawgie/db/tools/purge.py run while the pipeline is     *)
(* down: it deletes every stored file no catalogue entry names, and        *)
(* refuses to run on an empty catalogue.                                   *)
(*                                                                         *)
(* RecordFirst = TRUE is the obvious wrong design (catalogue entry first,  *)
(* file second); it is here to show that the crash enumeration catches it. *)
(*                                                                         *)
(* Property level: NamedByDigest, NoDangling, SingleCopy, NoveltyExact.    *)
(***************************************************************************)
EXTENDS Naturals, FiniteSets, Sequences, TLC

CONSTANTS Contents,      \* serialized contents (strings); equal content <=> equal bytes
          Keys,          \* catalogue keys addressed by the updates (run/target/algorithm combinations)
          MaxUpd,        \* number of updates started
          MaxEv,         \* number of environment events (crashes, clean shutdowns, purges): the finiteness bound
          RecordFirst

NoName  == "-"
NoKey   == "-"
Partial == "partial"                   \* a staging file whose bytes are not (yet) a complete pickle
Digest(c) == "n_" \o c                 \* name of content c: injective, as md5_sha1 is taken to be
Names   == { Digest(c) : c \in Contents }
Pcs     == {"idle", "made", "staged", "digested", "checked", "moved", "recorded"}

VARIABLES up,        \* a process has the database open
          pc,        \* program counter of the update in progress
          uk, uc,    \* its key and content
          uname,     \* the name computed by Digest
          uex,       \* what ExistsCheck saw
          pre,       \* contents in the store when this update began (history variable for NoveltyExact)
          orph,      \* staging directory: kinds (content / Partial = incomplete bytes) of the files left behind by
                     \* crashed updates; the file of the update in progress is CurStg
          blobs,     \* store directory: name -> [c: content of the file, h: digest of the bytes in the file]
          prime,     \* catalogue as the running process sees it
          dprime,    \* catalogue as a process opening the files now would see it
          rep,       \* the flag reported by the step just taken: "new" / "old" ("none": the step was not an Answer)
          nupd, nev

vars == <<up, pc, uk, uc, uname, uex, pre, orph, blobs, prime, dprime, rep, nupd, nev>>

Rng(f)     == { f[x] : x \in DOMAIN f }
Put(f, k, v) == [x \in DOMAIN f \cup {k} |-> IF x = k THEN v ELSE f[x]]
Stored(b)    == { b[n].c : n \in DOMAIN b }
\* the staging file of the update in progress
CurStg       == IF pc = "made" THEN {Partial}
                ELSE IF pc \in {"staged", "digested"} \/ (pc = "recorded" /\ RecordFirst) \/ pc = "checked" THEN {uc}
                ELSE {}
StgKinds     == orph \cup CurStg

\* order of the server-side steps
BeforeCheck  == IF RecordFirst THEN "recorded" ELSE "digested"
BeforeRecord == IF RecordFirst THEN "digested" ELSE "moved"
BeforeAnswer == IF RecordFirst THEN "moved"    ELSE "recorded"

\* places where the real process can be killed, by the last completed step.  "midcopy" is a kill INSIDE the
\* transfer of a new content into the store: the code publishes with one rename, so for the model (and for the
\* unchanged code) it is a kill with the staged file still in place and nothing in the store; an implementation
\* that transfers bytes under the final name is killed with half of them written.
Sites(p) ==
    (CASE p = "idle"     -> {"idle"}
       [] p = "made"     -> {"mkstemp", "dump"}           \* dump: pickle.dump returned, file not yet flushed
       [] p = "staged"   -> {"chmod", "md5", "sha1"}
       [] p = "digested" -> {"encoded"}
       [] p = "checked"  -> {"exists"} \cup (IF uex THEN {} ELSE {"midcopy"})
       [] p = "moved"    -> {"moved"}
       [] p = "recorded" -> {"setitem"})
    \cup (IF p = BeforeAnswer THEN {"presend", "sent"} ELSE {})
AllSites == {"idle", "mkstemp", "dump", "chmod", "md5", "sha1", "encoded", "exists", "midcopy", "moved", "setitem", "presend", "sent"}

-----------------------------------------------------------------------------
TypeOK ==
    /\ up \in BOOLEAN /\ pc \in Pcs
    /\ uk \in Keys \cup {NoKey} /\ uc \in Contents \cup {"-"}
    /\ uname \in Names \cup {NoName} /\ uex \in BOOLEAN
    /\ pre \subseteq Contents
    /\ orph \subseteq Contents \cup {Partial}
    /\ DOMAIN blobs \subseteq Names
    /\ \A n \in DOMAIN blobs : blobs[n].c \in Contents /\ blobs[n].h = Digest(blobs[n].c)
    /\ DOMAIN prime \subseteq Keys /\ Rng(prime) \subseteq Names
    /\ DOMAIN dprime \subseteq Keys /\ Rng(dprime) \subseteq Names
    /\ rep \in {"none", "new", "old"}
    /\ (~up => prime = dprime /\ pc = "idle")

Init ==
    /\ up = FALSE /\ pc = "idle"
    /\ uk = NoKey /\ uc = "-" /\ uname = NoName /\ uex = FALSE /\ pre = {}
    /\ orph = {}
    /\ blobs = <<>> /\ prime = <<>> /\ dprime = <<>>
    /\ rep = "none"
    /\ nupd = 0 /\ nev = 0

Forget == uk' = NoKey /\ uc' = "-" /\ uname' = NoName /\ uex' = FALSE /\ pre' = {}

Reopen ==
    /\ ~up /\ up' = TRUE /\ rep' = "none"
    /\ UNCHANGED <<pc, uk, uc, uname, uex, pre, orph, blobs, prime, dprime, nupd, nev>>

StageMk(k, c) ==
    /\ up /\ pc = "idle" /\ nupd < MaxUpd
    /\ pc' = "made" /\ uk' = k /\ uc' = c /\ uname' = NoName /\ uex' = FALSE
    /\ pre' = Stored(blobs)
    /\ nupd' = nupd + 1 /\ rep' = "none"
    /\ UNCHANGED <<up, orph, blobs, prime, dprime, nev>>

StageWrite ==
    /\ up /\ pc = "made" /\ pc' = "staged"
    /\ UNCHANGED <<up, uk, uc, uname, uex, pre, orph, blobs, prime, dprime, rep, nupd, nev>>

DoDigest ==
    /\ up /\ pc = "staged" /\ pc' = "digested"
    /\ uname' = Digest(uc)                   \* digest of the bytes of the staged file
    /\ UNCHANGED <<up, uk, uc, uex, pre, orph, blobs, prime, dprime, rep, nupd, nev>>

ExistsCheck ==
    /\ up /\ pc = BeforeCheck /\ pc' = "checked"
    /\ uex' = (uname \in DOMAIN blobs)
    /\ UNCHANGED <<up, uk, uc, uname, pre, orph, blobs, prime, dprime, rep, nupd, nev>>

Move ==
    /\ up /\ pc = "checked" /\ pc' = "moved"                               \* the staged file leaves the staging directory
    /\ blobs' = IF uex THEN blobs                                           \* identical content is there: discard the staged copy
                ELSE Put(blobs, uname, [c |-> uc, h |-> Digest(uc)])      \* rename of the staged file into the store
    /\ UNCHANGED <<up, uk, uc, uname, uex, pre, orph, prime, dprime, rep, nupd, nev>>

Record(reach) ==
    /\ up /\ pc = BeforeRecord /\ pc' = "recorded"
    /\ prime' = Put(prime, uk, uname)
    /\ dprime' = IF reach THEN Put(dprime, uk, uname) ELSE dprime
    /\ UNCHANGED <<up, uk, uc, uname, uex, pre, orph, blobs, rep, nupd, nev>>

Answer ==
    /\ up /\ pc = BeforeAnswer /\ pc' = "idle"
    /\ rep' = IF uex THEN "old" ELSE "new"                                  \* isnew = not exists
    /\ Forget
    /\ UNCHANGED <<up, orph, blobs, prime, dprime, nupd, nev>>

Crash(site) ==
    /\ up /\ nev < MaxEv /\ site \in Sites(pc)
    /\ up' = FALSE /\ pc' = "idle" /\ Forget /\ rep' = "none"
    /\ orph' = StgKinds                       \* the staged file of the dead update stays behind
    /\ prime' = dprime                        \* what was only in memory is gone; files stay as they are
    /\ nev' = nev + 1
    /\ UNCHANGED <<blobs, dprime, nupd>>

MoveFails ==    \* the rename into the store raises (disk full, permission denied): the process lives on, the
                \* update is abandoned with an error, its staged file stays in the staging directory
    /\ up /\ pc = "checked" /\ ~uex /\ nev < MaxEv
    /\ pc' = "idle" /\ Forget /\ rep' = "none"
    /\ orph' = StgKinds
    /\ nev' = nev + 1
    /\ UNCHANGED <<up, blobs, prime, dprime, nupd>>

StagedLost ==   \* the staged file disappears between encode() on the client and Worker.do on the server (staging area
                \* cleaned, disk trouble): move() raises before anything is recorded, the update is abandoned with an
                \* error, the process lives on
    /\ up /\ pc = "digested" /\ ~RecordFirst /\ nev < MaxEv
    /\ pc' = "idle" /\ Forget /\ rep' = "none"
    /\ nev' = nev + 1
    /\ UNCHANGED <<up, orph, blobs, prime, dprime, nupd>>

Close ==
    /\ up /\ pc = "idle" /\ nev < MaxEv
    /\ up' = FALSE /\ dprime' = prime /\ rep' = "none"
    /\ nev' = nev + 1
    /\ UNCHANGED <<pc, uk, uc, uname, uex, pre, orph, blobs, prime, nupd>>

Purge ==
    /\ ~up /\ nev < MaxEv
    /\ blobs' = IF DOMAIN dprime = {} THEN blobs                              \* "Aborting purge because found NO keys"
                ELSE [n \in DOMAIN blobs \cap Rng(dprime) |-> blobs[n]]
    /\ nev' = nev + 1
    /\ UNCHANGED <<up, pc, uk, uc, uname, uex, pre, orph, prime, dprime, rep, nupd>>

Next ==
    \/ Reopen
    \/ \E k \in Keys, c \in Contents : StageMk(k, c)
    \/ StageWrite \/ DoDigest \/ ExistsCheck \/ Move
    \/ \E reach \in BOOLEAN : Record(reach)
    \/ Answer
    \/ \E s \in AllSites : Crash(s)
    \/ MoveFails \/ StagedLost
    \/ Close \/ Purge

Spec == Init /\ [][Next]_vars

-----------------------------------------------------------------------------
(* PROPERTY LEVEL                                                          *)

\* every stored file hashes to its own name
NamedByDigest == \A n \in DOMAIN blobs : blobs[n].h = n

\* every catalogue entry refers to an existing stored file: in the running process' view and in
\* the view of whoever opens the files now (= the state after Crash;Reopen), in every state
NoDangling ==
    /\ \A k \in DOMAIN prime  : prime[k]  \in DOMAIN blobs
    /\ \A k \in DOMAIN dprime : dprime[k] \in DOMAIN blobs

\* identical content is kept once ...
SingleCopy == \A m, n \in DOMAIN blobs : blobs[m].c = blobs[n].c => m = n
\* ... and it is kept: when an update is answered exactly one stored file holds its content
KeptStep == rep' # "none" => Cardinality({ n \in DOMAIN blobs' : blobs'[n].c = uc }) = 1
Kept == [][KeptStep]_vars

\* reported new <=> identical content was not in the store before this update began
NoveltyStep == rep' # "none" => (rep' = "new" <=> uc \notin pre)
NoveltyExact == [][NoveltyStep]_vars
=============================================================================
