SPECIFICATION GenSpec
CONSTANTS
  Pinned = FALSE
INVARIANT GenOK
INVARIANT GenTypeOK
INVARIANT GenWalkAgrees
INVARIANT GenCmdAgrees
INVARIANT Emit
CHECK_DEADLOCK FALSE
