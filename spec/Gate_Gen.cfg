SPECIFICATION GenSpec
CONSTANTS
  Pinned = FALSE
INVARIANT GenOK
INVARIANT Emit
CHECK_DEADLOCK FALSE
