-------------------------------- MODULE Frame --------------------------------
(***************************************************************************)
(* Message framing on the farm, database and log channels                  *)
(*   pl/farm.py Hand.dataReceived, db/shelve/comms.py Worker.dataReceived, *)
(*   pl/logger LogSink.dataReceived  (4-byte big-endian length + pickle)   *)
(* and the legacy (non-TLS) handshake security.TwistedWrapper.process that *)
(* replaces dataReceived until phase 5 has verified the peer and its echo. *)
(*                                                                         *)
(* The byte stream is a sequence of LABELLED bytes <<segment, offset>>;    *)
(* the network hands over the next k >= 1 bytes (action Chunk); the        *)
(* reassembly loops are transcribed and run to completion inside Chunk,    *)
(* exactly as one dataReceived call does.                                  *)
(***************************************************************************)
EXTENDS Naturals, Sequences, FiniteSets, TLC

CONSTANTS LensChoices,  \* set of sequences of payload lengths, e.g. {<<1>>, <<2, 1>>, <<1, 3, 2>>}
          Handshake,    \* BOOLEAN: legacy handshake in front of the application stream
          LA, LB,       \* abstract lengths of the two signed handshake packets
          BitChoices    \* set of validity records [p1, sigA, p4, sigB, echo : BOOLEAN]

None == 0 - 1
AllGood == [p1 |-> TRUE, sigA |-> TRUE, p4 |-> TRUE, sigB |-> TRUE, echo |-> TRUE]

VARIABLES lens,       \* the payload lengths of this behaviour
          bits,       \* the validity bits of this behaviour
          rest,       \* bytes not yet handed over: sequence of <<seg, off>>
          hbuf,       \* TwistedWrapper.__buf
          hlen,       \* TwistedWrapper.__len
          phase,      \* 1..6 handshake phase; 0 = no handshake / handshake done (dataReceived restored)
          buf,        \* protocol's own buffer
          expected,   \* protocol's expected payload length (None = reading a prefix)
          delivered,  \* sequence of message numbers passed to the application
          closed,     \* transport.loseConnection() was called
          garbage     \* a length field was decoded from bytes that are not a length field

vars == <<lens, bits, rest, hbuf, hlen, phase, buf, expected, delivered, closed, garbage>>

(* ---- the stream as segments ------------------------------------------------ *)
(* segment kinds: handshake "h1" (4, value 4), "h2" (4, value LA), "h3" (LA bytes, signed id),
   "h4" (8, values 4 and LB), "h5" (LB bytes, signed echo); application "pre" (4, value len) "pay" (len bytes) *)
HSegs(b) == << [k |-> "h1", n |-> 4, v |-> IF b.p1 THEN 4 ELSE 5, m |-> 0],
               [k |-> "h2", n |-> 4, v |-> LA, m |-> 0],
               [k |-> "h3", n |-> LA, v |-> 0, m |-> 0],
               [k |-> "h4", n |-> 8, v |-> LB, m |-> 0],
               [k |-> "h5", n |-> LB, v |-> 0, m |-> 0] >>
ASegs(ls) == [i \in 1..(2 * Len(ls)) |->
                 IF i % 2 = 1 THEN [k |-> "pre", n |-> 4, v |-> ls[(i + 1) \div 2], m |-> (i + 1) \div 2]
                 ELSE [k |-> "pay", n |-> ls[i \div 2], v |-> 0, m |-> i \div 2]]
Segs(ls, b) == IF Handshake THEN HSegs(b) \o ASegs(ls) ELSE ASegs(ls)

RECURSIVE Flat(_, _)
Flat(segs, i) == IF i > Len(segs) THEN <<>>
                 ELSE [j \in 1..segs[i].n |-> <<i, j>>] \o Flat(segs, i + 1)
Stream(ls, b) == Flat(Segs(ls, b), 1)

(* bytes bs are exactly the whole segment s (in order) *)
IsWhole(bs, s, segs) == Len(bs) = segs[s].n /\ \A j \in 1..Len(bs) : bs[j] = <<s, j>>
WholeSeg(bs, segs) == IF bs # <<>> /\ bs[1][1] \in 1..Len(segs) /\ IsWhole(bs, bs[1][1], segs) THEN bs[1][1] ELSE 0

Init ==
    /\ lens \in LensChoices
    /\ bits \in BitChoices
    /\ rest = Stream(lens, bits)
    /\ hbuf = <<>> /\ hlen = 4 /\ phase = IF Handshake THEN 1 ELSE 0
    /\ buf = <<>> /\ expected = None /\ delivered = <<>> /\ closed = FALSE /\ garbage = FALSE

(* ---- protocol reassembly loop (Hand / comms.Worker / LogSink .dataReceived) ---- *)
(* state record: [buf, exp, del, gar] ; run until `length <= len(buf)` is false *)
RECURSIVE Reassemble(_, _)
Reassemble(s, segs) ==
    LET length == IF s.exp = None THEN 4 ELSE s.exp IN
    IF length > Len(s.buf) THEN s
    ELSE LET head == SubSeq(s.buf, 1, length)
             tail == SubSeq(s.buf, length + 1, Len(s.buf))
             w == WholeSeg(head, segs)
         IN IF s.exp = None
            THEN \* struct.unpack('>I', buf[:4])
                 IF w # 0 /\ segs[w].k = "pre"
                 THEN Reassemble([s EXCEPT !.buf = tail, !.exp = segs[w].v], segs)
                 ELSE [s EXCEPT !.gar = TRUE, !.buf = <<>>]
            ELSE \* pickle.loads(buf[:length]); deliver
                 IF w # 0 /\ segs[w].k = "pay"
                 THEN Reassemble([s EXCEPT !.buf = tail, !.exp = None, !.del = Append(@, segs[w].m)], segs)
                 ELSE [s EXCEPT !.gar = TRUE, !.buf = <<>>]

(* ---- TwistedWrapper.process --------------------------------------------------- *)
(* state record: [hbuf, hlen, phase, closed, app : bytes handed to the restored dataReceived, gar] *)
RECURSIVE Shake(_, _)
Shake(s, segs) ==
    IF s.hlen > Len(s.hbuf) \/ s.phase = 0 THEN s
    ELSE LET data == SubSeq(s.hbuf, 1, s.hlen)
             tail == SubSeq(s.hbuf, s.hlen + 1, Len(s.hbuf))
             w == WholeSeg(data, segs)
             fail == [s EXCEPT !.closed = TRUE, !.hbuf = tail, !.hlen = Len(tail) + 1]     \* loseConnection; break out of the loop
         IN CASE s.phase = 1 ->   \* _p1: unpack == 4
                   IF w # 0 /\ segs[w].k = "h1"
                   THEN IF segs[w].v = 4 THEN Shake([s EXCEPT !.hbuf = tail, !.phase = 2], segs)
                        ELSE [fail EXCEPT !.phase = 2]
                   ELSE [fail EXCEPT !.gar = TRUE]
              [] s.phase = 2 ->   \* _p2: len = unpack
                   IF w # 0 /\ segs[w].k = "h2"
                   THEN Shake([s EXCEPT !.hbuf = tail, !.hlen = segs[w].v, !.phase = 3], segs)
                   ELSE [fail EXCEPT !.gar = TRUE]
              [] s.phase = 3 ->   \* _p3: verify signature; send challenge; len = 8
                   IF w # 0 /\ segs[w].k = "h3"
                   THEN IF bits.sigA THEN Shake([s EXCEPT !.hbuf = tail, !.hlen = 8, !.phase = 4], segs)
                        ELSE fail
                   ELSE [fail EXCEPT !.gar = TRUE]
              [] s.phase = 4 ->   \* _p4: lens = unpack('>II'); len = lens[1]; ok iff lens[0] == 4
                   IF w # 0 /\ segs[w].k = "h4"
                   THEN IF bits.p4 THEN Shake([s EXCEPT !.hbuf = tail, !.hlen = segs[w].v, !.phase = 5], segs)
                        ELSE [fail EXCEPT !.phase = 5]
                   ELSE [fail EXCEPT !.gar = TRUE]
              [] s.phase = 5 ->   \* _p5: verify, compare echo; on success restore dataReceived and hand over the rest
                   IF w # 0 /\ segs[w].k = "h5"
                   THEN IF bits.sigB /\ bits.echo
                        THEN [s EXCEPT !.hbuf = <<>>, !.phase = 0, !.app = tail]
                        ELSE [fail EXCEPT !.phase = 6]
                   ELSE [fail EXCEPT !.gar = TRUE]
              [] OTHER ->         \* _p6: always False
                   fail

(* ---- the network hands over the next k bytes ------------------------------------ *)
Chunk(k) ==
    /\ ~closed /\ k \in 1..Len(rest)
    /\ LET data == SubSeq(rest, 1, k)
           segs == Segs(lens, bits)
       IN
       /\ rest' = SubSeq(rest, k + 1, Len(rest))
       /\ IF phase # 0
          THEN LET h == Shake([hbuf |-> hbuf \o data, hlen |-> hlen, phase |-> phase, closed |-> FALSE, app |-> <<>>, gar |-> FALSE], segs)
                   r == IF h.phase = 0
                        THEN Reassemble([buf |-> buf \o h.app, exp |-> expected, del |-> delivered, gar |-> FALSE], segs)
                        ELSE [buf |-> buf, exp |-> expected, del |-> delivered, gar |-> FALSE]
               IN /\ hbuf' = h.hbuf /\ hlen' = h.hlen /\ phase' = h.phase /\ closed' = h.closed
                  /\ buf' = r.buf /\ expected' = r.exp /\ delivered' = r.del
                  /\ garbage' = (garbage \/ h.gar \/ r.gar)
          ELSE LET r == Reassemble([buf |-> buf \o data, exp |-> expected, del |-> delivered, gar |-> FALSE], segs)
               IN /\ buf' = r.buf /\ expected' = r.exp /\ delivered' = r.del
                  /\ garbage' = (garbage \/ r.gar)
                  /\ UNCHANGED <<hbuf, hlen, phase, closed>>
    /\ UNCHANGED <<lens, bits>>

Next == \E k \in 1..Len(rest) : Chunk(k)
Spec == Init /\ [][Next]_vars

-----------------------------------------------------------------------------
(* PROPERTY LEVEL (C14) *)
Sent == [i \in 1..Len(lens) |-> i]
IsPrefix(a, b) == Len(a) <= Len(b) /\ \A i \in 1..Len(a) : a[i] = b[i]
HandshakeOK == ~Handshake \/ bits = AllGood

C14_Prefix     == IsPrefix(delivered, Sent)                             \* never reordered, duplicated or invented
C14_Reassembly == (rest = <<>> /\ HandshakeOK) => delivered = Sent       \* for every chunking
C14_NoGarbage  == ~garbage
C14_Gate       == delivered # <<>> => (HandshakeOK /\ phase = 0)         \* nothing processed before the peer and its echo are verified
C14_FailClosed == (Handshake /\ ~HandshakeOK /\ rest = <<>>) => (closed /\ delivered = <<>>)
C14_ClosedSilent == [][ closed => delivered' = delivered ]_vars
C14_NoSpuriousClose == HandshakeOK => ~closed
(* bytes that arrive together with the final handshake packet are delivered afterwards, in order:
   once the handshake is complete everything handed over so far has been reassembled *)
Consumed == Len(Stream(lens, bits)) - Len(rest)
RECURSIVE WholeMsgsWithin(_, _, _)
WholeMsgsWithin(segs, i, n) ==     \* number of complete application messages within the first n stream bytes
    IF i > Len(segs) \/ n < segs[i].n THEN 0
    ELSE (IF segs[i].k = "pay" THEN 1 ELSE 0) + WholeMsgsWithin(segs, i + 1, n - segs[i].n)
C14_AfterFinal == (HandshakeOK /\ (phase = 0)) => Len(delivered) = WholeMsgsWithin(Segs(lens, bits), 1, Consumed)
=============================================================================
