--------------------------- MODULE MomentFire_Gen ---------------------------
(* Export of every transition of the bounded instance as the input schedule
   that reaches it (history variable h hidden from the fingerprint by VIEW). *)
EXTENDS MomentFire_MC, Json
VARIABLE h
gvars == <<fvars, h>>
GenInit == FInit /\ h = <<>>
GenNext ==
    \/ Boot /\ h' = Append(h, [ev |-> "Boot", dt |-> 0, t |-> "", n |-> ""])
    \/ Tick /\ h' = Append(h, [ev |-> "Tick", dt |-> 0, t |-> "", n |-> ""])
    \/ Dispatch /\ h' = Append(h, [ev |-> "Dispatch", dt |-> 0, t |-> "", n |-> ""])
    \/ NewTarget /\ h' = Append(h, [ev |-> "NewTarget", dt |-> 0, t |-> "", n |-> ""])
    \/ \E dt \in JumpsOf : Advance(dt) /\ h' = Append(h, [ev |-> "Advance", dt |-> dt, t |-> "", n |-> ""])
    \/ \E dt \in JumpsOf : Skip(dt) /\ h' = Append(h, [ev |-> "Skip", dt |-> dt, t |-> "", n |-> ""])
    \/ \E dt \in Lates : LateTick(dt) /\ h' = Append(h, [ev |-> "LateTick", dt |-> dt, t |-> "", n |-> ""])
    \/ Pause /\ h' = Append(h, [ev |-> "Pause", dt |-> 0, t |-> "", n |-> ""])
    \/ Unpause /\ h' = Append(h, [ev |-> "Unpause", dt |-> 0, t |-> "", n |-> ""])
    \/ \E n \in Nodes : \E x \in exec[n] : Complete(n, x) /\ h' = Append(h, [ev |-> "Complete", dt |-> 0, t |-> x, n |-> n])
GenSpec == GenInit /\ [][GenNext]_gvars
View == fvars
CfgJson == [start |-> cfg.start, late |-> cfg.late, nodes |-> cfg.nodes]
Emit == PrintT(<<"SCHED", ToJson([cfg |-> CfgJson, h |-> h'])>>)
=============================================================================
