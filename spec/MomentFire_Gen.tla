--------------------------- MODULE MomentFire_Gen ---------------------------
(* Export of every transition of the bounded instance as the input schedule
   that reaches it (history variable h hidden from the fingerprint by VIEW). *)
EXTENDS MomentFire_MC, Json
VARIABLE h
gvars == <<fvars, h>>
GenInit == FInit /\ h = <<>>
GenNext ==
    \/ Boot /\ h' = Append(h, [ev |-> "Boot", dt |-> 0, t |-> ""])
    \/ Tick /\ h' = Append(h, [ev |-> "Tick", dt |-> 0, t |-> ""])
    \/ Dispatch /\ h' = Append(h, [ev |-> "Dispatch", dt |-> 0, t |-> ""])
    \/ NewTarget /\ h' = Append(h, [ev |-> "NewTarget", dt |-> 0, t |-> ""])
    \/ \E dt \in Jumps : Advance(dt) /\ h' = Append(h, [ev |-> "Advance", dt |-> dt, t |-> ""])
    \/ \E x \in exec : Complete(x) /\ h' = Append(h, [ev |-> "Complete", dt |-> 0, t |-> x])
GenSpec == GenInit /\ [][GenNext]_gvars
View == fvars
CfgJson == [kind |-> cfg.kind, events |-> cfg.events, start |-> cfg.start]
Emit == PrintT(<<"SCHED", ToJson([cfg |-> CfgJson, h |-> h'])>>)
=============================================================================
