--------------------------- MODULE MomentFire_MC ---------------------------
(* configurations of the bounded instance: 2 kinds x 8 event sets x 5 starts *)
EXTENDS MomentFire
Noon == 43200
W(n)  == [k |-> "dow", n |-> n, t |-> Noon]
M(n)  == [k |-> "dom", n |-> n, t |-> Noon]
D(i)  == [k |-> "day", n |-> i, t |-> Noon]
B     == [k |-> "boot", n |-> 0, t |-> 0]
EventSets == { {W(2)}, {M(15)}, {M(31)}, {B}, {B, W(2)}, {W(2), W(4)}, {D(DayIndex(2024, 2, 29))}, {B, M(1)} }
Starts == { DayIndex(2024, 2, 26) * DAY,            \* Monday 00:00, two days before the weekly moment, leap February
            DayIndex(2024, 2, 28) * DAY + Noon,     \* Wednesday 12:00:00, exactly on the weekly moment
            DayIndex(2024, 2, 28) * DAY + 46800,    \* Wednesday 13:00, the moment just missed
            DayIndex(2023, 12, 30) * DAY,           \* year end, the day before a 31st
            DayIndex(2024, 1, 31) * DAY + 43080 }   \* 31 January 11:58, inside the firing window
ConfigsAll   == [kind : {"task", "analysis"}, events : EventSets, start : Starts]
ConfigsSmall == [kind : {"task", "analysis"}, events : {{W(2)}, {B, M(1)}}, start : {DayIndex(2024, 2, 26) * DAY}]
JumpsStd == {3600, DAY, 7 * DAY, 31 * DAY}
=============================================================================
