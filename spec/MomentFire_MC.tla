--------------------------- MODULE MomentFire_MC ---------------------------
(* configurations of the bounded instance:
     one node  "t0.a":            2 kinds x 8 event sets x 5 starts          =  80
     two nodes "t0.a" + "t1.a" (same short algorithm name, different package)
            or "t0.a" + "t1.b":   2 tags x 3 kind pairs x 7 event-set pairs x 2 starts = 84 *)
EXTENDS MomentFire
Noon == 43200
W(n)  == [k |-> "dow", n |-> n, t |-> Noon]
M(n)  == [k |-> "dom", n |-> n, t |-> Noon]
D(i)  == [k |-> "day", n |-> i, t |-> Noon]
B     == [k |-> "boot", n |-> 0, t |-> 0]
EventSets == { {W(2)}, {M(15)}, {M(31)}, {B}, {B, W(2)}, {W(2), W(4)}, {D(DayIndex(2024, 2, 29))}, {B, M(1)} }
Starts == { DayIndex(2024, 2, 26) * DAY,            \* Monday 00:00, two days before the weekly moment, leap February
            DayIndex(2024, 2, 28) * DAY + Noon,     \* Wednesday 12:00:00, exactly on the weekly moment
            DayIndex(2024, 2, 28) * DAY + 46800,    \* Wednesday 13:00, the moment just missed
            DayIndex(2023, 12, 30) * DAY,           \* year end, the day before a 31st
            DayIndex(2024, 1, 31) * DAY + 43080 }   \* 31 January 11:58, inside the firing window
Kinds == {"task", "analysis"}
N(k, es) == [kind |-> k, events |-> es]
Configs1 == { [start |-> s, late |-> FALSE, nodes |-> ("t0.a" :> N(k, es))] : s \in Starts, k \in Kinds, es \in EventSets }

Late(n) == [k |-> "dow", n |-> n, t |-> 86370]     \* 23:59:30: a second defer pass on the day of W(n)'s moment
EventPairs == { <<{B}, {B}>>, <<{B}, {B, W(2)}>>, <<{B, W(2)}, {B}>>, <<{W(2)}, {W(4)}>>, <<{B}, {M(15)}>>, <<{B, M(1)}, {B}>>,
                <<{W(2)}, {Late(2)}>> }
KindPairs  == { <<"task", "task">>, <<"task", "analysis">>, <<"analysis", "task">> }
Starts2    == { DayIndex(2024, 2, 26) * DAY, DayIndex(2024, 2, 28) * DAY + Noon }
Configs2 == { [start |-> s, late |-> FALSE, nodes |-> ("t0.a" :> N(kp[1], ep[1]) @@ tag :> N(kp[2], ep[2]))] :
                 s \in Starts2, tag \in {"t1.a", "t1.b"}, kp \in KindPairs, ep \in EventPairs }

ConfigsSmall == { [start |-> DayIndex(2024, 2, 26) * DAY, late |-> FALSE, nodes |-> ("t0.a" :> N(k, es))] : k \in Kinds, es \in {{W(2)}, {B, M(1)}} }
JumpsStd == {3600, DAY, 7 * DAY, 31 * DAY}
LatesStd == {600}                      \* a wake-up that runs 10 minutes late: beyond the firing window
(* guided instance "a moment passes while defer() cannot act": the pipeline starts on Wednesday 11:52, 480 s before
   the weekly moment (outside the firing window), or on the 15th / the dated day at the same time; the operator may
   hold the pipeline and the clock may move 15 minutes (7 minutes past the moment), wake-ups may be 10 minutes late *)
LateStart(i) == i * DAY + Noon - 480
ConfigsLate == { [start |-> LateStart(DayIndex(2024, 2, 28)), late |-> TRUE, nodes |-> ("t0.a" :> N("task", {W(2)}))],
                 [start |-> LateStart(DayIndex(2024, 2, 28)), late |-> TRUE, nodes |-> ("t0.a" :> N("analysis", {B, W(2)}))] }
          \cup { [start |-> LateStart(DayIndex(2024, 2, 15)), late |-> TRUE, nodes |-> ("t0.a" :> N("task", {M(15)}))],
                 [start |-> LateStart(DayIndex(2024, 2, 29)), late |-> TRUE, nodes |-> ("t0.a" :> N("analysis", {D(DayIndex(2024, 2, 29))}))] }
JumpsLate == {900}
ConfigsAll   == Configs1 \cup Configs2 \cup ConfigsLate
ConfigsStd   == Configs1 \cup Configs2
(* NOT a property: expected to be violated -- a firing more than Window after the moment it is for
   (the non-vacuity witness for C20_CatchUp) *)
NoLateFiring == \A n \in Nodes : \A m \in AllOcc(n) : ~(m + Window < lastFire[n] /\ lastFire[n] < EndOfDay(m) /\ cfg.start < m)
(* NOT a property: expected to be violated by the "rearm" variant (a timed event fires again in a later
   period) -- the non-vacuity witness for C20_Recurs / C20_Once *)
NoSecondFiring == \A n \in Nodes : lastFire[n] < cfg.start + 6 * DAY
=============================================================================
