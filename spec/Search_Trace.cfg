SPECIFICATION TraceSpec
CONSTANTS
  RangeBug = FALSE
  SliceBug = FALSE
POSTCONDITION AllConsumed
CHECK_DEADLOCK FALSE
