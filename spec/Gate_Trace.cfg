\* TRACE_FILE=<ndjson> in the environment
SPECIFICATION TraceSpec
CONSTANTS
  Pinned = FALSE
POSTCONDITION AllConsumed
CHECK_DEADLOCK FALSE
