------------------------------- MODULE DbLock -------------------------------
(***************************************************************************)
(* The shelve database lock: db/shelve/comms.py (Worker.do acquire/release,*)
(* _do_acquire, _do_release, connectionLost) and context.db_lock.          *)
(* One action per reactor callback: a request arriving (the first poll of  *)
(* the looping call runs inside it), one later tick of ONE connection's    *)
(* looping call, a release request, a connection loss.  Clients may do     *)
(* anything in any order, and disconnect at every step.                    *)
(***************************************************************************)
EXTENDS Naturals, FiniteSets, TLC

CONSTANTS C          \* clients, e.g. {1, 2, 3}

VARIABLES lock,      \* context.db_lock
          has,       \* [C -> BOOLEAN]   Worker.__has_lock
          ph,        \* [C -> "new" | "asked" | "closed"]   connection phase (closed: connection lost or closed by server)
          stopped,   \* [C -> BOOLEAN]   Worker.__looping_call_stopped
          told       \* history of THIS step: set of [c, msg], msg in {"granted", "busy", "released", "notheld"}

vars == <<lock, has, ph, stopped, told>>

Init == /\ lock = FALSE /\ has = [c \in C |-> FALSE] /\ ph = [c \in C |-> "new"]
        /\ stopped = [c \in C |-> FALSE] /\ told = {}

(* Worker._do_acquire for connection c (the caller guarantees the loop is running) *)
DoAcquire(c) ==
    IF stopped[c] \/ ph[c] = "closed"
    THEN /\ told' = {} /\ UNCHANGED <<lock, has, stopped>>
    ELSE IF ~lock
         THEN /\ lock' = TRUE /\ has' = [has EXCEPT ![c] = TRUE] /\ stopped' = [stopped EXCEPT ![c] = TRUE]
              /\ told' = {[c |-> c, msg |-> "granted"]}
         ELSE /\ told' = {[c |-> c, msg |-> "busy"]} /\ UNCHANGED <<lock, has, stopped>>

Request(c) ==       \* COMMAND(acquire): LoopingCall.start(3) runs the first poll at once
    /\ ph[c] = "new"
    /\ ph' = [ph EXCEPT ![c] = "asked"]
    /\ IF ~lock
       THEN /\ lock' = TRUE /\ has' = [has EXCEPT ![c] = TRUE] /\ stopped' = [stopped EXCEPT ![c] = TRUE]
            /\ told' = {[c |-> c, msg |-> "granted"]}
       ELSE /\ told' = {[c |-> c, msg |-> "busy"]} /\ UNCHANGED <<lock, has, stopped>>

Poll(c) ==          \* a later tick of c's looping call (it keeps ticking for a while after being flagged stopped)
    /\ ph[c] # "new"
    /\ DoAcquire(c)
    /\ UNCHANGED ph

Release(c) ==       \* COMMAND(release) on a live connection: answer, then the server closes the connection
    /\ ph[c] # "closed"
    /\ IF has[c]
       THEN /\ lock' = FALSE /\ has' = [has EXCEPT ![c] = FALSE] /\ told' = {[c |-> c, msg |-> "released"]}
       ELSE /\ told' = {[c |-> c, msg |-> "notheld"]} /\ UNCHANGED <<lock, has>>
    /\ ph' = [ph EXCEPT ![c] = "closed"]
    /\ stopped' = [stopped EXCEPT ![c] = (ph[c] = "asked") \/ stopped[c]]

Disconnect(c) ==    \* connectionLost at any point
    /\ ph[c] # "closed"
    /\ ph' = [ph EXCEPT ![c] = "closed"]
    /\ IF has[c] THEN lock' = FALSE /\ has' = [has EXCEPT ![c] = FALSE] ELSE UNCHANGED <<lock, has>>
    /\ stopped' = [stopped EXCEPT ![c] = (ph[c] = "asked") \/ stopped[c]]
    /\ told' = {}

Next == \E c \in C : Request(c) \/ Poll(c) \/ Release(c) \/ Disconnect(c)
Spec == Init /\ [][Next]_vars

Waiting(c) == ph[c] = "asked" /\ ~has[c] /\ ~stopped[c]
(* fairness for NoStarve: every waiter keeps polling; holders eventually release or die *)
FairSpec == Spec /\ \A c \in C : WF_vars(Poll(c) /\ Waiting(c)) /\ WF_vars((Release(c) \/ Disconnect(c)) /\ has[c])

-----------------------------------------------------------------------------
(* PROPERTY LEVEL (C13) *)
Holders == { c \in C : has[c] }
C13_Mutex     == Cardinality(Holders) <= 1 /\ (lock <=> Holders # {})
ToldTruth_Step == \A m \in told' : m.msg = "granted" => has'[m.c]
NoFalseBusy_Step == \A m \in told' : m.msg = "busy" => lock        \* told "locked" only when it was
CrashFree_Step ==
    \A c \in C : (ph[c] # "closed" /\ ph'[c] = "closed") =>
        /\ ~has'[c]
        /\ (has[c] => ~lock')
GoneNeverGranted_Step == \A m \in told' : m.msg = "granted" => ph'[m.c] # "closed"
GrantNext_Step ==       \* whenever the lock is free a waiting client is granted it at its next poll
    \A c \in C : (Waiting(c) /\ ~lock /\ told' # {} /\ \E m \in told' : m.c = c /\ m.msg \in {"granted", "busy"}) =>
        (has'[c] /\ \E m \in told' : m.c = c /\ m.msg = "granted")
OnlyHolderFrees_Step == (lock /\ ~lock') => \E c \in C : has[c] /\ ~has'[c]

C13_ToldTruth        == [][ToldTruth_Step]_vars
C13_NoFalseBusy      == [][NoFalseBusy_Step]_vars
C13_CrashFree        == [][CrashFree_Step]_vars
C13_GoneNeverGranted == [][GoneNeverGranted_Step]_vars
C13_GrantNext        == [][GrantNext_Step]_vars
C13_OnlyHolderFrees  == [][OnlyHolderFrees_Step]_vars
(* no waiter starves once holders release or die -- under FairSpec some waiter always gets through *)
C13_NoStarve == \A c \in C : Waiting(c) ~> (has[c] \/ ph[c] = "closed")
C13_LockFreed == \A c \in C : has[c] ~> ~has[c]
=============================================================================
