------------------------------- MODULE DbLock -------------------------------
(***************************************************************************)
(* The shelve database lock: db/shelve/comms.py (Worker.do acquire/release,*)
(* _do_acquire, _do_release, connectionLost) and context.db_lock.          *)
(* One action per reactor callback: a request arriving (the first poll of  *)
(* the looping call runs inside it), one later tick of ONE connection's    *)
(* looping call, a release request, a connection loss.  Clients may do     *)
(* anything in any order, and disconnect at every step.                    *)
(***************************************************************************)
EXTENDS Naturals, FiniteSets, TLC

CONSTANTS C          \* clients, e.g. {1, 2, 3}

VARIABLES lock,      \* context.db_lock
          has,       \* [C -> BOOLEAN]   Worker.__has_lock
          req,       \* [C -> BOOLEAN]   the client asked for the lock on this connection (its looping call was started)
          ph,        \* [C -> "open" | "closing" | "closed"]   connection phase
                     \*    closing: the server answered a release and called loseConnection(); connectionLost
                     \*    reaches the protocol in a LATER reactor iteration -- other clients' polls run in between
          stopped,   \* [C -> BOOLEAN]   Worker.__looping_call_stopped
          told       \* history of THIS step: set of [c, msg], msg in {"granted", "busy", "released", "notheld"}

vars == <<lock, has, req, ph, stopped, told>>

Init == /\ lock = FALSE /\ has = [c \in C |-> FALSE] /\ req = [c \in C |-> FALSE] /\ ph = [c \in C |-> "open"]
        /\ stopped = [c \in C |-> FALSE] /\ told = {}

(* Worker._do_acquire for connection c; what it writes to a connection that is already closing reaches nobody *)
Tell(c, m) == IF ph[c] = "open" THEN {[c |-> c, msg |-> m]} ELSE {}
DoAcquire(c) ==
    IF stopped[c] \/ ph[c] = "closed"
    THEN /\ told' = {} /\ UNCHANGED <<lock, has, stopped>>
    ELSE IF ~lock
         THEN /\ lock' = TRUE /\ has' = [has EXCEPT ![c] = TRUE] /\ stopped' = [stopped EXCEPT ![c] = TRUE]
              /\ told' = Tell(c, "granted")
         ELSE /\ told' = Tell(c, "busy") /\ UNCHANGED <<lock, has, stopped>>

Request(c) ==       \* COMMAND(acquire): LoopingCall.start(3) runs the first poll at once
    /\ ph[c] = "open" /\ ~req[c]
    /\ req' = [req EXCEPT ![c] = TRUE]
    /\ DoAcquire(c)
    /\ UNCHANGED ph

Poll(c) ==          \* a later tick of c's looping call (it ticks until connectionLost, and a while after being flagged stopped)
    /\ req[c]
    /\ DoAcquire(c)
    /\ UNCHANGED <<ph, req>>

Release(c) ==       \* COMMAND(release) on a live connection: answer, then the server closes the connection
    /\ ph[c] = "open"
    /\ IF has[c]
       THEN /\ lock' = FALSE /\ has' = [has EXCEPT ![c] = FALSE] /\ told' = {[c |-> c, msg |-> "released"]}
       ELSE /\ told' = {[c |-> c, msg |-> "notheld"]} /\ UNCHANGED <<lock, has>>
    /\ ph' = [ph EXCEPT ![c] = "closing"]
    /\ UNCHANGED <<stopped, req>>

ReleaseClose(c) ==  \* Release and the connectionLost that follows, seen as one step (the blocking client closes its socket at once)
    /\ ph[c] = "open"
    /\ IF has[c]
       THEN /\ lock' = FALSE /\ has' = [has EXCEPT ![c] = FALSE] /\ told' = {[c |-> c, msg |-> "released"]}
       ELSE /\ told' = {[c |-> c, msg |-> "notheld"]} /\ UNCHANGED <<lock, has>>
    /\ ph' = [ph EXCEPT ![c] = "closed"]
    /\ stopped' = [stopped EXCEPT ![c] = req[c] \/ stopped[c]]
    /\ UNCHANGED req

Disconnect(c) ==    \* connectionLost: the client went away at any point, or the close started by Release completes
    /\ ph[c] # "closed"
    /\ ph' = [ph EXCEPT ![c] = "closed"]
    /\ IF has[c] THEN lock' = FALSE /\ has' = [has EXCEPT ![c] = FALSE] ELSE UNCHANGED <<lock, has>>
    /\ stopped' = [stopped EXCEPT ![c] = req[c] \/ stopped[c]]
    /\ told' = {}
    /\ UNCHANGED req

Reopen(c) ==        \* the holder closes and reopens the database under the lock (Worker._do_copy, the archive step):
                    \* nothing about the lock changes
    /\ has[c] /\ ph[c] = "open"
    /\ told' = {}
    /\ UNCHANGED <<lock, has, req, ph, stopped>>

Next == \E c \in C : Request(c) \/ Poll(c) \/ Release(c) \/ Disconnect(c) \/ Reopen(c)
Spec == Init /\ [][Next]_vars

Waiting(c) == req[c] /\ ph[c] = "open" /\ ~has[c] /\ ~stopped[c]
(* fairness for NoStarve: every waiter keeps polling; holders eventually release or die *)
FairSpec == Spec /\ \A c \in C : WF_vars(Poll(c) /\ Waiting(c)) /\ WF_vars((Release(c) \/ Disconnect(c)) /\ has[c]) /\ WF_vars(Disconnect(c) /\ ph[c] = "closing")

-----------------------------------------------------------------------------
(* PROPERTY LEVEL (C13) *)
Holders == { c \in C : has[c] }
C13_Mutex     == Cardinality(Holders) <= 1 /\ (lock <=> Holders # {})
ToldTruth_Step == \A m \in told' : m.msg = "granted" => has'[m.c]
NoFalseBusy_Step == \A m \in told' : m.msg = "busy" => lock        \* told "locked" only when it was
CrashFree_Step ==
    \A c \in C : (ph[c] # "closed" /\ ph'[c] = "closed") =>
        /\ ~has'[c]
        /\ (has[c] => ~lock')
GoneNeverGranted_Step == \A m \in told' : m.msg = "granted" => ph'[m.c] # "closed"
(* a released lock stays released: nothing but a grant to a polling client takes or frees it afterwards *)
FreedOnlyByHolder_Step == \A c \in C : (has[c] /\ ~has'[c]) => (ph[c] # ph'[c])
GrantNext_Step ==       \* whenever the lock is free a waiting client is granted it at its next poll
    \A c \in C : (Waiting(c) /\ ~lock /\ told' # {} /\ \E m \in told' : m.c = c /\ m.msg \in {"granted", "busy"}) =>
        (has'[c] /\ \E m \in told' : m.c = c /\ m.msg = "granted")
OnlyHolderFrees_Step == (lock /\ ~lock') => \E c \in C : has[c] /\ ~has'[c]

C13_ToldTruth        == [][ToldTruth_Step]_vars
C13_NoFalseBusy      == [][NoFalseBusy_Step]_vars
C13_CrashFree        == [][CrashFree_Step]_vars
C13_GoneNeverGranted == [][GoneNeverGranted_Step]_vars
C13_GrantNext        == [][GrantNext_Step]_vars
C13_OnlyHolderFrees  == [][OnlyHolderFrees_Step]_vars
C13_FreedOnlyByHolder == [][FreedOnlyByHolder_Step]_vars
(* no waiter starves once holders release or die -- under FairSpec some waiter always gets through *)
C13_NoStarve == \A c \in C : Waiting(c) ~> (has[c] \/ ph[c] = "closed")
C13_LockFreed == \A c \in C : has[c] ~> ~has[c]
=============================================================================
