----------------------------- MODULE MomentFire -----------------------------
(***************************************************************************)
(* C20 (b): firing of timer events.                                        *)
(*                                                                         *)
(*   Boot      state.FSM._pipeline -> schedule.periodics -> schedule.defer *)
(*   Tick      the reactor runs the earliest callLater(.., defer) request  *)
(*   Advance   the clock moves, no timer becomes due                       *)
(*   Dispatch  farm.dispatch -> schedule.next_job_batch (status running)   *)
(*   Complete  farm.Hand._res -> schedule.complete                         *)
(*   NewTarget a target becomes known to the database                      *)
(*   LateTick  the reactor runs the earliest request LATE (busy reactor,   *)
(*             suspended host): the pass happens after the moment it was   *)
(*             armed for, possibly by more than the firing window          *)
(*   Pause / Unpause  the operator holds the pipeline: a defer pass only   *)
(*             asks to be called again Poll seconds later, nothing is      *)
(*             dispatched; Skip = the clock moves while only such polls    *)
(*             happen                                                      *)
(*                                                                         *)
(* One or two periodic nodes (task or analysis) in DIFFERENT packages,     *)
(* without data dependencies between them, each with its own set of        *)
(* events.  A node is named by its tag "<package>.<algorithm>"; two nodes  *)
(* may share the short algorithm name ("t0.a", "t1.a") or not ("t0.a",     *)
(* "t1.b").  The configuration is a variable chosen in Init so that one    *)
(* TLC run covers every configuration of the bound.  The transition system *)
(* is IMPLEMENTATION SHAPED, in two variants of schedule.defer:            *)
(*  Fire = "pinned": a node that fired keeps status `waiting` after        *)
(*     completion, defer skips it, one timer is requested for the earliest *)
(*     event not yet due of the nodes that were evaluated (finding 11: a   *)
(*     weekly / monthly event fires once per process);                     *)
(*  Fire = "rearm" (fixes/C20_rearm.patch): defer looks at every periodic  *)
(*     node; a node in the queue is never fired; an event fires once for   *)
(*     the occurrence it designates (node attribute `served`); every due   *)
(*     event -- fired, already served or exempt -- asks for a wake-up when *)
(*     the day is over, so a timer is pending whenever something recurs.   *)
(* Boot events are remembered per event in both.                           *)
(* DelayImpl (module Moment, CONSTANT Variant) is the transcription of     *)
(* _delay used by Defer.                                                   *)
(*                                                                         *)
(* PROPERTY LEVEL (bottom), all per node (and per boot event of a node):   *)
(* FireTargets, BootFires, BootOnce, Armed, Recurs.  They only speak about *)
(* the clock, the pending timer requests, queue membership, the node's     *)
(* pending / executing targets and Occ(e).                                 *)
(***************************************************************************)
EXTENDS Moment

CONSTANTS Fire,      \* "pinned" | "rearm": which schedule.defer the transition system transcribes
          Configs,   \* set of [start : Nat, late : BOOLEAN, nodes : [tags -> [kind : {"task","analysis"}, events : SUBSET EventSpec]]]
                     \* late: the environment of this configuration may run wake-ups late and hold the pipeline (one more step)
          MaxEnv,    \* bound on environment steps (Tick, Advance, NewTarget)
          Jumps,     \* clock increments the environment may choose
          LateJumps, \* ... in a configuration with cfg.late
          Lates      \* how late a timer wake-up may run in a configuration with cfg.late

ALL == "__all__"
T1  == "T1"
T2  == "T2"

VARIABLES cfg,       \* the configuration (constant along a behaviour)
          up,        \* periodics() has run
          clock,     \* wall clock = reactor clock (instant, seconds)
          timers,    \* due instants of the pending callLater(.., defer) requests
          status,    \* [node -> node attribute 'status': initial / delayed / waiting / running]
          queued,    \* [node -> node in schedule.que]
          todo,      \* [node -> node attribute 'todo']
          exec,      \* [node -> GROUND TRUTH: targets handed to workers, result not back yet]
          booted,    \* <<node, boot event>> pairs in schedule.booted
          targets,   \* dawgie.db.targets()
          lastFire,  \* [node -> instant of the last firing (-1: never)]; history variable of the property
          served,    \* [node -> [event -> the occurrence it last fired for (-1: none)]]  node attribute 'served' ("rearm")
          env,       \* environment steps left
          paused     \* the operator holds the pipeline (schedule.pause()): ENVIRONMENT input

fvars == <<cfg, up, clock, timers, status, queued, todo, exec, booted, targets, lastFire, served, env, paused>>
Poll == 10           \* a defer pass of a paused pipeline asks to be called again after 10 s

Nodes      == DOMAIN cfg.nodes
Kind(n)    == cfg.nodes[n].kind
Ev(n)      == cfg.nodes[n].events
TimedEv(n) == { e \in Ev(n) : e.k # "boot" }
BootEv(n)  == { e \in Ev(n) : e.k = "boot" }
Want(n)    == IF Kind(n) = "analysis" THEN {ALL} ELSE targets
Min(S)     == CHOOSE x \in S : \A y \in S : x <= y
Horizon    == NowDays * DAY

-----------------------------------------------------------------------------
(* implementation-shaped transition system *)

DelayOf(n, e, c) == IF e.k = "boot" THEN (IF <<n, e>> \in booted THEN Err ELSE Val(0))   \* Err: _DelayNotKnowableError
                    ELSE DelayImpl(e, c)
Due(n, c)   == { e \in Ev(n) : DelayOf(n, e, c).ok /\ DelayOf(n, e, c).d <= Window }
Later(n, c) == { DelayOf(n, e, c).d : e \in { x \in Ev(n) : DelayOf(n, x, c).ok /\ DelayOf(n, x, c).d > Window } }

(* schedule.defer at instant c; T = the timer requests that remain pending *)
DeferPinned(c, T) ==
    LET E == { n \in Nodes : status[n] \notin {"running", "waiting"} }      \* the nodes defer() looks at
        F == { n \in E : Due(n, c) # {} }                                    \* ... and queues
        L == UNION { Later(n, c) : n \in E }
    IN /\ booted'   = booted \cup UNION { { <<n, e>> : e \in BootEv(n) } : n \in E }
       /\ timers'   = IF L = {} THEN T ELSE T \cup {c + Min(L)}
       /\ status'   = [n \in Nodes |-> IF n \in F THEN "waiting" ELSE IF n \in E THEN "delayed" ELSE status[n]]
       /\ queued'   = [n \in Nodes |-> queued[n] \/ n \in F]
       /\ todo'     = [n \in Nodes |-> IF n \in F THEN todo[n] \cup Want(n) ELSE todo[n]]
       /\ lastFire' = [n \in Nodes |-> IF n \in F THEN c ELSE lastFire[n]]
       /\ UNCHANGED served

DayOver(c) == (c \div DAY + 1) * DAY + 1 - c          \* seconds until one second after the next UTC midnight
DeferRearm(c, T) ==
    LET Fresh(n) == IF queued[n] THEN {}                \* a node in the queue is exempt
                    ELSE { e \in Due(n, c) : served[n][e] # c + DelayOf(n, e, c).d }
        F == { n \in Nodes : Fresh(n) # {} }
        L == UNION { Later(n, c) : n \in Nodes } \cup (IF \E n \in Nodes : Due(n, c) # {} THEN {DayOver(c)} ELSE {})
    IN /\ booted'   = booted \cup UNION { { <<n, e>> : e \in BootEv(n) } : n \in Nodes }
       /\ timers'   = IF L = {} THEN T ELSE T \cup {c + Min(L)}
       /\ status'   = [n \in Nodes |-> IF n \in F THEN "waiting" ELSE IF ~queued[n] THEN "delayed" ELSE status[n]]
       /\ queued'   = [n \in Nodes |-> queued[n] \/ n \in F]
       /\ todo'     = [n \in Nodes |-> IF n \in F THEN todo[n] \cup Want(n) ELSE todo[n]]
       /\ lastFire' = [n \in Nodes |-> IF n \in F THEN c ELSE lastFire[n]]
       /\ served'   = [n \in Nodes |-> [e \in Ev(n) |-> IF e \in Fresh(n) THEN c + DelayOf(n, e, c).d ELSE served[n][e]]]

Defer(c, T) == IF Fire = "pinned" THEN DeferPinned(c, T) ELSE DeferRearm(c, T)
(* a pass of a paused pipeline only polls again *)
Pass(c, T)  == IF paused THEN /\ timers' = T \cup {c + Poll}
                              /\ UNCHANGED <<status, queued, todo, booted, lastFire, served>>
               ELSE Defer(c, T)

FInit == /\ cfg \in Configs
         /\ up = FALSE /\ clock = cfg.start /\ timers = {}
         /\ status = [n \in Nodes |-> "initial"] /\ queued = [n \in Nodes |-> FALSE]
         /\ todo = [n \in Nodes |-> {}] /\ exec = [n \in Nodes |-> {}]
         /\ booted = {} /\ targets = {T1} /\ lastFire = [n \in Nodes |-> -1]
         /\ env = IF cfg.late THEN MaxEnv + 1 ELSE MaxEnv
         /\ served = [n \in Nodes |-> [e \in Ev(n) |-> -1]]
         /\ paused = FALSE

Boot == /\ ~up /\ up' = TRUE
        /\ Defer(clock, timers)
        /\ UNCHANGED <<cfg, clock, exec, targets, env, paused>>

Tick == /\ up /\ env > 0 /\ timers # {} /\ Min(timers) < Horizon
        /\ clock' = Min(timers)
        /\ Pass(Min(timers), timers \ {Min(timers)})
        /\ env' = env - 1
        /\ UNCHANGED <<cfg, up, exec, targets, paused>>

(* the earliest request runs dt seconds late (no other request falls due meanwhile).
   ENVIRONMENT BOUND: the late pass still runs on the day the request was for -- a firing is the
   firing for a moment until the end of that moment's day (OnceStep), and _delay designates
   today's moment until the day is over; a wake-up delayed across midnight is outside the bound *)
LateTick(dt) == /\ cfg.late /\ up /\ env > 0 /\ timers # {} /\ Min(timers) + dt < Horizon
                /\ (Min(timers) + dt) \div DAY = Min(timers) \div DAY
                /\ \A t \in timers : t = Min(timers) \/ t > Min(timers) + dt
                /\ clock' = Min(timers) + dt
                /\ Pass(Min(timers) + dt, timers \ {Min(timers)})
                /\ env' = env - 1
                /\ UNCHANGED <<cfg, up, exec, targets, paused>>

Pause   == /\ cfg.late /\ up /\ env > 0 /\ ~paused
           /\ paused' = TRUE /\ env' = env - 1
           /\ UNCHANGED <<cfg, up, clock, timers, status, queued, todo, exec, booted, targets, lastFire, served>>
Unpause == /\ up /\ paused            \* (free: Pause is counted)
           /\ paused' = FALSE
           /\ UNCHANGED <<cfg, up, clock, timers, status, queued, todo, exec, booted, targets, lastFire, served, env>>

(* the clock of a PAUSED pipeline moves by dt across its polls: every pass on the
   way (the first at the pending request t0, then every Poll seconds) only polls
   again; the request left pending is that of the last pass at or before clock + dt *)
Skip(dt) == /\ up /\ env > 0 /\ paused /\ clock + dt < Horizon
            /\ timers # {} /\ Min(timers) <= clock + dt
            /\ \A t \in timers : t = Min(timers)
            /\ clock' = clock + dt /\ env' = env - 1
            /\ timers' = {Min(timers) + Poll * ((clock + dt - Min(timers)) \div Poll + 1)}
            /\ UNCHANGED <<cfg, up, status, queued, todo, exec, booted, targets, lastFire, served, paused>>

Advance(dt) == /\ up /\ env > 0 /\ clock + dt < Horizon
               /\ timers # {} => clock + dt < Min(timers)
               /\ clock' = clock + dt /\ env' = env - 1
               /\ UNCHANGED <<cfg, up, timers, status, queued, todo, exec, booted, targets, lastFire, served, paused>>

(* one farm.dispatch releases everything that can be released (the nodes do not depend on each other) *)
Avail(n) == IF ~queued[n] \/ ALL \in exec[n] THEN {} ELSE todo[n] \ exec[n]
Dispatch == /\ up /\ ~paused /\ \E n \in Nodes : Avail(n) # {}      \* next_job_batch releases nothing while paused
            /\ exec'   = [n \in Nodes |-> exec[n] \cup Avail(n)]
            /\ todo'   = [n \in Nodes |-> todo[n] \ Avail(n)]
            /\ status' = [n \in Nodes |-> IF Avail(n) # {} THEN "running" ELSE status[n]]
            /\ UNCHANGED <<cfg, up, clock, timers, queued, booted, targets, lastFire, served, env, paused>>

Complete(n, x) == /\ x \in exec[n]
                  /\ exec' = [exec EXCEPT ![n] = @ \ {x}]
                  /\ IF todo[n] = {} /\ exec'[n] = {}
                     THEN queued' = [queued EXCEPT ![n] = FALSE] /\ status' = [status EXCEPT ![n] = "waiting"]
                     ELSE UNCHANGED <<queued, status>>
                  /\ UNCHANGED <<cfg, up, clock, timers, todo, booted, targets, lastFire, served, env, paused>>

NewTarget == /\ up /\ env > 0 /\ T2 \notin targets
             /\ targets' = targets \cup {T2} /\ env' = env - 1
             /\ UNCHANGED <<cfg, up, clock, timers, status, queued, todo, exec, booted, lastFire, served, paused>>

JumpsOf == IF cfg.late THEN LateJumps ELSE Jumps
FNext == \/ Boot \/ Tick \/ Dispatch \/ NewTarget \/ Pause \/ Unpause
         \/ \E dt \in JumpsOf : Advance(dt) \/ Skip(dt)
         \/ \E dt \in Lates : LateTick(dt)
         \/ \E n \in Nodes : \E x \in exec[n] : Complete(n, x)

FSpec == FInit /\ [][FNext]_fvars

-----------------------------------------------------------------------------
(* PROPERTY LEVEL -- every operator is about ONE periodic node n *)

Busy(n)        == queued[n] \/ exec[n] # {}
Fired(n)       == todo'[n] \ todo[n] # {} \/ (queued'[n] /\ ~queued[n])   \* observable: the node was put on the queue / got work
AllOcc(n)      == UNION { OccTab[e] : e \in TimedEv(n) }
(* the occurrences still to come that the node has not been fired for yet (a
   firing up to Window before a moment is the firing for that moment) *)
Upcoming(n, c) == { m \in AllOcc(n) : m > c /\ lastFire[n] < m - Window }

(* a due event queues its algorithm for all currently known targets (the
   all-targets marker for an analysis) *)
FireTargetsStep(n) == Fired(n) => (queued'[n] /\ (IF Kind(n) = "analysis" THEN {ALL} ELSE targets') \subseteq todo'[n])

(* every boot event of every node fires when the pipeline starts ... *)
BootFiresStep(n) == \A e \in BootEv(n) : (~up /\ up') => (Fired(n) /\ queued'[n])
(* ... and only then: any other firing of the node is that of a timed event
   that is due (some occurrence is at most Window ahead; no lower bound, as
   in (a)) *)
Justified(n)    == \E m \in AllOcc(n) : m - Window <= clock'
BootOnceStep(n) == (Fired(n) /\ (up \/ BootEv(n) = {})) => Justified(n)

(* every periodic node that is neither queued nor executing has a pending
   timer that re-evaluates it no later than its next occurrence (a held
   pipeline polls; what it owes is CatchUpStep's business) *)
Armed(n) == (up /\ ~Busy(n) /\ ~paused) => (Upcoming(n, clock) = {} \/ \E t \in timers : \A m \in Upcoming(n, clock) : t <= m)

(* while the pipeline stays up a timed event fires again each period: when
   the clock passes an occurrence the node is fired for it (at most Window
   early), unless it was still queued or executing when the moment came -- or
   the operator holds the pipeline at that instant: then the occurrence is
   owed to the first pass of the released pipeline (CatchUpStep).  A wake-up
   that merely runs late is NOT exempt: the step that carries the clock over
   the moment is the pass itself. *)
Crossed(n, c1, c2) == { m \in AllOcc(n) : c1 < m /\ m <= c2 }
RecursStep(n) == (up /\ clock' > clock) =>
                    \A m \in Crossed(n, clock, clock') : Busy(n) \/ paused' \/ lastFire'[n] >= m - Window

(* no occurrence is skipped while the pipeline stays up: after a defer pass
   that can act (the pipeline is not held; observable: the pending timer
   requests changed) every occurrence of the current day that came while the
   pipeline was up has been fired for, however late the pass is -- unless the
   node was queued or executing when the pass ran.  "Of the current day" is
   the same reading as in OnceStep: a firing is the firing for m until the
   end of m's day. *)
EndOfDay(m)    == (m \div DAY + 1) * DAY
ActingPass     == up /\ ~paused /\ ~paused' /\ timers' # timers
CatchUpStep(n) == ActingPass =>
                    \A m \in AllOcc(n) : (cfg.start < m /\ m <= clock' /\ clock' < EndOfDay(m)) =>
                                            (Busy(n) \/ lastFire'[n] >= m - Window)

(* ... and once per occurrence: two firings of a node are not both the firing
   for the same moment m (a firing is "for m" from Window before m until the
   end of m's day) *)
FiringFor(f, m) == m - Window <= f /\ f < (m \div DAY + 1) * DAY
OnceStep(n) == (Fired(n) /\ lastFire[n] >= 0) =>
                  ~ \E m \in AllOcc(n) : FiringFor(lastFire[n], m) /\ FiringFor(clock', m)

C20_FireTargets == [][\A n \in Nodes : FireTargetsStep(n)]_fvars
C20_Once        == [][\A n \in Nodes : OnceStep(n)]_fvars
C20_BootFires   == [][\A n \in Nodes : BootFiresStep(n)]_fvars
C20_BootOnce    == [][\A n \in Nodes : BootOnceStep(n)]_fvars
C20_Armed       == \A n \in Nodes : Armed(n)
C20_Recurs      == [][\A n \in Nodes : RecursStep(n)]_fvars
C20_CatchUp     == [][\A n \in Nodes : CatchUpStep(n)]_fvars

(* the recorded finding (DESIGN section 6, #11): after the firing completes the
   node keeps status `waiting`, which defer() skips, and nothing re-arms *)
KnownIdleWaiting(n) == up /\ ~Busy(n) /\ status[n] = "waiting"
C20_ArmedOrKnown  == \A n \in Nodes : Armed(n) \/ KnownIdleWaiting(n)
C20_RecursOrKnown == [][\A n \in Nodes : RecursStep(n) \/ KnownIdleWaiting(n)]_fvars

TypeOK == /\ \A n \in Nodes : /\ status[n] \in {"initial", "delayed", "waiting", "running"}
                              /\ todo[n] \subseteq {T1, T2, ALL} /\ exec[n] \subseteq {T1, T2, ALL}
          /\ \A t \in timers : t >= clock
=============================================================================
