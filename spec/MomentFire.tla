----------------------------- MODULE MomentFire -----------------------------
(***************************************************************************)
(* C20 (b): firing of timer events.                                        *)
(*                                                                         *)
(*   Boot      state.FSM._pipeline -> schedule.periodics -> schedule.defer *)
(*   Tick      the reactor runs the earliest callLater(.., defer) request  *)
(*   Advance   the clock moves, no timer becomes due                       *)
(*   Dispatch  farm.dispatch -> schedule.next_job_batch (status running)   *)
(*   Complete  farm.Hand._res -> schedule.complete                         *)
(*   NewTarget a target becomes known to the database                      *)
(*                                                                         *)
(* One periodic node (task or analysis) with a set of events; the          *)
(* configuration is a variable chosen in Init so that one TLC run covers   *)
(* every configuration of the bound.  The transition system is             *)
(* IMPLEMENTATION SHAPED: it is what defer / complete do on the pinned     *)
(* tree (a node that fired keeps status `waiting` after completion, defer  *)
(* skips it, and no timer is requested for an event that has fired).       *)
(* DelayImpl (module Moment, CONSTANT Variant) is the transcription of     *)
(* _delay used by Defer.                                                   *)
(*                                                                         *)
(* PROPERTY LEVEL (bottom): FireTargets, BootFires, BootOnce, Armed,       *)
(* Recurs.  They only speak about the clock, the pending timer requests,   *)
(* queue membership, the node's pending / executing targets and Occ(e).    *)
(***************************************************************************)
EXTENDS Moment

CONSTANTS Configs,   \* set of [kind : {"task","analysis"}, events : SUBSET EventSpec, start : Nat]
          MaxEnv,    \* bound on environment steps (Tick, Advance, NewTarget)
          Jumps      \* clock increments the environment may choose

ALL == "__all__"
T1  == "T1"
T2  == "T2"

VARIABLES cfg,       \* the configuration (constant along a behaviour)
          up,        \* periodics() has run
          clock,     \* wall clock = reactor clock (instant, seconds)
          timers,    \* due instants of the pending callLater(.., defer) requests
          status,    \* node attribute 'status': initial / delayed / waiting / running
          queued,    \* node in schedule.que
          todo,      \* node attribute 'todo'
          exec,      \* GROUND TRUTH: targets handed to workers, result not back yet
          booted,    \* boot events in schedule.booted
          targets,   \* dawgie.db.targets()
          lastFire,  \* instant of the last firing (-1: never); history variable of the property
          env        \* environment steps left

fvars == <<cfg, up, clock, timers, status, queued, todo, exec, booted, targets, lastFire, env>>

Ev      == cfg.events
TimedEv == { e \in Ev : e.k # "boot" }
BootEv  == { e \in Ev : e.k = "boot" }
Want    == IF cfg.kind = "analysis" THEN {ALL} ELSE targets
Min(S)  == CHOOSE x \in S : \A y \in S : x <= y
Horizon == NowDays * DAY

-----------------------------------------------------------------------------
(* implementation-shaped transition system *)

DelayOf(e, c) == IF e.k = "boot" THEN (IF e \in booted THEN Err ELSE Val(0))   \* Err: _DelayNotKnowableError
                 ELSE DelayImpl(e, c)

(* schedule.defer at instant c; T = the timer requests that remain pending *)
Defer(c, T) ==
    LET res   == [e \in Ev |-> DelayOf(e, c)]
        due   == { e \in Ev : res[e].ok /\ res[e].d <= Window }
        later == { res[e].d : e \in { x \in Ev : res[x].ok /\ res[x].d > Window } }
    IN IF status \in {"running", "waiting"}
       THEN timers' = T /\ UNCHANGED <<status, queued, todo, booted, lastFire>>
       ELSE /\ booted' = booted \cup BootEv
            /\ timers' = IF later = {} THEN T ELSE T \cup {c + Min(later)}
            /\ IF due # {}
               THEN /\ queued' = TRUE /\ status' = "waiting"
                    /\ todo' = todo \cup Want /\ lastFire' = c
               ELSE status' = "delayed" /\ UNCHANGED <<queued, todo, lastFire>>

FInit == /\ cfg \in Configs
         /\ up = FALSE /\ clock = cfg.start /\ timers = {}
         /\ status = "initial" /\ queued = FALSE /\ todo = {} /\ exec = {}
         /\ booted = {} /\ targets = {T1} /\ lastFire = -1 /\ env = MaxEnv

Boot == /\ ~up /\ up' = TRUE
        /\ Defer(clock, timers)
        /\ UNCHANGED <<cfg, clock, exec, targets, env>>

Tick == /\ up /\ env > 0 /\ timers # {} /\ Min(timers) < Horizon
        /\ clock' = Min(timers)
        /\ Defer(Min(timers), timers \ {Min(timers)})
        /\ env' = env - 1
        /\ UNCHANGED <<cfg, up, exec, targets>>

Advance(dt) == /\ up /\ env > 0 /\ clock + dt < Horizon
               /\ timers # {} => clock + dt < Min(timers)
               /\ clock' = clock + dt /\ env' = env - 1
               /\ UNCHANGED <<cfg, up, timers, status, queued, todo, exec, booted, targets, lastFire>>

Avail == IF ALL \in exec THEN {} ELSE todo \ exec
Dispatch == /\ up /\ queued /\ Avail # {}
            /\ exec' = exec \cup Avail /\ todo' = todo \ Avail /\ status' = "running"
            /\ UNCHANGED <<cfg, up, clock, timers, queued, booted, targets, lastFire, env>>

Complete(x) == /\ x \in exec
               /\ exec' = exec \ {x}
               /\ IF todo = {} /\ exec' = {}
                  THEN queued' = FALSE /\ status' = "waiting"
                  ELSE UNCHANGED <<queued, status>>
               /\ UNCHANGED <<cfg, up, clock, timers, todo, booted, targets, lastFire, env>>

NewTarget == /\ up /\ env > 0 /\ T2 \notin targets
             /\ targets' = targets \cup {T2} /\ env' = env - 1
             /\ UNCHANGED <<cfg, up, clock, timers, status, queued, todo, exec, booted, lastFire>>

FNext == \/ Boot \/ Tick \/ Dispatch \/ NewTarget
         \/ \E dt \in Jumps : Advance(dt)
         \/ \E x \in exec : Complete(x)

FSpec == FInit /\ [][FNext]_fvars

-----------------------------------------------------------------------------
(* PROPERTY LEVEL *)

Busy        == queued \/ exec # {}
Fired       == todo' \ todo # {} \/ (queued' /\ ~queued)        \* observable: the node was put on the queue / got work
AllOcc      == UNION { OccTab[e] : e \in TimedEv }
Upcoming(c) == { m \in AllOcc : m >= c }

(* a due event queues its algorithm for all currently known targets (the
   all-targets marker for an analysis) *)
C20_FireTargets == [][ Fired => (queued' /\ (IF cfg.kind = "analysis" THEN {ALL} ELSE targets') \subseteq todo') ]_fvars

(* a boot event fires when the pipeline starts ... *)
C20_BootFires == [][ (~up /\ up' /\ BootEv # {}) => (Fired /\ queued') ]_fvars
(* ... and only then: any other firing is that of a timed event that is due
   (some occurrence is at most Window ahead; no lower bound, as in (a)) *)
Justified    == \E m \in AllOcc : m - Window <= clock'
C20_BootOnce == [][ (Fired /\ (up \/ BootEv = {})) => Justified ]_fvars

(* every periodic node that is neither queued nor executing has a pending
   timer that re-evaluates it no later than its next occurrence *)
Armed == (up /\ ~Busy) => (Upcoming(clock) = {} \/ \E t \in timers : \A m \in Upcoming(clock) : t <= m)
C20_Armed == Armed

(* while the pipeline stays up a timed event fires again each period: when
   the clock passes an occurrence the node is fired for it (at most Window
   early), unless it was still queued or executing when the moment came *)
Crossed(c1, c2) == { m \in AllOcc : c1 < m /\ m <= c2 }
RecursStep == (up /\ clock' > clock) =>
                 \A m \in Crossed(clock, clock') : Busy \/ lastFire' >= m - Window
C20_Recurs == [][RecursStep]_fvars

(* the recorded finding (DESIGN section 6, #11): after the firing completes the
   node keeps status `waiting`, which defer() skips, and nothing re-arms *)
KnownIdleWaiting == up /\ ~Busy /\ status = "waiting"
C20_ArmedOrKnown  == Armed \/ KnownIdleWaiting
C20_RecursOrKnown == [][RecursStep \/ KnownIdleWaiting]_fvars

TypeOK == /\ status \in {"initial", "delayed", "waiting", "running"}
          /\ todo \subseteq {T1, T2, ALL} /\ exec \subseteq {T1, T2, ALL}
          /\ \A t \in timers : t >= clock
=============================================================================
