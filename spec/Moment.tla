------------------------------- MODULE Moment -------------------------------
(***************************************************************************)
(* C20 (a): time to a timer event.                                         *)
(*                                                                         *)
(*   dawgie.schedule / dawgie.MOMENT   which specifications exist          *)
(*   dawgie.tools.compliant.rule_10    which of them an engine may use     *)
(*   dawgie.pl.schedule._delay         now -> timedelta to "the" moment    *)
(*                                                                         *)
(* PROPERTY LEVEL (declarative): a calendar, the set Occ(s) of instants    *)
(* that match a specification, and the three clauses of the statement.     *)
(* IMPLEMENTATION LEVEL: DelayImpl, a transcription of what _delay         *)
(* computes (Variant = "pinned": the snapshot commit; "fixed": after       *)
(* fixes/C20_delay.patch).  MC checks transcription against the clauses on *)
(* the whole bounded domain; the trace module checks the recorded output   *)
(* of the real function against the clauses (VIOLATION) and against the    *)
(* transcription (DRIFT).                                                  *)
(*                                                                         *)
(* Instants are integer seconds since 2023-01-01T00:00:00Z.  The calendar  *)
(* has four years, 2023..2026 (2024 is a leap year); clock instants range  *)
(* over the first three, designated moments may fall into the fourth.      *)
(***************************************************************************)
EXTENDS Integers, FiniteSets, Sequences, TLC

CONSTANTS Variant      \* "pinned" | "fixed"

DAY      == 86400
Year0    == 2023
Years    == Year0 .. (Year0 + 3)
NowYears == Year0 .. (Year0 + 2)
Window   == 300        \* schedule.defer queues an event whose delay is <= 300 s

-----------------------------------------------------------------------------
(* Gregorian calendar, declaratively *)

IsLeap(y)    == (y % 4 = 0 /\ y % 100 # 0) \/ y % 400 = 0
DaysIn(y, m) == CASE m \in {1, 3, 5, 7, 8, 10, 12} -> 31
                  [] m \in {4, 6, 9, 11}           -> 30
                  [] OTHER                         -> IF IsLeap(y) THEN 29 ELSE 28
YearLen(y)   == IF IsLeap(y) THEN 366 ELSE 365

RECURSIVE YearStart(_)
YearStart(y) == IF y <= Year0 THEN 0 ELSE YearStart(y - 1) + YearLen(y - 1)
RECURSIVE MonthOff(_, _)
MonthOff(y, m) == IF m <= 1 THEN 0 ELSE MonthOff(y, m - 1) + DaysIn(y, m - 1)

(* index (0-based) of the day y-m-d; d need not exist in that month *)
DayIndex(y, m, d) == YearStart(y) + MonthOff(y, m) + d - 1

NDays   == YearStart(Year0 + 4)      \* 1461
NowDays == YearStart(Year0 + 3)      \* 1096
DayIdx  == 0 .. (NDays - 1)

(* the date of every day index -- evaluated once (TLCEval: TLC would otherwise
   keep the function as a lazy expression and re-evaluate it per application) *)
Cal == TLCEval([i \in DayIdx |->
          LET y == CHOOSE yy \in Years : YearStart(yy) <= i /\ i < YearStart(yy) + YearLen(yy)
              m == CHOOSE mm \in 1..12 : DayIndex(y, mm, 1) <= i /\ i < DayIndex(y, mm, 1) + DaysIn(y, mm)
          IN [y |-> y, m |-> m, d |-> i - DayIndex(y, m, 1) + 1]])

(* weekday, Monday = 0 (python: isoweekday() - 1, calendar.MONDAY = 0).
   Calendar axiom: 2023-01-01 was a Sunday. *)
WD(i) == (i + 6) % 7

(* first day and last two days of a month: the instants the quick tier always covers *)
MonthEnd(i) == Cal[i].d = 1 \/ Cal[i].d >= DaysIn(Cal[i].y, Cal[i].m) - 1

-----------------------------------------------------------------------------
(* Event specifications (dawgie.MOMENT with exactly one of day/dom/dow and a
   time of day; boot is handled in module MomentFire).
     [k |-> "dow", n |-> 0..6   (Monday = 0), t |-> second of day]
     [k |-> "dom", n |-> 1..31,               t |-> second of day]
     [k |-> "day", n |-> day index of a date, t |-> second of day]        *)

TimedSpec(K, N, T) == [k : K, n : N, t : T]

(* x matches s -- literal matching: a month without day n has no occurrence *)
Matches(s, x) ==
    LET i == x \div DAY IN
    /\ x >= 0 /\ i \in DayIdx /\ x % DAY = s.t
    /\ CASE s.k = "dow" -> WD(i) = s.n
         [] s.k = "dom" -> Cal[i].d = s.n
         [] s.k = "day" -> i = s.n
         [] OTHER       -> FALSE

Occ(s) == { x \in { i * DAY + s.t : i \in DayIdx } : Matches(s, x) }

-----------------------------------------------------------------------------
(* Result of a computation: [ok |-> FALSE, d |-> 0] is "raised an exception" *)
Err    == [ok |-> FALSE, d |-> 0]
Val(d) == [ok |-> TRUE, d |-> d]

(* THE PROPERTY (a).  occ = Occ(s), now = the clock instant, r = the result.
   NotFurther is "no further than one period ahead" in the reading that also
   makes sense for months of different length: not beyond the first
   occurrence at or after now.  No lower bound: the occurrence just missed
   may be designated (negative delay). *)
Computable(r)          == r.ok
Lands(occ, now, r)     == r.ok => (now + r.d) \in occ
NotFurther(occ, now, r) == r.ok => \A m \in occ : m >= now => now + r.d <= m

FailedA(occ, now, r) ==
       (IF Computable(r)           THEN {} ELSE {"C20.Computable"})
  \cup (IF Lands(occ, now, r)      THEN {} ELSE {"C20.Lands"})
  \cup (IF NotFurther(occ, now, r) THEN {} ELSE {"C20.NotFurther"})

-----------------------------------------------------------------------------
(* Transcription of dawgie.pl.schedule._delay (the non-boot branches).
   datetime.datetime(year, month, day, ...) raises ValueError when the month
   has no such day. *)

MkDate(y, m, d, t, now) == IF d < 1 \/ d > DaysIn(y, m) THEN Err
                           ELSE Val(DayIndex(y, m, d) * DAY + t - now)
NextMonth(ym) == IF ym[2] = 12 THEN <<ym[1] + 1, 1>> ELSE <<ym[1], ym[2] + 1>>

ImplDay(s, now) == Val(s.n * DAY + s.t - now)

ImplDow(s, now) ==
    LET i     == now \div DAY
        today == WD(i)
        dd    == IF s.n < today THEN 7 + s.n - today ELSE s.n - today
    IN Val((i + dd) * DAY + s.t - now)

(* pinned: always the NEXT month *)
ImplDomPinned(s, now) ==
    LET c  == Cal[now \div DAY]
        ym == NextMonth(<<c.y, c.m>>)
    IN MkDate(ym[1], ym[2], s.n, s.t, now)

(* fixed: this month's day as long as it is not over (like dow: today's
   moment even if its time has passed), else / if this month has no such day
   the next month that has it *)
ImplDomFixed(s, now) ==
    LET c == Cal[now \div DAY]
        a == IF s.n < c.d THEN NextMonth(<<c.y, c.m>>) ELSE <<c.y, c.m>>
        b == IF DaysIn(a[1], a[2]) < s.n THEN NextMonth(a) ELSE a
    IN MkDate(b[1], b[2], s.n, s.t, now)

DelayImpl(s, now) ==
    CASE s.k = "day" -> ImplDay(s, now)
      [] s.k = "dow" -> ImplDow(s, now)
      [] s.k = "dom" -> IF Variant = "pinned" THEN ImplDomPinned(s, now) ELSE ImplDomFixed(s, now)
-----------------------------------------------------------------------------
(* The bounded domain shared by the MC, Gen and Trace modules:
   7 weekdays + 31 days of month + 4 dates, 3 event times  = 126 specifications
   1096 days (2023-01-01 .. 2025-12-31) x 4 times of day    = 4384 clock instants *)
EvTimes  == {0, 43200, 86370}            \* 00:00:00  12:00:00  23:59:30
NowTimes == {0, 42900, 43200, 86399}     \* 00:00:00  11:55:00 (= 12:00 - Window)  12:00:00  23:59:59
DateDays == {DayIndex(2023, 1, 1), DayIndex(2024, 2, 29), DayIndex(2024, 7, 15), DayIndex(2025, 12, 31)}
Specs    == TimedSpec({"dow"}, 0..6, EvTimes) \cup TimedSpec({"dom"}, 1..31, EvTimes)
            \cup TimedSpec({"day"}, DateDays, EvTimes)
OccTab   == TLCEval([s \in Specs |-> Occ(s)])     \* evaluated once
-----------------------------------------------------------------------------
(* WHICH specifications exist: the shapes of dawgie.MOMENT(boot, day, dom, dow,
   time) an engine can hand to the pipeline -- the compliance rule (rule_10),
   not the constructor, decides which of them run.  Every field is absent
   ("none"), a value of the right type ("ok") or a value of a wrong type
   ("bad", a string); boot is absent or True.  Representative values of the
   "ok" fields: dow 2, dom 15, day 2024-02-29, time 12:00:00 (the values
   themselves are the business of Specs above).
   WellFormed is THE MODEL'S reading of "Only one of boot, date, dom, or dow
   should be defined" + the field types + a time of day for everything but a
   boot event.  The property quantifies over the shapes the REAL rule accepts:
   for those, computing the delay never fails (and lands / is not further when
   the shape is a timed specification). *)
FieldSt   == {"none", "ok", "bad"}
Shapes    == [boot : {"none", "ok"}, day : FieldSt, dom : FieldSt, dow : FieldSt, time : FieldSt]
Defined(sh) == { f \in {"boot", "day", "dom", "dow"} : sh[f] # "none" }
WellFormed(sh) ==
    /\ Cardinality(Defined(sh)) = 1
    /\ sh.day # "bad" /\ sh.dom # "bad" /\ sh.dow # "bad"
    /\ sh.boot = "none" => sh.time = "ok"
Timed(sh) == WellFormed(sh) /\ sh.boot = "none"
ShapeNoon == 43200
SpecOfShape(sh) == CASE sh.dow = "ok" -> [k |-> "dow", n |-> 2, t |-> ShapeNoon]
                     [] sh.dom = "ok" -> [k |-> "dom", n |-> 15, t |-> ShapeNoon]
                     [] sh.day = "ok" -> [k |-> "day", n |-> DayIndex(2024, 2, 29), t |-> ShapeNoon]
(* clauses for a shape the real rule accepts *)
FailedShape(sh, now, r) ==
    IF Timed(sh) THEN FailedA(OccTab[SpecOfShape(sh)], now, r)
    ELSE IF Computable(r) THEN {} ELSE {"C20.Computable"}
=============================================================================
