\* manual run: cd /verif/spec && tlc -workers 8 -config StoreCrash_q.cfg StoreCrash_MC.tla
SPECIFICATION Spec
CONSTANTS
  Contents <- C3
  Keys <- K3
  MaxUpd = 3
  MaxEv = 3
  RecordFirst = FALSE
INVARIANT TypeOK
INVARIANT NamedByDigest
INVARIANT NoDangling
INVARIANT SingleCopy
PROPERTY NoveltyExact
PROPERTY Kept
CHECK_DEADLOCK FALSE
