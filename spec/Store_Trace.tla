----------------------------- MODULE Store_Trace -----------------------------
(***************************************************************************)
(* Validation of traces recorded from the REAL shelve backend              *)
(* (harness/store_h.py) against the property level of module Store.        *)
(*                                                                         *)
(* Every line carries the projected abstract state after the call as a     *)
(* delta against the previous snapshot of the real tables; the variables   *)
(* of Store are bound to the rebuilt state, `out` to the logged arguments  *)
(* and results, and the reference dictionary `ref` is computed HERE from   *)
(* the arguments alone (RefNext) - never from anything the code returned.  *)
(* Every clause is evaluated on every line; a failing clause is printed    *)
(* (verdicts are total).  `drift` tells whether the line is also a step of *)
(* the implementation-shaped Next of Store (never an alarm).               *)
(***************************************************************************)
EXTENDS Store, Json, IOUtils, SequencesExt

Traces == ndJsonDeserialize(IOEnv.TRACE_FILE)
TraceMetricVals == Traces[1].metric_vals

VARIABLES tid, l, bad, drift
tvars == <<vars, tid, l, bad, drift>>

Line(t, i) == Traces[t].steps[i]

OutOf(r) == [ev |-> r.ev, tgt |-> r.args.tgt, task |-> r.args.task, tks |-> ToSet(r.args.tks), a |-> r.args.a, s |-> r.args.s, v |-> r.args.v,
             run |-> r.args.run, c |-> r.args.c, lvl |-> r.args.lvl, to |-> r.args.to,
             av |-> r.args.av, sv |-> r.args.sv, vv |-> r.args.vv,
             res |-> r.obs.res, seal |-> r.obs.seal, err |-> r.obs.err, nxt |-> r.obs.nxt,
             rep |-> ToSet(r.obs.rep), av1 |-> r.obs.av1, sv1 |-> r.obs.sv1]

TabFrom(old, st)   == [t \in TABLES |-> (old[t] \ ToSet(st.tab_del[t])) \cup ToSet(st.tab_add[t])]
IdxFrom(old, st)   == [t \in TABLES |-> IF st.idx_mode[t] = "app" THEN old[t] \o st.idx_val[t] ELSE st.idx_val[t]]
PrimeFrom(old, st) == (old \ ToSet(st.prime_del)) \cup ToSet(st.prime_add)
CurOf(st)          == [alg |-> st.cur.alg, sv |-> st.cur.sv, val |-> st.cur.val]

FailClause(name, ok) == IF ok THEN {} ELSE {name}

(* evaluated on the step <<previous line, this line>>; all variables of Store are bound *)
StepClauses(r) ==
    FailClause("C06.LoadOK", C06_LoadStep)
    \cup FailClause("C08.Bijective", BijectiveAt(tab', idx'))
    \cup FailClause("C08.Resolves",
            /\ ResolvesAt(tab', prime')
            \* db._prime_keys(): the names the code resolves through its own indices are the structural ones
            /\ r.st.pk = 1 => /\ Len(r.st.pkeys) = Cardinality(prime')
                              /\ ToSet(r.st.pkeys) = { NamesOf(tab', e) : e \in prime' })
    \cup FailClause("C08.Survives", C08_SurvivesStep)
    \cup FailClause("C08.NextRun", C08_NextRunStep)
    \cup FailClause("C08.ExactNames.Remove", C08_ExactRemoveStep)
    \cup FailClause("C08.ExactNames.Reset", C08_ExactResetStep)
    \cup FailClause("C08.ExactNames.Trace", C08_ExactTraceStep)
    \cup FailClause("C08.ExactNames.Worm", C08_ExactWormStep)

(* is the recorded step a step of the implementation-shaped model (results included)? *)
ModelStep(o) ==
    CASE o.ev = "Update"    -> Update(o.tgt, o.task, o.a, o.s, o.v, o.run, o.c)
      [] o.ev = "Load"      -> Load(o.tgt, o.task, o.a, o.s, o.v, o.run)
      [] o.ev = "Remove"    -> RemoveEntry(o.run, o.tgt, o.task, o.a, o.s, o.v)
      [] o.ev = "Reset"     -> Reset(o.run, o.tgt, o.task, o.a, o.s)
      [] o.ev = "Trace"     -> TraceReport(o.tks, o.a)
      [] o.ev = "Worm"      -> Worm(o.run, o.tgt, o.task, o.a, o.s, o.v)
      [] o.ev = "Next"      -> NextRun
      [] o.ev = "AddTarget" -> AddTarget(o.tgt)
      [] o.ev = "Register"  -> Register(o.task, o.a, o.s, o.v)
      [] o.ev = "Reopen"    -> Reopen
      [] o.ev = "Bump"      -> Bump(o.lvl, o.to)
      [] OTHER -> FALSE

(* what kind of case the line exercises (vacuity counters; Python only counts these) *)
KindOf(o) ==
    CASE o.ev = "Load" ->
           LET same == { y \in ref : SameIdent(y, o) } IN
           IF \E y \in same : y.run = o.run THEN "Load-exact-run"
           ELSE IF same # {} THEN (IF \A y \in same : y.run < o.run THEN "Load-future-run" ELSE "Load-absent-run")
           ELSE IF \E y \in ref : y.tgt = o.tgt /\ y.task = o.task /\ y.a = o.a /\ y.s = o.s /\ y.v = o.v THEN "Load-other-version-only"
           ELSE IF \E y \in ref : y.task = o.task /\ y.a = o.a /\ y.s = o.s /\ y.v = o.v THEN "Load-other-target-only"
           ELSE "Load-nothing"
      [] o.ev = "Remove" ->
           LET N(e) == NamesOf(tab, e)
               near == { e \in prime : N(e).run = o.run /\ N(e).tgt = o.tgt /\ N(e).task = o.task }
           IN IF \E e \in near : N(e).a # o.a /\ IsPre(o.a, N(e).a) /\ N(e).s = o.s /\ N(e).v = o.v THEN "Remove-with-prefix-sibling"
              ELSE IF \E e \in near : N(e).a = o.a /\ N(e).s = o.s /\ N(e).v = o.v THEN "Remove-hit" ELSE "Remove-miss"
      [] o.ev = "Reset" ->
           LET N(e) == NamesOf(tab, e)
               near == { e \in prime : N(e).run = o.run /\ N(e).tgt = o.tgt /\ N(e).task = o.task }
           IN IF \E e \in near : N(e).a = o.a THEN "Reset-hit"
              ELSE IF \E e \in near : IsPre(o.a, N(e).a) THEN "Reset-prefix-sibling-only"
              ELSE IF near # {} THEN "Reset-other-algorithm-only" ELSE "Reset-miss"
      [] o.ev = "Trace" ->
           IF \E e \in tab["alg"] : e.n # o.a /\ IsPre(o.a, e.n) /\ NameOr(tab["task"], e.p) \in o.tks THEN "Trace-with-prefix-sibling"
           ELSE IF o.rep # {} THEN "Trace-some" ELSE "Trace-none"
      [] o.ev = "Worm" ->
           IF \E e \in prime : WormMatch(NamesOf(tab, e), o) THEN "Worm-hit" ELSE "Worm-miss"
      [] o.ev = "Next" -> IF prime = {} THEN "Next-empty" ELSE "Next-some"
      [] o.ev = "Reopen" -> IF prime = {} THEN "Reopen-empty" ELSE "Reopen-some"
      [] OTHER -> o.ev

(* does the line meet the situations the environment of the history is there to create?  (numbers of more than
   one digit in the stringified keys; instrumentation for the vacuity check only, no clause looks at ids) *)
Digits(n) == IF n < 10 THEN 1 ELSE IF n < 100 THEN 2 ELSE 3
Exposure(o) ==
    CASE o.ev = "Reset" ->
           LET N(e) == NamesOf(tab, e)
               near == { e \in prime : N(e).run = o.run /\ N(e).tgt = o.tgt /\ N(e).task = o.task }
               mine == { x.id : x \in { y \in tab["alg"] : y.n = o.a /\ NameOr(tab["task"], y.p) = o.task } }
           IN IF \E e \in near, i \in mine : i # e.al /\ IsPre(ToString(i), ToString(e.al))
              THEN "Reset-with-id-prefix-neighbour" ELSE ""
      [] o.ev = "Next" -> IF \E e, f \in prime : Digits(e.run) # Digits(f.run) THEN "Next-across-digit-boundary" ELSE ""
      [] o.ev = "Worm" ->
           \* a request for run 0 plus another field, while other runs hold entries that match the other fields
           IF o.run = 0 /\ \E e \in prime : e.run # 0 /\ WormMatch(NamesOf(tab, e), [o EXCEPT !.run = ANYRUN])
           THEN "Worm-run-0-beside-other-runs" ELSE ""
      [] o.ev = "Trace" ->
           \* one call naming the same algorithm under two tasks whose reports differ
           IF \E t, u \in o.tks : t # u /\ { [tn |-> x.tn, run |-> x.run] : x \in RefReport(tab, prime, t, o.a) }
                                           # { [tn |-> x.tn, run |-> x.run] : x \in RefReport(tab, prime, u, o.a) }
           THEN "Trace-same-name-under-two-tasks" ELSE ""
      [] OTHER -> ""

Empty == [t \in TABLES |-> {}]
TraceInit ==
    /\ tid \in 1..Len(Traces)
    /\ l = 1
    /\ LET st == Line(tid, 1).st IN
       /\ tab = TabFrom(Empty, st)
       /\ idx = IdxFrom([t \in TABLES |-> <<>>], st)
       /\ prime = PrimeFrom({}, st)
       /\ cur = CurOf(st)
    /\ ref = {} /\ nops = 0
    /\ out = OutOf(Line(tid, 1))
    /\ bad = {} /\ drift = FALSE

TraceNext ==
    /\ l < Len(Traces[tid].steps)
    /\ l' = l + 1
    /\ UNCHANGED tid
    /\ LET r == Line(tid, l + 1) IN
       /\ tab' = TabFrom(tab, r.st)
       /\ idx' = IdxFrom(idx, r.st)
       /\ prime' = PrimeFrom(prime, r.st)
       /\ cur' = CurOf(r.st)
       /\ out' = OutOf(r)
       /\ ref' = RefNext(ref, out')
       /\ nops' = nops + 1
       /\ bad' = StepClauses(r)
       /\ drift' = ~ModelStep(out')
       /\ (bad' # {} => PrintT(<<"CLAUSE", Traces[tid].tid, l + 1, r.ev, bad'>>))
       /\ (drift' => PrintT(<<"DRIFT", Traces[tid].tid, l + 1, r.ev>>))
       /\ PrintT(<<"KIND", KindOf(out')>>)
       /\ (Exposure(out') # "" => PrintT(<<"KIND", Exposure(out')>>))

TraceSpec == TraceInit /\ [][TraceNext]_tvars

TotalLines == FoldLeft(LAMBDA acc, t : acc + Len(t.steps), 0, Traces)
AllConsumed == /\ PrintT(<<"CONSUMED", TLCGet("distinct"), TotalLines>>)
               /\ TLCGet("distinct") = TotalLines
=============================================================================
