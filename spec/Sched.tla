------------------------------- MODULE Sched -------------------------------
(***************************************************************************)
(* DAWGIE scheduler core: pl/schedule.py (organize, next_job_batch,        *)
(* complete, update, purge, build) composed with the part of pl/farm.py    *)
(* that turns released jobs into task messages (dispatch/_put) and applies *)
(* worker replies (Hand._res).                                             *)
(*                                                                         *)
(* One action per reactor callback (each callback is atomic in Twisted):   *)
(*   Run      fe.api.cmd_run -> schedule.organize                          *)
(*   Tick     farm.dispatch  -> schedule.next_job_batch, farm._put, place  *)
(*   TickFault  the same callback when something in its loop raises (the   *)
(*            code expects rerunid() / the database to throw): the jobs    *)
(*            not reached stay in farm._jobs and are retried next time     *)
(*   Reply    farm.Hand._res -> schedule.complete, update | purge          *)
(*   Reload   state.FSM.load -> farm.clear, schedule.build                 *)
(*                                                                         *)
(* The program (dependency graph) is a variable chosen in Init, so a       *)
(* single TLC run covers every program of the bound.  Workers are          *)
(* abstracted here (every queued task message is placed at once; module    *)
(* Farm covers placement): a unit is "in flight" from Tick until Reply.    *)
(*                                                                         *)
(* Pinned = TRUE gives the behaviour of the pinned commit (before the      *)
(* fix: commits), Pinned = FALSE the repaired behaviour.                   *)
(***************************************************************************)
EXTENDS Naturals, FiniteSets, Sequences, TLC

CONSTANTS Alg,        \* algorithm tags, e.g. {"t0.a","t1.b","t2.c"}
          Targets,    \* known targets
          Programs,   \* set of [kind : [Alg -> Kinds], ins : [Alg -> SUBSET (Alg \X Val)], vals : [Alg -> SUBSET Val]]
          MaxRun,     \* bound on external run requests
          MaxReload,  \* bound on reloads
          MaxFault,   \* bound on dispatch passes that are cut short by an exception
          Pinned      \* TRUE: pinned-tree deviations (findings 1, 2, 12)

ALL == "__all__"
Tg  == Targets \cup {ALL}
Outcomes == {"success", "empty", "failure", "invalid"}   \* empty: success with an empty value list (the algorithm stored nothing)
IsOk(out) == out \in {"success", "empty"}

VARIABLES prog,      \* the program (constant along a behaviour)
          todo,      \* [Alg -> SUBSET Tg]  node attribute 'todo'
          doing,     \* [Alg -> SUBSET Tg]  node attribute 'doing'
          hand,      \* [Alg -> SUBSET Tg]  node attribute 'handed' (fix for finding 12; unused when Pinned)
          held,      \* [Alg -> SUBSET Tg]  released (in 'doing') but no task message made yet: node attribute 'do' of
                     \*                     the jobs left in farm._jobs by a dispatch pass that raised
          que,       \* SUBSET Alg          schedule.que (order abstracted)
          fly,       \* [Alg \X Tg -> Nat]  GROUND TRUTH: task messages handed out and not yet answered
          stale,     \* [Alg \X Tg -> Nat]  in flight but released before the last reload
          nrec,      \* number of completion records appended (chronicle)
          ndrop,     \* number of replies for work released since the last load that were discarded
          runs,      \* external run requests used
          reloads,   \* reloads used
          faults     \* dispatch passes cut short

vars == <<prog, todo, doing, hand, held, que, fly, stale, nrec, ndrop, runs, reloads, faults>>

-----------------------------------------------------------------------------
(* Derived program structure -- declarative, NOT a transcription of dag.py *)

Kind(a)   == prog.kind[a]
IsAsp(a)  == Kind(a) = "analysis"
Parents(a) == { p[1] : p \in prog.ins[a] } \ {a}      \* an algorithm may read its own earlier output (an accumulator): no edge
Children(a) == { c \in Alg : a \in Parents(c) }

(* transitive closure of the declared inputs, computed once per behaviour
   (Init) and carried in prog.anc *)
ParentsIn(ins, a) == { p[1] : p \in ins[a] } \ {a}
RECURSIVE AncOf(_, _, _)
AncOf(ins, a, n) == IF n = 0 THEN {}
                    ELSE ParentsIn(ins, a) \cup UNION { AncOf(ins, p, n - 1) : p \in ParentsIn(ins, a) }
WithClosure(p) == [kind |-> p.kind, ins |-> p.ins, vals |-> p.vals,
                   \* feedback declarations (Algorithm.feedback()): values of DOWNSTREAM algorithms an algorithm wants to
                   \* see again.  They create no ordering edge (C09) but a new fed-back value re-schedules the declarer.
                   fb  |-> IF "fb" \in DOMAIN p THEN p.fb ELSE [a \in Alg |-> {}],
                   anc |-> [a \in Alg |-> AncOf(p.ins, a, Cardinality(Alg))]]
Anc(a)  == prog.anc[a]
Desc(a) == { d \in Alg : a \in prog.anc[d] }

Consumers(a, N) == { c \in Children(a) : \E v \in N : <<a, v>> \in prog.ins[c] }
                   \cup { c \in Alg : \E v \in N : <<a, v>> \in prog.fb[c] }       \* schedule.update: "following feedback loop"

-----------------------------------------------------------------------------
(* Ground truth                                                            *)

(* work released before the last (re)load is abandoned by the reload (its
   result is ignored), so it does not count as executing *)
Flying(a)  == { t \in Tg : fly[<<a, t>>] - stale[<<a, t>>] > 0 }
Work(a)    == todo[a] \cup doing[a] \cup Flying(a)          \* pending or executing
Blocked(a, t) ==
    \E b \in Anc(a) : \/ t \in Work(b)
                      \/ ALL \in Work(b)
                      \/ (t = ALL /\ Work(b) # {})
Executing(a, t) == t \in doing[a] \/ fly[<<a, t>>] - stale[<<a, t>>] > 0

-----------------------------------------------------------------------------
(* schedule.organize(task_names = S, targets = T)                          *)

Idle(td, dg, hd, a) == td[a] = {} /\ dg[a] = {} /\ (Pinned \/ hd[a] = {})

OrganizeTodo(td, S, T) ==
    [a \in Alg |->
        IF a \notin S THEN td[a]
        ELSE IF IsAsp(a) THEN td[a] \cup {ALL}
        ELSE IF ALL \in T THEN td[a] \cup Targets
        ELSE td[a] \cup T]

OrganizeQue(q, td, dg, hd, S) ==
    IF Pinned THEN q \cup S
    ELSE { a \in q \cup S : ~Idle(td, dg, hd, a) }      \* fix (finding 2): never queue an idle entry

-----------------------------------------------------------------------------
(* schedule.next_job_batch: which targets of job j may be released         *)

BusyOf(d) == todo[d] \cup doing[d] \cup (IF Pinned THEN {} ELSE hand[d])

Avail(j) ==
    LET deps  == que \cap Anc(j)        \* jobs.keys() & job.get('ancestry') -- real code uses dag.py's ancestry
        clear == \E d \in deps : \E t \in todo[j] : t = ALL \/ ALL \in BusyOf(d)
        own   == IF Pinned THEN {} ELSE doing[j] \cup hand[j]     \* fix (finding 1): the unit's own executing targets
    IN  IF clear \/ (~Pinned /\ ALL \in own) THEN {}
        ELSE { t \in todo[j] : (\A d \in deps : t \notin BusyOf(d)) /\ t \notin own }

Release == [a \in Alg |-> IF a \in que THEN Avail(a) ELSE {}]

-----------------------------------------------------------------------------
Init ==
    /\ prog \in { WithClosure(p) : p \in Programs }
    /\ todo = [a \in Alg |-> {}] /\ doing = [a \in Alg |-> {}] /\ hand = [a \in Alg |-> {}]
    /\ held = [a \in Alg |-> {}] /\ faults = 0
    /\ que = {}
    /\ fly = [u \in Alg \X Tg |-> 0] /\ stale = [u \in Alg \X Tg |-> 0]
    /\ nrec = 0 /\ ndrop = 0 /\ runs = 0 /\ reloads = 0

Run(S, T) ==
    /\ runs < MaxRun
    /\ runs' = runs + 1
    /\ todo' = OrganizeTodo(todo, S, T)
    /\ que' = OrganizeQue(que, todo', doing, hand, S)
    /\ UNCHANGED <<prog, doing, hand, held, fly, stale, nrec, ndrop, reloads, faults>>

(* farm.dispatch: _jobs.extend(next_job_batch()); then job by job (the ones left over from a pass that raised
   first) a task message per target of its 'do' set.  P = the jobs whose messages get made in this pass. *)
Cands == { a \in Alg : Release[a] \cup held[a] # {} }
TickPut(P) ==
    LET rel == Release
        put == [a \in Alg |-> IF a \in P THEN rel[a] \cup held[a] ELSE {}]
    IN
    /\ todo'  = [a \in Alg |-> todo[a] \ rel[a]]
    /\ doing' = [a \in Alg |-> doing[a] \cup rel[a]]
    /\ held'  = [a \in Alg |-> IF a \in P THEN {} ELSE held[a] \cup rel[a]]
    /\ hand'  = IF Pinned THEN hand ELSE [a \in Alg |-> hand[a] \cup put[a]]
    /\ fly'   = [u \in Alg \X Tg |-> IF u[2] \in put[u[1]] THEN fly[u] + 1 ELSE fly[u]]
    /\ UNCHANGED <<prog, que, stale, nrec, ndrop, runs, reloads>>

Tick == Cands # {} /\ TickPut(Cands) /\ UNCHANGED faults

TickFaultP(P) ==    \* the pass raises before every job has been served
    /\ faults < MaxFault /\ faults' = faults + 1
    /\ P \subseteq Cands /\ P # Cands
    /\ TickPut(P)
TickFault == \E P \in SUBSET Alg : TickFaultP(P)

(* schedule.complete applied to doing/hand/que *)
CompleteDoing(a, t) == [doing EXCEPT ![a] = IF t = ALL THEN {} ELSE @ \ {t}]
CompleteHand(a, t)  == IF Pinned THEN hand ELSE [hand EXCEPT ![a] = @ \ {t}]

(* schedule.purge(node, t): node and every descendant reachable through the
   algorithm tree lose t from do / doing / todo *)
PurgeSet(a) == {a} \cup Desc(a)

Reply(a, t, out, new, old) ==
    /\ IF old THEN stale[<<a, t>>] > 0 ELSE fly[<<a, t>>] - stale[<<a, t>>] > 0
    /\ out = "success" \/ new = {}
    /\ new \subseteq prog.vals[a]
    /\ fly' = [fly EXCEPT ![<<a, t>>] = @ - 1]
    /\ LET isStale == old IN
       /\ stale' = IF isStale THEN [stale EXCEPT ![<<a, t>>] = @ - 1] ELSE stale
       /\ IF isStale /\ ~Pinned
          THEN \* fix (finding 14): a result of work released before the last (re)load is ignored
               UNCHANGED <<todo, doing, hand, held, que, nrec, ndrop>>
          ELSE IF a \notin que
          THEN \* schedule.find raises IndexError: "Could not find job"
               /\ ndrop' = IF isStale THEN ndrop ELSE ndrop + 1
               /\ UNCHANGED <<todo, doing, hand, held, que, nrec>>
          ELSE LET dg == CompleteDoing(a, t)
                   hd == CompleteHand(a, t)
                   q1 == IF Idle(todo, dg, hd, a) THEN que \ {a} ELSE que
               IN  /\ nrec' = nrec + 1
                   /\ ndrop' = ndrop
                   /\ IF IsOk(out)
                      THEN LET S  == Consumers(a, new)
                               td == OrganizeTodo(todo, S, {t})
                           IN  /\ todo' = td /\ doing' = dg /\ hand' = hd /\ held' = held
                               /\ que' = IF S = {} /\ Pinned THEN q1    \* organize([]) rebuilds the same queue
                                         ELSE OrganizeQue(q1, td, dg, hd, S)
                      ELSE LET P  == PurgeSet(a)
                               td == [x \in Alg |-> IF x \in P THEN todo[x] \ {t} ELSE todo[x]]
                               dp == [x \in Alg |-> IF x \in P THEN dg[x] \ {t} ELSE dg[x]]
                           IN  /\ todo' = td /\ doing' = dp /\ hand' = hd
                               \* work withdrawn before its message was made is simply gone (it was never handed out)
                               /\ held' = [x \in Alg |-> IF x \in P THEN held[x] \ {t} ELSE held[x]]
                               /\ que' = IF Pinned THEN q1
                                         ELSE { x \in q1 : ~Idle(td, dp, hd, x) }    \* fix (finding 2)
    /\ UNCHANGED <<prog, runs, reloads, faults>>

(* state.FSM.load: farm.clear() + schedule.build() -- fresh graph, empty queue;
   units in flight stay in flight and will answer later (stale).  S = the set
   of algorithms whose version changed. *)
Reload(S) ==
    /\ reloads < MaxReload
    /\ reloads' = reloads + 1
    /\ stale' = fly
    /\ todo' = [a \in Alg |-> IF a \in S THEN (IF IsAsp(a) THEN {ALL} ELSE Targets) ELSE {}]
    /\ doing' = [a \in Alg |-> {}] /\ hand' = [a \in Alg |-> {}] /\ held' = [a \in Alg |-> {}]     \* farm.clear(): _jobs too
    /\ que' = OrganizeQue({}, todo', doing', hand', S)
    /\ UNCHANGED <<prog, fly, nrec, ndrop, runs, faults>>

RunChoices == { S \in SUBSET Alg : Cardinality(S) \in 1..2 }

Next ==
    \/ \E S \in RunChoices, T \in SUBSET Tg : Run(S, T)
    \/ Tick \/ TickFault
    \/ \E a \in Alg, t \in Tg, out \in Outcomes : \E new \in SUBSET prog.vals[a], old \in BOOLEAN : Reply(a, t, out, new, old)
    \/ \E S \in SUBSET Alg : Reload(S)

Spec == Init /\ [][Next]_vars
FairSpec == Spec /\ WF_vars(Tick) /\ WF_vars(\E a \in Alg, t \in Tg : \E new \in SUBSET prog.vals[a] : Reply(a, t, "success", new, FALSE))

-----------------------------------------------------------------------------
(* PROPERTY LEVEL -- restates the given properties over the abstract      *)
(* state, independent of how the code achieves them.                       *)

TypeOK ==
    /\ todo \in [Alg -> SUBSET Tg] /\ doing \in [Alg -> SUBSET Tg] /\ que \subseteq Alg
    /\ \A a \in Alg : held[a] \subseteq doing[a]

Released(a, t) == fly'[<<a, t>>] > fly[<<a, t>>]
Answered(a, t) == fly'[<<a, t>>] < fly[<<a, t>>]

(* C01: a unit released in this step was not blocked in the pre-state *)
Decided(a, t) == t \in doing'[a] /\ t \notin doing[a]          \* next_job_batch let it go (its message may be made later)
C01_Release == [][ \A a \in Alg, t \in Tg : ((Released(a, t) /\ t \notin held[a]) \/ Decided(a, t)) => ~Blocked(a, t) ]_vars
(* only what was pending is ever handed out *)
C03_ReleasedWasPending == [][ \A a \in Alg, t \in Tg : Released(a, t) => t \in todo[a] \cup held[a] ]_vars

(* C03 *)
C03_OneAtATime == \A u \in Alg \X Tg : fly[u] - stale[u] <= 1
C03_NoDrop     == ndrop = 0
C03_ReplyRecorded ==
    [][ \A a \in Alg, t \in Tg : (Answered(a, t) /\ stale[<<a, t>>] = 0) => nrec' = nrec + 1 ]_vars

(* C04 *)
NothingPending == (\A a \in Alg : todo[a] = {} /\ held[a] = {}) /\ (\A u \in Alg \X Tg : fly[u] = stale[u])
C04_IdleEmpty  == NothingPending => que = {}
Eligible(a, t) == t \in todo[a] /\ ~Blocked(a, t) /\ ~Executing(a, t)
(* state form of "released by the next dispatch": the release function of the
   code contains every eligible unit *)
C04_Progress == \A a \in Alg, t \in Tg : Eligible(a, t) => (a \in que /\ t \in Avail(a))
C04_ProgressStep ==
    [][ (\E u \in Alg \X Tg : fly'[u] > fly[u]) =>
          \A a \in Alg, t \in Tg : Eligible(a, t) => (Released(a, t) \/ t \in held'[a]) ]_vars
(* a pass that does not raise leaves nothing behind *)
C04_HeldFlushed == [][ (faults' = faults /\ \E u \in Alg \X Tg : fly'[u] > fly[u]) => \A a \in Alg : held'[a] = {} ]_vars
(* no stuck state: pending work with nothing in flight must enable Tick *)
C04_NoStuck ==
    ((\E a \in Alg : todo[a] \cup held[a] # {}) /\ (\A u \in Alg \X Tg : fly[u] = 0)) => Cands # {}
C04_Quiesce == <>[](que = {} /\ \A u \in Alg \X Tg : fly[u] = 0)

(* C05 *)
C05_Contained ==
    [][ \A x \in Alg, t \in Tg, out \in {"failure", "invalid"} :
          (Reply(x, t, out, {}, FALSE) /\ x \in que) =>
          /\ \A d \in Desc(x) : t \notin todo'[d]
          /\ \A a \in Alg, s \in Tg :
               (a \notin (Desc(x) \cup {x}) \/ s # t) =>
                  /\ (s \in todo[a] <=> s \in todo'[a])
                  /\ ((s \in doing[a] <=> s \in doing'[a]) \/ (a = x /\ t = ALL))
          /\ \A a \in Alg : todo'[a] \subseteq todo[a]
          /\ nrec' = nrec + 1 ]_vars

(* C02, step part *)
Affected(c, t) == IF IsAsp(c) THEN {ALL} ELSE IF t = ALL THEN Targets ELSE {t}
C02_Step ==
    [][ \A x \in Alg, t \in Tg : \A N \in SUBSET prog.vals[x] :
          (Reply(x, t, "success", N, FALSE) /\ x \in que) =>
          LET C == Consumers(x, N) IN
          /\ \A c \in C : Affected(c, t) \subseteq todo'[c]
          /\ \A c \in Alg \ C : todo'[c] = todo[c] ]_vars

=============================================================================
