\* validation of recorded traces: TRACE_FILE=<ndjson> tlc -workers 8 -config Version_Trace.cfg Version_Trace.tla
SPECIFICATION TraceSpec
CONSTANTS
  MaxV = 2
POSTCONDITION AllConsumed
CHECK_DEADLOCK FALSE
