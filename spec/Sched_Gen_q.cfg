SPECIFICATION GenSpec
CONSTANTS
  Alg = {"t0.a", "t1.b", "t2.c"}
  Targets = {"T1", "T2"}
  Programs <- Programs3Alg
  MaxRun = 1
  MaxReload = 0
  Pinned = FALSE
VIEW View
ACTION_CONSTRAINT Emit
CHECK_DEADLOCK FALSE
