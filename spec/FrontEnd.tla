------------------------------ MODULE FrontEnd ------------------------------
(***************************************************************************)
(* C19 -- the DAWGIE front end never serves a file outside its roots and   *)
(* never runs a command for a stranger.                                    *)
(*                                                                         *)
(* (a) Static jail:  Python/dawgie/fe/__init__.py :: _static and           *)
(*     StaticContent.render_GET.  A small file tree (two roots, an outside *)
(*     part, symbolic links pointing inside and outside), requests of at   *)
(*     most MaxSegs segments, path resolution like pathlib.Path.resolve.   *)
(* (b) Access:  Python/dawgie/fe/basis.py :: DynamicContent.__render with  *)
(*     dawgie.security.sanctioned / is_sanctioned.  The endpoints are read *)
(*     from the real routing tree at run time and arrive as constants.     *)
(*                                                                         *)
(* Two levels (DESIGN 2.1):                                                *)
(*   PROPERTY LEVEL      Jail, RefServed, Denied   -- what C19 says        *)
(*   IMPLEMENTATION      ImplServed, ImplRan       -- what the code does   *)
(* Pinned = TRUE transcribes _static of the pinned commit, Pinned = FALSE  *)
(* the repaired function (fixes/C19_static.patch).                         *)
(*                                                                         *)
(* The module is function shaped: the only variable is the case under      *)
(* consideration; TLC enumerates the whole bounded input domain as initial *)
(* states and evaluates the invariants on each.                            *)
(***************************************************************************)
EXTENDS Naturals, Sequences, FiniteSets, TLC

CONSTANTS MaxSegs,    \* longest request path, in segments
          FullLeadSegs, \* paths of up to this many segments are tried with 0, 1 and 2 leading slashes, longer ones with 1
          Pinned,     \* TRUE: _static as in the pinned commit
          Endpoints,  \* registered endpoints, each a tuple of path segments, e.g. <<"api","cmd","run">>
          EpGET, EpPOST, EpPUT, EpDEL,  \* endpoints registered for HttpMethod.GET / POST / PUT / DEL
          SiteHooks   \* which of the site-specific access hooks (DOMAIN Form below) are enumerated

VARIABLE c            \* the case: a static request or an access situation
vars == <<c>>

-----------------------------------------------------------------------------
(*                          (a)  THE FILE TREE                             *)
(* Paths are tuples of names below an unnamed scratch directory; "T" is    *)
(* the top of the modelled tree.  The harness builds exactly this tree     *)
(* (exported by FrontEnd_Gen!Tree) four empty directories deep, so that    *)
(* MaxSegs <= 5 times ".." from a root stays in empty scratch space:       *)
(* `Above` is absorbing and holds no file.                                 *)
(*                                                                         *)
(*   T/file                      OUTSIDE                                   *)
(*   T/etc/{file,index.html}     OUTSIDE  ("etc" shares a string prefix    *)
(*                               with root 2 "et": catches containment by  *)
(*                               string prefix)                            *)
(*   T/fe/                       ROOT 1 = dawgie.context.fe_path           *)
(*     file  dir/index.html                                                *)
(*     link_in  -> T/fe/dir      link to a directory inside                *)
(*     link_out -> T/etc         link to a directory outside               *)
(*   T/et/                       ROOT 2 = the site directory               *)
(*     index.html file dir/{file,index.html} dir/dir/file                  *)
(*     link_in  -> T/et/dir/file            link to a file inside          *)
(*     link_out -> T/file                   link to a file outside         *)
(*     dir/link_out -> T/file               the same, one level down       *)
(*     dir/dir/index.html -> T/etc/index.html   directory index that is a  *)
(*                                              link to a file outside     *)
(***************************************************************************)
Top   == <<"T">>
Above == <<>>
Root1 == <<"T", "fe">>
Root2 == <<"T", "et">>
Roots == <<Root1, Root2>>          \* order of the loop in _static

Dirs  == { Top, <<"T","etc">>,
           Root1, <<"T","fe","dir">>,
           Root2, <<"T","et","dir">>, <<"T","et","dir","dir">> }
Files == { <<"T","file">>, <<"T","etc","file">>, <<"T","etc","index.html">>,
           <<"T","fe","file">>, <<"T","fe","dir","index.html">>,
           <<"T","et","index.html">>, <<"T","et","file">>,
           <<"T","et","dir","file">>, <<"T","et","dir","index.html">>,
           <<"T","et","dir","dir","file">> }
LinkPairs == { << <<"T","fe","link_in">>,  <<"T","fe","dir">> >>,
               << <<"T","fe","link_out">>, <<"T","etc">> >>,
               << <<"T","et","link_in">>,  <<"T","et","dir","file">> >>,
               << <<"T","et","link_out">>, <<"T","file">> >>,
               << <<"T","et","dir","link_out">>, <<"T","file">> >>,
               << <<"T","et","dir","dir","index.html">>, <<"T","etc","index.html">> >> }
IsLink(p) == \E l \in LinkPairs : l[1] = p
LinkTo(p) == (CHOOSE l \in LinkPairs : l[1] = p)[2]       \* targets are never links
Final(p)  == IF IsLink(p) THEN LinkTo(p) ELSE p           \* what open()/is_file()/is_dir() look at
IsDir(p)  == Final(p) \in Dirs
IsFile(p) == Final(p) \in Files

PathPrefix(d, p) == Len(d) <= Len(p) /\ SubSeq(p, 1, Len(d)) = d
Inside(p, d)   == PathPrefix(d, p)                          \* Path.is_relative_to, component-wise
InRoots(p)     == \E i \in DOMAIN Roots : Inside(p, Roots[i])
ASSUME \A l \in LinkPairs : ~IsLink(l[2]) /\ l[2] \in Dirs \cup Files /\ InRoots(l[1])
ASSUME \A f \in Files \cup Dirs : f = Top \/ SubSeq(f, 1, Len(f) - 1) \in Dirs

(* os.path.realpath(strict=False) one component at a time: "" and "." vanish
   (pathlib drops them when the path is parsed), ".." pops the resolved
   prefix lexically, a link is replaced by its target, a missing name is
   appended as it is. *)
Step(cur, s) ==
    IF s \in {"", "."} THEN cur
    ELSE IF cur = Above THEN Above
    ELSE IF s = ".." THEN SubSeq(cur, 1, Len(cur) - 1)
    ELSE Final(Append(cur, s))
RECURSIVE Walk(_, _)
Walk(cur, segs) == IF segs = <<>> THEN cur ELSE Walk(Step(cur, Head(segs)), Tail(segs))

-----------------------------------------------------------------------------
(*                           (a)  REQUESTS                                 *)
Alphabet == {"..", ".", "", "dir", "file", "link_in", "link_out", "%2e%2e", "etc"}
Query    == "?q=1"
SegSeqs(lo, hi) == UNION { [1..n -> Alphabet] : n \in lo..hi }
Requests == [k : {"static"}, lead : 0..2, segs : SegSeqs(1, FullLeadSegs), q : BOOLEAN]
       \cup [k : {"static"}, lead : {1},  segs : SegSeqs(FullLeadSegs + 1, MaxSegs), q : BOOLEAN]

(* request.uri is handed to _static undecoded and with its query string, so
   the query is part of the last file name *)
EffSegs(r) == IF r.q THEN [r.segs EXCEPT ![Len(r.segs)] = @ \o Query] ELSE r.segs
RECURSIVE Join(_)
Join(s) == IF Len(s) = 1 THEN s[1] ELSE s[1] \o "/" \o Join(Tail(s))
Slashes(n) == IF n = 0 THEN "" ELSE IF n = 1 THEN "/" ELSE "//"
Uri(r) == Slashes(r.lead) \o Join(EffSegs(r))

-----------------------------------------------------------------------------
(*                       (a)  PROPERTY LEVEL                               *)
(* Jail: whatever is served is a file inside one of the roots.             *)
Jail(S) == \A f \in S : f \in Files /\ InRoots(f)

(* Reference for "normal serving": the file the request names under root d
   (directory -> its index.html, every link followed), provided it lies
   inside d; the first root that has one wins. *)
Target(d, r) == LET p == Walk(d, EffSegs(r)) IN IF p \in Dirs THEN Step(p, "index.html") ELSE p
Legit(d, r)  == Inside(Target(d, r), d) /\ Target(d, r) \in Files
RefServed(r) ==
    LET hits == { i \in DOMAIN Roots : Legit(Roots[i], r) } IN
    IF hits = {} THEN {}
    ELSE { Target(Roots[CHOOSE i \in hits : \A j \in hits : i <= j], r) }

(* requests any deployment must keep serving: ordinary names only *)
PlainNames == {"", "dir", "file", "link_in"}
Plain(r)   == ~r.q /\ \A i \in DOMAIN r.segs : r.segs[i] \in PlainNames
(* the jail matters for r: under some root the named path leaves that root *)
Escapes(r)   == \E i \in DOMAIN Roots : ~Inside(Target(Roots[i], r), Roots[i])
NamesOutsideFile(r) == \E i \in DOMAIN Roots : Target(Roots[i], r) \in Files /\ ~InRoots(Target(Roots[i], r))

-----------------------------------------------------------------------------
(*                 (a)  IMPLEMENTATION-SHAPED  _static                      *)
(* for d in [fe_path, bdir]:                                               *)
(*     ffn = (d / fn).resolve()                                            *)
(*     if not ffn.is_relative_to(d): continue                              *)
(*     if ffn.is_dir(): ffn = ffn / 'index.html'      # not resolved again *)
(*     if ffn.is_file(): break                                             *)
(* if ffn.is_file(): serve ffn          # PINNED: tests the LAST ffn, also *)
(*                                      # after a jail break               *)
(* The loop state is [ffn, hit]; Body is one iteration.                    *)
PinnedBody(st, d, r) ==
    IF st.hit THEN st
    ELSE LET cand == Walk(d, EffSegs(r)) IN
         IF ~Inside(cand, d) THEN [ffn |-> cand, hit |-> FALSE]
         ELSE LET f == IF IsDir(cand) THEN Append(cand, "index.html") ELSE cand IN
              [ffn |-> f, hit |-> IsFile(f)]
(* repaired: the directory index is resolved before the containment test
   and only a path that passed the test is served *)
FixedBody(st, d, r) ==
    IF st.hit THEN st
    ELSE LET cand == Walk(d, EffSegs(r))
             f    == IF IsDir(cand) THEN Step(cand, "index.html") ELSE cand IN
         IF ~Inside(f, d) THEN st
         ELSE IF IsFile(f) THEN [ffn |-> f, hit |-> TRUE] ELSE st
RECURSIVE Loop(_, _, _)
Loop(st, i, r) ==
    IF i > Len(Roots) THEN st
    ELSE Loop(IF Pinned THEN PinnedBody(st, Roots[i], r) ELSE FixedBody(st, Roots[i], r), i + 1, r)
ImplServed(r) ==
    LET st == Loop([ffn |-> Above, hit |-> FALSE], 1, r) IN
    IF Pinned THEN (IF IsFile(st.ffn) THEN {Final(st.ffn)} ELSE {})
    ELSE (IF st.hit THEN {st.ffn} ELSE {})

-----------------------------------------------------------------------------
(*                            (b)  ACCESS                                  *)
HttpMethods == {"GET", "POST", "PUT", "DELETE", "HEAD", "OPTIONS"}
Transports  == {"tcp", "tls_anon", "tls_cert"}   \* no TLS / TLS without / with a client certificate
FailingHooks == {"raises", "nomodule", "noattr", "empty"}
                \* dawgie.context.sanction_override: a hook that raises and three names that cannot be resolved

(* Site-specific access hooks.  dawgie.context.sanction_override names any
   callable (endpoint, cert); nothing makes it answer with a bool.  What a
   hook call can produce is one of
       True | some other truthy object | False | some other falsy object | an exception
   and the meaning of an access hook is "anything that is not truthy denies".
   A site hook is a POLICY (whom it grants) and a FORM (with which Python
   values it says yes and no).  The policy modelled is the most liberal one
   the property leaves room for: everybody may do everything except that a
   stranger gets no command.  (A hook that itself grants commands to
   strangers is outside the property.)  The forms pair the usual ways a hook
   ends: a comparison (True/False), "cert and known(cert)" (None for no
   certificate), a count of matching grants (0), a matching name or list of
   matching grants ("" / []). *)
Truthy == {"True", "one", "str"}                       \* True, 1, "yes"
Falsy  == {"False", "None", "zero", "estr", "elist"}   \* False, None, 0, "", []
Form   == [ site_bool  |-> [yes |-> "True", no |-> "False"],
            site_none  |-> [yes |-> "one",  no |-> "None"],
            site_zero  |-> [yes |-> "one",  no |-> "zero"],
            site_estr  |-> [yes |-> "str",  no |-> "estr"],
            site_elist |-> [yes |-> "str",  no |-> "elist"] ]
ASSUME SiteHooks \subseteq DOMAIN Form
ASSUME \A h \in DOMAIN Form : Form[h].yes \in Truthy /\ Form[h].no \in Falsy
Hooks       == {"default"} \cup FailingHooks \cup SiteHooks
Situations  == [k : {"access"}, e : Endpoints, m : HttpMethods, certs : BOOLEAN, tr : Transports, hook : Hooks]

(* PROPERTY LEVEL *)
CmdWords     == {"run", "reset", "submit", "snapshot"}
IsCommand(e) == e[Len(e)] \in CmdWords
Commands     == { e \in Endpoints : IsCommand(e) }
HasCert(s)   == s.tr = "tls_cert"
Stranger(s)  == s.certs /\ ~HasCert(s)            \* certificates configured, none presented
HookFails(s) == s.hook \in FailingHooks
IsSite(s)    == s.hook \in DOMAIN Form
SiteGrants(s) == ~(Stranger(s) /\ IsCommand(s.e))                 \* the policy of the site hooks
Answer(s)    == IF ~IsSite(s) THEN "n/a"                            \* the value the site hook returns when asked
                ELSE IF SiteGrants(s) THEN Form[s.hook].yes ELSE Form[s.hook].no
HookSaysNo(s) == IsSite(s) /\ Answer(s) \notin Truthy             \* "anything that is not truthy denies"
Denied(s)    == HookFails(s) \/ HookSaysNo(s) \/ (Stranger(s) /\ IsCommand(s.e))

(* IMPLEMENTATION SHAPED: twisted Resource.render dispatches on the method
   (HEAD falls back to GET, anything without a render_ method is refused),
   DynamicContent.__render asks security.sanctioned first, then calls the
   handler if the method is one of those it was registered with.  AllAccess
   is the literal allow-list of security.is_sanctioned. *)
AllAccess == {
    <<"app","db","item">>, <<"app","db","lockview">>, <<"app","db","prime">>, <<"app","db","targets">>,
    <<"app","db","versions">>, <<"app","pl","log">>, <<"app","pl","state">>, <<"app","schedule","crew">>,
    <<"app","schedule","doing">>, <<"app","schedule","events">>, <<"app","schedule","failure">>,
    <<"app","schedule","success">>, <<"app","schedule","tasks">>, <<"app","schedule","todo">>,
    <<"app","search","completion","sv">>, <<"app","search","completion","tn">>, <<"app","filter","admin">>,
    <<"app","filter","dev">>, <<"app","filter","user">>, <<"app","search","ri">>, <<"app","search","sv">>,
    <<"app","search","tn">>, <<"app","changeset.txt">>, <<"app","state","status">>, <<"app","versions">>,
    <<"api","ae","name">>, <<"api","database","runid","max">>, <<"api","database","runnables">>,
    <<"api","database","search">>, <<"api","database","filter","target">>, <<"api","database","filter","task">>,
    <<"api","database","filter","alg">>, <<"api","database","filter","sv">>, <<"api","database","targets">>,
    <<"api","database","view">>, <<"api","df_model","statistics">>, <<"api","logs","recent">>,
    <<"api","pipeline","state">>, <<"api","rev","current">>, <<"api","schedule","doing">>,
    <<"api","schedule","events">>, <<"api","schedule","failed">>, <<"api","schedule","in-progress">>,
    <<"api","schedule","stats">>, <<"api","schedule","succeeded">>, <<"api","schedule","to-do">> }
Dispatch(m)   == IF m = "HEAD" THEN "GET" ELSE m
Routable(m)   == m \in {"GET", "POST", "PUT", "DELETE", "HEAD"}
Registered(e, m) == \/ m = "GET" /\ e \in EpGET
                    \/ m = "POST" /\ e \in EpPOST
                    \/ m = "PUT" /\ e \in EpPUT
                    \/ m = "DELETE" /\ e \in EpDEL
IsSanctioned(s) == s.certs => (HasCert(s) \/ s.e \in AllAccess)
(* security.sanctioned hands the value of the hook through untouched (False
   when the hook cannot be called or raises); __render refuses on `not value` *)
Sanctioned(s) == IF HookFails(s) THEN FALSE
                 ELSE IF IsSite(s) THEN Answer(s) \in Truthy
                 ELSE IsSanctioned(s)
ImplRan(s) == /\ Routable(s.m)
              /\ Sanctioned(s)
              /\ Registered(s.e, Dispatch(s.m))

-----------------------------------------------------------------------------
Cases == Requests \cup Situations
Init  == c \in Cases
Next  == UNCHANGED c
Spec  == Init /\ [][Next]_vars

(* invariants, one per clause; each speaks about the case in c *)
C19_Jail        == c.k = "static" => Jail(ImplServed(c))
C19_StillServes == c.k = "static" => (Plain(c) => ImplServed(c) = RefServed(c))
StaticConforms  == c.k = "static" => ImplServed(c) = RefServed(c)      \* transcription = reference
C19_NoCommandForStrangers == c.k = "access" => ((Stranger(c) /\ IsCommand(c.e)) => ~ImplRan(c))
C19_HookFailClosed        == c.k = "access" => (HookFails(c) => ~ImplRan(c))
AccessConforms            == c.k = "access" => (Denied(c) => ~ImplRan(c))      \* transcription against the whole access table
(* the model is not vacuous: something is served, something runs *)
RefJail == c.k = "static" => Jail(RefServed(c))
=============================================================================
