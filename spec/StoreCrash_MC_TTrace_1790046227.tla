---- MODULE StoreCrash_MC_TTrace_1790046227 ----
EXTENDS Sequences, TLCExt, Toolbox, StoreCrash_MC, Naturals, TLC

_expression ==
    LET StoreCrash_MC_TEExpression == INSTANCE StoreCrash_MC_TEExpression
    IN StoreCrash_MC_TEExpression!expression
----

_trace ==
    LET StoreCrash_MC_TETrace == INSTANCE StoreCrash_MC_TETrace
    IN StoreCrash_MC_TETrace!trace
----

_inv ==
    ~(
        TLCGet("level") = Len(_TETrace)
        /\
        prime = (("T1.A.1" :> "n_c1"))
        /\
        blobs = (<<>>)
        /\
        pre = ({})
        /\
        uname = ("n_c1")
        /\
        nupd = (1)
        /\
        uex = (FALSE)
        /\
        uc = ("c1")
        /\
        orph = ({})
        /\
        pc = ("recorded")
        /\
        uk = ("T1.A.1")
        /\
        up = (TRUE)
        /\
        rep = ("none")
        /\
        nev = (0)
        /\
        dprime = (<<>>)
    )
----

_init ==
    /\ uex = _TETrace[1].uex
    /\ nupd = _TETrace[1].nupd
    /\ pc = _TETrace[1].pc
    /\ orph = _TETrace[1].orph
    /\ prime = _TETrace[1].prime
    /\ nev = _TETrace[1].nev
    /\ rep = _TETrace[1].rep
    /\ pre = _TETrace[1].pre
    /\ uname = _TETrace[1].uname
    /\ dprime = _TETrace[1].dprime
    /\ uc = _TETrace[1].uc
    /\ uk = _TETrace[1].uk
    /\ up = _TETrace[1].up
    /\ blobs = _TETrace[1].blobs
----

_next ==
    /\ \E i,j \in DOMAIN _TETrace:
        /\ \/ /\ j = i + 1
              /\ i = TLCGet("level")
        /\ uex  = _TETrace[i].uex
        /\ uex' = _TETrace[j].uex
        /\ nupd  = _TETrace[i].nupd
        /\ nupd' = _TETrace[j].nupd
        /\ pc  = _TETrace[i].pc
        /\ pc' = _TETrace[j].pc
        /\ orph  = _TETrace[i].orph
        /\ orph' = _TETrace[j].orph
        /\ prime  = _TETrace[i].prime
        /\ prime' = _TETrace[j].prime
        /\ nev  = _TETrace[i].nev
        /\ nev' = _TETrace[j].nev
        /\ rep  = _TETrace[i].rep
        /\ rep' = _TETrace[j].rep
        /\ pre  = _TETrace[i].pre
        /\ pre' = _TETrace[j].pre
        /\ uname  = _TETrace[i].uname
        /\ uname' = _TETrace[j].uname
        /\ dprime  = _TETrace[i].dprime
        /\ dprime' = _TETrace[j].dprime
        /\ uc  = _TETrace[i].uc
        /\ uc' = _TETrace[j].uc
        /\ uk  = _TETrace[i].uk
        /\ uk' = _TETrace[j].uk
        /\ up  = _TETrace[i].up
        /\ up' = _TETrace[j].up
        /\ blobs  = _TETrace[i].blobs
        /\ blobs' = _TETrace[j].blobs

\* Uncomment the ASSUME below to write the states of the error trace
\* to the given file in Json format. Note that you can pass any tuple
\* to `JsonSerialize`. For example, a sub-sequence of _TETrace.
    \* ASSUME
    \*     LET J == INSTANCE Json
    \*         IN J!JsonSerialize("StoreCrash_MC_TTrace_1790046227.json", _TETrace)

=============================================================================

 Note that you can extract this module `StoreCrash_MC_TEExpression`
  to a dedicated file to reuse `expression` (the module in the 
  dedicated `StoreCrash_MC_TEExpression.tla` file takes precedence 
  over the module `StoreCrash_MC_TEExpression` below).

---- MODULE StoreCrash_MC_TEExpression ----
EXTENDS Sequences, TLCExt, Toolbox, StoreCrash_MC, Naturals, TLC

expression == 
    [
        \* To hide variables of the `StoreCrash_MC` spec from the error trace,
        \* remove the variables below.  The trace will be written in the order
        \* of the fields of this record.
        uex |-> uex
        ,nupd |-> nupd
        ,pc |-> pc
        ,orph |-> orph
        ,prime |-> prime
        ,nev |-> nev
        ,rep |-> rep
        ,pre |-> pre
        ,uname |-> uname
        ,dprime |-> dprime
        ,uc |-> uc
        ,uk |-> uk
        ,up |-> up
        ,blobs |-> blobs
        
        \* Put additional constant-, state-, and action-level expressions here:
        \* ,_stateNumber |-> _TEPosition
        \* ,_uexUnchanged |-> uex = uex'
        
        \* Format the `uex` variable as Json value.
        \* ,_uexJson |->
        \*     LET J == INSTANCE Json
        \*     IN J!ToJson(uex)
        
        \* Lastly, you may build expressions over arbitrary sets of states by
        \* leveraging the _TETrace operator.  For example, this is how to
        \* count the number of times a spec variable changed up to the current
        \* state in the trace.
        \* ,_uexModCount |->
        \*     LET F[s \in DOMAIN _TETrace] ==
        \*         IF s = 1 THEN 0
        \*         ELSE IF _TETrace[s].uex # _TETrace[s-1].uex
        \*             THEN 1 + F[s-1] ELSE F[s-1]
        \*     IN F[_TEPosition - 1]
    ]

=============================================================================



Parsing and semantic processing can take forever if the trace below is long.
 In this case, it is advised to uncomment the module below to deserialize the
 trace from a generated binary file.

\*
\*---- MODULE StoreCrash_MC_TETrace ----
\*EXTENDS IOUtils, StoreCrash_MC, TLC
\*
\*trace == IODeserialize("StoreCrash_MC_TTrace_1790046227.bin", TRUE)
\*
\*=============================================================================
\*

---- MODULE StoreCrash_MC_TETrace ----
EXTENDS StoreCrash_MC, TLC

trace == 
    <<
    ([prime |-> <<>>,blobs |-> <<>>,pre |-> {},uname |-> "-",nupd |-> 0,uex |-> FALSE,uc |-> "-",orph |-> {},pc |-> "idle",uk |-> "-",up |-> FALSE,rep |-> "none",nev |-> 0,dprime |-> <<>>]),
    ([prime |-> <<>>,blobs |-> <<>>,pre |-> {},uname |-> "-",nupd |-> 0,uex |-> FALSE,uc |-> "-",orph |-> {},pc |-> "idle",uk |-> "-",up |-> TRUE,rep |-> "none",nev |-> 0,dprime |-> <<>>]),
    ([prime |-> <<>>,blobs |-> <<>>,pre |-> {},uname |-> "-",nupd |-> 1,uex |-> FALSE,uc |-> "c1",orph |-> {},pc |-> "made",uk |-> "T1.A.1",up |-> TRUE,rep |-> "none",nev |-> 0,dprime |-> <<>>]),
    ([prime |-> <<>>,blobs |-> <<>>,pre |-> {},uname |-> "-",nupd |-> 1,uex |-> FALSE,uc |-> "c1",orph |-> {},pc |-> "staged",uk |-> "T1.A.1",up |-> TRUE,rep |-> "none",nev |-> 0,dprime |-> <<>>]),
    ([prime |-> <<>>,blobs |-> <<>>,pre |-> {},uname |-> "n_c1",nupd |-> 1,uex |-> FALSE,uc |-> "c1",orph |-> {},pc |-> "digested",uk |-> "T1.A.1",up |-> TRUE,rep |-> "none",nev |-> 0,dprime |-> <<>>]),
    ([prime |-> ("T1.A.1" :> "n_c1"),blobs |-> <<>>,pre |-> {},uname |-> "n_c1",nupd |-> 1,uex |-> FALSE,uc |-> "c1",orph |-> {},pc |-> "recorded",uk |-> "T1.A.1",up |-> TRUE,rep |-> "none",nev |-> 0,dprime |-> <<>>])
    >>
----


=============================================================================

---- CONFIG StoreCrash_MC_TTrace_1790046227 ----
CONSTANTS
    Contents <- C3
    Keys <- K4
    MaxUpd = 4
    MaxEv = 4
    RecordFirst = TRUE

INVARIANT
    _inv

CHECK_DEADLOCK
    \* CHECK_DEADLOCK off because of PROPERTY or INVARIANT above.
    FALSE

INIT
    _init

NEXT
    _next

CONSTANT
    _TETrace <- _trace

ALIAS
    _expression
=============================================================================
\* Generated on Tue Sep 22 03:03:55 UTC 2026