----------------------------- MODULE Moment_MC -----------------------------
(* Exhaustive comparison of the transcription of schedule._delay with the
   property clauses: every specification of the bounded domain at every clock
   instant.  One root state per day (so that the work spreads over the TLC
   workers), one successor per specification; each invariant quantifies over
   the times of day, i.e. every state at phase 1 stands for
   Cardinality(NowTimes) evaluations of _delay.  Days = the day indices to
   cover (all of 0 .. NowDays-1 in the registered configurations). *)
EXTENDS Moment
CONSTANTS Days
VARIABLES phase, day, spec
mvars == <<phase, day, spec>>
NoSpec == [k |-> "none", n |-> 0, t |-> 0]
AllNowDays == 0 .. (NowDays - 1)
LeapYearDays == DayIndex(2024, 1, 1) .. DayIndex(2024, 12, 31)
QuickDays == DayIndex(2023, 12, 20) .. DayIndex(2024, 3, 31)      \* year end, 31 January, leap February, 31 March (quick tier)
MCInit == phase = 0 /\ day \in Days /\ spec = NoSpec
MCNext == phase = 0 /\ phase' = 1 /\ day' = day /\ spec' \in Specs
MCSpec == MCInit /\ [][MCNext]_mvars

Now(tod) == day * DAY + tod
Res(tod) == DelayImpl(spec, Now(tod))
C20_Computable == phase = 1 => \A tod \in NowTimes : Computable(Res(tod))
C20_Lands      == phase = 1 => \A tod \in NowTimes : Lands(OccTab[spec], Now(tod), Res(tod))
C20_NotFurther == phase = 1 => \A tod \in NowTimes : NotFurther(OccTab[spec], Now(tod), Res(tod))
(* sanity of the domain itself: every specification has an occurrence at or
   after every clock instant except a date that has passed *)
DomainSane == phase = 1 => \A tod \in NowTimes : (spec.k = "day" \/ \E m \in OccTab[spec] : m >= Now(tod))
=============================================================================
