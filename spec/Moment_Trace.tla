---------------------------- MODULE Moment_Trace ----------------------------
(***************************************************************************)
(* Validation of records of the REAL dawgie.pl.schedule._delay, run under  *)
(* an injected clock by harness/moment_h.py, against the property level of *)
(* module Moment.  One trace per (specification, block of days); one line  *)
(* per clock instant:                                                      *)
(*   top level: "mode":"delay"|"shape", "spec":{k,n,t}, "shape":{boot,day,   *)
(*   dom,dow,time : "none"|"ok"|"bad"}, "acc": the REAL rule_10 accepts it   *)
(*   (mode "delay": and dawgie.schedule() built it).  Mode "shape" takes the *)
(*   domain of the property from the real rule: every shape of MOMENT is     *)
(*   offered to it; for an accepted one _delay must be computable (and land  *)
(*   / not be further when it is a timed specification); ACCEPT = the rule   *)
(*   and the model's WellFormed disagree about a shape (drift, not alarm).   *)
(*   {"ev":"Delay","args":{"now":s,"y":..,"m":..,"d":..,"wd":..},          *)
(*    "obs":{"ok":bool,"d":seconds,"exc":"ValueError"|""}}                 *)
(* Failing clauses are printed, never abort.  DRIFT = the real function    *)
(* disagrees with the transcription DelayImpl (Variant).  CALBAD = the     *)
(* harness clock and the specification calendar disagree about the date of *)
(* an instant (machinery failure, not a verdict).                          *)
(***************************************************************************)
EXTENDS Moment, Json, IOUtils, SequencesExt

Traces == ndJsonDeserialize(IOEnv.TRACE_FILE)

VARIABLES tid, l, bad, drift
tvars == <<tid, l, bad, drift>>

SpecOf(t) == [k |-> Traces[t].spec.k, n |-> Traces[t].spec.n, t |-> Traces[t].spec.t]
ShapeOf(t) == [boot |-> Traces[t].shape.boot, day |-> Traces[t].shape.day, dom |-> Traces[t].shape.dom,
               dow |-> Traces[t].shape.dow, time |-> Traces[t].shape.time]
IsShape(t) == Traces[t].mode = "shape"
Rec(t, i) == Traces[t].steps[i]
ResOf(r)  == [ok |-> r.obs.ok, d |-> IF r.obs.ok THEN r.obs.d ELSE 0]

CalOk(r) == LET i == r.args.now \div DAY IN
            /\ i \in DayIdx
            /\ Cal[i].y = r.args.y /\ Cal[i].m = r.args.m /\ Cal[i].d = r.args.d /\ WD(i) = r.args.wd

Check(t, i) ==
    LET r == Rec(t, i)
        s == SpecOf(t)
    IN IF r.ev # "Delay" \/ ~Traces[t].acc          \* acc: dawgie.schedule() built it and rule_10 accepts it
       THEN bad' = {} /\ drift' = FALSE
       ELSE /\ bad' = IF IsShape(t) THEN FailedShape(ShapeOf(t), r.args.now, ResOf(r))
                                   ELSE FailedA(OccTab[s], r.args.now, ResOf(r))
            /\ drift' = IF IsShape(t) /\ ~Timed(ShapeOf(t)) THEN FALSE
                        ELSE ResOf(r) # DelayImpl(IF IsShape(t) THEN SpecOfShape(ShapeOf(t)) ELSE s, r.args.now)
            /\ (bad' # {} => PrintT(<<"CLAUSE", Traces[t].tid, i, r.ev, bad'>>))
            /\ (drift' => PrintT(<<"DRIFT", Traces[t].tid, i, r.ev>>))
            /\ (~CalOk(r) => PrintT(<<"CALBAD", Traces[t].tid, i, r.args.now>>))

TraceInit == /\ tid \in 1 .. Len(Traces)
             /\ l = 1
             /\ IF IsShape(tid) THEN ShapeOf(tid) \in Shapes ELSE SpecOf(tid) \in Specs
             /\ (IsShape(tid) /\ Traces[tid].acc # WellFormed(ShapeOf(tid))) =>
                    PrintT(<<"ACCEPT", Traces[tid].tid, Traces[tid].acc, WellFormed(ShapeOf(tid))>>)
             /\ bad = {} /\ drift = FALSE
TraceNext == /\ l < Len(Traces[tid].steps)
             /\ l' = l + 1
             /\ UNCHANGED tid
             /\ Check(tid, l + 1)
TraceSpec == TraceInit /\ [][TraceNext]_tvars

TotalLines  == FoldLeft(LAMBDA acc, t : acc + Len(t.steps), 0, Traces)
AllConsumed == /\ PrintT(<<"CONSUMED", TLCGet("distinct"), TotalLines>>)
               /\ TLCGet("distinct") = TotalLines
=============================================================================
