---------------------------- MODULE Moment_Trace ----------------------------
(***************************************************************************)
(* Validation of records of the REAL dawgie.pl.schedule._delay, run under  *)
(* an injected clock by harness/moment_h.py, against the property level of *)
(* module Moment.  One trace per (specification, block of days); one line  *)
(* per clock instant:                                                      *)
(*   top level: "spec":{k,n,t}, "acc": accepted by dawgie.schedule/rule_10  *)
(*   {"ev":"Delay","args":{"now":s,"y":..,"m":..,"d":..,"wd":..},          *)
(*    "obs":{"ok":bool,"d":seconds,"exc":"ValueError"|""}}                 *)
(* Failing clauses are printed, never abort.  DRIFT = the real function    *)
(* disagrees with the transcription DelayImpl (Variant).  CALBAD = the     *)
(* harness clock and the specification calendar disagree about the date of *)
(* an instant (machinery failure, not a verdict).                          *)
(***************************************************************************)
EXTENDS Moment, Json, IOUtils, SequencesExt

Traces == ndJsonDeserialize(IOEnv.TRACE_FILE)

VARIABLES tid, l, bad, drift
tvars == <<tid, l, bad, drift>>

SpecOf(t) == [k |-> Traces[t].spec.k, n |-> Traces[t].spec.n, t |-> Traces[t].spec.t]
Rec(t, i) == Traces[t].steps[i]
ResOf(r)  == [ok |-> r.obs.ok, d |-> IF r.obs.ok THEN r.obs.d ELSE 0]

CalOk(r) == LET i == r.args.now \div DAY IN
            /\ i \in DayIdx
            /\ Cal[i].y = r.args.y /\ Cal[i].m = r.args.m /\ Cal[i].d = r.args.d /\ WD(i) = r.args.wd

Check(t, i) ==
    LET r == Rec(t, i)
        s == SpecOf(t)
    IN IF r.ev # "Delay" \/ ~Traces[t].acc          \* acc: dawgie.schedule() built it and rule_10 accepts it
       THEN bad' = {} /\ drift' = FALSE
       ELSE /\ bad' = FailedA(OccTab[s], r.args.now, ResOf(r))
            /\ drift' = (ResOf(r) # DelayImpl(s, r.args.now))
            /\ (bad' # {} => PrintT(<<"CLAUSE", Traces[t].tid, i, r.ev, bad'>>))
            /\ (drift' => PrintT(<<"DRIFT", Traces[t].tid, i, r.ev>>))
            /\ (~CalOk(r) => PrintT(<<"CALBAD", Traces[t].tid, i, r.args.now>>))

TraceInit == /\ tid \in 1 .. Len(Traces)
             /\ l = 1
             /\ SpecOf(tid) \in Specs
             /\ bad = {} /\ drift = FALSE
TraceNext == /\ l < Len(Traces[tid].steps)
             /\ l' = l + 1
             /\ UNCHANGED tid
             /\ Check(tid, l + 1)
TraceSpec == TraceInit /\ [][TraceNext]_tvars

TotalLines  == FoldLeft(LAMBDA acc, t : acc + Len(t.steps), 0, Traces)
AllConsumed == /\ PrintT(<<"CONSUMED", TLCGet("distinct"), TotalLines>>)
               /\ TLCGet("distinct") = TotalLines
=============================================================================
