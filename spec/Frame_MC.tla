------------------------------ MODULE Frame_MC ------------------------------
EXTENDS Frame
AllBits == { [p1 |-> a, sigA |-> b, p4 |-> c, sigB |-> d, echo |-> e] : a \in BOOLEAN, b \in BOOLEAN, c \in BOOLEAN, d \in BOOLEAN, e \in BOOLEAN }
GoodOnly == {AllGood}
Lens3 == { <<1>>, <<2, 1>>, <<1, 3, 2>>, <<3, 3, 3>> }
Lens2 == { <<1>>, <<2, 1>>, <<3, 2>> }
LensTiny == { <<1>>, <<2, 1>> }
LensSmall == { <<1>>, <<2, 1>>, <<1, 1, 1>> }
=============================================================================
