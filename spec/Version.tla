------------------------------ MODULE Version ------------------------------
(***************************************************************************)
(* C15 -- version order is total; a version change reschedules exactly its *)
(* owner.                                                                  *)
(*                                                                         *)
(* Part (a)  dawgie.Version (Python/dawgie/__init__.py): the six           *)
(*   comparison operators and newer() against the lexicographic order on   *)
(*   (design, implementation, bug fix).                                    *)
(*     reference       Lex                       (declarative)             *)
(*     transcription   ImplEq .. ImplNewer       (the operators as written)*)
(*     clauses         PairClauses(a, b, r, q)   r = results of `a op b`,  *)
(*                                               q = results of `b op a`   *)
(*                                                                         *)
(* Part (b)  pl/version.py current(), pl/schedule.py _diff()/build()/      *)
(*   organize(), db/shelve versions(): at a (re)load an algorithm is       *)
(*   scheduled for every known target (the all-targets marker for an       *)
(*   analysis) exactly when its own version or that of one of its state    *)
(*   vectors or values is not among the persisted versions, and nothing    *)
(*   else is scheduled.                                                    *)
(*     reference       Changed / Want            (declarative)             *)
(*     transcription   ImplDiff / ImplAns / ImplTodo / ImplQue             *)
(*     clauses         BuildClauses(c, r)        c = normalised case,      *)
(*                                               r = que + todo observed   *)
(*                                                                         *)
(* Both properties are function shaped: a "state" is one input together    *)
(* with the output.  Version_MC enumerates the bounded input domain and    *)
(* checks the clauses on the transcription's output; Version_Trace         *)
(* evaluates the very same clause operators on outputs recorded from the   *)
(* real code (harness/version_h.py).                                       *)
(***************************************************************************)
EXTENDS Naturals, Sequences, FiniteSets, TLC

CONSTANT MaxV          \* version fields of part (a) range over 0..MaxV

ALL == "__all__"

Fail(name, ok) == IF ok THEN {} ELSE {name}
Rng(s) == { s[i] : i \in DOMAIN s }
Occ(s, x) == Cardinality({ i \in DOMAIN s : s[i] = x })       \* list.count(x)
NoDup(s) == \A i, j \in DOMAIN s : i # j => s[i] # s[j]

-----------------------------------------------------------------------------
(*                       part (a): the version order                       *)

Ver == (0..MaxV) \X (0..MaxV) \X (0..MaxV)      \* <<design, implementation, bugfix>>

(* reference: strict lexicographic order *)
Lex(a, b) == \E i \in 1..3 : /\ a[i] < b[i]
                             /\ \A j \in 1..(i - 1) : a[j] = b[j]

(* the reference really is a strict total order on the bounded domain
   (checked once as an ASSUME of Version_MC) *)
LexIsStrictTotalOrder ==
    /\ \A a \in Ver : ~Lex(a, a)
    /\ \A a, b \in Ver : a # b => (Lex(a, b) \/ Lex(b, a))
    /\ \A a, b \in Ver : ~(Lex(a, b) /\ Lex(b, a))
    /\ \A a, b, c \in Ver : (Lex(a, b) /\ Lex(b, c)) => Lex(a, c)

(* transcription of class Version, operator by operator *)
Dn(v) == v[1]
Im(v) == v[2]
Bf(v) == v[3]
ImplEq(a, b) == /\ Dn(a) = Dn(b) /\ Im(a) = Im(b) /\ Bf(a) = Bf(b)      \* all([...])
ImplNe(a, b) == \/ Dn(a) # Dn(b) \/ Im(a) # Im(b) \/ Bf(a) # Bf(b)      \* any([...])
ImplGe(a, b) ==
    IF Dn(a) > Dn(b) THEN TRUE
    ELSE IF Dn(a) = Dn(b)
         THEN IF Im(a) > Im(b) THEN TRUE
              ELSE IF Im(a) = Im(b) THEN Bf(a) >= Bf(b)
              ELSE FALSE
         ELSE FALSE
ImplGt(a, b) == ImplGe(a, b) /\ ImplNe(a, b)
ImplLe(a, b) ==
    IF Dn(a) < Dn(b) THEN TRUE
    ELSE IF Dn(a) = Dn(b)
         THEN IF Im(a) < Im(b) THEN TRUE
              ELSE IF Im(a) = Im(b) THEN Bf(a) <= Bf(b)
              ELSE FALSE
         ELSE FALSE
ImplLt(a, b) == ImplLe(a, b) /\ ImplNe(a, b)
ImplNewer(a, than) ==
    \/ Dn(than) < Dn(a)
    \/ (Dn(than) = Dn(a) /\ Im(than) < Im(a))
    \/ (Dn(than) = Dn(a) /\ Im(than) = Im(a) /\ Bf(than) < Bf(a))

ImplOps(a, b) == [ok |-> TRUE,
                  eq |-> ImplEq(a, b), ne |-> ImplNe(a, b),
                  lt |-> ImplLt(a, b), le |-> ImplLe(a, b),
                  gt |-> ImplGt(a, b), ge |-> ImplGe(a, b),
                  newer |-> ImplNewer(a, b)]

One(x) == IF x THEN 1 ELSE 0

(* property level.  r: the seven results of `a op b` (newer = a.newer(VERSION of b)),
   q: the results of `b op a`; r.ok / q.ok: every operator returned a bool *)
PairClauses(a, b, r, q) ==
         Fail("C15.Evaluates", r.ok /\ q.ok)
    \cup \* agreement with the lexicographic order
         Fail("C15.LtIsLex", r.lt <=> Lex(a, b))
    \cup Fail("C15.GtIsLex", r.gt <=> Lex(b, a))
    \cup Fail("C15.LeIsLex", r.le <=> (Lex(a, b) \/ a = b))
    \cup Fail("C15.GeIsLex", r.ge <=> (Lex(b, a) \/ a = b))
    \cup Fail("C15.EqIsIdentity", r.eq <=> (a = b))
    \cup Fail("C15.NeIsDifference", r.ne <=> (a # b))
    \cup Fail("C15.NewerIsLex", r.newer <=> Lex(b, a))
    \cup \* agreement of the operators with each other (no reference involved)
         Fail("C15.Converse", /\ (r.lt <=> q.gt) /\ (r.gt <=> q.lt)
                              /\ (r.le <=> q.ge) /\ (r.ge <=> q.le))
    \cup Fail("C15.LeIsLtOrEq", /\ (r.le <=> (r.lt \/ r.eq))
                                /\ (r.ge <=> (r.gt \/ r.eq)))
    \cup Fail("C15.Trichotomy", One(r.lt) + One(r.eq) + One(r.gt) = 1)
    \cup Fail("C15.NeIsNotEq", r.ne <=> ~r.eq)
    \cup Fail("C15.EqSymmetric", (r.eq <=> q.eq) /\ (r.ne <=> q.ne))
    \cup Fail("C15.NewerIsGt", r.newer <=> r.gt)

-----------------------------------------------------------------------------
(*             part (b): which algorithms a (re)load schedules             *)
(*                                                                         *)
(* normalised case c:                                                      *)
(*   c.algs     sequence of [name, kind]        name = "task.algorithm"    *)
(*   c.targets  sequence of known targets (what db.targets() answers)      *)
(*   c.els      sequence, one entry per versioned element of the engine    *)
(*      owner    name of the algorithm the element belongs to (structural) *)
(*      level    1 algorithm, 2 state vector, 3 value                      *)
(*      cur      version the software declares for it ("d.i.b")            *)
(*      present  the element has an entry in the persisted versions        *)
(*      pers     sequence of persisted version strings                     *)
(*      aincur / acur      what the real version.current() reported        *)
(*      apresent / apers   what the version tables given to build() hold   *)
(*   c.extra    number of entries version.current() reported for things    *)
(*              that are not elements of the engine                        *)
(* result r:  r.err ("" = build returned), r.que (sequence of names),      *)
(*            r.nodes sequence of [tag, todo (sequence)] one per DAG node  *)

VerStr(v) == ToString(v[1]) \o "." \o ToString(v[2]) \o "." \o ToString(v[3])

AlgNames(c) == { c.algs[i].name : i \in DOMAIN c.algs }
KindOf(c, a) == c.algs[CHOOSE i \in DOMAIN c.algs : c.algs[i].name = a].kind

(* reference *)
Stale(e) == ~e.present \/ e.cur \notin Rng(e.pers)       \* "not among the persisted versions"
Changed(c, a) == \E i \in DOMAIN c.els : c.els[i].owner = a /\ Stale(c.els[i])
Want(c, a) == IF ~Changed(c, a) THEN {}
              ELSE IF KindOf(c, a) = "analysis" THEN {ALL}
              ELSE Rng(c.targets)

NodesOf(r, a) == { i \in DOMAIN r.nodes : r.nodes[i].tag = a }

BuildClauses(c, r) ==
         Fail("C15.Completes", r.err = "")
    \cup Fail("C15.OwnerScheduled",
              \A a \in AlgNames(c) : Changed(c, a) =>
                 /\ NodesOf(r, a) # {}
                 /\ \A i \in NodesOf(r, a) : Rng(r.nodes[i].todo) = Want(c, a)
                 /\ (Want(c, a) # {} => a \in Rng(r.que)))
    \cup Fail("C15.NothingElse",
              /\ \A a \in AlgNames(c) : ~Changed(c, a) =>
                    /\ a \notin Rng(r.que)
                    /\ \A i \in NodesOf(r, a) : r.nodes[i].todo = <<>>
              /\ \A i \in DOMAIN r.nodes : r.nodes[i].tag \in AlgNames(c) /\ NoDup(r.nodes[i].todo)
              /\ Rng(r.que) \subseteq { a \in AlgNames(c) : Want(c, a) # {} }
              /\ NoDup(r.que))
    \cup Fail("C15.CurrentFaithful",
              /\ c.extra = 0
              /\ \A i \in DOMAIN c.els : c.els[i].aincur /\ c.els[i].acur = c.els[i].cur)
    \cup Fail("C15.PersistedFaithful",
              \A i \in DOMAIN c.els : /\ (c.els[i].apresent <=> c.els[i].present)
                                      /\ Rng(c.els[i].apers) = Rng(c.els[i].pers))

(* transcription: _diff per table, the owner prefix, the loop of build(), organize() *)
ImplDiff(c, lvl) ==                                         \* schedule._diff(latest[lvl-1], previous[lvl])
    { i \in DOMAIN c.els : /\ c.els[i].level = lvl
                           /\ c.els[i].aincur
                           /\ (~c.els[i].apresent \/ Occ(c.els[i].apers, c.els[i].acur) = 0) }
ImplAns(c) == { c.els[i].owner : i \in ImplDiff(c, 1) \cup ImplDiff(c, 2) \cup ImplDiff(c, 3) }
ImplTodo(c, a) ==
    IF a \notin ImplAns(c) THEN {}
    ELSE (IF KindOf(c, a) = "analysis" THEN {ALL} ELSE Rng(c.targets))      \* build(): n.set('todo', ...)
         \cup (IF KindOf(c, a) = "analysis" THEN {ALL} ELSE {})               \* organize(ans): targets = set()
ImplQue(c) == { a \in AlgNames(c) : ImplTodo(c, a) # {} }                     \* organize(): non-idle jobs only

(* does an observed result coincide with the transcription? (drift, never an alarm) *)
ImplAgrees(c, r) ==
    /\ r.err = ""
    /\ Rng(r.que) = ImplQue(c)
    /\ \A i \in DOMAIN r.nodes : Rng(r.nodes[i].todo) = ImplTodo(c, r.nodes[i].tag)

-----------------------------------------------------------------------------
(* the model: one state per input; pr for part (a), cs for part (b)         *)
VARIABLES pr, cs
mvars == <<pr, cs>>
=============================================================================
