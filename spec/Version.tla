------------------------------ MODULE Version ------------------------------
(***************************************************************************)
(* C15 -- version order is total; a version change reschedules exactly its *)
(* owner.                                                                  *)
(*                                                                         *)
(* Part (a)  dawgie.Version (Python/dawgie/__init__.py): the six           *)
(*   comparison operators and newer() against the lexicographic order on   *)
(*   (design, implementation, bug fix).                                    *)
(*     reference       Lex                       (declarative)             *)
(*     transcription   ImplEq .. ImplNewer       (the operators as written)*)
(*     clauses         PairClauses(a, b, r, q)   r = results of `a op b`,  *)
(*                                               q = results of `b op a`   *)
(*                                                                         *)
(* Part (b)  pl/version.py current(), pl/schedule.py _diff()/build()/      *)
(*   organize(), db/shelve versions(): at a (re)load an algorithm is       *)
(*   scheduled for every known target (the all-targets marker for an       *)
(*   analysis) exactly when its own version or that of one of its state    *)
(*   vectors or values is not among the persisted versions, and nothing    *)
(*   else is scheduled.                                                    *)
(*     reference       Changed / Want            (declarative)             *)
(*     transcription   ImplDiff / ImplAns / ImplTodo / ImplQue             *)
(*     clauses         BuildClauses(c, r)        c = normalised case,      *)
(*                                               r = que + todo observed   *)
(*                                                                         *)
(* Both properties are function shaped: a "state" is one input together    *)
(* with the output.  Version_MC enumerates the bounded input domain and    *)
(* checks the clauses on the transcription's output; Version_Trace         *)
(* evaluates the very same clause operators on outputs recorded from the   *)
(* real code (harness/version_h.py).                                       *)
(***************************************************************************)
EXTENDS Naturals, Sequences, FiniteSets, TLC

CONSTANT MaxV          \* version fields of part (a) range over 0..MaxV

ALL == "__all__"

Fail(name, ok) == IF ok THEN {} ELSE {name}
Rng(s) == { s[i] : i \in DOMAIN s }
Occ(s, x) == Cardinality({ i \in DOMAIN s : s[i] = x })       \* list.count(x)
NoDup(s) == \A i, j \in DOMAIN s : i # j => s[i] # s[j]

-----------------------------------------------------------------------------
(*                       part (a): the version order                       *)

Ver == (0..MaxV) \X (0..MaxV) \X (0..MaxV)      \* <<design, implementation, bugfix>>

(* reference: strict lexicographic order *)
Lex(a, b) == \E i \in 1..3 : /\ a[i] < b[i]
                             /\ \A j \in 1..(i - 1) : a[j] = b[j]

(* the reference really is a strict total order on the bounded domain
   (checked once as an ASSUME of Version_MC) *)
LexIsStrictTotalOrder ==
    /\ \A a \in Ver : ~Lex(a, a)
    /\ \A a, b \in Ver : a # b => (Lex(a, b) \/ Lex(b, a))
    /\ \A a, b \in Ver : ~(Lex(a, b) /\ Lex(b, a))
    /\ \A a, b, c \in Ver : (Lex(a, b) /\ Lex(b, c)) => Lex(a, c)

(* transcription of class Version, operator by operator *)
Dn(v) == v[1]
Im(v) == v[2]
Bf(v) == v[3]
ImplEq(a, b) == /\ Dn(a) = Dn(b) /\ Im(a) = Im(b) /\ Bf(a) = Bf(b)      \* all([...])
ImplNe(a, b) == \/ Dn(a) # Dn(b) \/ Im(a) # Im(b) \/ Bf(a) # Bf(b)      \* any([...])
ImplGe(a, b) ==
    IF Dn(a) > Dn(b) THEN TRUE
    ELSE IF Dn(a) = Dn(b)
         THEN IF Im(a) > Im(b) THEN TRUE
              ELSE IF Im(a) = Im(b) THEN Bf(a) >= Bf(b)
              ELSE FALSE
         ELSE FALSE
ImplGt(a, b) == ImplGe(a, b) /\ ImplNe(a, b)
ImplLe(a, b) ==
    IF Dn(a) < Dn(b) THEN TRUE
    ELSE IF Dn(a) = Dn(b)
         THEN IF Im(a) < Im(b) THEN TRUE
              ELSE IF Im(a) = Im(b) THEN Bf(a) <= Bf(b)
              ELSE FALSE
         ELSE FALSE
ImplLt(a, b) == ImplLe(a, b) /\ ImplNe(a, b)
ImplNewer(a, than) ==
    \/ Dn(than) < Dn(a)
    \/ (Dn(than) = Dn(a) /\ Im(than) < Im(a))
    \/ (Dn(than) = Dn(a) /\ Im(than) = Im(a) /\ Bf(than) < Bf(a))

ImplOps(a, b) == [ok |-> TRUE,
                  eq |-> ImplEq(a, b), ne |-> ImplNe(a, b),
                  lt |-> ImplLt(a, b), le |-> ImplLe(a, b),
                  gt |-> ImplGt(a, b), ge |-> ImplGe(a, b),
                  newer |-> ImplNewer(a, b)]

One(x) == IF x THEN 1 ELSE 0

(* property level.  r: the seven results of `a op b` (newer = a.newer(VERSION of b)),
   q: the results of `b op a`; r.ok / q.ok: every operator returned a bool *)
PairClauses(a, b, r, q) ==
         Fail("C15.Evaluates", r.ok /\ q.ok)
    \cup \* agreement with the lexicographic order
         Fail("C15.LtIsLex", r.lt <=> Lex(a, b))
    \cup Fail("C15.GtIsLex", r.gt <=> Lex(b, a))
    \cup Fail("C15.LeIsLex", r.le <=> (Lex(a, b) \/ a = b))
    \cup Fail("C15.GeIsLex", r.ge <=> (Lex(b, a) \/ a = b))
    \cup Fail("C15.EqIsIdentity", r.eq <=> (a = b))
    \cup Fail("C15.NeIsDifference", r.ne <=> (a # b))
    \cup Fail("C15.NewerIsLex", r.newer <=> Lex(b, a))
    \cup \* agreement of the operators with each other (no reference involved)
         Fail("C15.Converse", /\ (r.lt <=> q.gt) /\ (r.gt <=> q.lt)
                              /\ (r.le <=> q.ge) /\ (r.ge <=> q.le))
    \cup Fail("C15.LeIsLtOrEq", /\ (r.le <=> (r.lt \/ r.eq))
                                /\ (r.ge <=> (r.gt \/ r.eq)))
    \cup Fail("C15.Trichotomy", One(r.lt) + One(r.eq) + One(r.gt) = 1)
    \cup Fail("C15.NeIsNotEq", r.ne <=> ~r.eq)
    \cup Fail("C15.EqSymmetric", (r.eq <=> q.eq) /\ (r.ne <=> q.ne))
    \cup Fail("C15.NewerIsGt", r.newer <=> r.gt)

-----------------------------------------------------------------------------
(*             part (b): which algorithms a (re)load schedules             *)
(*                                                                         *)
(* normalised case c:                                                      *)
(*   c.algs     sequence of [name, kind]        name = "task.algorithm"    *)
(*   c.targets  sequence of known targets (what db.targets() answers)      *)
(*   c.els      sequence, one entry per versioned element of the engine    *)
(*      owner    name of the algorithm the element belongs to (structural) *)
(*      level    1 algorithm, 2 state vector, 3 value                      *)
(*      incur    the software declares a version for it (always TRUE in    *)
(*               the reference view)                                       *)
(*      cur      that version ("d.i.b")                                    *)
(*      present  the element has an entry in the persisted versions        *)
(*      pers     sequence of persisted version strings                     *)
(* A recorded step has two such views: the reference view (versions        *)
(* declared by the generated engine, persisted lists chosen by TLC resp.   *)
(* recorded into the database) and the actual view (what the real          *)
(* version.current() reported and what the version tables handed to        *)
(* build() really held).  In the model the two coincide.                   *)
(* result r:  r.err ("" = build returned), r.que (sequence of names),      *)
(*            r.nodes sequence of [tag, todo (sequence)] one per DAG node  *)

VerStr(v) == ToString(v[1]) \o "." \o ToString(v[2]) \o "." \o ToString(v[3])

AlgNames(c) == { c.algs[i].name : i \in DOMAIN c.algs }
KindOf(c, a) == c.algs[CHOOSE i \in DOMAIN c.algs : c.algs[i].name = a].kind

(* reference *)
Stale(e) == ~e.present \/ e.cur \notin Rng(e.pers)       \* "not among the persisted versions"
Changed(c, a) == \E i \in DOMAIN c.els : c.els[i].owner = a /\ Stale(c.els[i])
ChangedSet(c) == { c.els[i].owner : i \in { k \in DOMAIN c.els : Stale(c.els[k]) } } \cap AlgNames(c)
WantIf(c, ch, a) == IF a \notin ch THEN {}
                    ELSE IF KindOf(c, a) = "analysis" THEN {ALL}
                    ELSE Rng(c.targets)
Want(c, a) == WantIf(c, ChangedSet(c), a)

NodesOf(r, a) == { i \in DOMAIN r.nodes : r.nodes[i].tag = a }

BuildClauses(c, r) ==
    LET ch == ChangedSet(c)
        que == Rng(r.que)
    IN
         Fail("C15.Completes", r.err = "")
    \cup Fail("C15.OwnerScheduled",
              \A a \in ch :
                 /\ NodesOf(r, a) # {}
                 /\ \A i \in NodesOf(r, a) : Rng(r.nodes[i].todo) = WantIf(c, ch, a)
                 /\ (WantIf(c, ch, a) # {} => a \in que))
    \cup Fail("C15.NothingElse",
              /\ \A a \in AlgNames(c) \ ch :
                    /\ a \notin que
                    /\ \A i \in NodesOf(r, a) : r.nodes[i].todo = <<>>
              /\ \A i \in DOMAIN r.nodes : r.nodes[i].tag \in AlgNames(c) /\ NoDup(r.nodes[i].todo)
              /\ que \subseteq { a \in ch : WantIf(c, ch, a) # {} }
              /\ NoDup(r.que))

(* the mechanisms that feed build(): ref = reference view, act = actual view,
   extra = number of entries version.current() reported for things that are not
   elements of the engine *)
FaithClauses(ref, act, extra) ==
         Fail("C15.CurrentFaithful",
              /\ extra = 0
              /\ \A i \in DOMAIN ref.els : act.els[i].incur /\ act.els[i].cur = ref.els[i].cur)
    \cup Fail("C15.PersistedFaithful",
              \A i \in DOMAIN ref.els : /\ (act.els[i].present <=> ref.els[i].present)
                                        /\ Rng(act.els[i].pers) = Rng(ref.els[i].pers))

(* transcription: _diff per table, the owner prefix, the loop of build(), organize() *)
ImplDiff(c, lvl) ==                                         \* schedule._diff(latest[lvl-1], previous[lvl])
    { i \in DOMAIN c.els : /\ c.els[i].level = lvl
                           /\ c.els[i].incur
                           /\ (~c.els[i].present \/ Occ(c.els[i].pers, c.els[i].cur) = 0) }
ImplAns(c) == { c.els[i].owner : i \in ImplDiff(c, 1) \cup ImplDiff(c, 2) \cup ImplDiff(c, 3) }
ImplTodoIf(c, ans, a) ==
    IF a \notin ans THEN {}
    ELSE (IF KindOf(c, a) = "analysis" THEN {ALL} ELSE Rng(c.targets))      \* build(): n.set('todo', ...)
         \cup (IF KindOf(c, a) = "analysis" THEN {ALL} ELSE {})               \* organize(ans): targets = set()
ImplTodo(c, a) == ImplTodoIf(c, ImplAns(c), a)
ImplQue(c) == LET ans == ImplAns(c) IN { a \in AlgNames(c) : ImplTodoIf(c, ans, a) # {} }   \* organize(): non-idle jobs only

(* does an observed result coincide with the transcription? (drift, never an alarm) *)
ImplAgrees(c, r) ==
    LET ans == ImplAns(c) IN
    /\ r.err = ""
    /\ Rng(r.que) = { a \in AlgNames(c) : ImplTodoIf(c, ans, a) # {} }
    /\ \A i \in DOMAIN r.nodes : Rng(r.nodes[i].todo) = ImplTodoIf(c, ans, r.nodes[i].tag)

-----------------------------------------------------------------------------
(* the model: one state per input.  ph = "pseed" / "pair" for part (a), "seed" /
   "case" for part (b); pr and cs hold the input (and, for a case, the output
   of the transcription) *)
VARIABLES ph, pr, cs
mvars == <<ph, pr, cs>>
=============================================================================
