------------------------------ MODULE Dag_Trace ------------------------------
(***************************************************************************)
(* Validation of the records produced by running the REAL dag.Construct    *)
(* (harness/dag_h.py) on the engines materialised from TLC's programs.     *)
(* One trace per program, two lines per trace (steps "construct" and       *)
(* "construct-reversed": the same engine with the factory lists reversed,  *)
(* i.e. another insertion order):                                          *)
(*   prog   the program as TLC exported it (Dag_Gen / Dag_Sim)             *)
(*   obs    ok / err, the algorithm tree (one record per node OBJECT met   *)
(*          by walking children from Construct.at: tag, children, ancestry,*)
(*          parents, feedback, level), the tags Node.iter yields, how many *)
(*          distinct objects Node.locate finds per tag, the tags of the    *)
(*          svt / tt / vt trees, and Construct.feedbacks                   *)
(* The graph record G is rebuilt from obs and judged by Dag!Clauses -- the *)
(* operator that also judges the model -- against the declarative graph    *)
(* computed from prog.  A failing clause is printed (verdicts are total);  *)
(* acceptance is POSTCONDITION AllConsumed.                                *)
(* DRIFT: the record differs from the transcription Dag!ConstructOp.       *)
(* OBSERVE (not claimed by C09): `level` does not increase along an edge.  *)
(***************************************************************************)
EXTENDS Dag, Json, IOUtils

Traces == ndJsonDeserialize(IOEnv.TRACE_FILE)

VARIABLES tid, l, bad, drift
tvars == <<vars, tid, l, bad, drift>>

RefOf(r) == [src |-> r.src, gran |-> r.gran, sv |-> r.sv, val |-> r.val]
ProgOf(j) ==
    LET A == DOMAIN j.kind IN
    [kind |-> [a \in A |-> j.kind[a]],
     pkg  |-> [a \in A |-> j.pkg[a]],
     nm   |-> [a \in A |-> j.nm[a]],
     vals |-> [a \in A |-> { <<x[1], x[2]>> : x \in ToSet(j.vals[a]) }],
     refs |-> [a \in A |-> { RefOf(r) : r \in ToSet(j.refs[a]) }],
     fb   |-> [a \in A |-> { RefOf(r) : r \in ToSet(j.fb[a]) }]]

(* the observable graph of Dag, section 2, from the logged record *)
GraphOf(o) ==
    IF ~o.ok THEN Failed ELSE
    LET idx     == DOMAIN o.nodes
        raw     == { o.nodes[i].tag : i \in idx }
        it      == ToSet(o.iter)
        N       == raw \cup it
        recs(t) == { i \in idx : o.nodes[i].tag = t }
        loc(t)  == LET L == { i \in DOMAIN o.located : o.located[i].tag = t }
                   IN IF L = {} THEN 0 ELSE o.located[CHOOSE i \in L : TRUE].n
    IN [ok    |-> TRUE,
        nodes |-> N,
        \* objects carrying the tag: met by the walk, yielded by Node.iter, found by Node.locate -- all three agree
        count |-> [t \in N |-> IF t \in it /\ loc(t) = Cardinality(recs(t)) THEN Cardinality(recs(t)) ELSE 0],
        kids  |-> [t \in N |-> UNION { ToSet(o.nodes[i].children) : i \in recs(t) }],
        par   |-> [t \in N |-> UNION { ToSet(o.nodes[i].parents)  : i \in recs(t) }],
        anc   |-> [t \in N |-> UNION { ToSet(o.nodes[i].ancestry) : i \in recs(t) }],
        fb    |-> [t \in N |-> UNION { ToSet(o.nodes[i].feedback) : i \in recs(t) }],
        svt   |-> ToSet(o.svt),
        tt    |-> ToSet(o.tt),
        vt    |-> ToSet(o.vt),
        fed   |-> { [v |-> e.v, to |-> e.to, alg |-> e.alg] : e \in ToSet(o.fed) }]

(* the survivor recorded for a fed-back value is one of the writers of the transcription *)
FedPossible(p, G) ==
    LET built == BuildAll(p) IN
    \A e \in G.fed : \E v \in UNION { FbOf(p, n) : n \in built.flat } :
        e.v = Name(v) /\ e.to \in { Name(n) : n \in FeedbackWriters(p, built, v) }

Drift(p, G) == ~(SameGraph(G, ConstructOp(p)) /\ (G.ok => FedPossible(p, G)))

LevelsIncrease(o) ==
    \A i, k \in DOMAIN o.nodes : o.nodes[k].tag \in ToSet(o.nodes[i].children) => o.nodes[i].level < o.nodes[k].level

Eval(t, i) ==
    LET tr == Traces[t]
        r  == tr.steps[i]
        p  == ProgOf(tr.prog)
        G  == GraphOf(r.obs) IN
    /\ bad' = (IF WellFormed(p) THEN Clauses(p, G) ELSE {"C09.NotACase"})
    /\ drift' = Drift(p, G)
    /\ (bad' # {} => PrintT(<<"CLAUSE", tr.tid, i, r.ev, bad'>>))
    /\ (drift' => PrintT(<<"DRIFT", tr.tid, i, r.ev>>))
    /\ ((r.obs.ok /\ ~LevelsIncrease(r.obs)) => PrintT(<<"OBSERVE", tr.tid, "level-not-increasing-along-an-edge">>))

TraceInit ==
    /\ tid \in 1..Len(Traces)
    /\ l = 0
    /\ bad = {} /\ drift = FALSE
    \* the variables of the action system of Dag are not used here
    /\ prog = <<>> /\ pc = "trace" /\ bt = EmptyTree /\ known = {} /\ par = <<>> /\ stack = <<>> /\ g = Failed

TraceNext ==
    /\ l < Len(Traces[tid].steps)
    /\ l' = l + 1
    /\ UNCHANGED <<tid, vars>>
    /\ Eval(tid, l + 1)

TraceSpec == TraceInit /\ [][TraceNext]_tvars

TotalLines == FoldLeft(LAMBDA acc, t : acc + Len(t.steps), 0, Traces)
(* one state per line plus the initial state of every trace *)
AllConsumed == /\ PrintT(<<"CONSUMED", TLCGet("distinct") - Len(Traces), TotalLines>>)
               /\ TLCGet("distinct") - Len(Traces) = TotalLines
=============================================================================
