-------------------------------- MODULE Dag --------------------------------
(***************************************************************************)
(* C09 -- the derived task graph is faithful to the declared dependencies. *)
(*                                                                         *)
(* Anchors: dawgie/pl/dag.py (Construct, Node), dawgie/util/refs.py        *)
(* (as_vref), dawgie/util/names.py (task_name), dawgie/pl/scan.py (the     *)
(* shape of the factories dictionary).                                     *)
(*                                                                         *)
(* A PROGRAM p is an algorithm engine reduced to what Construct reads:     *)
(*   p.kind[a]  "task" | "analysis" | "regress"   (a ranges over DOMAIN)   *)
(*   p.pkg[a], p.nm[a]   package and short name;  a = pkg.nm               *)
(*   p.vals[a]  set of <<state vector, value>> the algorithm produces      *)
(*   p.refs[a]  declared inputs  (previous / traits / variables)           *)
(*   p.fb[a]    declared feedback references                               *)
(* a reference is [src, gran, sv, val] with gran "alg" | "sv" | "val"      *)
(* (ALG_REF, SV_REF, V_REF); unused name parts are "".                     *)
(*                                                                         *)
(* Section 1  the DECLARATIVE graph: the meaning of C09, no algorithm.     *)
(* Section 2  the clauses of C09 over an abstract graph record G; the very *)
(*            same operator judges the model (Dag_MC) and the records of   *)
(*            the real code (Dag_Trace).                                   *)
(* Section 3  the IMPLEMENTATION-SHAPED transcription of Construct:        *)
(*            operators per phase and an action system whose _parents      *)
(*            phase explores every iteration order of the recursion.       *)
(***************************************************************************)
EXTENDS Naturals, Sequences, FiniteSets, TLC, SequencesExt

CONSTANT Programs          \* the bounded domain (a set of programs); unused by Dag_Trace

Kinds == {"task", "analysis", "regress"}
BuildOrder == <<"analysis", "regress", "task">>      \* Construct.__init__

AlgsOf(p)      == DOMAIN p.kind
ValsOfAlg(p, a) == { <<a, x[1], x[2]>> : x \in p.vals[a] }
ValuesOf(p)    == UNION { ValsOfAlg(p, a) : a \in AlgsOf(p) }

(* names as the code spells them: '.'.join([task, alg, sv, value]) *)
Name(n)   == n[1] \o "." \o n[2] \o "." \o n[3]
SvName(n) == n[1] \o "." \o n[2]
(* Construct.trim(tag, length) on a value node *)
Trim(p, n, len) == CASE len = 1 -> p.pkg[n[1]]
                     [] len = 2 -> n[1]
                     [] len = 3 -> SvName(n)
                     [] OTHER   -> Name(n)

-----------------------------------------------------------------------------
(* 1. DECLARATIVE GRAPH                                                    *)

(* the values a reference denotes *)
Denotes(p, r) ==
    { v \in ValuesOf(p) :
        /\ v[1] = r.src
        /\ \/ r.gran = "alg"
           \/ r.gran = "sv"  /\ v[2] = r.sv
           \/ r.gran = "val" /\ v[2] = r.sv /\ v[3] = r.val }

(* b declares a value of a as input -- at any granularity *)
Declares(p, b, a) == \E r \in p.refs[b] : r.src = a /\ Denotes(p, r) # {}

D_Edges(p)       == { e \in AlgsOf(p) \X AlgsOf(p) : Declares(p, e[2], e[1]) }
D_Children(p, a) == { b \in AlgsOf(p) : Declares(p, b, a) }
D_Parents(p, b)  == { a \in AlgsOf(p) : Declares(p, b, a) }

(* ancestors = transitive closure, by definition: a is an ancestor of b iff a
   chain of k declared edges leads from a to b, for some k; on N algorithms
   chains of at most N edges are enough (a longer one repeats an algorithm) *)
Compose(R, E) == { <<x[1], y[2]>> : <<x, y>> \in { q \in R \X E : q[1][2] = q[2][1] } }
RECURSIVE Chained(_, _)
Chained(E, k) == IF k = 1 THEN E ELSE Compose(Chained(E, k - 1), E)       \* joined by exactly k edges
D_AncRel(p) == LET E == D_Edges(p) IN UNION { Chained(E, k) : k \in 1..Cardinality(AlgsOf(p)) }
D_Anc(rel, b) == { e[1] : e \in { x \in rel : x[2] = b } }
Acyclic(p) == \A e \in D_AncRel(p) : e[1] # e[2]

(* feedback: a asks for values of later algorithms; never an ordering edge *)
D_FbAlgs(p, a)     == { r.src : r \in { x \in p.fb[a] : Denotes(p, x) # {} } }
D_Fed(p)           == UNION { UNION { Denotes(p, r) : r \in p.fb[a] } : a \in AlgsOf(p) }
D_Consumers(p, v)  == { a \in AlgsOf(p) : \E r \in p.fb[a] : v \in Denotes(p, r) }
D_FbPairs(p)       == { e \in AlgsOf(p) \X AlgsOf(p) : e[2] \in D_FbAlgs(p, e[1]) }

D_ValTags(p) == { Name(v) : v \in ValuesOf(p) }
D_SvTags(p)  == { SvName(v) : v \in ValuesOf(p) }
D_PkgTags(p) == { p.pkg[a] : a \in AlgsOf(p) }

IsRef(p, a, r, grans) ==
    /\ r.src \in AlgsOf(p) /\ r.src # a
    /\ r.gran \in grans
    /\ (r.gran = "alg" => r.sv = "" /\ r.val = "")
    /\ (r.gran = "sv" => r.val = "")
    /\ Denotes(p, r) # {}

WellFormed(p) ==
    /\ AlgsOf(p) # {}
    /\ \A a \in AlgsOf(p) :
          /\ p.kind[a] \in Kinds
          /\ a = p.pkg[a] \o "." \o p.nm[a]
          /\ p.vals[a] # {}
          /\ \A r \in p.refs[a] : IsRef(p, a, r, {"alg", "sv", "val"})
          /\ \A r \in p.fb[a] : IsRef(p, a, r, {"sv", "val"})
    /\ Acyclic(p)

-----------------------------------------------------------------------------
(* 2. THE CLAUSES OF C09                                                   *)
(* G is what can be observed of a Construct:                               *)
(*   ok      Construct returned                                            *)
(*   nodes   tags met by Node.iter from the roots of the algorithm tree    *)
(*   count   tag -> number of distinct node objects carrying it            *)
(*   kids, par, anc, fb   tag -> set of tags (children, `parents`,         *)
(*           `ancestry`, `feedback`)                                       *)
(*   svt, tt, vt   tags of the state-vector / task / value trees           *)
(*   fed     Construct.feedbacks as records [v, to, alg]: value name ->    *)
(*           tag it is mapped to, and the algorithm of that tag            *)
(***************************************************************************)
Fail(name, ok) == IF ok THEN {} ELSE {name}

Clauses(p, G) ==
    IF ~G.ok THEN {"C09.Constructs"} ELSE
    LET A   == AlgsOf(p)
        S   == A \cap G.nodes
        rel == D_AncRel(p)
        fbp == D_FbPairs(p)
        fedNames == { Name(v) : v \in D_Fed(p) }
    IN
    \* exactly one node per algorithm
    Fail("C09.OneNodePerAlgorithm", G.nodes = A /\ \A t \in G.nodes : G.count[t] = 1)
    \cup
    \* an edge exactly where an algorithm declares a value of another as input
    Fail("C09.Edges",   \A a \in S : G.kids[a] = D_Children(p, a))
    \cup
    Fail("C09.Parents", \A a \in S : G.par[a] = D_Parents(p, a))
    \cup
    \* ancestors are the transitive closure of those edges
    Fail("C09.Ancestry", \A a \in S : G.anc[a] = D_Anc(rel, a))
    \cup
    \* a feedback reference alone orders nothing, in either direction
    Fail("C09.FeedbackNoOrder",
         \A e \in { x \in fbp : x[1] \in S /\ x[2] \in S } :
            LET a == e[1]  c == e[2] IN
            /\ (c \in G.kids[a] \/ a \in G.par[c]) => Declares(p, c, a)
            /\ (a \in G.kids[c] \/ c \in G.par[a]) => Declares(p, a, c)
            /\ c \in G.anc[a] => c \in D_Anc(rel, a)
            /\ a \in G.anc[c] => a \in D_Anc(rel, c))
    \cup
    \* the feedback attribute names exactly the algorithms whose values are fed back
    Fail("C09.FeedbackAttr", \A a \in S : G.fb[a] = D_FbAlgs(p, a))
    \cup
    \* every fed-back value is mapped to a consumer
    Fail("C09.FeedbackMapped",
         \A v \in D_Fed(p) : \E e \in G.fed : e.v = Name(v) /\ e.alg \in D_Consumers(p, v))
    \cup
    \* ... and nothing else is
    Fail("C09.FeedbackOnlyDeclared",
         /\ \A e \in G.fed : e.v \in fedNames
         /\ \A e, f \in G.fed : e.v = f.v => e = f)
    \cup
    \* the other three trees hold exactly the declared state vectors, packages, values
    Fail("C09.Trees", G.svt = D_SvTags(p) /\ G.tt = D_PkgTags(p) /\ G.vt = D_ValTags(p))

ClauseNames == {"C09.Constructs", "C09.OneNodePerAlgorithm", "C09.Edges", "C09.Parents", "C09.Ancestry",
                "C09.FeedbackNoOrder", "C09.FeedbackAttr", "C09.FeedbackMapped", "C09.FeedbackOnlyDeclared",
                "C09.Trees"}

(* what makes a program a non-trivial case of a clause (vacuity counters) *)
Features(p) ==
    LET rel == D_AncRel(p)  E == D_Edges(p) IN
    (IF E # {} THEN {"edge"} ELSE {})
    \cup (IF rel # E THEN {"indirect-ancestor"} ELSE {})
    \cup (IF D_FbPairs(p) # {} THEN {"feedback"} ELSE {})
    \cup (IF \E e \in D_FbPairs(p) : e \notin rel /\ <<e[2], e[1]>> \notin rel THEN {"feedback-unrelated"} ELSE {})
    \cup (IF \E v \in D_Fed(p) : Cardinality(D_Consumers(p, v)) > 1 THEN {"feedback-shared"} ELSE {})
    \cup (IF \E a \in AlgsOf(p) : \E r \in p.refs[a] : r.gran = "alg" THEN {"ref-alg"} ELSE {})
    \cup (IF \E a \in AlgsOf(p) : \E r \in p.refs[a] : r.gran = "sv" THEN {"ref-sv"} ELSE {})
    \cup (IF \E a \in AlgsOf(p) : \E r \in p.refs[a] : r.gran = "val" THEN {"ref-val"} ELSE {})
    \cup (IF \E b \in AlgsOf(p) : Cardinality(D_Parents(p, b)) > 1 THEN {"shared-consumer"} ELSE {})
    \cup (IF \E a \in AlgsOf(p) : Cardinality(D_Children(p, a)) > 1 THEN {"shared-input"} ELSE {})
    \cup (IF \E a, b, c, d \in AlgsOf(p) : b # c /\ {<<a, b>>, <<a, c>>, <<b, d>>, <<c, d>>} \subseteq E THEN {"diamond"} ELSE {})
    \cup (IF \E a, b \in AlgsOf(p) : a # b /\ p.pkg[a] = p.pkg[b] THEN {"shared-package"} ELSE {})
    \* an algorithm with several inputs and an ancestor at least three edges away that no shorter chain reaches
    \cup (IF \E e \in Chained(E, 3) : e \notin E \cup Chained(E, 2) /\ Cardinality(D_Parents(p, e[2])) > 1
          THEN {"deep-join"} ELSE {})
    \* one consumer of two producers with the same short name and a common state vector / value name
    \cup (IF \E c \in AlgsOf(p) : \E a, b \in D_Parents(p, c) :
               a # b /\ p.nm[a] = p.nm[b] /\ p.vals[a] \cap p.vals[b] # {}
          THEN {"same-named-producers"} ELSE {})
    \* ... or a descendant of a join whose branches end in different roots two edges further up
    \cup (IF \E j \in AlgsOf(p) : \E b, c \in D_Parents(p, j) :
               b # c /\ D_Anc(rel, b) # {} /\ D_Anc(rel, c) # {} /\ D_Anc(rel, b) \cap D_Anc(rel, c) = {} /\ D_Children(p, j) # {}
          THEN {"join-with-descendant"} ELSE {})

-----------------------------------------------------------------------------
(* 3. TRANSCRIPTION OF Construct                                           *)

(* util.refs.as_vref: V_REF as is, SV_REF -> one V_REF per key of the state
   vector, ALG_REF -> its state vectors -> their keys *)
SvRefToVrefs(p, src, sv) == { <<src, sv, x[2]>> : x \in { y \in p.vals[src] : y[1] = sv } }
AlgRefToSvs(p, src)      == { x[1] : x \in p.vals[src] }
Expand(p, r) ==
    CASE r.gran = "val" -> { <<r.src, r.sv, r.val>> }
      [] r.gran = "sv"  -> SvRefToVrefs(p, r.src, r.sv)
      [] r.gran = "alg" -> UNION { SvRefToVrefs(p, r.src, s) : s \in AlgRefToSvs(p, r.src) }
AsVref(p, R) == UNION { Expand(p, r) : r \in R }

(* ---- _build_tree with _sub_task / _sub_analysis / _sub_regression -------
   bt = [flat, roots, edges]: value nodes by name, nodes of algorithms that
   declare no input, child lists (Node.add keeps one child per tag).       *)
EmptyTree == [flat |-> {}, roots |-> {}, edges |-> {}]
BuildTree(p, k, bt) ==
    LET A       == { a \in AlgsOf(p) : p.kind[a] = k }          \* routines of the factories of this kind
        mine    == UNION { ValsOfAlg(p, a) : a \in A }
        ins(fn) == AsVref(p, p.refs[fn[1]])                      \* sub_algs(alg, fn)
    IN [flat  |-> bt.flat \cup mine \cup UNION { ins(fn) : fn \in mine },
        roots |-> bt.roots \cup { fn \in mine : p.refs[fn[1]] = {} },
        edges |-> bt.edges \cup UNION { { <<pn, fn>> : pn \in ins(fn) } : fn \in mine }]
BuildAll(p) == BuildTree(p, BuildOrder[3], BuildTree(p, BuildOrder[2], BuildTree(p, BuildOrder[1], EmptyTree)))

(* ---- _feedback: node.feedback = the nodes named by as_vref(alg.feedback());
   a name that is not in _flat is a KeyError                                *)
FbOf(p, n) == AsVref(p, p.fb[n[1]])
FeedbackOK(p, bt) == \A n \in bt.flat : FbOf(p, n) \subseteq bt.flat
(* _feedbacks[fbn] = node.tag is overwritten by every node that names fbn:
   the survivor depends on dictionary order -- any of the writers           *)
FeedbackWriters(p, bt, v) == { n \in bt.flat : v \in FbOf(p, n) }
FeedbackMaps(p, bt) ==
    LET fed == UNION { FbOf(p, n) : n \in bt.flat }
        wr  == UNION { FeedbackWriters(p, bt, v) : v \in fed }
    IN { f \in [fed -> wr] : \A v \in fed : f[v] \in FeedbackWriters(p, bt, v) }

(* ---- _parents(nodes, known) ---------------------------------------------*)
KidsOf(bt, n) == { c \in bt.flat : <<n, c>> \in bt.edges /\ c[1] # n[1] }   \* trim(child, 2) != trim(node, 2)
VisitNode(bt, n, known, par) ==
    LET k == KidsOf(bt, n) IN
    [known |-> known \cup {n},
     par   |-> [c \in bt.flat |-> IF c \in k THEN par[c] \cup {n} ELSE par[c]],
     next  |-> { c \in k : c \notin known \cup {n} }]
(* the recursion in ONE order (lists in TLC's set order); the action system
   below explores all orders and Dag_MC proves they agree                   *)
RECURSIVE ParentsRec(_, _, _)
ParentsRec(bt, nodes, st) ==
    IF nodes = <<>> THEN st ELSE
    LET v   == VisitNode(bt, Head(nodes), st.known, st.par)
        sub == ParentsRec(bt, SetToSeq(v.next), [known |-> v.known, par |-> v.par])
    IN ParentsRec(bt, Tail(nodes), sub)
ParentsOp(bt) == ParentsRec(bt, SetToSeq(bt.roots), [known |-> {}, par |-> [c \in bt.flat |-> {}]]).par

(* ---- _ancestry: the iterative walk up the parents ----------------------- *)
RECURSIVE AncLoop(_, _, _, _)
AncLoop(par, name, heritage, parents) ==
    IF parents = {} THEN heritage ELSE
    LET grands == UNION { par[q] : q \in { x \in parents : x # name } }
    IN AncLoop(par, name, heritage \cup grands, grands)
AncestryOp(bt, par) == [n \in bt.flat |-> AncLoop(par, n, par[n], par[n])]

(* ---- _trim_trees(length) / Node.trim ------------------------------------
   one short node per trimmed name of _flat; root.trim walks the value tree,
   every value node contributes its children and feedback to its short node
   exactly once (`visitors`), its ancestry and parents at length 2.  The
   contributions are set unions, so the result is the union over the value
   nodes the walk reaches: the closure of the roots under child and feedback
   links.                                                                    *)
RECURSIVE Closure(_, _)
Closure(S, succ) ==
    LET N == S \cup UNION { succ[x] : x \in S } IN IF N = S THEN S ELSE Closure(N, succ)
TrimTree(p, bt, par, anc, len) ==
    LET succ    == [n \in bt.flat |-> { c \in bt.flat : <<n, c>> \in bt.edges } \cup FbOf(p, n)]
        reached == Closure(bt.roots, succ)
        short   == { Trim(p, n, len) : n \in bt.flat }
        of(s)   == { n \in reached : Trim(p, n, len) = s }
    IN [roots |-> { Trim(p, r, len) : r \in bt.roots },
        short |-> short,
        kids  |-> [s \in short |-> { Trim(p, c, len) : c \in UNION { { x \in bt.flat : <<n, x>> \in bt.edges } : n \in of(s) } }],
        fb    |-> [s \in short |-> { Trim(p, f, len) : f \in UNION { FbOf(p, n) : n \in of(s) } }],
        par   |-> [s \in short |-> { Trim(p, q, len) : q \in UNION { par[n] : n \in of(s) } }],
        anc   |-> [s \in short |-> { Trim(p, q, len) : q \in UNION { anc[n] : n \in of(s) } }]]
(* Node.iter / Node.locate from the roots: children with the tag of their parent are skipped *)
IterTags(T) == Closure(T.roots, [s \in T.short |-> T.kids[s] \ {s}])
ValueTreeTags(bt) ==
    { Name(n) : n \in Closure(bt.roots, [n \in bt.flat |-> { c \in bt.flat : <<n, c>> \in bt.edges /\ c # n }]) }

(* ---- the observable result ---------------------------------------------- *)
Derive(p, bt, par, fmap) ==
    LET anc == AncestryOp(bt, par)
        T2  == TrimTree(p, bt, par, anc, 2)
        T3  == TrimTree(p, bt, par, anc, 3)
        T1  == TrimTree(p, bt, par, anc, 1)
        N   == IterTags(T2)
    IN [ok    |-> TRUE,
        nodes |-> N,
        count |-> [t \in N |-> 1],                     \* `trimmed` is a dict: one Node per name
        kids  |-> [t \in N |-> T2.kids[t]],
        par   |-> [t \in N |-> T2.par[t]],
        anc   |-> [t \in N |-> T2.anc[t]],
        fb    |-> [t \in N |-> T2.fb[t]],
        svt   |-> IterTags(T3),
        tt    |-> IterTags(T1),
        vt    |-> ValueTreeTags(bt),
        fed   |-> { [v |-> Name(v), to |-> Name(fmap[v]), alg |-> fmap[v][1]] : v \in DOMAIN fmap }]
Failed == [ok |-> FALSE]

(* the whole of Construct as a function (one iteration order, one survivor per fed-back value) *)
ConstructOp(p) ==
    LET bt == BuildAll(p) IN
    IF ~FeedbackOK(p, bt) THEN Failed
    ELSE Derive(p, bt, ParentsOp(bt), CHOOSE f \in FeedbackMaps(p, bt) : TRUE)
(* equality of everything that does not depend on iteration order *)
SameGraph(G, H) ==
    /\ G.ok = H.ok
    /\ G.ok => /\ G.nodes = H.nodes /\ G.count = H.count
               /\ G.kids = H.kids /\ G.par = H.par /\ G.anc = H.anc /\ G.fb = H.fb
               /\ G.svt = H.svt /\ G.tt = H.tt /\ G.vt = H.vt
               /\ { e.v : e \in G.fed } = { e.v : e \in H.fed }

-----------------------------------------------------------------------------
(* the action system: Construct.__init__ phase by phase                     *)
VARIABLES prog, pc, bt, known, par, stack, g
vars == <<prog, pc, bt, known, par, stack, g>>

(* frames of the recursion: the nodes a call still has to iterate over; an
   exhausted frame returns at once *)
RECURSIVE Norm(_)
Norm(s) == IF s # <<>> /\ s[Len(s)] = {} THEN Norm(SubSeq(s, 1, Len(s) - 1)) ELSE s

(* the domain is fanned out in two levels (group, program) so that TLC's workers
   share the programs: initial states and the successors of one state are
   evaluated by a single worker *)
NGroups == 64
ProgSeq == SetToSeq(Programs)
Init ==
    /\ \E k \in 1..NGroups : prog = [grp |-> k]
    /\ pc = "pick" /\ bt = EmptyTree
    /\ known = {} /\ par = <<>> /\ stack = <<>> /\ g = Failed
Pick ==
    /\ pc = "pick"
    /\ \E i \in { j \in 1..Len(ProgSeq) : j % NGroups = prog.grp % NGroups } : prog' = ProgSeq[i]
    /\ pc' = "analysis"
    /\ UNCHANGED <<bt, known, par, stack, g>>

Build ==
    /\ pc \in {"analysis", "regress", "task"}
    /\ bt' = BuildTree(prog, pc, bt)
    /\ pc' = CASE pc = "analysis" -> "regress" [] pc = "regress" -> "task" [] OTHER -> "feedback"
    /\ UNCHANGED <<prog, known, par, stack, g>>

Feedback ==
    /\ pc = "feedback"
    /\ IF FeedbackOK(prog, bt)
       THEN /\ pc' = "parents"
            /\ par' = [c \in bt.flat |-> {}]
            /\ stack' = Norm(<<bt.roots>>)                  \* self._parents(self._roots, set())
       ELSE pc' = "error" /\ UNCHANGED <<par, stack>>
    /\ UNCHANGED <<prog, bt, known, g>>

(* one iteration of `for node in nodes` of the innermost active call: any
   node the call has not iterated yet (the list order is a dictionary / set /
   insertion order of the code: every order is explored)                    *)
Parents ==
    /\ pc = "parents" /\ stack # <<>>
    /\ \E n \in stack[Len(stack)] :
          LET v == VisitNode(bt, n, known, par) IN
          /\ known' = v.known
          /\ par' = v.par
          /\ stack' = Norm(Append([stack EXCEPT ![Len(stack)] = @ \ {n}], v.next))
    /\ UNCHANGED <<prog, pc, bt, g>>

(* _ancestry, _trim_trees x 3 are functions of what has been built; the
   survivor of every _feedbacks entry is chosen here (it was written in the
   feedback phase; it shares nothing with _parents, so the choice is made
   last to keep the state graph small)                                      *)
Finish ==
    /\ pc = "parents" /\ stack = <<>>
    /\ \E f \in FeedbackMaps(prog, bt) : g' = Derive(prog, bt, par, f)
    /\ pc' = "done"
    /\ UNCHANGED <<prog, bt, known, par, stack>>

Next == Pick \/ Build \/ Feedback \/ Parents \/ Finish
Spec == Init /\ [][Next]_vars

-----------------------------------------------------------------------------
(* model-level statements (Dag_MC)                                          *)
TypeOK == /\ pc \in {"pick", "analysis", "regress", "task", "feedback", "parents", "done"}
          /\ pc = "analysis" => WellFormed(prog)
(* the transcription yields the declarative graph: every clause of C09, on
   every program of the domain, for every iteration order                   *)
Faithful == pc = "done" => Clauses(prog, g) = {}
(* the functional form used for drift detection agrees with the action system *)
OpAgrees == pc = "done" => SameGraph(g, ConstructOp(prog))
(* the `known` cut loses nothing: when the recursion returns every node has been visited *)
AllVisited == (pc = "parents" /\ stack = <<>>) => known = bt.flat
=============================================================================
