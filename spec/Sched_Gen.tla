----------------------------- MODULE Sched_Gen -----------------------------
(* Export of behaviours/transitions of Sched for replay on the real code.
   h is a history variable (sequence of environment inputs) hidden from the
   fingerprint by VIEW, so TLC keeps one witness path per distinct state and
   the action constraint prints every explored transition once, as the input
   schedule h' that reaches it. *)
EXTENDS Sched_MC, Json
VARIABLE h
gvars == <<vars, h>>
GenInit == Init /\ h = <<>>
(* a dispatch tick that releases nothing in the model is still an input for the code under test *)
IdleTick == Cands = {} /\ UNCHANGED vars /\ h' = Append(h, [ev |-> "Tick"])
GenNext ==
    \/ IdleTick
    \/ \E S \in RunChoices, T \in SUBSET Tg :
          Run(S, T) /\ h' = Append(h, [ev |-> "Run", S |-> S, T |-> T])
    \/ Tick /\ h' = Append(h, [ev |-> "Tick"])
    \/ \E P \in SUBSET Alg : TickFaultP(P) /\ h' = Append(h, [ev |-> "TickFault", k |-> Cardinality(P)])
    \/ \E a \in Alg, t \in Tg, out \in Outcomes : \E new \in SUBSET prog.vals[a], old \in BOOLEAN :
          Reply(a, t, out, new, old) /\ h' = Append(h, [ev |-> "Reply", alg |-> a, t |-> t, out |-> out, new |-> new, old |-> old])
    \/ \E S \in SUBSET Alg : Reload(S) /\ h' = Append(h, [ev |-> "Reload", S |-> S])
GenSpec == GenInit /\ [][GenNext]_gvars
(* focus variant: single-algorithm requests for {T1} or {T1, T2} only -- keeps 3-request histories tractable *)
GenNextFocus ==
    \/ IdleTick
    \/ \E a \in Alg, T \in {{"T1"}} \cup (IF "T2" \in Targets THEN {{"T1", "T2"}} ELSE {}) :
          Run({a}, T) /\ h' = Append(h, [ev |-> "Run", S |-> {a}, T |-> T])
    \/ Tick /\ h' = Append(h, [ev |-> "Tick"])
    \/ \E P \in SUBSET Alg : TickFaultP(P) /\ h' = Append(h, [ev |-> "TickFault", k |-> Cardinality(P)])
    \/ \E a \in Alg, t \in Tg, out \in Outcomes : \E new \in SUBSET prog.vals[a], old \in BOOLEAN :
          Reply(a, t, out, new, old) /\ h' = Append(h, [ev |-> "Reply", alg |-> a, t |-> t, out |-> out, new |-> new, old |-> old])
    \/ \E S \in {{}, {A1}} : Reload(S) /\ h' = Append(h, [ev |-> "Reload", S |-> S])
GenSpecFocus == GenInit /\ [][GenNextFocus]_gvars
(* lean variant for deep two-target histories: requests for {T2} or both targets, replies either succeed with
   nothing new or fail -- the interleavings of release, failure (purge) and late results across two targets *)
GenNextLean ==
    \/ \E a \in Alg, T \in {{"T2"}, {"T1", "T2"}} :
          Run({a}, T) /\ h' = Append(h, [ev |-> "Run", S |-> {a}, T |-> T])
    \/ Tick /\ h' = Append(h, [ev |-> "Tick"])
    \/ \E a \in Alg, t \in Tg, out \in {"success", "failure"} :
          Reply(a, t, out, {}, FALSE) /\ h' = Append(h, [ev |-> "Reply", alg |-> a, t |-> t, out |-> out, new |-> {}, old |-> FALSE])
GenSpecLean == GenInit /\ [][GenNextLean]_gvars
View == vars
ProgJson == [kind |-> prog.kind, ins |-> prog.ins, vals |-> prog.vals, fb |-> prog.fb]
Emit == PrintT(<<"SCHED", ToJson([prog |-> ProgJson, h |-> h'])>>)
(* simulation: print every prefix; the driver keeps the maximal ones *)
(* sampled export of a large instance: every transition is printed with probability 1/SampleRate *)
EmitAt(k) == (RandomElement(1..k) = 1) => PrintT(<<"SCHED", ToJson([prog |-> ProgJson, h |-> h'])>>)
EmitS20 == EmitAt(20)
EmitS5 == EmitAt(5)
EmitS100 == EmitAt(100)
EmitS250 == EmitAt(250)
EmitS500 == EmitAt(500)
EmitSample == EmitS250
SimInv == PrintT(<<"SCHED", ToJson([prog |-> ProgJson, h |-> h])>>)
=============================================================================
