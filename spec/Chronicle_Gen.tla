---------------------------- MODULE Chronicle_Gen ----------------------------
(* Export for replay on the real code: every distinct state of the files is
   reached by one append history h (hidden from the fingerprint by VIEW and
   printed by an invariant, i.e. once per distinct state), the tables and
   the whole query domain are printed once.  The inputs of the harness are
   histories x queries, i.e. every DoFind / DoApi transition of Chronicle. *)
EXTENDS Chronicle_MC, Json
VARIABLES h, miss, stale
gvars == <<vars, h, miss, stale>>
Table == [cal |-> Cal, tod |-> Tod, at |-> EntAt, run |-> EntRun, st |-> EntSt, zone |-> ZoneOff]
GenInit == /\ Init /\ h = <<>> /\ miss = {} /\ stale = {}
           /\ PrintT(<<"TABLE", ToJson(Table)>>)
           /\ \A x \in Queries, z \in DOMAIN ZoneOff :   \* every query, its bounds written in every zone
                  PrintT(<<"QUERY", ToJson(<<x.after, x.before, x.limit, IF x.ok THEN 1 ELSE 0, x.now, z>>)>>)
           /\ \A e \in Cand, b \in Bounds \cup {0} :         \* readers: df_model_statistics(node of e) with boot time b
                  PrintT(<<"READER", ToJson(<<b, e>>)>>)
GenNext == \E e \in Cand : DoAppend(e) /\ h' = Append(h, e) /\ UNCHANGED <<miss, stale>>
GenSpec == GenInit /\ [][GenNext]_gvars
View == vars
(* an invariant is evaluated once per distinct state: one witness history per state of the files *)
HistInv == PrintT(<<"HIST", ToJson(h)>>)

-----------------------------------------------------------------------------
(* ONE PROCESS LIFE: queries BETWEEN appends.  miss = what the queries of this life observed
   (Chronicle!FindObs, restricted to what an append of the model can outdate) and is still true,
   stale = what they observed and a later append has outdated.  A restart forgets both.  h is the
   event history: <<0, e, ..>> append, <<1, after, before, limit, ok, now>> query, <<2, ..>> restart.
   One witness life per distinct (files, miss, stale): every way in which the memory of a process
   can lag behind the files, within the bounded model.  The harness runs the life on the real code
   (one Python process, the module state lives on between the events) and asks further queries
   at its end; every answer, those inside the life included, is judged by FindOK. *)
Rel == UNION { Outdated(e) : e \in Cand }
LifeInit == Init /\ h = <<>> /\ miss = {} /\ stale = {}
LAppend(e) == /\ DoAppend(e)
              /\ h' = Append(h, <<0, e, 0, 0, 0, 0>>)
              /\ LET out == miss \cap Outdated(e) IN miss' = miss \ out /\ stale' = stale \cup out
LFind(x) == /\ DoFind(x)
            /\ h' = Append(h, <<1, x.after, x.before, x.limit, IF x.ok THEN 1 ELSE 0, x.now>>)
            /\ miss' = miss \cup (FindObs(journal, x) \cap Rel)
            /\ UNCHANGED stale
LReopen == /\ miss \cup stale # {}
           /\ kind' = "stats" /\ q' = NoQ /\ res' = <<>> /\ UNCHANGED <<journal, appended>>
           /\ h' = Append(h, <<2, 0, 0, 0, 0, 0>>)
           /\ miss' = {} /\ stale' = {}
LifeNext == \/ \E e \in Cand : LAppend(e)
            \/ \E x \in Queries : LFind(x)
            \/ LReopen
LifeSpec == LifeInit /\ [][LifeNext]_gvars
LifeView == <<journal, miss, stale>>
LifeInv == PrintT(<<"LIFE", ToJson(<< h, <<Cardinality(miss), Cardinality(stale)>> >>)>>)
=============================================================================
