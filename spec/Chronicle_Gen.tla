---------------------------- MODULE Chronicle_Gen ----------------------------
(* Export for replay on the real code: every distinct state of the files is
   reached by one append history h (hidden from the fingerprint by VIEW and
   printed by an invariant, i.e. once per distinct state), the tables and
   the whole query domain are printed once.  The inputs of the harness are
   histories x queries, i.e. every DoFind / DoApi transition of Chronicle. *)
EXTENDS Chronicle_MC, Json
VARIABLE h
gvars == <<vars, h>>
Table == [cal |-> Cal, tod |-> Tod, at |-> EntAt, run |-> EntRun, st |-> EntSt, zone |-> ZoneOff]
GenInit == /\ Init /\ h = <<>>
           /\ PrintT(<<"TABLE", ToJson(Table)>>)
           /\ \A x \in Queries, z \in DOMAIN ZoneOff :   \* every query, its bounds written in every zone
                  PrintT(<<"QUERY", ToJson(<<x.after, x.before, x.limit, IF x.ok THEN 1 ELSE 0, x.now, z>>)>>)
           /\ \A e \in Cand, b \in Bounds \cup {0} :         \* readers: df_model_statistics(node of e) with boot time b
                  PrintT(<<"READER", ToJson(<<b, e>>)>>)
GenNext == \E e \in Cand : DoAppend(e) /\ h' = Append(h, e)
GenSpec == GenInit /\ [][GenNext]_gvars
View == vars
(* an invariant is evaluated once per distinct state: one witness history per state of the files *)
HistInv == PrintT(<<"HIST", ToJson(h)>>)
=============================================================================
