-------------------------------- MODULE Gate --------------------------------
(***************************************************************************)
(* DAWGIE compliance gate: tools/compliant.py (_verify, _walk, rule_01 ..  *)
(* rule_11), reached in operation through tools/submit.py                  *)
(* (auto_merge_compliant -> verify -> python -m dawgie.tools.compliant ->  *)
(* _scan -> _verify).                                                      *)
(*                                                                         *)
(* The gate is a decision procedure over PROGRAMS.  This module supplies   *)
(*   - the space:  Descriptors, one record per generated engine package    *)
(*                 [kinds, shape, viol, pos]                               *)
(*   - the oracle: Accept(d)  (PROPERTY LEVEL, declarative)                *)
(*   - a transcription of the traversal the rules share (_walk) and of     *)
(*     "any exception counts as failure" (_verify): ImplAccept(d)          *)
(*     (IMPLEMENTATION-SHAPED; disagreement of the code with it is drift,  *)
(*     disagreement of it with Accept is a design-level finding)           *)
(*                                                                         *)
(* A descriptor names the package under test (PUT):                        *)
(*   kinds  the factory functions it offers, a subset of dawgie.Factories  *)
(*   shape  how its algorithms declare inputs (see DepGran / FbGran)       *)
(*   vals   how the values of the PUT are typed: "own" = every value its    *)
(*          own subclass of dawgie.Value, one state vector s per algorithm; *)
(*          "shared" = ALL values of the PUT are instances of ONE Value     *)
(*          class (what distinguishes them is the payload of the instance)  *)
(*          and every algorithm has a second state vector s2 (value v)      *)
(*   evs    which moments the two conforming events e1, e2 use:             *)
(*          "boot_dow" boot=True | dow=1+time;  "dow0_dom" dow=0 (Monday,   *)
(*          a defined value that is falsy)+time | dom=15+time;              *)
(*          "day_dow0" day=date+time | dow=0+time                           *)
(*   viol   "none" or the name of ONE clause of rule_01..rule_11 that the  *)
(*          package breaks                                                 *)
(*   pos    the element that carries the violation: [k |-> factory kind,   *)
(*          e |-> element], e in  fac | p1..p4 | bot | a1 | a1.s | a1.s.v  *)
(*          | a1.s2.v                                                      *)
(*          | a1.dep | a1.fb | e1 | e2 | pkg                               *)
(* Every alg-kind factory of the PUT has algorithm a1 (and a2 in shape     *)
(* chain2), each with one state vector s holding the values v and w; the   *)
(* events factory returns two events e1 and e2 (moments given by evs).     *)
(*                                                                         *)
(* Pinned = TRUE transcribes _walk as in the pinned tree (the regress      *)
(* branch iterates a.feedback(), `a` being the loop variable of the        *)
(* analysis / task branches); Pinned = FALSE the repaired r.feedback().    *)
(***************************************************************************)
EXTENDS Naturals, Sequences, FiniteSets, TLC

CONSTANT Pinned

AlgKinds  == {"task", "analysis", "regress"}
Kinds     == AlgKinds \cup {"events"}
EnumOrder == <<"analysis", "events", "regress", "task">>    \* order of dawgie.Factories
NParams(k) == IF k = "task" THEN 4 ELSE IF k = "events" THEN 0 ELSE 3
NoPos == [k |-> "-", e |-> "-"]
P(k, e) == [k |-> k, e |-> e]

-----------------------------------------------------------------------------
(* shapes: which references the algorithms of the PUT declare               *)
Shapes == {"root", "dep_alg", "dep_sv", "dep_val", "intra", "chain2", "fb_sv", "fb_val"}
ShapesOf(K) ==
    IF K \cap AlgKinds = {} THEN {"root"}
    ELSE { s \in Shapes : s = "intra" => ("task" \in K /\ K \cap {"analysis", "regress"} # {}) }

AlgSeq(K, s, k) == IF k \notin K \cap AlgKinds THEN <<>>
                   ELSE IF s = "chain2" THEN <<"a1", "a2">> ELSE <<"a1">>
SeqRange(q) == { q[i] : i \in DOMAIN q }

(* granularity of the dependency reference (previous / traits / variables)
   and of the feedback reference of algorithm a of kind k; "none" = no such
   reference.  Analyzers and regressions may only use state-vector or value
   references (rule_03), tasks also algorithm references. *)
ByKind(k) == CASE k = "task" -> "alg" [] k = "analysis" -> "sv" [] OTHER -> "val"
DepGran(s, k, a) ==
    CASE s = "root"    -> "none"
      [] s = "dep_alg" -> IF k = "task" THEN "alg" ELSE "sv"
      [] s = "dep_sv"  -> "sv"
      [] s = "dep_val" -> "val"
      [] s = "intra"   -> ByKind(k)
      [] s = "chain2"  -> IF a = "a1" THEN "none" ELSE ByKind(k)
      [] OTHER         -> "sv"                       \* fb_sv, fb_val
FbGran(s, k, a) == CASE s = "fb_sv" -> "sv" [] s = "fb_val" -> "val" [] OTHER -> "none"

-----------------------------------------------------------------------------
(* the clauses of rule_01 .. rule_11: name, class of element that can carry
   it, owning rule(s).  One entry per clause of the rule texts. *)
V(v, c, r) == [v |-> v, c |-> c, r |-> r]
Viol == {
  \* rule_01: factory signature
  V("fac_arity",        "fac",   {"rule_01"}),   \* number of parameters
  V("fac_notroutine",   "fac",   {"rule_01"}),   \* the attribute is not a routine
  V("fac_default",      "param", {"rule_01"}),   \* default value of a parameter
  V("fac_annot",        "param", {"rule_01"}),   \* annotation of a parameter
  \* rule_02: base types
  V("bot_base",         "bot",   {"rule_02"}),
  V("alg_base",         "alg",   {"rule_02"}),   \* also rule_03: routines() of the right type
  V("sv_base",          "sv",    {"rule_02"}),
  V("val_base",         "val",   {"rule_02"}),
  V("ref_base",         "ref",   {"rule_02"}),
  V("event_base",       "event", {"rule_02"}),
  \* rule_03: abstract methods overridden, results of the right type
  V("bot_nolist",       "bot",   {"rule_03"}),
  V("bot_empty",        "bot",   {"rule_03"}),
  V("alg_noname",       "alg",   {"rule_03"}),
  V("alg_name_type",    "alg",   {"rule_03"}),
  V("alg_nodep",        "alg",   {"rule_03"}),
  V("alg_dep_type",     "alg",   {"rule_03"}),
  V("alg_nosvs",        "alg",   {"rule_03"}),
  V("alg_svs_type",     "alg",   {"rule_03"}),
  V("alg_ver",          "alg",   {"rule_03"}),
  V("sv_ver",           "sv",    {"rule_03"}),
  V("sv_noname",        "sv",    {"rule_03"}),
  V("val_ver",          "val",   {"rule_03"}),
  V("dep_algref",       "ref",   {"rule_03"}),   \* ALG_REF among traits / variables
  \* rule_04: dotted names
  V("alg_dot",          "alg",   {"rule_04"}),
  V("sv_dot",           "sv",    {"rule_04"}),
  V("val_dot",          "val",   {"rule_04"}),
  \* rule_05: empty state vector
  V("sv_empty",         "sv",    {"rule_05"}),
  \* rule_06: factory / implementation package mismatch of a task's previous()
  V("prev_mismatch",    "ref",   {"rule_06"}),
  \* rule_07: values pickle
  V("val_unpicklable",  "val",   {"rule_07"}),
  V("val_nodefault",    "val",   {"rule_07"}),
  \* rule_08: element types of references
  V("ref_factory_type", "ref",   {"rule_08"}),
  V("ref_impl_type",    "ref",   {"rule_08"}),
  V("ref_item_type",    "ref",   {"rule_08"}),
  V("ref_feat_type",    "ref",   {"rule_08"}),
  \* rule_09: has state vectors
  V("alg_zero_svs",     "alg",   {"rule_09"}),
  \* rule_10: moments
  V("mom_two",          "event", {"rule_10"}),   \* boot=True and dow=1
  \* two fields defined, one of them with a value that is falsy (False, 0)
  V("mom_two_bf_day",   "event", {"rule_10"}),   \* boot=False and a date
  V("mom_two_bf_dom",   "event", {"rule_10"}),   \* boot=False and dom=15
  V("mom_two_bf_dow",   "event", {"rule_10"}),   \* boot=False and dow=1
  V("mom_two_dow0_dom", "event", {"rule_10"}),   \* dow=0 and dom=15
  V("mom_two_dow0_day", "event", {"rule_10"}),   \* dow=0 and a date
  V("mom_none",         "event", {"rule_10"}),
  V("mom_day_type",     "event", {"rule_10"}),
  V("mom_dom_type",     "event", {"rule_10"}),
  V("mom_dow_type",     "event", {"rule_10"}),
  V("mom_notime",       "event", {"rule_10"}),   \* dow=1 without a time of day
  V("mom_notime_dow0",  "event", {"rule_10"}),   \* dow=0 without a time of day
  V("mom_notime_dom",   "event", {"rule_10"}),   \* dom=15 without a time of day
  V("mom_notime_day",   "event", {"rule_10"}),   \* a date without a time of day
  V("mom_time_type",    "event", {"rule_10"}),
  \* rule_11: references resolve
  V("ref_unres_alg",    "ref",   {"rule_11"}),
  V("ref_unres_sv",     "ref",   {"rule_11"}),
  V("ref_unres_val",    "ref",   {"rule_11"}) }

(* abstract methods the gate cannot exercise by calling them (run, view,
   features).  rule_03's text speaks of "all of the methods"; the rule code
   has no clause for them.  They are generated and their verdict recorded
   (OBSERVE rows) but they are NOT part of the claimed property: see the
   interpretation note in checks/gate.py. *)
Unclaimed == {
  V("alg_norun",        "alg",   {"rule_03"}),
  V("sv_noview",        "sv",    {"rule_03"}),
  V("val_nofeatures",   "val",   {"rule_03"}) }

NoFactory == V("no_factory", "pkg", {"rule_01"})
ViolNames      == { x.v : x \in Viol } \cup {NoFactory.v}
UnclaimedNames == { x.v : x \in Unclaimed }
VR(name) == CHOOSE x \in Viol \cup Unclaimed \cup {NoFactory} : x.v = name

Num(i) == CASE i = 1 -> "1" [] i = 2 -> "2" [] i = 3 -> "3" [] OTHER -> "4"

(* which granularities a reference must have for the clause to be applicable *)
NeedGran(v) == CASE v \in {"ref_item_type", "ref_unres_sv"} -> {"sv", "val"}
                 [] v \in {"ref_feat_type", "ref_unres_val"} -> {"val"}
                 [] OTHER -> {"alg", "sv", "val"}

AlgPairs(K, s) == { q \in AlgKinds \X {"a1", "a2"} : q[2] \in SeqRange(AlgSeq(K, s, q[1])) }
RefPositions(K, s, v) ==
    { P(q[1], q[2] \o ".dep") :
        q \in { q \in AlgPairs(K, s) :
                  /\ DepGran(s, q[1], q[2]) \in NeedGran(v)
                  /\ (v = "dep_algref" => q[1] \in {"analysis", "regress"})
                  /\ (v = "prev_mismatch" => q[1] = "task") } }
    \cup
    { P(q[1], q[2] \o ".fb") :
        q \in { q \in AlgPairs(K, s) :
                  /\ FbGran(s, q[1], q[2]) \in NeedGran(v)
                  /\ v \notin {"dep_algref", "prev_mismatch"} } }

(* value layouts.  With one shared class only the clauses that depend on the
   INSTANCE (its payload, its key in the state vector) can be broken at one
   position without breaking the others. *)
ValLayouts == {"own", "shared"}
SharedViol == {"val_unpicklable", "val_ver", "val_dot"}
SVals(vl)  == IF vl = "shared" THEN {"s.v", "s.w", "s2.v"} ELSE {"s.v", "s.w"}
ValPositions(K, s, vl) ==
    UNION { { P(k, a \o "." \o n) : a \in SeqRange(AlgSeq(K, s, k)), n \in SVals(vl) } : k \in K \cap AlgKinds }

(* event layouts: the moments of the conforming events.  The non-default
   layouts are combined with the conforming package and with the clauses that
   sit on an event (the other event keeps the moment of the layout). *)
EvLayouts == {"boot_dow", "dow0_dom", "day_dow0"}
EvLayoutsOf(K, s) == IF "events" \in K /\ s \in {"root", "chain2"} THEN EvLayouts ELSE {"boot_dow"}   \* rule_10 does not look at references

Positions(K, s, vl, el, x) ==
    IF el # "boot_dow" THEN (IF x.c = "event" /\ vl = "own" /\ "events" \in K THEN { P("events", "e1"), P("events", "e2") } ELSE {}) ELSE
    IF vl = "shared" THEN (IF x.v \in SharedViol THEN ValPositions(K, s, vl) ELSE {}) ELSE
    CASE x.c = "fac"   -> { P(k, "fac") : k \in K }
      [] x.c = "param" -> UNION { { P(k, "p" \o Num(i)) : i \in 1..NParams(k) } : k \in K \cap AlgKinds }
      [] x.c = "bot"   -> { P(k, "bot") : k \in K \cap AlgKinds }
      [] x.c = "alg"   -> UNION { { P(k, a) : a \in SeqRange(AlgSeq(K, s, k)) } : k \in K \cap AlgKinds }
      [] x.c = "sv"    -> UNION { { P(k, a \o ".s") : a \in SeqRange(AlgSeq(K, s, k)) } : k \in K \cap AlgKinds }
      [] x.c = "val"   -> ValPositions(K, s, vl)
      [] x.c = "ref"   -> RefPositions(K, s, x.v)
      [] x.c = "event" -> IF "events" \in K THEN { P("events", "e1"), P("events", "e2") } ELSE {}
      [] OTHER         -> {}

D(K, s, vl, el, v, p) == [kinds |-> K, shape |-> s, vals |-> vl, evs |-> el, viol |-> v, pos |-> p]
LayoutsOf(K) == IF K \cap AlgKinds = {} THEN {"own"} ELSE ValLayouts
(* <<value layout, event layout>>: the non-default ones are not multiplied with each other *)
Variants(K, s) == { <<vl, "boot_dow">> : vl \in LayoutsOf(K) } \cup { <<"own", el>> : el \in EvLayoutsOf(K, s) }
KindSets == (SUBSET Kinds) \ {{}}

Conforming  == UNION { UNION { { D(K, s, w[1], w[2], "none", NoPos) : w \in Variants(K, s) } : s \in ShapesOf(K) } : K \in KindSets }
ViolatingOf(VS) ==
    UNION { UNION { UNION { UNION { { D(K, s, w[1], w[2], x.v, p) : p \in Positions(K, s, w[1], w[2], x) } : x \in VS } : w \in Variants(K, s) } : s \in ShapesOf(K) } : K \in KindSets }
Descriptors == Conforming \cup ViolatingOf(Viol) \cup { D({}, "root", "own", "boot_dow", NoFactory.v, P("-", "pkg")) }
Observed    == ViolatingOf(Unclaimed)

(* membership in Descriptors \cup Observed without building the sets *)
WellFormed(d) ==
    /\ d.kinds \subseteq Kinds
    /\ \/ d.kinds = {} /\ d.shape = "root" /\ d.vals = "own" /\ d.evs = "boot_dow" /\ d.viol = NoFactory.v /\ d.pos = P("-", "pkg")
       \/ /\ d.kinds # {} /\ d.shape \in ShapesOf(d.kinds) /\ <<d.vals, d.evs>> \in Variants(d.kinds, d.shape)
          /\ \/ d.viol = "none" /\ d.pos = NoPos
             \/ /\ d.viol \in { x.v : x \in Viol \cup Unclaimed }
                /\ d.pos \in Positions(d.kinds, d.shape, d.vals, d.evs, VR(d.viol))

-----------------------------------------------------------------------------
(* PROPERTY LEVEL: the meaning of C16 *)
Accept(d) == d.viol = "none"

-----------------------------------------------------------------------------
(* IMPLEMENTATION-SHAPED: _walk and _verify.
   Walk state: a = loop variable `a` (<<>> = never assigned), raised = an
   exception left _walk, seen = elements handed to a callback. *)
Listed(d, k) == IF d.viol = "bot_empty" /\ d.pos.k = k THEN <<>> ELSE AlgSeq(d.kinds, d.shape, k)
DepOf(d, k, a) == IF DepGran(d.shape, k, a) # "none" THEN { P(k, a \o ".dep") } ELSE {}
FbOf(d, k, a)  == IF FbGran(d.shape, k, a) # "none" THEN { P(k, a \o ".fb") } ELSE {}
BodyOf(d, k, a) == { P(k, a \o ".s") } \cup { P(k, a \o "." \o n) : n \in SVals(d.vals) }

RECURSIVE LoopPlain(_, _, _, _)      \* analysis and task branches
LoopPlain(d, k, q, st) ==
    IF q = <<>> THEN st
    ELSE LET x == Head(q) IN
         LoopPlain(d, k, Tail(q),
                   [a |-> <<k, x>>, raised |-> st.raised,
                    seen |-> st.seen \cup {P(k, x)} \cup FbOf(d, k, x) \cup DepOf(d, k, x) \cup BodyOf(d, k, x)])

RECURSIVE LoopRegress(_, _, _)       \* regress branch
LoopRegress(d, q, st) ==
    IF q = <<>> \/ st.raised THEN st
    ELSE LET r == Head(q) IN
         IF Pinned /\ st.a = <<>>
         THEN [st EXCEPT !.raised = TRUE, !.seen = @ \cup {P("regress", r)}]     \* UnboundLocalError
         ELSE LoopRegress(d, Tail(q),
                   [a |-> st.a, raised |-> FALSE,
                    seen |-> st.seen \cup {P("regress", r)}
                             \cup (IF Pinned THEN FbOf(d, st.a[1], st.a[2]) ELSE FbOf(d, "regress", r))
                             \cup DepOf(d, "regress", r) \cup BodyOf(d, "regress", r)])

Branch(d, e, st) ==
    CASE e = "events"  -> [st EXCEPT !.seen = @ \cup {P("events", "e1"), P("events", "e2")}]
      [] e = "regress" -> LoopRegress(d, Listed(d, e), [st EXCEPT !.seen = @ \cup {P(e, "bot")}])
      [] OTHER         -> LoopPlain(d, e, Listed(d, e), [st EXCEPT !.seen = @ \cup {P(e, "bot")}])

RECURSIVE WalkFrom(_, _, _)
WalkFrom(d, i, st) ==
    IF i > Len(EnumOrder) \/ st.raised THEN st
    ELSE WalkFrom(d, i + 1, IF EnumOrder[i] \in d.kinds THEN Branch(d, EnumOrder[i], st) ELSE st)
Walk(d) == WalkFrom(d, 1, [a |-> <<>>, raised |-> FALSE, seen |-> {}])

(* rule_01, rule_06 and rule_10 inspect the module themselves; the others
   see exactly what _walk hands to their callbacks *)
NonWalking == {"rule_01", "rule_06", "rule_10"}
Examined(d, w) == \/ VR(d.viol).r \cap NonWalking # {}
                  \/ d.pos \in w.seen
ImplAccept(d) == LET w == Walk(d) IN
                 /\ ~w.raised                                  \* any exception = failure (_verify)
                 /\ (d.viol = "none" \/ ~Examined(d, w))

-----------------------------------------------------------------------------
(* ENVIRONMENT OF THE COMMAND.  In operation the gate is the process
   `python -m dawgie.tools.compliant --ae-dir=<checkout>/<pkg> --ae-pkg=<pkg>`
   spawned by tools/submit.py in the environment of the pipeline, where
   ANOTHER copy of the same base package (the engine that is deployed now) is
   importable as well.  The rules and pl.scan import the modules of the
   engine by dotted name, so which copy is judged is decided by the order of
   the import path of that process.
   An environment case is [sub, dec, at]:
     sub  descriptor of the submitted checkout (what --ae-dir points at)
     dec  descriptor of the decoy: a second copy with the SAME base package
          name and the same layout whose compliance is the opposite of sub
     at   where the environment lists the decoy: front or back of PYTHONPATH
   Property level: the verdict of the command is Accept(sub), whatever else
   the import path offers. *)
Ats == {"front", "back"}
Twin(d) == [d EXCEPT !.viol = "none", !.pos = NoPos]          \* the conforming package of the same layout
ClaimedViolating(d) == d.viol \in { x.v : x \in Viol }
E(sub, dec, at) == [sub |-> sub, dec |-> dec, at |-> at]
EnvCasesOf(d) == IF ClaimedViolating(d)
                 THEN { E(d, Twin(d), a) : a \in Ats } \cup { E(Twin(d), d, a) : a \in Ats }
                 ELSE {}
EnvWellFormed(c) ==
    /\ c.at \in Ats
    /\ WellFormed(c.sub) /\ WellFormed(c.dec)
    /\ \/ ClaimedViolating(c.sub) /\ c.dec = Twin(c.sub)
       \/ ClaimedViolating(c.dec) /\ c.sub = Twin(c.dec)

(* PROPERTY LEVEL *)
CmdAccept(c) == Accept(c.sub)

(* IMPLEMENTATION-SHAPED: compliant.main() puts the parent directory of
   --ae-dir at the FRONT of sys.path; the entries of the environment follow
   ("std" = the entries that do not provide the base package: cwd, dawgie,
   the standard library).  importlib serves the first entry that provides
   the package. *)
EnvPath(c)    == IF c.at = "front" THEN <<"dec", "std">> ELSE <<"std", "dec">>
ImportPath(c) == <<"sub">> \o EnvPath(c)
Provider(q)   == q[CHOOSE i \in DOMAIN q : q[i] # "std" /\ \A j \in 1..(i - 1) : q[j] = "std"]
ImplCmdAccept(c) == Accept(IF Provider(ImportPath(c)) = "sub" THEN c.sub ELSE c.dec)

(* rules expected among those that fail when a violating package is
   rejected; used only as a sanity check of the injection (drift) *)
Owners(d) == IF d.viol = "fac_notroutine" /\ d.pos.k = "events"
             THEN {"rule_02", "rule_10"}     \* events = [..]: rule_01 has nothing to count, calling it fails
             ELSE VR(d.viol).r
=============================================================================
