--------------------------- MODULE StoreCrash_Gen ---------------------------
(* Export of input histories for replay on the real code.

   h is the history of environment inputs (hidden from the fingerprint by VIEW, so
   TLC keeps one witness history per distinct state):
     [op |-> "open" | "upd" | "close" | "purge" | "crash", k, c, site, reach]
   "upd": update of key k with content c; site = "none" (runs to the answer) or the
   place where the process is killed; reach = whether the catalogue assignment
   reaches the disk before anything else happens.  "crash": kill between updates.
   site "movefail" / "stagedlost": the update fails without killing the process (the move
   raises / the staged file is taken away after encode()); site "midcopy": kill inside
   the transfer of a new content into the store.

   Mode "trans" (VIEW View, ACTION_CONSTRAINT EmitTrans): every explored transition
   that is a Crash, an Answer, a Close or a Purge is printed once as the history h'
   reaching it: every crash site of every update in every distinct state of the
   bounded model, every answered update in every distinct state.
   Mode "hist" (no VIEW, MaxEv = 1, ACTION_CONSTRAINT EmitHist): every history of
   exactly MaxUpd answered updates (contents canonical by first use), ended by the
   clean shutdown or by a kill of the idle process.                                *)
EXTENDS StoreCrash_MC, Json
VARIABLES h,
          life     \* contents whose move into the store failed during the CURRENT life of the process: the model has no
                   \* process memory, the code may (caches); kept in the view so that "the same process goes on after
                   \* the failure" is not merged with "a new process opens the same files"
VARIABLE torn     \* contents whose transfer into the store was interrupted by a kill ("midcopy"): for the model the same
                  \* disk state as a kill before the move, for an implementation that is not atomic a different one;
                  \* kept in the view so that the histories that offer the content again are generated
gvars == <<vars, h, life, torn>>

COrder == <<"c1", "c2", "c3">>
Used == { h[i].c : i \in { j \in DOMAIN h : h[j].op = "upd" } }
\* contents are interchangeable: a fresh content is always the first unused one
Canon(c) == \/ c \in Used
            \/ \E i \in DOMAIN COrder : /\ COrder[i] = c
                                        /\ \A j \in 1..(i - 1) : COrder[j] \in Used
Ev(op, k, c, site, reach) == [op |-> op, k |-> k, c |-> c, site |-> site, reach |-> reach]

GenInit == Init /\ h = <<>> /\ life = {} /\ torn = {}
GenNext ==
    \/ Reopen /\ h' = Append(h, Ev("open", "-", "-", "none", TRUE)) /\ life' = {} /\ UNCHANGED torn
    \/ \E k \in Keys, c \in Contents :
          Canon(c) /\ StageMk(k, c) /\ h' = Append(h, Ev("upd", k, c, "none", TRUE)) /\ UNCHANGED <<life, torn>>
    \/ (StageWrite \/ DoDigest \/ ExistsCheck \/ Move \/ Answer) /\ h' = h /\ UNCHANGED <<life, torn>>
    \/ \E reach \in BOOLEAN : Record(reach) /\ h' = [h EXCEPT ![Len(h)].reach = reach] /\ UNCHANGED <<life, torn>>
    \/ \E s \in AllSites :
          /\ Crash(s)
          /\ h' = (IF pc = "idle" THEN Append(h, Ev("crash", "-", "-", s, TRUE)) ELSE [h EXCEPT ![Len(h)].site = s])
          /\ torn' = (IF s = "midcopy" THEN torn \cup {uc} ELSE torn)
          /\ UNCHANGED life
    \/ MoveFails /\ h' = [h EXCEPT ![Len(h)].site = "movefail"] /\ life' = life \cup {uc} /\ UNCHANGED torn
    \/ StagedLost /\ h' = [h EXCEPT ![Len(h)].site = "stagedlost"] /\ life' = life \cup {uc} /\ UNCHANGED torn
    \/ Close /\ h' = Append(h, Ev("close", "-", "-", "none", TRUE)) /\ UNCHANGED <<life, torn>>
    \/ Purge /\ h' = Append(h, Ev("purge", "-", "-", "none", TRUE)) /\ UNCHANGED <<life, torn>>
GenSpec == GenInit /\ [][GenNext]_gvars
View == <<vars, life, torn>>

Interesting == nev' # nev \/ rep' # "none"
EmitTrans == Interesting => PrintT(<<"CASE", ToJson(h')>>)

\* no update is interrupted: the only environment event is the last one (Close, or Crash of the idle
\* process); every assignment is written through
NoCrashNext == /\ GenNext
               /\ (nev' # nev => (nupd = MaxUpd /\ pc = "idle" /\ up))
               /\ \A i \in DOMAIN h' : h'[i].reach
HistSpec == GenInit /\ [][NoCrashNext]_gvars
EmitHist == (nev' # nev) => PrintT(<<"CASE", ToJson(h')>>)
=============================================================================
