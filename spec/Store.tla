------------------------------- MODULE Store -------------------------------
(***************************************************************************)
(* C06 / C08: the shelve catalogue and primary table of DAWGIE.            *)
(*                                                                         *)
(* Code modelled (dawgie/db/shelve):                                       *)
(*   util.append / construct / dissect / indexed / subset / prime_keys     *)
(*   model.Interface.__to_key / _load / _update                            *)
(*   comms.Worker.do (upd, get, set, table)      state.DBI.open / close    *)
(*   __init__.add / next / remove / reset / trace / update                 *)
(*                                                                         *)
(* The code's key strings "<parent>:parent___<name>___version:<d.i.b>"     *)
(* are structural here: a catalogue entry is [p, n, v, id] (parent id or   *)
(* NOP, name, version or NOV, numeric id); a version d.i.b is the integer  *)
(* d*10000 + i*100 + b (order preserving for parts < 100).  A primary      *)
(* entry is [run, tg, tk, al, sv, vl, c, seal]: the six ids of the key and *)
(* what the blob it names holds (content, version sealed into the pickle). *)
(*                                                                         *)
(* Two levels (DESIGN 2.1):                                                *)
(*  - implementation shaped: Next (one action per client / foreman call);  *)
(*    Pinned = TRUE transcribes the tree as pinned (commit 8ab289e):       *)
(*    util.subset selects by startswith, reset falls back to every entry   *)
(*    of the task; Pinned = FALSE is the repaired code (exact names).      *)
(*  - property level: the reference dictionary `ref` (what was stored      *)
(*    under which full identity; updated by Update, and by Remove with the *)
(*    EXACT names) and the clauses C06_* / C08_* below, which never look   *)
(*    at how the code finds things.                                        *)
(***************************************************************************)
EXTENDS Integers, Sequences, FiniteSets, TLC

CONSTANTS Targets, Tasks, AlgNames, SvNames, ValNames,  \* name alphabets (strings)
          Vers,         \* versions per level (integers, see above)
          Runs,         \* run ids
          Contents,     \* value contents (positive integers)
          MetricVals,   \* SEQUENCE of the value names of the __metric__ state vector (registered by every load)
          MaxOps,       \* number of operations of a history
          WormMasks,    \* which fields a db.tools.worm request may give: set of subsets of {"run","tgt","task","a","s","v"}
          Canon,        \* TRUE: contents are introduced in order (sound symmetry breaking: contents are only compared for equality)
          Pinned        \* transcription of the pinned tree (TRUE) or of the repaired code (FALSE)

VARIABLES tab,    \* table name -> set of catalogue entries [p, n, v, id]      (DBI().tables.<t>)
          idx,    \* table name -> sequence of names [p, n, v], id+1 -> name   (DBI().indices.<t>)
          prime,  \* set of primary entries                                    (DBI().tables.prime + blobs)
          cur,    \* [alg, sv, val] -> version the software declares now
          ref,    \* REFERENCE dictionary: set of [tgt, task, a, av, s, sv, v, vv, run, c]
          nops,   \* operations so far
          out     \* the last operation: its arguments and what it returned
vars == <<tab, idx, prime, cur, ref, nops, out>>

TABLES    == {"target", "task", "alg", "state", "value"}
NOP       == -1      \* no parent (targets, tasks)
NOV       == 0       \* no version (targets, tasks)
MSV       == "__metric__"
MSV_VER   == 10101   \* dawgie.util.MetricStateVector: 1.1.1
MV_VER    == 10100   \* dawgie.util.MetricValue: 1.1.0
UNTOUCHED == -1      \* content of a value no load has written

ANYRUN    == -1      \* run id not given in a worm request ("" = name not given); run id 0 is an ordinary run id
O0 == [ev |-> "", tgt |-> "", task |-> "", tks |-> {}, a |-> "", s |-> "", v |-> "", run |-> 0, c |-> 0,
       lvl |-> "", to |-> 0, av |-> 0, sv |-> 0, vv |-> 0,
       res |-> 0, seal |-> 0, err |-> FALSE, nxt |-> 0, rep |-> {}, av1 |-> 0, sv1 |-> 0]

IsPre(a, b) == Len(a) <= Len(b) /\ SubSeq(b, 1, Len(a)) = a
(* util.subset with parents: key.startswith("<parent>:parent___<name>") in the pinned tree *)
Match(name, kname) == IF Pinned THEN IsPre(name, kname) ELSE name = kname

MaxOf(S) == CHOOSE x \in S : \A y \in S : y <= x
MinOf(S) == CHOOSE x \in S : \A y \in S : x <= y

-----------------------------------------------------------------------------
(* catalogue primitives: util.append on (table, index) *)
Ent(T, p, n, v) == { e \in T : e.p = p /\ e.n = n /\ e.v = v }
Has(T, p, n, v) == Ent(T, p, n, v) # {}
IdIn(T, p, n, v) == (CHOOSE e \in Ent(T, p, n, v) : TRUE).id
NameOf(e) == [p |-> e.p, n |-> e.n, v |-> e.v]

Put(D, t, p, n, v) ==
    IF Has(D.tab[t], p, n, v) THEN D
    ELSE [tab |-> [D.tab EXCEPT ![t] = @ \cup {[p |-> p, n |-> n, v |-> v, id |-> Len(D.idx[t])]}],
          idx |-> [D.idx EXCEPT ![t] = Append(@, [p |-> p, n |-> n, v |-> v])]]
Id(D, t, p, n, v) == IdIn(D.tab[t], p, n, v)

(* Interface.__to_key: registers target, task, algorithm, state vector, value (current versions) *)
KeyReg(D, tgt, task, a, av, s, sv, v, vv) ==
    LET D1  == Put(D, "target", NOP, tgt, NOV)
        D2  == Put(D1, "task", NOP, task, NOV)
        tk  == Id(D2, "task", NOP, task, NOV)
        D3  == Put(D2, "alg", tk, a, av)
        al  == Id(D3, "alg", tk, a, av)
        D4  == Put(D3, "state", al, s, sv)
        si  == Id(D4, "state", al, s, sv)
        D5  == Put(D4, "value", si, v, vv)
    IN [D |-> D5,
        key |-> [tg |-> Id(D1, "target", NOP, tgt, NOV), tk |-> tk, al |-> al, sv |-> si,
                 vl |-> Id(D5, "value", si, v, vv)]]

RECURSIVE PutVals(_, _, _, _)
PutVals(D, si, names, ver) ==
    IF names = <<>> THEN D ELSE PutVals(Put(D, "value", si, Head(names), ver), si, Tail(names), ver)

(* _load also walks the metric state vector: __to_key registers it under the algorithm *)
MetricReg(D, al) ==
    LET D1 == Put(D, "state", al, MSV, MSV_VER)
    IN PutVals(D1, Id(D1, "state", al, MSV, MSV_VER), MetricVals, MV_VER)

SameKey(e, f) == /\ e.run = f.run /\ e.tg = f.tg /\ e.tk = f.tk /\ e.al = f.al /\ e.sv = f.sv /\ e.vl = f.vl
SameKeyNoRun(e, k) == /\ e.tg = k.tg /\ e.tk = k.tk /\ e.al = k.al /\ e.sv = k.sv /\ e.vl = k.vl

-----------------------------------------------------------------------------
(* names of a primary entry, resolved by ids; total ("?" when an id does not resolve) *)
HasId(T, i) == \E e \in T : e.id = i
RecOf(T, i) == CHOOSE e \in T : e.id = i
NameOr(T, i) == IF HasId(T, i) THEN RecOf(T, i).n ELSE "?"
VerOr(T, i)  == IF HasId(T, i) THEN RecOf(T, i).v ELSE -1
NamesOf(tb, e) == [run |-> e.run, tgt |-> NameOr(tb["target"], e.tg), task |-> NameOr(tb["task"], e.tk),
                   a |-> NameOr(tb["alg"], e.al), s |-> NameOr(tb["state"], e.sv), v |-> NameOr(tb["value"], e.vl)]

-----------------------------------------------------------------------------
(* REFERENCE dictionary (property level) *)
SameIdent(y, q) == /\ y.tgt = q.tgt /\ y.task = q.task /\ y.a = q.a /\ y.av = q.av
                   /\ y.s = q.s /\ y.sv = q.sv /\ y.v = q.v /\ y.vv = q.vv
RefEntry(o) == [tgt |-> o.tgt, task |-> o.task, a |-> o.a, av |-> o.av, s |-> o.s, sv |-> o.sv,
                v |-> o.v, vv |-> o.vv, run |-> o.run, c |-> o.c]
(* db.tools.worm: an entry (given by its NAMES n) is addressed by request o when every field that is given
   equals its name; a field that is not given (ANYRUN / "") matches anything.  Run id 0 is a given run id. *)
WormMatch(n, o) == /\ (o.run = ANYRUN \/ n.run = o.run) /\ (o.tgt = "" \/ n.tgt = o.tgt)
                   /\ (o.task = "" \/ n.task = o.task)  /\ (o.a = "" \/ n.a = o.a)
                   /\ (o.s = "" \/ n.s = o.s)           /\ (o.v = "" \/ n.v = o.v)
RefNext(R, o) ==
    CASE o.ev = "Update" -> { y \in R : ~(SameIdent(y, o) /\ y.run = o.run) } \cup {RefEntry(o)}
      [] o.ev = "Remove" -> { y \in R : ~(/\ y.run = o.run /\ y.tgt = o.tgt /\ y.task = o.task
                                          /\ y.a = o.a /\ y.s = o.s /\ y.v = o.v) }
      [] o.ev = "Worm" -> { y \in R : ~WormMatch(y, o) }
      [] OTHER -> R
(* the meaning of load: the entry of the requested run, else that of the highest run of the same
   identity and target, else nothing *)
RefLoad(R, q) ==
    LET same  == { y \in R : SameIdent(y, q) }
        exact == { y \in same : y.run = q.run }
    IN IF exact # {} THEN (CHOOSE y \in exact : TRUE).c
       ELSE IF same # {} THEN (CHOOSE y \in same : \A z \in same : z.run <= y.run).c
       ELSE UNTOUCHED

-----------------------------------------------------------------------------
(* actions.  DB == the catalogue before the call *)
DB == [tab |-> tab, idx |-> idx]
Step == nops < MaxOps /\ nops' = nops + 1
OArgs(ev, tgt, task, a, s, v, run, c) ==
    [O0 EXCEPT !.ev = ev, !.tgt = tgt, !.task = task, !.a = a, !.s = s, !.v = v, !.run = run, !.c = c,
               !.av = cur.alg, !.sv = cur.sv, !.vv = cur.val]

(* Dataset.update() of an algorithm with state vector s holding value v *)
Update(tgt, task, a, s, v, run, c) ==
    LET K == KeyReg(DB, tgt, task, a, cur.alg, s, cur.sv, v, cur.val)
        k == K.key
        e == [run |-> run, tg |-> k.tg, tk |-> k.tk, al |-> k.al, sv |-> k.sv, vl |-> k.vl, c |-> c, seal |-> cur.val]
    IN /\ Step
       /\ tab' = K.D.tab /\ idx' = K.D.idx
       /\ prime' = { f \in prime : ~SameKey(f, e) } \cup {e}
       /\ out' = OArgs("Update", tgt, task, a, s, v, run, c)
       /\ ref' = RefNext(ref, out')
       /\ UNCHANGED cur

(* Dataset.load(): exact key, else highest run with the same five ids, else leave the value alone *)
Load(tgt, task, a, s, v, run) ==
    LET K == KeyReg(DB, tgt, task, a, cur.alg, s, cur.sv, v, cur.val)
        k == K.key
        D == MetricReg(K.D, k.al)
        same  == { e \in prime : SameKeyNoRun(e, k) }
        exact == { e \in same : e.run = run }
        hit   == IF exact # {} THEN exact
                 ELSE IF same # {} THEN { e \in same : \A f \in same : f.run <= e.run } ELSE {}
    IN /\ Step
       /\ tab' = D.tab /\ idx' = D.idx
       /\ out' = IF hit = {} THEN [OArgs("Load", tgt, task, a, s, v, run, 0) EXCEPT !.res = UNTOUCHED]
                 ELSE LET e == CHOOSE e \in hit : TRUE
                      IN [OArgs("Load", tgt, task, a, s, v, run, 0) EXCEPT !.res = e.c, !.seal = e.seal]
       /\ ref' = RefNext(ref, out')
       /\ UNCHANGED <<prime, cur>>

Known(t, n) == Has(tab[t], NOP, n, NOV)
Sub(t, name, parents) == { e \in tab[t] : e.p \in parents /\ Match(name, e.n) }

(* db.remove(run, tn, taskn, algn, svn, vn); KeyError for an unknown target / task *)
RemoveEntry(run, tgt, task, a, s, v) ==
    /\ Step
    /\ IF ~Known("target", tgt) \/ ~Known("task", task)
       THEN /\ out' = [OArgs("Remove", tgt, task, a, s, v, run, 0) EXCEPT !.err = TRUE]
            /\ UNCHANGED prime
       ELSE LET tg == IdIn(tab["target"], NOP, tgt, NOV)
                tk == IdIn(tab["task"], NOP, task, NOV)
                als == { e.id : e \in Sub("alg", a, {tk}) }
                svs == { e.id : e \in Sub("state", s, als) }
                vls == { e.id : e \in Sub("value", v, svs) }
            IN /\ prime' = { e \in prime : ~(/\ e.run = run /\ e.tg = tg /\ e.tk = tk
                                             /\ e.al \in als /\ e.sv \in svs /\ e.vl \in vls) }
               /\ out' = OArgs("Remove", tgt, task, a, s, v, run, 0)
    /\ ref' = RefNext(ref, out')
    /\ UNCHANGED <<tab, idx, cur>>

(* db.reset(run, tn, taskn, alg): set the versions of alg and of its state vector s to the recorded ones.
   Which entry wins among several is the iteration order of the dbm file: left open (\E). *)
Reset(run, tgt, task, a, s) ==
    /\ Step
    /\ IF ~Known("target", tgt) \/ ~Known("task", task)
       THEN /\ out' = [OArgs("Reset", tgt, task, a, s, "", run, 0) EXCEPT !.err = TRUE, !.av1 = cur.alg, !.sv1 = cur.sv]
            /\ UNCHANGED cur
       ELSE LET tg == IdIn(tab["target"], NOP, tgt, NOV)
                tk == IdIn(tab["task"], NOP, task, NOV)
                base == { e \in prime : e.run = run /\ e.tg = tg /\ e.tk = tk }
                hits == { i \in { e.id : e \in Sub("alg", a, {tk}) } : \E e \in base : e.al = i }
                ptab == IF hits # {} THEN { e \in base : e.al = MinOf(hits) }
                        ELSE IF Pinned THEN base ELSE {}
            IN IF ptab = {}
               THEN /\ out' = [OArgs("Reset", tgt, task, a, s, "", run, 0) EXCEPT !.av1 = cur.alg, !.sv1 = cur.sv]
                    /\ UNCHANGED cur
               ELSE \E av1 \in { VerOr(tab["alg"], e.al) : e \in ptab } :
                    \E sv1 \in (LET S == { VerOr(tab["state"], e.sv) : e \in { f \in ptab : NameOr(tab["state"], f.sv) = s } }
                                IN IF S = {} THEN {cur.sv} ELSE S) :
                       /\ cur' = [cur EXCEPT !.alg = av1, !.sv = sv1]
                       /\ out' = [OArgs("Reset", tgt, task, a, s, "", run, 0) EXCEPT !.av1 = av1, !.sv1 = sv1]
    /\ ref' = RefNext(ref, out')
    /\ UNCHANGED <<tab, idx, prime>>

(* util.indexed: names sorted by id (total also when ids have gaps) *)
Indexed(T) == [i \in 1..Cardinality(T) |->
                 LET S == { e \in T : Cardinality({ g \in T : g.id < e.id }) = i - 1 }
                 IN IF S = {} THEN [p |-> -2, n |-> "?", v |-> -2] ELSE NameOf(CHOOSE e \in S : TRUE)]

(* db.trace(["task.a"]): latest run per (non-dunder) target of the highest registered version of the algorithm;
   KeyError for an unknown task, IndexError when no algorithm matches (raised while walking the targets) *)
Report(task, tk, al) ==
    { [task |-> task, tn |-> t.n, run |-> MaxOf({ e.run : e \in { f \in prime : f.tg = t.id /\ f.tk = tk /\ f.al = al } })] :
        t \in { u \in tab["target"] : \E f \in prime : f.tg = u.id /\ f.tk = tk /\ f.al = al } }
ReportOf(task, a) ==
    LET tk == IdIn(tab["task"], NOP, task, NOV)
        cands == Sub("alg", a, {tk})
        \* sorted(list(...), key=version)[-1]: stable sort over id order, last one
        best == CHOOSE e \in cands : \A f \in cands : f.v < e.v \/ (f.v = e.v /\ f.id <= e.id)
    IN Report(task, tk, best.id)
(* one call db.trace([t.a : t in tks]) *)
TraceReport(tks, a) ==
    LET base == [OArgs("Trace", "", "", a, "", "", 0, 0) EXCEPT !.tks = tks] IN
    /\ Step
    /\ IF tab["target"] = {}     \* the lookups happen per target: nothing to look up, nothing to fail
       THEN out' = base
       ELSE IF \E t \in tks : ~Known("task", t) \/ Sub("alg", a, {IdIn(tab["task"], NOP, t, NOV)}) = {}
       THEN out' = [base EXCEPT !.err = TRUE]
       ELSE out' = [base EXCEPT !.rep = UNION { ReportOf(t, a) : t \in tks }]
    /\ ref' = RefNext(ref, out')
    /\ UNCHANGED <<tab, idx, prime, cur>>

(* db.tools.worm.consume(run, tn, taskn, algn, svn, vn): open, db.remove with the names of every key all of whose given
   fields match, close; the harness opens the database again (indices rebuilt) *)
Worm(run, tgt, task, a, s, v) ==
    LET o == OArgs("Worm", tgt, task, a, s, v, run, 0)
        N(e) == NamesOf(tab, e)
        hit == { e \in prime : WormMatch(N(e), o) }
        gone == { e \in prime : \E k \in hit : /\ e.run = k.run /\ e.tg = k.tg /\ e.tk = k.tk
                                                /\ Match(N(k).a, N(e).a) /\ Match(N(k).s, N(e).s) /\ Match(N(k).v, N(e).v) }
    IN /\ Step
       /\ prime' = prime \ gone
       /\ idx' = [t \in TABLES |-> Indexed(tab[t])]
       /\ out' = o
       /\ ref' = RefNext(ref, out')
       /\ UNCHANGED <<tab, cur>>

(* db.next() *)
NextRun ==
    /\ Step
    /\ out' = [OArgs("Next", "", "", "", "", "", 0, 0) EXCEPT !.nxt = IF prime = {} THEN 1 ELSE MaxOf({ e.run : e \in prime }) + 1]
    /\ ref' = RefNext(ref, out')
    /\ UNCHANGED <<tab, idx, prime, cur>>

(* db.add(target) *)
AddTarget(tn) ==
    LET D == Put(DB, "target", NOP, tn, NOV)
    IN /\ Step /\ tab' = D.tab /\ idx' = D.idx
       /\ out' = OArgs("AddTarget", tn, "", "", "", "", 0, 0)
       /\ ref' = RefNext(ref, out')
       /\ UNCHANGED <<prime, cur>>

(* db.update(tsk, alg, sv, vn, v): registration of the current versions without data *)
Register(task, a, s, v) ==
    LET D1 == Put(DB, "task", NOP, task, NOV)
        tk == Id(D1, "task", NOP, task, NOV)
        D2 == Put(D1, "alg", tk, a, cur.alg)
        al == Id(D2, "alg", tk, a, cur.alg)
        D3 == Put(D2, "state", al, s, cur.sv)
        D4 == Put(D3, "value", Id(D3, "state", al, s, cur.sv), v, cur.val)
    IN /\ Step /\ tab' = D4.tab /\ idx' = D4.idx
       /\ out' = OArgs("Register", "", task, a, s, v, 0, 0)
       /\ ref' = RefNext(ref, out')
       /\ UNCHANGED <<prime, cur>>

(* DBI().close(); DBI().open(): indices rebuilt by util.indexed (names sorted by id) *)
Reopen ==
    /\ Step
    /\ idx' = [t \in TABLES |-> Indexed(tab[t])]
    /\ out' = OArgs("Reopen", "", "", "", "", "", 0, 0)
    /\ ref' = RefNext(ref, out')
    /\ UNCHANGED <<tab, prime, cur>>

(* the software changes: a new (or an old) version of the algorithm / state vector / value class *)
Bump(lvl, to) ==
    /\ Step /\ cur[lvl] # to
    /\ cur' = [cur EXCEPT ![lvl] = to]
    /\ out' = [OArgs("Bump", "", "", "", "", "", 0, 0) EXCEPT !.lvl = lvl, !.to = to]
    /\ ref' = RefNext(ref, out')
    /\ UNCHANGED <<tab, idx, prime>>

Init ==
    /\ tab = [t \in TABLES |-> {}]
    /\ idx = [t \in TABLES |-> <<>>]
    /\ prime = {} /\ ref = {}
    /\ cur = [alg |-> MinOf(Vers), sv |-> MinOf(Vers), val |-> MinOf(Vers)]
    /\ nops = 0
    /\ out = [O0 EXCEPT !.ev = "Init"]

UsedC == { e.c : e \in prime }
ContentChoice == IF Canon /\ Contents \ UsedC # {} THEN (Contents \cap UsedC) \cup {MinOf(Contents \ UsedC)} ELSE Contents

Given(m, f, S, wild) == IF f \in m THEN S ELSE {wild}

Next ==
    \/ \E tgt \in Targets, task \in Tasks, a \in AlgNames, s \in SvNames, v \in ValNames, run \in Runs :
          \/ \E c \in ContentChoice : Update(tgt, task, a, s, v, run, c)
          \/ Load(tgt, task, a, s, v, run)
          \/ RemoveEntry(run, tgt, task, a, s, v)
    \/ \E tgt \in Targets, task \in Tasks, a \in AlgNames, s \in SvNames, run \in Runs : Reset(run, tgt, task, a, s)
    \/ \E tks \in (SUBSET Tasks) \ {{}}, a \in AlgNames : TraceReport(tks, a)
    \/ \E m \in WormMasks :
          \E run \in Given(m, "run", Runs, ANYRUN), tgt \in Given(m, "tgt", Targets, ""), task \in Given(m, "task", Tasks, ""),
             a \in Given(m, "a", AlgNames, ""), s \in Given(m, "s", SvNames, ""), v \in Given(m, "v", ValNames, "") :
                Worm(run, tgt, task, a, s, v)
    \/ \E task \in Tasks, a \in AlgNames, s \in SvNames, v \in ValNames : Register(task, a, s, v)
    \/ \E tn \in Targets : AddTarget(tn)
    \/ \E lvl \in {"alg", "sv", "val"}, to \in Vers : Bump(lvl, to)
    \/ NextRun
    \/ Reopen

Spec == Init /\ [][Next]_vars

-----------------------------------------------------------------------------
(* PROPERTY LEVEL.  State clauses take the state explicitly (used primed in the trace specification);
   step clauses are action formulas over <<vars, vars'>> with the operation in out'. *)

TypeOK ==
    /\ \A t \in TABLES : \A e \in tab[t] : e.id \in Nat
    /\ \A e \in prime : e.c \in Nat

(* C08 Bijective: names <-> ids one-to-one, gap-free, index consistent *)
BijectiveAt(tb, ix) ==
    \A t \in TABLES :
       /\ { e.id : e \in tb[t] } = 0..(Cardinality(tb[t]) - 1)
       /\ Cardinality({ NameOf(e) : e \in tb[t] }) = Cardinality(tb[t])
       /\ Len(ix[t]) = Cardinality(tb[t])
       /\ \A e \in tb[t] : e.id + 1 \in DOMAIN ix[t] /\ ix[t][e.id + 1] = NameOf(e)
C08_Bijective == BijectiveAt(tab, idx)

(* C08 Resolves: every primary entry resolves through task, algorithm, state vector, value with consistent parents *)
ResolvesAt(tb, pr) ==
    \A e \in pr :
       /\ HasId(tb["target"], e.tg) /\ HasId(tb["task"], e.tk)
       /\ HasId(tb["alg"], e.al)   /\ RecOf(tb["alg"], e.al).p = e.tk
       /\ HasId(tb["state"], e.sv) /\ RecOf(tb["state"], e.sv).p = e.al
       /\ HasId(tb["value"], e.vl) /\ RecOf(tb["value"], e.vl).p = e.sv
C08_Resolves == ResolvesAt(tab, prime)

(* C08 Survives: a name keeps its id for ever; close + reopen changes nothing *)
C08_SurvivesStep ==
    /\ \A t \in TABLES : tab[t] \subseteq tab'[t]
    /\ out'.ev = "Reopen" => (tab' = tab /\ idx' = idx /\ prime' = prime)

(* C08 NextRun *)
C08_NextRunStep == out'.ev = "Next" => \A e \in prime' : out'.nxt > e.run

(* C08 ExactNames *)
C08_ExactRemoveStep ==
    out'.ev = "Remove" =>
       /\ prime' \subseteq prime
       /\ prime \ prime' = { e \in prime : NamesOf(tab, e) = [run |-> out'.run, tgt |-> out'.tgt, task |-> out'.task,
                                                               a |-> out'.a, s |-> out'.s, v |-> out'.v] }
C08_ExactResetStep ==
    out'.ev = "Reset" =>
       LET E == { e \in prime : LET n == NamesOf(tab, e) IN n.run = out'.run /\ n.tgt = out'.tgt /\ n.task = out'.task /\ n.a = out'.a }
       IN IF E = {} THEN out'.av1 = out'.av /\ out'.sv1 = out'.sv
          ELSE \E e \in E :
                 /\ out'.av1 = VerOr(tab["alg"], e.al)
                 /\ LET Es == { f \in E : f.al = e.al /\ NameOr(tab["state"], f.sv) = out'.s }
                    IN IF Es = {} THEN out'.sv1 = out'.sv ELSE \E f \in Es : out'.sv1 = VerOr(tab["state"], f.sv)
(* what trace("task.a") must report: per target the highest run among the entries whose task and algorithm
   have exactly these names, for the highest registered version of exactly that algorithm name *)
RefReport(tb, pr, task, a) ==
    LET cands == { e \in tb["alg"] : e.n = a /\ NameOr(tb["task"], e.p) = task }
    IN IF cands = {} THEN {}
       ELSE LET top == MaxOf({ e.v : e \in cands })
                E == { e \in pr : LET n == NamesOf(tb, e) IN n.task = task /\ n.a = a /\ VerOr(tb["alg"], e.al) = top }
            IN { [task |-> task, tn |-> tn, run |-> MaxOf({ e.run : e \in { f \in E : NamesOf(tb, f).tgt = tn } })] :
                   tn \in { NamesOf(tb, e).tgt : e \in E } }
C08_ExactTraceStep ==
    out'.ev = "Trace" =>
       LET R(t) == RefReport(tab', prime', t, out'.a) IN
       IF out'.err THEN out'.rep = {} /\ \E t \in out'.tks : R(t) = {}    \* a call may fail only if a name has nothing to report
       ELSE out'.rep = UNION { R(t) : t \in out'.tks }
C08_ExactWormStep ==
    out'.ev = "Worm" =>
       /\ prime' \subseteq prime
       /\ prime \ prime' = { e \in prime : WormMatch(NamesOf(tab, e), out') }

(* C06 LoadOK *)
C06_LoadStep ==
    out'.ev = "Load" =>
       /\ out'.res = RefLoad(ref, out')
       /\ out'.res # UNTOUCHED => out'.seal = out'.vv

(* as temporal formulas for the model checker *)
C06_LoadOK      == [][C06_LoadStep]_vars
C08_Survives    == [][C08_SurvivesStep]_vars
C08_NextRun     == [][C08_NextRunStep]_vars
C08_ExactRemove == [][C08_ExactRemoveStep]_vars
C08_ExactReset  == [][C08_ExactResetStep]_vars
C08_ExactTrace  == [][C08_ExactTraceStep]_vars
C08_ExactWorm   == [][C08_ExactWormStep]_vars
=============================================================================
