\* exhaustive check + export of the quick domain (what checks/version.py writes for --tier quick);
\* run as: tlc -workers 16 -config Version_MC_q.cfg Version_Gen.tla   (drop INVARIANT Emit to check only)
SPECIFICATION Spec
CONSTANTS
  MaxV = 2
  Plan <- PlanQuick
  ClassPairs <- ClassPairsQuick
INVARIANT InvPairs
INVARIANT InvBuild
INVARIANT Emit
CHECK_DEADLOCK FALSE
