----------------------------- MODULE Frame_Cuts -----------------------------
(* the second instance of DESIGN 5.C14: streams with their REAL byte length N,
   cut at every single position and at every pair of positions *)
EXTENDS Naturals, FiniteSets, TLC, Json
CONSTANTS N, MaxCuts
VARIABLE cuts
P == 1..(N - 1)
Init == cuts \in {{}} \cup { {i} : i \in P } \cup (IF MaxCuts >= 2 THEN { {i, j} : i \in P, j \in P } ELSE {})
Next == UNCHANGED cuts
Spec == Init /\ [][Next]_cuts
Emit == PrintT(<<"CUTS", ToJson(cuts)>>)
=============================================================================
