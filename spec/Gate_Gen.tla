------------------------------ MODULE Gate_Gen ------------------------------
(* Export of the descriptor space for materialisation: one CASE line per
   descriptor (claimed space) and per observed-only descriptor. *)
EXTENDS Gate_MC
GenInit == d \in Descriptors \cup Observed
GenSpec == GenInit /\ [][Next]_vars
GenOK == WellFormed(d)
(* the invariants of Gate_MC on the claimed part of the space, so that one run can do both *)
GenTypeOK == d.viol \notin UnclaimedNames => TypeOK
GenWalkAgrees == d.viol \notin UnclaimedNames => WalkAgrees
Emit == PrintT(<<"CASE", ToJson(d)>>)
ASSUME PrintT(<<"VIOLNAMES", ToJson(ViolNames \cup UnclaimedNames)>>)
=============================================================================
