------------------------------ MODULE Gate_Gen ------------------------------
(* Export of the descriptor space for materialisation: one CASE line per
   descriptor (claimed space) and per observed-only descriptor. *)
EXTENDS Gate_MC
GenInit == d \in Descriptors \cup Observed
GenSpec == GenInit /\ [][Next]_vars
GenOK == WellFormed(d)
Emit == PrintT(<<"CASE", ToJson(d)>>)
ASSUME PrintT(<<"VIOLNAMES", ToJson(ViolNames \cup UnclaimedNames)>>)
=============================================================================
