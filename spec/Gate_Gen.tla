------------------------------ MODULE Gate_Gen ------------------------------
(* Export of the descriptor space for materialisation: one CASE line per
   descriptor (claimed space) and per observed-only descriptor. *)
EXTENDS Gate_MC
GenInit == d \in Descriptors \cup Observed
GenSpec == GenInit /\ [][Next]_vars
GenOK == WellFormed(d)
(* the invariants of Gate_MC on the claimed part of the space, so that one run can do both *)
GenTypeOK == d.viol \notin UnclaimedNames => TypeOK
GenWalkAgrees == d.viol \notin UnclaimedNames => WalkAgrees
GenCmdAgrees == d.viol \notin UnclaimedNames => CmdAgrees
(* the environment dimension of the command cases: EnvCases = { [sub, dec, at] : EnvWellFormed }, i.e. the CASE
   descriptors paired with their twin (either role) times Ats; the pairs are formed by the driver from the CASE lines
   and Ats, and Gate_Trace reports every pair that is not EnvWellFormed as FOREIGN *)
ASSUME PrintT(<<"ENVATS", ToJson(Ats)>>)
Emit == PrintT(<<"CASE", ToJson(d)>>)
ASSUME PrintT(<<"VIOLNAMES", ToJson(ViolNames \cup UnclaimedNames)>>)
=============================================================================
