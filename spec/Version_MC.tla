---------------------------- MODULE Version_MC ----------------------------
(***************************************************************************)
(* Bounded input domains of module Version and the exhaustive check of     *)
(* transcription = reference on them.                                      *)
(*                                                                         *)
(*   Spec   seed states and their successors:                              *)
(*     "pseed" <<class pair, a>>  ->  "pair" <<a, b>> for every b            *)
(*                                    INVARIANT InvPairs                   *)
(*     "seed"  <<plan parameters, engine>>  ->  "case" one per build case  *)
(*             of that engine (constant Plan, chosen by the driver through *)
(*             `Plan <- PlanQuick` ...)        INVARIANT InvBuild           *)
(*   (the seed level lets the worker threads evaluate the cases, and is    *)
(*   what Version_Gen prints)                                              *)
(*                                                                         *)
(* A build case is structural (what TLC chooses and the harness            *)
(* materialises): an engine (<= 3 algorithms of kind task / analysis, 1-2  *)
(* state vectors with 1-2 values -- or none: such a state vector is not a  *)
(* versioned element --, declared inputs), the known targets, and          *)
(* the persisted version list of every element -- either given directly    *)
(* (mode "direct": absent / empty / older / newer / look-alike / several   *)
(* without the current one for the elements of the bump set D; same /      *)
(* several including the current one for the others) or as the history of  *)
(* older engines recorded into the database (mode "shelve").               *)
(***************************************************************************)
EXTENDS Version, SequencesExt

CONSTANTS Plan,        \* set of plan records, see PlanQuick below
          ClassPairs   \* set of <<class of a, class of b>> the real operators are evaluated on

ASSUME LexIsStrictTotalOrder

-----------------------------------------------------------------------------
(* engines *)
Kinds == {"task", "analysis"}
Schemes == {"pkgs", "onepkg"}
NameOf(scheme, i) == IF scheme = "pkgs"
                     THEN << <<"t0", "a">>, <<"t1", "b">>,  <<"t2", "c">> >>[i]
                     ELSE << <<"t0", "a">>, <<"t0", "ab">>, <<"t0", "b">> >>[i]   \* one task, prefix-related names
SvName(s)  == <<"s", "sx">>[s]
ValName(v) == <<"v", "vx">>[v]

(* every element has its own current version; decrementing one field of it
   yields the current version of a neighbour (parent / sibling / previous
   algorithm), so a lookup in the wrong table or under the wrong key shows *)
MkEngine(scheme, kinds, shapes, edges) ==
    [algs |-> [i \in DOMAIN kinds |->
                 [pkg |-> NameOf(scheme, i)[1], name |-> NameOf(scheme, i)[2],
                  kind |-> kinds[i], ver |-> <<i, 1, 1>>,
                  svs |-> [s \in DOMAIN shapes[i] |->
                             [name |-> SvName(s), ver |-> <<i, 1 + s, 1>>,
                              vals |-> IF shapes[i][s] = 0 THEN <<>>
                                       ELSE [v \in 1..shapes[i][s] |->
                                               [name |-> ValName(v), ver |-> <<i, 1 + s, 1 + v>>]]]]]],
     edges |-> SetToSeq(edges)]        \* <<i, j>>: algorithm j declares algorithm i as input

Shapes1 == { <<1>>, <<2>>, <<1, 1>>, <<1, 2>>, <<2, 1>>, <<2, 2>> }   \* values per state vector
Engines1 == { MkEngine("pkgs", <<k>>, <<sh>>, {}) : k \in Kinds, sh \in Shapes1 }
Engines2 == { MkEngine(sc, <<k1, k2>>, << <<2>>, <<1, 1>> >>, ed) :
                sc \in Schemes, k1 \in Kinds, k2 \in Kinds, ed \in SUBSET { <<1, 2>> } }
Engines3 == { MkEngine(sc, <<k1, k2, k3>>, << <<2>>, <<1, 1>>, <<1>> >>, ed) :
                sc \in Schemes, k1 \in Kinds, k2 \in Kinds, k3 \in Kinds,
                ed \in SUBSET { <<1, 2>>, <<1, 3>>, <<2, 3>> } }
(* shapes with a state vector that declares no value (0): such a state vector is not
   a versioned element -- version.current() must not report it and nothing can ever
   persist its version; it comes first so that Pick() takes an ordinary one *)
Engines1E == { MkEngine("pkgs", <<k>>, <<sh>>, {}) : k \in Kinds, sh \in { <<0, 1>>, <<0, 2>> } }
Engines2E == { MkEngine(sc, <<k1, k2>>, << <<0, 1>>, <<1>> >>, { <<1, 2>> }) :
                sc \in Schemes, k1 \in Kinds, k2 \in Kinds }
Engines1Q == { MkEngine("pkgs", <<k>>, <<sh>>, {}) : k \in Kinds, sh \in { <<1>>, <<2>>, <<1, 1>>, <<1, 2>> } }
Engines3Q == { MkEngine(sc, <<k1, k2, k3>>, << <<2>>, <<1, 1>>, <<1>> >>, ed) :
                sc \in Schemes, k1 \in Kinds, k2 \in Kinds, k3 \in Kinds,
                ed \in { {}, { <<1, 2>>, <<2, 3>> } } }
EnginesH1 == { MkEngine("pkgs", <<k>>, <<sh>>, {}) : k \in Kinds, sh \in { <<1>>, <<2>>, <<1, 1>>, <<0, 1>> } }
EnginesHQ == { MkEngine("pkgs", <<"task">>, << <<2>> >>, {}), MkEngine("pkgs", <<"analysis">>, << <<0, 1>> >>, {}) }
EnginesH2 == { MkEngine(sc, ks, << <<1>>, <<1>> >>, { <<1, 2>> }) :
                sc \in Schemes, ks \in { <<"task", "analysis">>, <<"analysis", "task">> } }

(* versioned elements of an engine as index paths <<alg>>, <<alg, sv>>, <<alg, sv, val>>;
   a state vector without values is not one *)
Idx(e) == UNION { {<<i>>} \cup UNION { IF e.algs[i].svs[s].vals = <<>> THEN {}
                                        ELSE {<<i, s>>} \cup { <<i, s, v>> : v \in DOMAIN e.algs[i].svs[s].vals }
                                        : s \in DOMAIN e.algs[i].svs }
                  : i \in DOMAIN e.algs }
ElSeq(e) == SetToSeq(Idx(e))
AlgName(e, i) == e.algs[i].pkg \o "." \o e.algs[i].name
PathOf(e, x) == LET a == e.algs[x[1]] IN
                IF Len(x) = 1 THEN <<a.pkg, a.name>>
                ELSE IF Len(x) = 2 THEN <<a.pkg, a.name, a.svs[x[2]].name>>
                ELSE <<a.pkg, a.name, a.svs[x[2]].name, a.svs[x[2]].vals[x[3]].name>>
CurOf(e, x) == LET a == e.algs[x[1]] IN
               IF Len(x) = 1 THEN a.ver
               ELSE IF Len(x) = 2 THEN a.svs[x[2]].ver
               ELSE a.svs[x[2]].vals[x[3]].ver

-----------------------------------------------------------------------------
(* persisted version lists, mode "direct" *)
Dec(c, f) == [c EXCEPT ![f] = @ - 1]
Inc(c, f) == [c EXCEPT ![f] = @ + 1]
StaleStyles == {"absent", "empty", "older", "newer", "look", "two"}
FreshStyles == {"same", "first", "last", "mid", "dup"}
PersFor(c, stale, st, f) ==
    IF stale
    THEN CASE st[1] = "absent" -> [present |-> FALSE, vers |-> <<>>]
           [] st[1] = "empty"  -> [present |-> TRUE,  vers |-> <<>>]
           [] st[1] = "older"  -> [present |-> TRUE,  vers |-> <<Dec(c, f)>>]
           [] st[1] = "newer"  -> [present |-> TRUE,  vers |-> <<Inc(c, f)>>]
           [] st[1] = "look"   -> [present |-> TRUE,  vers |-> << <<c[1], c[2], c[3] * 10>>, <<c[1] + 10, c[2], c[3]>> >>]
           [] st[1] = "two"    -> [present |-> TRUE,  vers |-> <<Dec(c, f), Inc(c, f)>>]
    ELSE CASE st[2] = "same"   -> [present |-> TRUE,  vers |-> <<c>>]
           [] st[2] = "first"  -> [present |-> TRUE,  vers |-> <<c, Dec(c, f)>>]
           [] st[2] = "last"   -> [present |-> TRUE,  vers |-> <<Dec(c, f), c>>]
           [] st[2] = "mid"    -> [present |-> TRUE,  vers |-> <<Dec(c, f), c, Inc(c, f)>>]
           [] st[2] = "dup"    -> [present |-> TRUE,  vers |-> <<c, c>>]

(* style tuples <<style of the bumped elements, style of the others, ghost>>;
   ghost: the tables also hold entries of an algorithm that no longer exists *)
StyleCover == { <<s, "same", FALSE>> : s \in StaleStyles }
              \cup { <<"older", s, FALSE>> : s \in FreshStyles \ {"same"} }
              \cup { <<"two", "mid", TRUE>> }
StyleQuick == { <<"absent", "first", FALSE>>, <<"older", "last", FALSE>>, <<"look", "dup", TRUE>> }
StyleOne   == { <<"older", "last", FALSE>> }

(* bump sets *)
Levels == {1, 2, 3}
Pick(e, i, lv) == LET ns == Len(e.algs[i].svs) IN
                  IF lv = 1 THEN <<i>>
                  ELSE IF lv = 2 THEN <<i, ns>>
                  ELSE <<i, ns, Len(e.algs[i].svs[ns].vals)>>
DSets(e, dmode) ==
    IF dmode = "all" THEN SUBSET Idx(e)                       \* every subset of the elements
    ELSE IF dmode = "same"                                    \* a set of algorithms, all bumped at one level
    THEN {{}} \cup { { Pick(e, i, lv) : i \in S } : S \in (SUBSET DOMAIN e.algs) \ {{}}, lv \in Levels }
    ELSE \* "byalg": a set of algorithms, each bumped at its own level
         UNION { { { Pick(e, i, lv[i]) : i \in S } : lv \in [S -> Levels] } : S \in SUBSET DOMAIN e.algs }

MkCase(e, D, st, f, T) ==
    LET es == ElSeq(e) IN
    [eng |-> e, targets |-> T, mode |-> "direct", ghost |-> st[3], nstale |-> Cardinality(D),
     pers |-> [k \in DOMAIN es |-> PersFor(CurOf(e, es[k]), es[k] \in D, st, f)],
     hist |-> <<>>]

(* mode "shelve": hs is a sequence of <<D, only>>: an older engine in which the
   elements of D were one step behind was recorded for the algorithms `only`.
   The persisted lists are then what the database must answer: every version
   that was recorded for the element, nothing else. *)
MkHistCase(e, hs, f, T) ==
    LET RecIn(x) == { j \in DOMAIN hs : x[1] \in hs[j][2] }
        VerIn(x, j) == IF x \in hs[j][1] THEN Dec(CurOf(e, x), f) ELSE CurOf(e, x)
    IN
    [eng |-> e, targets |-> T, mode |-> "shelve", ghost |-> FALSE,
     nstale |-> Cardinality({ x \in Idx(e) : \A j \in RecIn(x) : x \in hs[j][1] }),
     pers |-> [k \in DOMAIN ElSeq(e) |->
                 LET x == ElSeq(e)[k]
                     js == SetToSortSeq(RecIn(x), <)
                 IN [present |-> js # <<>>, vers |-> [n \in DOMAIN js |-> VerIn(x, js[n])]]],
     hist |-> [j \in DOMAIN hs |->
                 [only |-> SetToSeq({ e.algs[i].name : i \in hs[j][2] }),
                  pkgs |-> SetToSeq({ e.algs[i].pkg : i \in hs[j][2] }),
                  algs |-> SetToSeq({ AlgName(e, i) : i \in hs[j][2] }),
                  vers |-> [k \in DOMAIN ElSeq(e) |-> VerIn(ElSeq(e)[k], j)]]]]

HistSeqs(e, dmode2) ==
    LET A == DOMAIN e.algs
        HOne == { <<D, O>> : D \in SUBSET Idx(e), O \in (SUBSET A) \ {{}} }
        HFew == { <<D, O>> : D \in DSets(e, dmode2), O \in (SUBSET A) \ {{}} }
    IN {<<>>} \cup { <<h>> : h \in HOne } \cup { <<h1, h2>> : h1 \in HFew, h2 \in HFew }

-----------------------------------------------------------------------------
(* plans: which part of the domain a run covers *)
T0 == <<>>
T1 == <<"T1">>
T2 == <<"T1", "T2">>

DirectPlan(es, dm, sts, fs, ts) == [engines |-> es, dmode |-> dm, styles |-> sts, fields |-> fs, targets |-> ts, hist |-> FALSE]
HistPlan(es, dm, fs, ts)        == [engines |-> es, dmode |-> dm, styles |-> {}, fields |-> fs, targets |-> ts, hist |-> TRUE]

PlanQuick == { DirectPlan(Engines1Q, "all", StyleQuick, {3}, {T2}),
               DirectPlan(Engines1Q, "all", StyleOne, {2}, {T0}),
               DirectPlan(Engines2, "byalg", StyleQuick, {2}, {T2}),
               DirectPlan(Engines2, "byalg", StyleOne, {1}, {T0}),
               DirectPlan(Engines3Q, "same", StyleOne, {1}, {T2}),
               DirectPlan(Engines1E, "all", StyleQuick, {3}, {T2}),
               DirectPlan(Engines1E, "all", StyleOne, {2}, {T0}),
               DirectPlan(Engines2E, "byalg", StyleOne, {2}, {T2}),
               \* a small part of the real database in quick: with field 3 the older version of the
               \* first value is the current version of its state vector
               HistPlan(EnginesHQ, "all", {3}, {T2}) }
PlanT1 == { DirectPlan(Engines1 \cup Engines1E, "all", StyleCover, {3}, {T0, T1, T2}),
            DirectPlan(Engines1 \cup Engines1E, "all", StyleQuick, {1, 2}, {T2}) }
PlanT2 == { DirectPlan(Engines2, "byalg", StyleCover, {2}, {T0, T1, T2}),
            DirectPlan(Engines2E, "byalg", StyleQuick, {2}, {T0, T2}) }
PlanT3 == { DirectPlan(Engines3, "byalg", StyleQuick, {1}, {T2}),
            DirectPlan(Engines3, "same", StyleOne, {2}, {T0}) }
PlanH1 == { HistPlan(EnginesH1, "all", {3}, {T2}) }
PlanH2 == { HistPlan(EnginesH2, "same", {2}, {T2}) }
PlanTiny == { DirectPlan({ MkEngine("pkgs", <<"task">>, << <<1>> >>, {}) }, "all", StyleOne, {3}, {T2}) }

CasesFor(p, e) ==
    IF p.hist
    THEN { MkHistCase(e, hs, f, T) : hs \in HistSeqs(e, p.dmode), f \in p.fields, T \in p.targets }
    ELSE { MkCase(e, D, st, f, T) : D \in DSets(e, p.dmode), st \in p.styles, f \in p.fields, T \in p.targets }

-----------------------------------------------------------------------------
(* the model's view of a structural case, and the transcription's result on it *)
Norm(c) ==
    LET e == c.eng
        es == ElSeq(e)
    IN
    [algs |-> [i \in DOMAIN e.algs |-> [name |-> AlgName(e, i), kind |-> e.algs[i].kind]],
     targets |-> c.targets,
     els |-> [k \in DOMAIN c.pers |->
                [owner |-> AlgName(e, es[k][1]), level |-> Len(es[k]),
                 incur |-> TRUE, cur |-> VerStr(CurOf(e, es[k])),
                 present |-> c.pers[k].present,
                 pers |-> [j \in DOMAIN c.pers[k].vers |-> VerStr(c.pers[k].vers[j])]]]]

ImplResult(c) ==
    LET ans == ImplAns(c) IN
    [err |-> "",
     que |-> SetToSeq({ a \in AlgNames(c) : ImplTodoIf(c, ans, a) # {} }),
     nodes |-> [i \in DOMAIN c.algs |-> [tag |-> c.algs[i].name, todo |-> SetToSeq(ImplTodoIf(c, ans, c.algs[i].name))]]]

Classes == {"plain", "local", "getver", "alg", "anz", "reg", "sv", "val"}
ClassPairsQuick == { <<"plain", "plain">>, <<"alg", "sv">>, <<"val", "local">>, <<"getver", "anz">> }
ClassPairsAll   == Classes \X Classes

Params(p) == [dmode |-> p.dmode, styles |-> p.styles, fields |-> p.fields, targets |-> p.targets, hist |-> p.hist]
SeedsB == UNION { { <<Params(p), e>> : e \in p.engines } : p \in Plan }

Init == \/ ph = "pseed" /\ pr \in ClassPairs \X Ver /\ cs = 0
        \/ ph = "seed"  /\ pr = 0 /\ cs \in SeedsB
Next == \/ /\ ph = "pseed" /\ ph' = "pair"
           /\ \E b \in Ver : pr' = <<pr[2], b>>
           /\ cs' = 0
        \/ /\ ph = "seed" /\ ph' = "case"
           /\ pr' = 0
           /\ \E raw \in CasesFor(cs[1], cs[2]) :
                 LET n == Norm(raw) IN cs' = [n |-> n, r |-> ImplResult(n), nstale |-> raw.nstale]
Spec == Init /\ [][Next]_mvars

InvPairs == ph = "pair" => PairClauses(pr[1], pr[2], ImplOps(pr[1], pr[2]), ImplOps(pr[2], pr[1])) = {}
InvBuild == ph = "case" => BuildClauses(cs.n, cs.r) \cup FaithClauses(cs.n, cs.n, 0) = {}
=============================================================================
