---------------------------- MODULE Search_Trace ----------------------------
(***************************************************************************)
(* Validation of records produced by the REAL code (harness/search_h.py)   *)
(* against the property level of module Search.                            *)
(*                                                                         *)
(* One trace = one job of the harness:                                     *)
(*   kind "a"  a batch of run-id expressions; every step is one call of    *)
(*             db.basis.SearchFacade._scrub (string form, alternative      *)
(*             string form, list-of-objects form)                          *)
(*   kind "b"  one database (real shelve tables filled with util.append;   *)
(*             stored run ids = model run + offset, see Search!ShiftDb),   *)
(*             every step is a find / page walk / facet executed through   *)
(*             dawgie.db.search() and through the front-end wrappers       *)
(* Every step is judged by the declarative operators (Den, Match, FindOK,  *)
(* PagesOK, FacetOK) -> CLAUSE lines; comparison with the transcription    *)
(* (Scrub, ImplFind, ImplFacet on the logged index tables) -> DRIFT lines. *)
(* Nothing aborts: verdicts are total; acceptance = every line consumed.   *)
(***************************************************************************)
EXTENDS Search, Json, IOUtils

Traces == ndJsonDeserialize(IOEnv.TRACE_FILE)

VARIABLES tid, l, bad, drift, cnt, nt      \* nt: lines of this trace with a non-trivial (counted) step
tvars == <<tid, l, bad, drift, cnt, nt>>

Rec(t, i) == Traces[t].steps[i]
DbOf(t)   == ToSet(Traces[t].db)
TabsOf(t) == LET x == Traces[t].tabs
             IN [tg |-> x.tg, tk |-> x.tk, al |-> x.al, sv |-> x.sv, prime |-> ToSet(x.prime)]
QOf(a)    == [hasrun |-> a.hasrun, run |-> a.run,
              tg |-> ToSet(a.tg), tk |-> ToSet(a.tk), al |-> ToSet(a.al), sv |-> ToSet(a.sv)]

Fail(name, ok) == IF ok THEN {} ELSE {name}
HasRange(q) == q.hasrun /\ \E i \in DOMAIN q.run : q.run[i].k = "r"

(* per step: failing property clauses, drift flag, vacuity counters        *)
(* counters: <<scrub changed, find non-empty, find by range non-empty,     *)
(*            find inner window non-empty, walk of >= 2 non-empty pages,   *)
(*            facet non-empty, find/walk returning run ids of different    *)
(*            decimal widths (numeric order # order of the strings)>>      *)
Zero == <<0, 0, 0, 0, 0, 0, 0>>
Unit(i) == [j \in 1..7 |-> IF j = i THEN 1 ELSE 0]
Add(x, y) == [j \in 1..7 |-> x[j] + y[j]]
MixedWidth(M) == \E x, y \in M : Width(x.run) # Width(y.run)

EvalScrub(r) ==
    LET e == r.args.e
        m == Scrub(e)
    IN
    [bad   |-> Fail("C17.Scrub", /\ r.obs.err = ""
                                 /\ ScrubOK(e, r.obs.str) /\ ScrubOK(e, r.obs.alt) /\ ScrubOK(e, r.obs.lst)),
     drift |-> ~(r.obs.err = "" /\ r.obs.str = m /\ r.obs.alt = m /\ r.obs.lst = m),
     cnt   |-> IF r.obs.str # e THEN Unit(1) ELSE Zero]

EvalFind(t, r) ==
    LET q == QOf(r.args.q)
        M == Match(DbOf(t), q)
        n == Cardinality(M)
        i == r.args.index
        L == r.args.limit
        m == ImplFind(TabsOf(t), q, i, L)
    IN
    [bad   |-> Fail("C17.FindOK",   r.obs.err = ""    /\ FindOK(M, i, L, r.obs.items, r.obs.total))
               \cup
               Fail("C17.FindOKfe", r.obs.fe_err = "" /\ FindOK(M, i, L, r.obs.fe_items, r.obs.fe_total)),
     drift |-> ~(r.obs.items = m.items /\ r.obs.total = m.total /\ r.obs.fe_items = m.items /\ r.obs.fe_total = m.total),
     cnt   |-> Add(IF n > 0 THEN Unit(2) ELSE Zero,
               Add(IF n > 0 /\ HasRange(q) THEN Unit(3) ELSE Zero,
               Add(IF i > 0 /\ L # NOLIMIT /\ i < n THEN Unit(4) ELSE Zero,
                   IF i < n /\ MixedWidth(M) THEN Unit(7) ELSE Zero)))]

EvalPages(t, r) ==
    LET q == QOf(r.args.q)
        M == Match(DbOf(t), q)
        L == r.args.L
        T == TabsOf(t)
        pks == ImplKeys(T, q)
    IN
    [bad   |-> Fail("C17.Pages", r.obs.err = "" /\ PagesOK(M, L, r.obs.pages))
               \cup
               Fail("C17.FindOK", /\ r.obs.err = ""
                                  /\ Len(r.obs.totals) = Len(r.obs.pages)
                                  /\ \A p \in DOMAIN r.obs.pages :
                                        FindOK(M, (p - 1) * L, L, r.obs.pages[p], r.obs.totals[p])),
     drift |-> ~(\A p \in DOMAIN r.obs.pages : r.obs.pages[p] = ImplPage(T, pks, (p - 1) * L, L).items),
     cnt   |-> Add(IF Cardinality(M) > L THEN Unit(5) ELSE Zero,
                   IF MixedWidth(M) THEN Unit(7) ELSE Zero)]

EvalFacet(t, r) ==
    LET q == QOf(r.args.q)
        M == Match(DbOf(t), q)
        d == r.args.d
    IN
    [bad   |-> Fail("C17.FacetOK",   r.obs.err = ""    /\ FacetOK(M, d, r.obs.names))
               \cup
               Fail("C17.FacetOKfe", r.obs.fe_err = "" /\ FacetOK(M, d, r.obs.fe_names)),
     drift |-> ~(r.obs.names = ImplFacet(TabsOf(t), q, d) /\ r.obs.fe_names = r.obs.names),
     cnt   |-> IF M # {} THEN Unit(6) ELSE Zero]

Eval(t, i) ==
    LET r == Rec(t, i) IN
    CASE r.ev = "Scrub" -> EvalScrub(r)
      [] r.ev = "Find"  -> EvalFind(t, r)
      [] r.ev = "Pages" -> EvalPages(t, r)
      [] r.ev = "Facet" -> EvalFacet(t, r)
      [] OTHER -> [bad |-> {"C17.UnknownEvent"}, drift |-> FALSE, cnt |-> Zero]

Report(t, i, ev, total, lines) ==
    /\ (ev.bad # {} => PrintT(<<"CLAUSE", Traces[t].tid, i, Rec(t, i).ev, ev.bad>>))
    /\ (ev.drift => PrintT(<<"DRIFT", Traces[t].tid, i, Rec(t, i).ev>>))
    /\ (i = Len(Traces[t].steps) => PrintT(<<"STAT", Traces[t].tid, ToJson([cnt |-> total, lines |-> lines])>>))

-----------------------------------------------------------------------------
TraceInit ==
    /\ tid \in {t \in 1..Len(Traces) : Len(Traces[t].steps) > 0}
    /\ l = 1
    /\ LET ev == Eval(tid, 1) IN
       /\ bad = ev.bad /\ drift = ev.drift /\ cnt = ev.cnt
       /\ nt = IF ev.cnt # Zero THEN <<1>> ELSE <<>>
       /\ Report(tid, 1, ev, cnt, nt)

TraceNext ==
    /\ l < Len(Traces[tid].steps)
    /\ l' = l + 1
    /\ UNCHANGED tid
    /\ LET ev == Eval(tid, l + 1) IN
       /\ bad' = ev.bad /\ drift' = ev.drift /\ cnt' = Add(cnt, ev.cnt)
       /\ nt' = IF ev.cnt # Zero THEN Append(nt, l + 1) ELSE nt
       /\ Report(tid, l + 1, ev, cnt', nt')

TraceSpec == TraceInit /\ [][TraceNext]_tvars

TotalLines == FoldLeft(LAMBDA acc, t : acc + Len(t.steps), 0, Traces)
AllConsumed == /\ PrintT(<<"CONSUMED", TLCGet("distinct"), TotalLines>>)
               /\ TLCGet("distinct") = TotalLines
=============================================================================
