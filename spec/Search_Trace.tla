---------------------------- MODULE Search_Trace ----------------------------
(***************************************************************************)
(* Validation of records produced by the REAL code (harness/search_h.py)   *)
(* against the property level of module Search.                            *)
(*                                                                         *)
(* One trace = one job of the harness:                                     *)
(*   kind "a"  a batch of run-id expressions; every step is one call of    *)
(*             db.basis.SearchFacade._scrub (string form, alternative      *)
(*             string form, list-of-objects form)                          *)
(*   kind "b"  one database (real shelve tables filled with util.append;   *)
(*             stored run ids = model run + offset, see Search!ShiftDb),   *)
(*             every step is a find / page walk / facet executed through   *)
(*             dawgie.db.search() and through the front-end wrappers       *)
(*   kind "h"  one HISTORY in one process (Search, part c): the steps are   *)
(*             searches (as in kind "b"; a Find goes through the engine,   *)
(*             the front end or both: args.via) interleaved with changes   *)
(*             of the database: Store / Remove (dawgie.db.shelve.remove)   *)
(*             of entries args.xs, Reopen = DBI().close() + open of        *)
(*             another database with content args.xs.  The variable cur    *)
(*             is the MODEL database after the steps so far (HApply);      *)
(*             every search is judged against cur.  Each step logs the     *)
(*             real prime table (st.db, names) and the index tables        *)
(*             (st.tabs) as they are after the step: st.db # cur is DRIFT. *)
(* Every step is judged by the declarative operators (Den, Match, FindOK,  *)
(* PagesOK, FacetOK) -> CLAUSE lines; comparison with the transcription    *)
(* (Scrub, ImplFind, ImplFacet on the logged index tables) -> DRIFT lines. *)
(* Nothing aborts: verdicts are total; acceptance = every line consumed.   *)
(***************************************************************************)
EXTENDS Search, Json, IOUtils

Traces == ndJsonDeserialize(IOEnv.TRACE_FILE)

VARIABLES tid, l, bad, drift, cnt, nt,     \* nt: lines of this trace with a non-trivial (counted) step
          cur,                             \* the model database after line l (constant for kinds a, b)
          prev                             \* the last find / page walk: its query, |cur| and match set then
tvars == <<tid, l, bad, drift, cnt, nt, cur, prev>>

Rec(t, i) == Traces[t].steps[i]
DbOf(t)   == ToSet(Traces[t].db)
Tabs(x)   == [tg |-> x.tg, tk |-> x.tk, al |-> x.al, sv |-> x.sv, prime |-> ToSet(x.prime)]
IsHist(t) == Traces[t].kind = "h"
TabsAt(t, r) == IF IsHist(t) THEN Tabs(r.st.tabs) ELSE Tabs(Traces[t].tabs)
(* binding of a history step: the real prime table is the model database *)
Unbound(t, r, db) == IsHist(t) /\ ToSet(r.st.db) # db
QOf(a)    == [hasrun |-> a.hasrun, run |-> a.run,
              tg |-> ToSet(a.tg), tk |-> ToSet(a.tk), al |-> ToSet(a.al), sv |-> ToSet(a.sv)]

Fail(name, ok) == IF ok THEN {} ELSE {name}
HasRange(q) == q.hasrun /\ \E i \in DOMAIN q.run : q.run[i].k = "r"

(* per step: failing property clauses, drift flag, vacuity counters        *)
(* counters: <<scrub changed, find non-empty, find by range non-empty,     *)
(*            find inner window non-empty, walk of >= 2 non-empty pages,   *)
(*            facet non-empty, find/walk returning run ids of different    *)
(*            decimal widths (numeric order # order of the strings),       *)
(*            find/walk repeating the previous find/walk's query on a      *)
(*            database with as many primary keys but another match set,    *)
(*            the same across a close + open of another database>>         *)
NC == 9
Zero == [j \in 1..NC |-> 0]
Unit(i) == [j \in 1..NC |-> IF j = i THEN 1 ELSE 0]
Add(x, y) == [j \in 1..NC |-> x[j] + y[j]]
NoPrev == [has |-> FALSE, q |-> Query(Absent, {}, {}, {}, {}), n |-> 0, M |-> {}, reop |-> FALSE]
Again(pv, q, db, M) ==
    IF pv.has /\ pv.q = q /\ pv.n = Cardinality(db) /\ pv.M # M
    THEN Add(Unit(8), IF pv.reop THEN Unit(9) ELSE Zero) ELSE Zero
MixedWidth(M) == \E x, y \in M : Width(x.run) # Width(y.run)

EvalScrub(r) ==
    LET e == r.args.e
        m == Scrub(e)
    IN
    [bad   |-> Fail("C17.Scrub", /\ r.obs.err = ""
                                 /\ ScrubOK(e, r.obs.str) /\ ScrubOK(e, r.obs.alt) /\ ScrubOK(e, r.obs.lst)),
     drift |-> ~(r.obs.err = "" /\ r.obs.str = m /\ r.obs.alt = m /\ r.obs.lst = m),
     cnt   |-> IF r.obs.str # e THEN Unit(1) ELSE Zero]

EvalFind(t, r, db, pv) ==
    LET q == QOf(r.args.q)
        M == Match(db, q)
        n == Cardinality(M)
        i == r.args.index
        L == r.args.limit
        m == ImplFind(TabsAt(t, r), q, i, L)
        v == r.args.via                       \* which entry points were called: "db", "fe", "both"
    IN
    [bad   |-> Fail("C17.FindOK",   v = "fe" \/ (r.obs.err = ""    /\ FindOK(M, i, L, r.obs.items, r.obs.total)))
               \cup
               Fail("C17.FindOKfe", v = "db" \/ (r.obs.fe_err = "" /\ FindOK(M, i, L, r.obs.fe_items, r.obs.fe_total))),
     drift |-> \/ ~(/\ v = "fe" \/ (r.obs.items = m.items /\ r.obs.total = m.total)
                    /\ v = "db" \/ (r.obs.fe_items = m.items /\ r.obs.fe_total = m.total))
               \/ Unbound(t, r, db),
     cnt   |-> Add(Again(pv, q, db, M),
               Add(IF n > 0 THEN Unit(2) ELSE Zero,
               Add(IF n > 0 /\ HasRange(q) THEN Unit(3) ELSE Zero,
               Add(IF i > 0 /\ L # NOLIMIT /\ i < n THEN Unit(4) ELSE Zero,
                   IF i < n /\ MixedWidth(M) THEN Unit(7) ELSE Zero))))]

EvalPages(t, r, db, pv) ==
    LET q == QOf(r.args.q)
        M == Match(db, q)
        L == r.args.L
        T == TabsAt(t, r)
        pks == ImplKeys(T, q)
    IN
    [bad   |-> Fail("C17.Pages", r.obs.err = "" /\ PagesOK(M, L, r.obs.pages))
               \cup
               Fail("C17.FindOK", /\ r.obs.err = ""
                                  /\ Len(r.obs.totals) = Len(r.obs.pages)
                                  /\ \A p \in DOMAIN r.obs.pages :
                                        FindOK(M, (p - 1) * L, L, r.obs.pages[p], r.obs.totals[p])),
     drift |-> \/ ~(\A p \in DOMAIN r.obs.pages : r.obs.pages[p] = ImplPage(T, pks, (p - 1) * L, L).items)
               \/ Unbound(t, r, db),
     cnt   |-> Add(Again(pv, q, db, M),
               Add(IF Cardinality(M) > L THEN Unit(5) ELSE Zero,
                   IF MixedWidth(M) THEN Unit(7) ELSE Zero))]

EvalFacet(t, r, db) ==
    LET q == QOf(r.args.q)
        M == Match(db, q)
        d == r.args.d
    IN
    [bad   |-> Fail("C17.FacetOK",   r.obs.err = ""    /\ FacetOK(M, d, r.obs.names))
               \cup
               Fail("C17.FacetOKfe", r.obs.fe_err = "" /\ FacetOK(M, d, r.obs.fe_names)),
     drift |-> ~(r.obs.names = ImplFacet(TabsAt(t, r), q, d) /\ r.obs.fe_names = r.obs.names) \/ Unbound(t, r, db),
     cnt   |-> IF M # {} THEN Unit(6) ELSE Zero]

(* a change of the database is no claim of the property: it moves cur; the *)
(* real table after the step must be the model's (else DRIFT)              *)
EvalChange(t, r, db) ==
    [bad |-> {}, drift |-> ~(r.obs.err = "" /\ ToSet(r.st.db) = HApply(db, r.ev, ToSet(r.args.xs))), cnt |-> Zero]

CurAfter(t, i, db) == LET r == Rec(t, i) IN IF r.ev \in HMutations THEN HApply(db, r.ev, ToSet(r.args.xs)) ELSE db
PrevAfter(t, i, db, pv) ==
    LET r == Rec(t, i) IN
    IF r.ev \in {"Find", "Pages"}
    THEN LET q == QOf(r.args.q) IN [has |-> TRUE, q |-> q, n |-> Cardinality(db), M |-> Match(db, q), reop |-> FALSE]
    ELSE IF r.ev = "Reopen" THEN [pv EXCEPT !.reop = TRUE] ELSE pv

(* db: the model database BEFORE line i (searches do not change it) *)
Eval(t, i, db, pv) ==
    LET r == Rec(t, i) IN
    CASE r.ev = "Scrub" -> EvalScrub(r)
      [] r.ev = "Find"  -> EvalFind(t, r, db, pv)
      [] r.ev = "Pages" -> EvalPages(t, r, db, pv)
      [] r.ev = "Facet" -> EvalFacet(t, r, db)
      [] r.ev \in HMutations /\ IsHist(t) -> EvalChange(t, r, db)
      [] OTHER -> [bad |-> {"C17.UnknownEvent"}, drift |-> FALSE, cnt |-> Zero]

Report(t, i, ev, total, lines) ==
    /\ (ev.bad # {} => PrintT(<<"CLAUSE", Traces[t].tid, i, Rec(t, i).ev, ev.bad>>))
    /\ (ev.drift => PrintT(<<"DRIFT", Traces[t].tid, i, Rec(t, i).ev>>))
    /\ (i = Len(Traces[t].steps) => PrintT(<<"STAT", Traces[t].tid, ToJson([cnt |-> total, lines |-> lines])>>))

-----------------------------------------------------------------------------
TraceInit ==
    /\ tid \in {t \in 1..Len(Traces) : Len(Traces[t].steps) > 0}
    /\ l = 1
    /\ cur = CurAfter(tid, 1, DbOf(tid))
    /\ prev = PrevAfter(tid, 1, DbOf(tid), NoPrev)
    /\ LET ev == Eval(tid, 1, DbOf(tid), NoPrev) IN
       /\ bad = ev.bad /\ drift = ev.drift /\ cnt = ev.cnt
       /\ nt = IF ev.cnt # Zero THEN <<1>> ELSE <<>>
       /\ Report(tid, 1, ev, cnt, nt)

TraceNext ==
    /\ l < Len(Traces[tid].steps)
    /\ l' = l + 1
    /\ UNCHANGED tid
    /\ cur' = CurAfter(tid, l + 1, cur)
    /\ prev' = PrevAfter(tid, l + 1, cur, prev)
    /\ LET ev == Eval(tid, l + 1, cur, prev) IN
       /\ bad' = ev.bad /\ drift' = ev.drift /\ cnt' = Add(cnt, ev.cnt)
       /\ nt' = IF ev.cnt # Zero THEN Append(nt, l + 1) ELSE nt
       /\ Report(tid, l + 1, ev, cnt', nt')

TraceSpec == TraceInit /\ [][TraceNext]_tvars

TotalLines == FoldLeft(LAMBDA acc, t : acc + Len(t.steps), 0, Traces)
AllConsumed == /\ PrintT(<<"CONSUMED", TLCGet("distinct"), TotalLines>>)
               /\ TLCGet("distinct") = TotalLines
=============================================================================
