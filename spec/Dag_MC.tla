------------------------------- MODULE Dag_MC -------------------------------
(***************************************************************************)
(* The bounded domain of C09: program families over three algorithms (and  *)
(* a small family over four) in a fixed topological order a < b < c (< d): *)
(* references only point backwards, so every program is acyclic by         *)
(* construction; feedback points forwards.                                 *)
(*                                                                         *)
(* A PROFILE fixes what is not the reference structure: kinds, packages,   *)
(* state vectors x values of each algorithm, and which state vector /      *)
(* value a reference of granularity "sv" / "val" into an algorithm names.  *)
(* Between every ordered pair the declared references are a SUBSET of the  *)
(* three granularities {alg, sv, val} (the empty subset = no edge).        *)
(***************************************************************************)
EXTENDS Dag
CONSTANT Tier             \* "quick" | "thorough": which family Programs is (cfg: Programs <- ProgramsOfTier)

Grans == {"alg", "sv", "val"}
S11 == { <<"s", "v">> }
S12 == { <<"s", "v">>, <<"s", "w">> }
S21 == { <<"s", "v">>, <<"r", "v">> }
S22 == { <<"s", "v">>, <<"s", "w">>, <<"r", "v">>, <<"r", "w">> }

(* prof: sequence of [pkg, nm, kind, vals, svt, valt]; svt = state vector named by sv references
   into this algorithm, valt = <<sv, val>> named by value references into it *)
NameOf(x) == x.pkg \o "." \o x.nm
Atom(x, gran) == [src |-> NameOf(x), gran |-> gran,
                  sv  |-> IF gran = "alg" THEN "" ELSE IF gran = "sv" THEN x.svt ELSE x.valt[1],
                  val |-> IF gran = "val" THEN x.valt[2] ELSE ""]
RefSets(x, GG) == { { Atom(x, gran) : gran \in G } : G \in GG }

(* program from a profile of n algorithms: rf[i] = the references algorithm i declares,
   fb[i] = its feedback references *)
MkN(prof, rf, fb) ==
    LET I == DOMAIN prof
        n == [i \in I |-> NameOf(prof[i])]
        A == { n[i] : i \in I }
        ix(a) == CHOOSE i \in I : n[i] = a
    IN [kind |-> [a \in A |-> prof[ix(a)].kind],
        pkg  |-> [a \in A |-> prof[ix(a)].pkg],
        nm   |-> [a \in A |-> prof[ix(a)].nm],
        vals |-> [a \in A |-> prof[ix(a)].vals],
        refs |-> [a \in A |-> rf[ix(a)]],
        fb   |-> [a \in A |-> fb[ix(a)]]]
(* three algorithms: the references declared by 2 on 1, 3 on 1, 3 on 2 *)
Mk(prof, r21, r31, r32, fb) == MkN(prof, << {}, r21, r31 \cup r32 >>, fb)

(* feedback options: none; a <= c by value; a <= c by state vector and b <= c by value (a value
   with two consumers when the state vector holds it); a <= b by state vector; and a feedback
   reference that points backwards (c asks for a value of a) *)
NoFb == <<{}, {}, {}>>
FbOptions(prof) ==
    { NoFb,
      << {Atom(prof[3], "val")}, {}, {} >>,
      << {Atom(prof[3], "sv")}, {Atom(prof[3], "val")}, {} >>,
      << {Atom(prof[2], "sv")}, {}, {} >>,
      << {}, {}, {Atom(prof[1], "val")} >> }                      \* the other way round: c <= a

Family(prof, GG, FB) ==
    { Mk(prof, r21, r31, r32, fb) :
        r21 \in RefSets(prof[1], GG), r31 \in RefSets(prof[1], GG), r32 \in RefSets(prof[2], GG), fb \in FB }

Alg(pkg, nm, kind, vals, svt, valt) == [pkg |-> pkg, nm |-> nm, kind |-> kind, vals |-> vals, svt |-> svt, valt |-> valt]
(* P1: one algorithm per package; a has two state vectors (sv references name s, value
   references r.v), b one state vector with two values, c a single value *)
P1 == << Alg("t0", "a", "task", S21, "s", <<"r", "v">>),
         Alg("t1", "b", "task", S12, "s", <<"s", "w">>),
         Alg("t2", "c", "analysis", S12, "s", <<"s", "w">>) >>
(* P2: a and b share a package; mixed kinds; b has two state vectors of two values *)
P2 == << Alg("t0", "a", "analysis", S12, "s", <<"s", "v">>),
         Alg("t0", "b", "regress", S22, "r", <<"s", "w">>),
         Alg("t1", "c", "task", S21, "s", <<"s", "v">>) >>

AllSubsets == SUBSET Grans                                      \* 8 per pair
QuickSubsets == { {}, {"alg"}, {"sv"}, {"val"}, Grans }         \* 5 per pair

(* kinds x packagings on four reference shapes of mixed granularity *)
Partitions == { <<"t0", "t1", "t2">>, <<"t0", "t0", "t1">>, <<"t0", "t1", "t0">>, <<"t0", "t1", "t1">>, <<"t0", "t0", "t0">> }
KProf(k, pk) == << Alg(pk[1], "a", k[1], S12, "s", <<"s", "w">>),
                   Alg(pk[2], "b", k[2], S11, "s", <<"s", "v">>),
                   Alg(pk[3], "c", k[3], S11, "s", <<"s", "v">>) >>
KShapes(prof) ==
    LET at(i, G) == { Atom(prof[i], gran) : gran \in G } IN
    { <<at(1, {"alg"}), {}, at(2, {"sv"})>>,                     \* chain
      <<at(1, {"val"}), at(1, {"alg"}), {}>>,                    \* fork (shared input)
      <<at(1, {"sv"}), at(1, {"val"}), at(2, {"alg"})>>,         \* triangle
      <<{}, at(1, {"sv", "val"}), at(2, {"val"})>> }             \* vee (two inputs)
KFamily(KK, PP) ==
    UNION { LET prof == KProf(k, pk) IN
            { Mk(prof, s[1], s[2], s[3], << {Atom(prof[3], "val")}, {}, {} >>) : s \in KShapes(prof) }
          : k \in KK, pk \in PP }
Kinds3 == Kinds \X Kinds \X Kinds
KindsFew == { <<"task", "task", "task">>, <<"analysis", "analysis", "analysis">>, <<"regress", "regress", "regress">>,
              <<"task", "analysis", "regress">>, <<"regress", "task", "analysis">>, <<"analysis", "regress", "task">> }

(* depth: four algorithms in a chain a -> b -> c -> d (the only way to an ancestor three edges
   away) in every combination of single granularities, with d fed back to a; and the diamond
   a -> {b, c} -> d at algorithm / value granularity *)
P4 == << Alg("t0", "a", "task", S21, "s", <<"r", "v">>),
         Alg("t1", "b", "task", S12, "s", <<"s", "w">>),
         Alg("t0", "c", "regress", S11, "s", <<"s", "v">>),
         Alg("t2", "d", "analysis", S12, "s", <<"s", "v">>) >>
One(i, G) == { { Atom(P4[i], gran) } : gran \in G }
DeepFamily ==
    { MkN(P4, << {}, r21, r32, r43 >>, << {Atom(P4[4], "val")}, {}, {}, {} >>) :
        r21 \in One(1, Grans), r32 \in One(2, Grans), r43 \in One(3, Grans) }
    \cup
    { MkN(P4, << {}, r21, r31, r42 \cup r43 >>, << {}, {}, {}, {} >>) :
        r21 \in One(1, {"alg", "val"}), r31 \in One(1, {"alg", "val"}), r42 \in One(2, {"alg", "val"}), r43 \in One(3, {"alg", "val"}) }

(* joins of deep, distinct branches: five to seven algorithms.  An ancestor three edges away
   from a join that is reachable through ONE of its branches only: a walk up the parents that
   follows a single line of descent finds every ancestor in chains, diamonds and triangles,
   but not here (which branch it follows depends on the iteration order of a set of nodes,
   i.e. on the hash of the names: several assignments of names to roles are enumerated).
     J5   r1 -> x -> y -> j <- r2               a 3-chain joined with a root
     J6   r1 -> x -> y -> j <- z <- r2          a 3-chain joined with a 2-chain
     J6k  r1 -> x -> j <- y <- r2, j -> k       two 2-chains joined, the join has a descendant
     J7   r1 -> x1 -> y1 -> j <- y2 <- x2 <- r2 two 3-chains joined (symmetric: every order loses a root)
   every edge at one granularity (alg / sv / val), every kind at the join               *)
JNames == { <<"a", "b", "c", "d", "e", "f", "g">>, <<"g", "f", "e", "d", "c", "b", "a">>,
            <<"c", "f", "a", "g", "d", "b", "e">>, <<"e", "a", "f", "b", "g", "c", "d">> }
JNames2 == { <<"a", "b", "c", "d", "e", "f", "g">>, <<"g", "f", "e", "d", "c", "b", "a">> }
JPkg == <<"t0", "t1", "t2", "t0", "t1", "t2", "t1">>
JShape == << S11, S12, S21, S12, S11, S12, S11 >>
JValT == << <<"s", "v">>, <<"s", "w">>, <<"r", "v">>, <<"s", "w">>, <<"s", "v">>, <<"s", "v">>, <<"s", "v">> >>
JProf(nm, kinds) == [i \in DOMAIN kinds |-> Alg(JPkg[i], nm[i], kinds[i], JShape[i], "s", JValT[i])]
JMk(nm, kinds, ins, gran) ==          \* ins[i] = the roles algorithm i takes input from
    LET prof == JProf(nm, kinds) IN
    MkN(prof, [i \in DOMAIN kinds |-> { Atom(prof[q], gran) : q \in ins[i] }], [i \in DOMAIN kinds |-> {}])
(* roles  J5: 1 r1, 2 x, 3 y, 4 r2, 5 j    J6: 1 r1, 2 x, 3 y, 4 r2, 5 z, 6 j
          J6k: 1 r1, 2 x, 3 r2, 4 y, 5 j, 6 k    J7: 1 r1, 2 x1, 3 y1, 4 r2, 5 x2, 6 y2, 7 j *)
J5Ins  == << {}, {1}, {2}, {}, {3, 4} >>
J6Ins  == << {}, {1}, {2}, {}, {4}, {3, 5} >>
J6kIns == << {}, {1}, {}, {3}, {2, 4}, {5} >>
J7Ins  == << {}, {1}, {2}, {}, {4}, {5}, {3, 6} >>
JoinFamily ==
    { JMk(nm, <<"task", "task", "task", "task", kj>>, J5Ins, gran) : nm \in JNames, kj \in Kinds, gran \in Grans }
    \cup { JMk(nm, <<"task", "task", "analysis", "task", "task", kj>>, J6Ins, gran) : nm \in JNames, kj \in Kinds, gran \in Grans }
    \cup { JMk(nm, <<"task", "task", "task", "task", kj, "task">>, J6kIns, gran) : nm \in JNames2, kj \in Kinds, gran \in Grans }
    \cup { JMk(nm, <<"task", "analysis", "task", "task", "task", "regress", kj>>, J7Ins, gran) : nm \in JNames2, kj \in Kinds, gran \in Grans }

(* same-named producers: the short names of algorithms, state vectors and values are free
   text and need only be unique inside their package (disk.engine.out.x and
   network.engine.out.x in Test/ae).  Two producers t0.e and t1.e with the same state
   vectors and values, one consumer that takes input from both (each at one granularity, or
   both at all three); the second producer may itself consume the first; the consumer is of
   every kind, or is named e as well; with and without feedback references of the first
   producer on the same-named values of the other two algorithms                         *)
SameProf(kj, nmc) == << Alg("t0", "e", "task", S12, "s", <<"s", "w">>),
                        Alg("t1", "e", "task", S12, "s", <<"s", "w">>),
                        Alg("t2", nmc, kj, S12, "s", <<"s", "w">>) >>
SameGrans == { {"alg"}, {"sv"}, {"val"} }
SameFamily ==
    UNION { LET prof == SameProf(c[1], c[2]) IN
            { Mk(prof, r21, r[1], r[2], fb) :
                r21 \in RefSets(prof[1], { {}, {"alg"} }),
                r \in (RefSets(prof[1], SameGrans) \X RefSets(prof[2], SameGrans)) \cup (RefSets(prof[1], {Grans}) \X RefSets(prof[2], {Grans})),
                fb \in { NoFb, << {Atom(prof[2], "val"), Atom(prof[3], "val")}, {}, {} >> } }
          : c \in (Kinds \X {"c"}) \cup { <<"task", "e">> } }

(* quick: 5^3 reference structures x 3 feedback options on P1 (375) + kinds/packagings (44) + depth (43) + joins (108) + same names (160) *)
ProgramsQuick(dummy) ==
    Family(P1, QuickSubsets, { NoFb, << {Atom(P1[3], "val")}, {}, {} >>, << {Atom(P1[3], "sv")}, {Atom(P1[3], "val")}, {} >> })
    \cup KFamily(KindsFew, { <<"t0", "t1", "t2">> })
    \cup KFamily({ <<"task", "analysis", "regress">> }, Partitions)
    \cup DeepFamily
    \cup JoinFamily
    \cup SameFamily
(* thorough: 8^3 x 5 on two profiles (5120) + 27 kind assignments x 5 packagings x 4 shapes (540) + depth (43) + joins (108) + same names (160) *)
ProgramsThorough(dummy) ==
    Family(P1, AllSubsets, FbOptions(P1))
    \cup Family(P2, AllSubsets, FbOptions(P2))
    \cup KFamily(Kinds3, Partitions)
    \cup DeepFamily
    \cup JoinFamily
    \cup SameFamily
(* (TLC evaluates every zero-arity definition at start-up: the families take a dummy argument) *)
ProgramsOfTier == IF Tier = "thorough" THEN ProgramsThorough(0) ELSE ProgramsQuick(0)
=============================================================================
