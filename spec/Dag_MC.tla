------------------------------- MODULE Dag_MC -------------------------------
(***************************************************************************)
(* The bounded domain of C09: program families over three algorithms in a  *)
(* fixed topological order a < b < c (references only point backwards, so  *)
(* every program is acyclic by construction; feedback points forwards).    *)
(*                                                                         *)
(* A PROFILE fixes what is not the reference structure: kinds, packages,   *)
(* state vectors x values of each algorithm, and which state vector /      *)
(* value a reference of granularity "sv" / "val" into an algorithm names.  *)
(* Between every ordered pair the declared references are a SUBSET of the  *)
(* three granularities {alg, sv, val} (the empty subset = no edge).        *)
(***************************************************************************)
EXTENDS Dag
CONSTANT Tier             \* "quick" | "thorough": which family Programs is (cfg: Programs <- ProgramsOfTier)

Grans == {"alg", "sv", "val"}
S11 == { <<"s", "v">> }
S12 == { <<"s", "v">>, <<"s", "w">> }
S21 == { <<"s", "v">>, <<"r", "v">> }
S22 == { <<"s", "v">>, <<"s", "w">>, <<"r", "v">>, <<"r", "w">> }

(* prof: sequence of [pkg, nm, kind, vals, svt, valt]; svt = state vector named by sv references
   into this algorithm, valt = <<sv, val>> named by value references into it *)
NameOf(x) == x.pkg \o "." \o x.nm
Atom(x, gran) == [src |-> NameOf(x), gran |-> gran,
                  sv  |-> IF gran = "alg" THEN "" ELSE IF gran = "sv" THEN x.svt ELSE x.valt[1],
                  val |-> IF gran = "val" THEN x.valt[2] ELSE ""]
RefSets(x, GG) == { { Atom(x, gran) : gran \in G } : G \in GG }

(* program from a profile, the references declared by 2 on 1, 3 on 1, 3 on 2, and the feedback
   references fb[i] declared by algorithm i *)
Mk(prof, r21, r31, r32, fb) ==
    LET n == [i \in 1..3 |-> NameOf(prof[i])]
        A == { n[i] : i \in 1..3 }
        ix(a) == CHOOSE i \in 1..3 : n[i] = a
    IN [kind |-> [a \in A |-> prof[ix(a)].kind],
        pkg  |-> [a \in A |-> prof[ix(a)].pkg],
        nm   |-> [a \in A |-> prof[ix(a)].nm],
        vals |-> [a \in A |-> prof[ix(a)].vals],
        refs |-> [a \in A |-> CASE ix(a) = 1 -> {} [] ix(a) = 2 -> r21 [] OTHER -> r31 \cup r32],
        fb   |-> [a \in A |-> fb[ix(a)]]]

(* feedback options: none; a <= c by value; a <= c by state vector and b <= c by value (a value
   with two consumers when the state vector holds it); a <= b by state vector *)
NoFb == <<{}, {}, {}>>
FbOptions(prof) ==
    { NoFb,
      << {Atom(prof[3], "val")}, {}, {} >>,
      << {Atom(prof[3], "sv")}, {Atom(prof[3], "val")}, {} >>,
      << {Atom(prof[2], "sv")}, {}, {} >> }

Family(prof, GG, FB) ==
    { Mk(prof, r21, r31, r32, fb) :
        r21 \in RefSets(prof[1], GG), r31 \in RefSets(prof[1], GG), r32 \in RefSets(prof[2], GG), fb \in FB }

Alg(pkg, nm, kind, vals, svt, valt) == [pkg |-> pkg, nm |-> nm, kind |-> kind, vals |-> vals, svt |-> svt, valt |-> valt]
(* P1: one algorithm per package; a has two state vectors (sv references name s, value
   references r.v), b one state vector with two values, c a single value *)
P1 == << Alg("t0", "a", "task", S21, "s", <<"r", "v">>),
         Alg("t1", "b", "task", S12, "s", <<"s", "w">>),
         Alg("t2", "c", "analysis", S12, "s", <<"s", "w">>) >>
(* P2: a and b share a package; mixed kinds; b has two state vectors of two values *)
P2 == << Alg("t0", "a", "analysis", S12, "s", <<"s", "v">>),
         Alg("t0", "b", "regress", S22, "r", <<"s", "w">>),
         Alg("t1", "c", "task", S21, "s", <<"s", "v">>) >>

AllSubsets == SUBSET Grans                                      \* 8 per pair
QuickSubsets == { {}, {"alg"}, {"sv"}, {"val"}, Grans }         \* 5 per pair

(* kinds x packagings on four reference shapes of mixed granularity *)
Partitions == { <<"t0", "t1", "t2">>, <<"t0", "t0", "t1">>, <<"t0", "t1", "t0">>, <<"t0", "t1", "t1">>, <<"t0", "t0", "t0">> }
KProf(k, pk) == << Alg(pk[1], "a", k[1], S12, "s", <<"s", "w">>),
                   Alg(pk[2], "b", k[2], S11, "s", <<"s", "v">>),
                   Alg(pk[3], "c", k[3], S11, "s", <<"s", "v">>) >>
KShapes(prof) ==
    LET at(i, G) == { Atom(prof[i], gran) : gran \in G } IN
    { <<at(1, {"alg"}), {}, at(2, {"sv"})>>,                     \* chain
      <<at(1, {"val"}), at(1, {"alg"}), {}>>,                    \* fork (shared input)
      <<at(1, {"sv"}), at(1, {"val"}), at(2, {"alg"})>>,         \* triangle
      <<{}, at(1, {"sv", "val"}), at(2, {"val"})>> }             \* vee (two inputs)
KFamily(KK, PP) ==
    UNION { LET prof == KProf(k, pk) IN
            { Mk(prof, s[1], s[2], s[3], << {Atom(prof[3], "val")}, {}, {} >>) : s \in KShapes(prof) }
          : k \in KK, pk \in PP }
Kinds3 == Kinds \X Kinds \X Kinds
KindsFew == { <<"task", "task", "task">>, <<"analysis", "analysis", "analysis">>, <<"regress", "regress", "regress">>,
              <<"task", "analysis", "regress">>, <<"regress", "task", "analysis">>, <<"analysis", "regress", "task">> }

(* quick: 5^3 reference structures x 2 feedback options on P1 (250) + kinds/packagings (44+...) *)
ProgramsQuick(dummy) ==
    Family(P1, QuickSubsets, { NoFb, << {Atom(P1[3], "val")}, {}, {} >> })
    \cup KFamily(KindsFew, { <<"t0", "t1", "t2">> })
    \cup KFamily({ <<"task", "analysis", "regress">> }, Partitions)
(* thorough: 8^3 x 4 on two profiles (4096) + 27 kind assignments x 5 packagings x 4 shapes (540) *)
ProgramsThorough(dummy) ==
    Family(P1, AllSubsets, FbOptions(P1))
    \cup Family(P2, AllSubsets, FbOptions(P2))
    \cup KFamily(Kinds3, Partitions)
(* (TLC evaluates every zero-arity definition at start-up: the families take a dummy argument) *)
ProgramsOfTier == IF Tier = "thorough" THEN ProgramsThorough(0) ELSE ProgramsQuick(0)
=============================================================================
