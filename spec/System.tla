------------------------------- MODULE System -------------------------------
(***************************************************************************)
(* Composition of the scheduler/farm core (Sched) with the life cycle and  *)
(* the submit crossroads (Lifecycle): the pollers of the crossroads read   *)
(* the REAL scheduler and crew state (farm._busy, schedule.view_doing(),   *)
(* schedule.que) instead of environment bits, dispatch runs only while the *)
(* pipeline is active, and a (re)load rebuilds the scheduler.              *)
(*                                                                         *)
(* Worker scarcity (farm._cluster / farm._workers) is part of the product: *)
(* a released unit waits in the farm (`park`) until a registered worker    *)
(* (`free`) is there at a dispatch, and the archive trigger of dispatch    *)
(* fires only when nothing is released, executing OR parked.               *)
(*                                                                         *)
(* One fixed program  a (task) -> b (task)  on one target keeps the        *)
(* product small; what is new here is the coupling, not the parts.         *)
(*                                                                         *)
(* The C12 conditions are stated against GROUND TRUTH (units actually in   *)
(* flight, work actually pending), not against the views the pollers read: *)
(*    CREW  : no unit in flight                                            *)
(*    DOING : nothing executing (no unit in flight)                        *)
(*    TODO  : nothing pending and nothing executing                        *)
(***************************************************************************)
EXTENDS Naturals, FiniteSets, Sequences, TLC

CONSTANTS MaxRun, MaxSubmit, MaxCycle

A == "t0.a"  B == "t1.b"
Alg == {A, B}
T == "T1"
Prios == {"todo", "doing", "crew", "now"}
K == {"crew", "doing", "todo"}
Rank(p) == CASE p = "none" -> 0 [] p = "todo" -> 1 [] p = "doing" -> 2 [] p = "crew" -> 3 [] p = "now" -> 4
PMax(x, y) == IF y = "none" THEN (IF x = "none" THEN "todo" ELSE x) ELSE IF Rank(y) > Rank(x) THEN y ELSE x

VARIABLES
    \* ---- scheduler / farm (per algorithm, single target T)
    todo, doing, hand,      \* [Alg -> BOOLEAN]  T pending / in 'doing' / handed out
    que,                    \* SUBSET Alg
    status,                 \* [Alg -> "initial" | "waiting" | "running"]
    fly,                    \* SUBSET Alg: units in flight, released since the last load (ground truth)
    old,                    \* SUBSET Alg: units in flight abandoned by the load that is under way (farm cleared, graph not rebuilt yet)
    anc,                    \* SUBSET Alg: units in flight that were released before the current graph was built
    arch,                   \* farm.ARCHIVE
    park,                   \* SUBSET Alg: released by the scheduler, waiting in farm._cluster for a worker (not in flight)
    free,                   \* 0..1: registered workers that hold no task (farm._workers); more come with a plentiful dispatch
    \* ---- life cycle
    st, tr, prior, bg, prio, wait, slot, sub, subp,
    \* ---- history of this step
    fire,                   \* "none" or the priority under which update_trigger was accepted, with the ground truth at that instant
    nfired, runs, nsub, ncyc

svars == <<todo, doing, hand, que, status, fly, old, anc, arch, park, free>>
lvars == <<st, tr, prior, bg, prio, wait, slot, sub, subp>>
vars == <<svars, lvars, fire, nfired, runs, nsub, ncyc>>

IsActive == st = "running" /\ tr = "active"
NoWait == [k \in K |-> FALSE]
\* what the pollers read
BusyViewNow == fly # {}
DoingView == \E x \in que : status[x] = "running"  \* schedule.view_doing() is a dict of the running entries of the queue
QueView   == que # {}
CondView(k) == CASE k = "crew" -> ~BusyViewNow [] k = "doing" -> ~DoingView [] k = "todo" -> ~QueView
\* ground truth
Executing == fly # {}
Pending == (\E x \in Alg : todo[x]) \/ park # {}     \* a released unit that waits in the farm for a worker is still pending work
NoFire == [p |-> "none", src |-> "none", executing |-> FALSE, pending |-> FALSE]
Fire(src, p) == [p |-> p, src |-> src, executing |-> Executing, pending |-> Pending]

Init ==
    /\ todo = [x \in Alg |-> FALSE] /\ doing = [x \in Alg |-> FALSE] /\ hand = [x \in Alg |-> FALSE]
    /\ que = {} /\ status = [x \in Alg |-> "initial"] /\ fly = {} /\ old = {} /\ anc = {} /\ arch = FALSE
    /\ park = {} /\ free = 0
    /\ st = "running" /\ tr = "active" /\ prior = "none" /\ bg = {} /\ prio = "none" /\ wait = NoWait
    /\ slot = [k \in K |-> "none"] /\ sub = "idle" /\ subp = "none"
    /\ fire = NoFire /\ nfired = 0 /\ runs = 0 /\ nsub = 0 /\ ncyc = 0

Idle(td, dg, hd, x) == ~td[x] /\ ~dg[x] /\ ~hd[x]

(* ---- scheduler / farm --------------------------------------------------- *)
Run(x) ==           \* cmd_run -> organize
    /\ runs < MaxRun /\ runs' = runs + 1
    /\ todo' = [todo EXCEPT ![x] = TRUE]
    /\ que' = que \cup {x}
    /\ status' = [status EXCEPT ![x] = IF @ = "running" THEN "running" ELSE "waiting"]
    /\ fire' = NoFire
    /\ UNCHANGED <<doing, hand, fly, old, anc, arch, park, free, lvars, nfired, nsub, ncyc>>

Blocked(x) == x = B /\ A \in que /\ (todo[A] \/ doing[A] \/ hand[A])
Avail(x) == x \in que /\ todo[x] /\ ~Blocked(x) /\ ~doing[x] /\ ~hand[x]

WorkerArrive ==     \* Hand._reg: a worker of the current revision registers and waits (whatever the life-cycle state)
    /\ free = 0 /\ free' = 1
    /\ fire' = NoFire
    /\ UNCHANGED <<todo, doing, hand, que, status, fly, old, anc, arch, park, lvars, nfired, runs, nsub, ncyc>>

Min2(a, b) == IF a < b THEN a ELSE b
Tick(sc) ==         \* farm.dispatch: only while active; archive trigger when idle with new data.
                    \* sc: scarce -- only the workers that registered on their own are there; otherwise enough workers
                    \* register just before the dispatch and the idle ones leave after it
    /\ IsActive
    /\ LET rel == { x \in Alg : Avail(x) }
           cand == park \cup rel
           nw == IF sc THEN free ELSE Cardinality(Alg)
       IN
       IF rel = {} /\ arch /\ fly = {} /\ park = {}
       THEN \* archiving_trigger: running -> archiving (before save_prior_state, after archive);
            \* notify_all() at the end of the pass tells the waiting workers to leave
            /\ prior' = "running" /\ st' = "archiving" /\ tr' = "entering" /\ bg' = bg \cup {"archive"}
            /\ free' = 0
            /\ UNCHANGED <<todo, doing, hand, que, status, fly, old, anc, arch, park, prio, wait, slot, sub, subp>>
       ELSE /\ (rel # {} \/ (park # {} /\ nw > 0) \/ (~sc /\ free > 0))
            /\ todo' = [x \in Alg |-> todo[x] /\ x \notin rel]
            /\ doing' = [x \in Alg |-> doing[x] \/ x \in rel]
            /\ hand' = [x \in Alg |-> hand[x] \/ x \in rel]
            /\ status' = [x \in Alg |-> IF x \in rel THEN "running" ELSE status[x]]
            /\ \E P \in SUBSET cand :
                  /\ Cardinality(P) = Min2(Cardinality(cand), nw)
                  /\ fly' = fly \cup P
                  /\ park' = cand \ P
                  /\ free' = IF sc THEN free - Cardinality(P) ELSE 0
            /\ UNCHANGED <<que, old, anc, arch, lvars>>
    /\ fire' = NoFire
    /\ UNCHANGED <<nfired, runs, nsub, ncyc>>

(* the effect of Hand._res on the scheduler's bookkeeping *)
Apply(x, ok, new) ==
    LET dg == [doing EXCEPT ![x] = FALSE]
        hd == [hand EXCEPT ![x] = FALSE]
    IN IF ok
       THEN LET td == IF new /\ x = A THEN [todo EXCEPT ![B] = TRUE] ELSE todo
                q0 == IF new /\ x = A THEN que \cup {B} ELSE que
            IN /\ todo' = td /\ doing' = dg /\ hand' = hd
               /\ que' = { y \in q0 : ~Idle(td, dg, hd, y) }
               /\ status' = [y \in Alg |->
                               IF y = x /\ Idle(td, dg, hd, y) THEN "waiting"
                               ELSE IF y = B /\ new /\ x = A /\ status[B] # "running" THEN "waiting"
                               ELSE status[y]]
               /\ arch' = TRUE
       ELSE \* failure: purge x and its descendant
            LET P == IF x = A THEN {A, B} ELSE {B}
                td == [y \in Alg |-> todo[y] /\ y \notin P]
                dp == [y \in Alg |-> dg[y] /\ y \notin P]
            IN /\ todo' = td /\ doing' = dp /\ hand' = hd
               /\ que' = { y \in que : ~Idle(td, dp, hd, y) }
               /\ status' = [y \in Alg |-> IF y \in que /\ Idle(td, dp, hd, y) THEN "waiting" ELSE status[y]]
               /\ arch' = arch

Reply(x, ok, new) ==   \* Hand._res for a unit released since the last load
    /\ x \in fly
    /\ fly' = fly \ {x}
    /\ Apply(x, ok, new)
    /\ fire' = NoFire
    /\ UNCHANGED <<old, anc, park, free, lvars, nfired, runs, nsub, ncyc>>

OldReply(x) ==      \* a result of work released before the last load: ignored once the new graph is built; while the
                    \* load is still under way (farm cleared, graph not yet rebuilt) it is applied to the graph that is about to be discarded
    /\ \/ /\ x \in old /\ old' = old \ {x} /\ anc' = anc
          /\ IF x \in que THEN Apply(x, TRUE, FALSE)                  \* schedule.find: "Could not find job" otherwise
             ELSE UNCHANGED <<todo, doing, hand, que, status, arch>>
       \/ /\ x \in anc /\ anc' = anc \ {x} /\ old' = old
          /\ UNCHANGED <<todo, doing, hand, que, status, arch>>
    /\ fire' = NoFire
    /\ UNCHANGED <<fly, park, free, lvars, nfired, runs, nsub, ncyc>>

(* ---- life cycle ------------------------------------------------------------ *)
DoUpdate(src, p) ==
    /\ st' = "updating" /\ tr' = "exiting" /\ bg' = bg \cup {"reload"}
    /\ fire' = Fire(src, p) /\ nfired' = nfired + 1

CompleteReload ==   \* reload done -> archiving (-> archive thread, or straight on to loading)
    /\ "reload" \in bg /\ st = "updating"
    /\ prior' = "updating"
    /\ IF arch
       THEN /\ st' = "archiving" /\ tr' = "entering" /\ bg' = (bg \ {"reload"}) \cup {"archive"}
            /\ UNCHANGED <<svars, prio, wait, nfired>>
       ELSE \* loading_trigger: reset(); load(): farm.notify_all(); farm.clear()
            /\ st' = "loading" /\ tr' = "entering" /\ bg' = (bg \ {"reload"}) \cup {"load"}
            /\ prio' = "none" /\ wait' = NoWait /\ nfired' = 0
            /\ old' = old \cup fly /\ fly' = {} /\ park' = {} /\ free' = 0     \* farm.notify_all(); farm.clear()
            /\ UNCHANGED <<todo, doing, hand, que, status, anc, arch>>
    /\ fire' = NoFire
    /\ UNCHANGED <<slot, sub, subp, runs, nsub, ncyc>>

CompleteArchive ==
    /\ "archive" \in bg /\ st = "archiving"
    /\ arch' = FALSE
    /\ IF prior = "running"
       THEN /\ st' = "running" /\ tr' = "active" /\ bg' = bg \ {"archive"}
            /\ UNCHANGED <<todo, doing, hand, que, status, fly, old, anc, park, free, prio, wait, nfired>>
       ELSE /\ st' = "loading" /\ tr' = "entering" /\ bg' = (bg \ {"archive"}) \cup {"load"}
            /\ prio' = "none" /\ wait' = NoWait /\ nfired' = 0
            /\ old' = old \cup fly /\ fly' = {} /\ park' = {} /\ free' = 0
            /\ UNCHANGED <<todo, doing, hand, que, status, anc>>
    /\ fire' = NoFire
    /\ UNCHANGED <<prior, slot, sub, subp, runs, nsub, ncyc>>

CompleteLoad ==     \* _pipeline: schedule.build -> fresh graph, empty queue; then introspection
    /\ "load" \in bg /\ st = "loading"
    /\ todo' = [x \in Alg |-> FALSE] /\ doing' = [x \in Alg |-> FALSE] /\ hand' = [x \in Alg |-> FALSE]
    /\ que' = {} /\ status' = [x \in Alg |-> "initial"]
    /\ anc' = anc \cup old /\ old' = {}
    /\ st' = "contemplation" /\ tr' = "entering" /\ bg' = (bg \ {"load"}) \cup {"navel"}
    /\ fire' = NoFire
    /\ UNCHANGED <<fly, arch, park, free, prior, prio, wait, slot, sub, subp, nfired, runs, nsub, ncyc>>

CompleteNavel ==
    /\ "navel" \in bg /\ st = "contemplation"
    /\ st' = "running" /\ tr' = "active" /\ bg' = bg \ {"navel"}
    /\ fire' = NoFire
    /\ UNCHANGED <<svars, prior, prio, wait, slot, sub, subp, nfired, runs, nsub, ncyc>>

CmdReset ==
    /\ ncyc < MaxCycle /\ ncyc' = ncyc + 1
    /\ IF IsActive THEN wait' = NoWait /\ DoUpdate("reset", prio)
       ELSE UNCHANGED <<wait, st, tr, bg, nfired>> /\ fire' = NoFire
    /\ UNCHANGED <<svars, prior, prio, slot, sub, subp, runs, nsub>>

SubmitBegin(p) ==
    /\ nsub < MaxSubmit /\ sub = "idle" /\ nsub' = nsub + 1
    /\ IF IsActive THEN st' = "gitting" /\ sub' = "gitting" /\ subp' = p ELSE UNCHANGED <<st, sub, subp>>
    /\ fire' = NoFire
    /\ UNCHANGED <<svars, tr, prior, bg, prio, wait, slot, nfired, runs, ncyc>>

Arm(k, sl) == IF sl[k] = "none" THEN [sl EXCEPT ![k] = "armed"] ELSE sl
SubmitEnd ==
    /\ sub = "gitting" /\ st = "gitting"
    /\ sub' = "idle" /\ subp' = "none"
    /\ prio' = PMax(prio, subp)
    /\ CASE prio' = "now"   -> wait' = NoWait /\ slot' = slot /\ DoUpdate("now", prio')
         [] prio' = "crew"  -> /\ wait' = [k \in K |-> k = "crew"] /\ slot' = Arm("crew", slot)
                               /\ st' = "running" /\ fire' = NoFire /\ UNCHANGED <<tr, bg, nfired>>
         [] prio' = "doing" -> /\ wait' = [wait EXCEPT !["doing"] = TRUE, !["todo"] = FALSE] /\ slot' = Arm("doing", slot)
                               /\ st' = "running" /\ fire' = NoFire /\ UNCHANGED <<tr, bg, nfired>>
         [] prio' = "todo"  -> /\ wait' = [wait EXCEPT !["todo"] = TRUE] /\ slot' = Arm("todo", slot)
                               /\ st' = "running" /\ fire' = NoFire /\ UNCHANGED <<tr, bg, nfired>>
    /\ UNCHANGED <<svars, prior, runs, nsub, ncyc>>

PollerObserve(k) ==
    /\ slot[k] = "armed"
    /\ (~wait[k] \/ (CondView(k) /\ IsActive))
    /\ slot' = [slot EXCEPT ![k] = "finished"]
    /\ fire' = NoFire
    /\ UNCHANGED <<svars, st, tr, prior, bg, prio, wait, sub, subp, nfired, runs, nsub, ncyc>>

PollerDone(k) ==
    /\ slot[k] = "finished"
    /\ IF wait[k]
       THEN IF IsActive /\ CondView(k)
            THEN DoUpdate("poller", prio) /\ slot' = [slot EXCEPT ![k] = "none"]
            ELSE slot' = [slot EXCEPT ![k] = "armed"] /\ fire' = NoFire /\ UNCHANGED <<st, tr, bg, nfired>>
       ELSE slot' = [slot EXCEPT ![k] = "none"] /\ fire' = NoFire /\ UNCHANGED <<st, tr, bg, nfired>>
    /\ UNCHANGED <<svars, prior, prio, wait, sub, subp, runs, nsub, ncyc>>

Next ==
    \/ \E x \in Alg : Run(x)
    \/ (\E sc \in BOOLEAN : Tick(sc)) \/ WorkerArrive
    \/ \E x \in Alg, ok \in BOOLEAN, new \in BOOLEAN : Reply(x, ok, new)
    \/ \E x \in Alg : OldReply(x)
    \/ CompleteReload \/ CompleteArchive \/ CompleteLoad \/ CompleteNavel \/ CmdReset
    \/ (\E p \in Prios : SubmitBegin(p)) \/ SubmitEnd
    \/ (\E k \in K : PollerObserve(k)) \/ (\E k \in K : PollerDone(k))

Spec == Init /\ [][Next]_vars

-----------------------------------------------------------------------------
(* PROPERTY LEVEL: the C12 conditions against ground truth; C11 silence; C04 views *)
TruthAllowed(f) == CASE f.p = "now" -> TRUE
                     [] f.p = "crew" -> ~f.executing
                     [] f.p = "doing" -> ~f.executing
                     [] f.p = "todo" -> ~f.executing /\ ~f.pending
                     [] OTHER -> FALSE
SYS_ReloadOnlyWhenTrulyAllowed == [][ (fire'.src \in {"now", "poller"}) => TruthAllowed(fire') ]_vars
SYS_ExactlyOnce == nfired <= 1
SYS_NoDispatchWhileInactive == [][ (fly' # fly /\ fly \subseteq fly') => IsActive ]_vars
SYS_ViewsTruthful ==          \* what the pollers read never understates the truth
    /\ (Executing => (BusyViewNow /\ DoingView))
    /\ ((Pending \/ Executing) => QueView)
SYS_IdleMeansIdle == (st # "loading" /\ ~Pending /\ ~Executing) => ~QueView    \* units abandoned by a load may still be answering
(* C03 "a released unit is handed to at most one worker and otherwise stays queued": outside a load every unit the
   scheduler holds as handed out is either in flight or still waiting in the farm, never both, never neither *)
SYS_ReleasedFlyOrParked == (st # "loading") => \A x \in Alg : hand[x] <=> (x \in fly \/ x \in park)
SYS_ParkedNotFlying == park \cap fly = {}
(* the archive (running -> archiving) never starts while released work waits in the farm *)
SYS_NoArchiveOverParked == [][ (st = "running" /\ st' = "archiving") => (park = {} /\ fly = {}) ]_vars
SYS_Rest == bg = {} => (st \in {"running", "gitting"} /\ tr = "active")
=============================================================================
