---------------------------- MODULE Version_Gen ----------------------------
(* Export of the bounded input domains of Version_MC as JSON, one PrintT line
   per seed state, for execution on the real code (harness/version_h.py).

   "pseed" <<class pair, a>>: the line lists every b, so the harness evaluates
           the real operators for all pairs (a, b) on objects of the two named
           dawgie.Version subclasses.
   "seed"  <<plan parameters, engine>>: the line lists every case of that
           engine (targets, persisted lists / recorded history).
   Emit is listed as an INVARIANT next to InvPairs / InvBuild: TLC evaluates it
   once per distinct state. *)
EXTENDS Version_MC, Json

Compact(c) == [targets |-> c.targets, mode |-> c.mode, ghost |-> c.ghost, nstale |-> c.nstale,
               pers |-> c.pers, hist |-> c.hist]
GroupOf(pp, e) == [eng |-> e,
                   elems |-> [k \in DOMAIN ElSeq(e) |-> PathOf(e, ElSeq(e)[k])],
                   decl  |-> [k \in DOMAIN ElSeq(e) |-> CurOf(e, ElSeq(e)[k])],
                   cases |-> SetToSeq({ Compact(c) : c \in CasesFor(pp, e) })]
Emit ==
    CASE ph = "pseed" -> PrintT(<<"PAIRS", ToJson([ca |-> pr[1][1], cb |-> pr[1][2], a |-> pr[2], bs |-> SetToSeq(Ver)])>>)
      [] ph = "seed"  -> PrintT(<<"GROUP", ToJson(GroupOf(cs[1], cs[2]))>>)
      [] OTHER -> TRUE
=============================================================================
