---------------------------- MODULE Version_Gen ----------------------------
(* Export of the bounded input domains of Version_MC as JSON, one PrintT line
   per group, for execution on the real code (harness/version_h.py).

   GenSpecA  one state per <<class pair, a>>: the line lists every b, so the
             harness evaluates the real operators for all pairs (a, b) on
             objects of the two named dawgie.Version subclasses.
   GenSpecB  one state per engine of the plan: the line lists every case of
             that engine (targets, persisted lists / recorded history). *)
EXTENDS Version_MC, Json

CONSTANT ClassPairs     \* set of <<class of a, class of b>>

Classes == {"plain", "local", "getver", "alg", "anz", "reg", "sv", "val"}
ClassPairsQuick == { <<"plain", "plain">>, <<"alg", "sv">>, <<"val", "local">>, <<"getver", "anz">> }
ClassPairsAll   == Classes \X Classes

GenSpecA == pr \in ClassPairs \X Ver /\ cs = 0 /\ [][UNCHANGED mvars]_mvars
EmitA == PrintT(<<"PAIRS", ToJson([ca |-> pr[1][1], cb |-> pr[1][2], a |-> pr[2], bs |-> SetToSeq(Ver)])>>)

PlanEngines == UNION { p.engines : p \in Plan }
Compact(c) == [targets |-> c.targets, mode |-> c.mode, ghost |-> c.ghost, nstale |-> c.nstale,
               pers |-> c.pers, hist |-> c.hist]
GroupOf(e) == [eng |-> e,
               elems |-> [k \in DOMAIN ElSeq(e) |-> PathOf(e, ElSeq(e)[k])],
               decl  |-> [k \in DOMAIN ElSeq(e) |-> CurOf(e, ElSeq(e)[k])],
               cases |-> SetToSeq({ Compact(c) : c \in UNION { CasesFor(p, e) : p \in { q \in Plan : e \in q.engines } } })]
GenSpecB == pr = 0 /\ cs \in PlanEngines /\ [][UNCHANGED mvars]_mvars
EmitB == PrintT(<<"GROUP", ToJson(GroupOf(cs))>>)
=============================================================================
