\* the tree as pinned (before fixes/C17_range.patch and fixes/C17_page.patch):
\* TLC reports a counterexample of C17_Find (a design-level finding, not an alarm)
SPECIFICATION Spec
CONSTANTS
  RangeBug = TRUE
  SliceBug = TRUE
  Part = "b2"
  MaxLen = 3
  Quick = TRUE
INVARIANT C17_Find
INVARIANT C17_Pages
INVARIANT C17_Facet
CHECK_DEADLOCK FALSE
