-------------------------- MODULE MomentFire_Trace --------------------------
(***************************************************************************)
(* Validation of traces recorded from the REAL schedule.periodics / defer  *)
(* / next_job_batch / complete (harness/moment_h.py, mode "fire") on the   *)
(* virtual reactor clock, against the property level of MomentFire.        *)
(* One line per event:                                                     *)
(*  top level: "cfg":{"start":s,"nodes":{"t0.a":{"kind":..,"events":[..]}}} *)
(*  {"ev":"Init|Boot|Tick|LateTick|Advance|Dispatch|Complete|NewTarget|   *)
(*         Pause|Unpause",                                                 *)
(*   "args":{"dt":n,"t":"T1","n":"t0.a"},                                  *)
(*   "st":{"up":b,"clock":s,"timers":[s..],"targets":[..],"nbooted":n,     *)
(*         "status":{node:".."},"nque":{node:n},"todo":{node:[..]},        *)
(*         "exec":{node:[..]},"served":{node:[instant|-1 per event]}},     *)
(*   "obs":{"err":"", "defers":n}}                                         *)
(* timers = due instants of the reactor's pending delayed calls; exec =    *)
(* targets of the node's task messages written to worker transports (or    *)
(* queued for placement) and not answered yet.  A failing clause is        *)
(* printed with the node it fails for.                                     *)
(***************************************************************************)
EXTENDS MomentFire, Json, IOUtils, SequencesExt

Traces == ndJsonDeserialize(IOEnv.TRACE_FILE)

VARIABLES tid, l, bad, drift
tvars == <<fvars, tid, l, bad, drift>>

EvOf(e)  == [k |-> e.k, n |-> e.n, t |-> e.t]
NodeOf(r) == [kind |-> r.kind, events |-> { EvOf(r.events[i]) : i \in DOMAIN r.events }]
CfgOf(t) == [start |-> Traces[t].cfg.start, late |-> TRUE,      \* any recorded environment step is a model step
             nodes |-> [n \in DOMAIN Traces[t].cfg.nodes |-> NodeOf(Traces[t].cfg.nodes[n])]]
Rec(t, i) == Traces[t].steps[i]
(* node attribute 'served', recorded per event in the order of cfg.nodes[n].events *)
ServedOf(r) == [n \in Nodes |-> [e \in Ev(n) |->
                  LET i == CHOOSE j \in DOMAIN Traces[tid].cfg.nodes[n].events : EvOf(Traces[tid].cfg.nodes[n].events[j]) = e
                  IN r.st.served[n][i]]]

Bind(r) ==
    /\ cfg' = cfg
    /\ up' = r.st.up
    /\ clock' = r.st.clock
    /\ timers' = ToSet(r.st.timers)
    /\ status' = [n \in Nodes |-> r.st.status[n]]
    /\ todo' = [n \in Nodes |-> ToSet(r.st.todo[n])]
    /\ exec' = [n \in Nodes |-> ToSet(r.st.exec[n])]
    \* queued = in schedule.que WITH work; an entry left behind without work is C04's business, not an exemption here
    /\ queued' = [n \in Nodes |-> r.st.nque[n] > 0 /\ (todo'[n] # {} \/ exec'[n] # {})]
    /\ targets' = ToSet(r.st.targets)
    /\ booted' = IF up' THEN UNION { { <<n, e>> : e \in BootEv(n) } : n \in Nodes } ELSE {}
    /\ env' = IF r.ev \in {"Tick", "LateTick", "Advance", "NewTarget", "Pause"} THEN env - 1 ELSE env
    \* what the operator asked for (the harness called schedule.pause() / unpause()), never read back from the code
    /\ paused' = IF r.ev = "Pause" THEN TRUE ELSE IF r.ev = "Unpause" THEN FALSE ELSE paused
    /\ lastFire' = [n \in Nodes |-> IF Fired(n) THEN clock' ELSE lastFire[n]]
    /\ served' = ServedOf(r)

Fail(name, ok) == IF ok THEN {} ELSE {name}

StepClauses(n) ==
         Fail("C20.FireTargets", FireTargetsStep(n))
    \cup Fail("C20.BootFires",   BootFiresStep(n))
    \cup Fail("C20.BootOnce",    BootOnceStep(n))
    \cup Fail("C20.Armed",       Armed(n)')
    \cup Fail("C20.Recurs",      RecursStep(n))
    \cup Fail("C20.Once",        OnceStep(n))
    \cup Fail("C20.CatchUp",     CatchUpStep(n))
    \* C04 on the timer path: a node without pending or executing work is not in the work queue (not even once)
    \cup Fail("C04.IdleEmpty",   (todo'[n] = {} /\ exec'[n] = {}) => Rec(tid, l + 1).st.nque[n] = 0)

(* is the recorded step a step of the implementation-shaped model? *)
ModelStep(r) ==
    CASE r.ev = "Boot"      -> Boot
      [] r.ev = "Tick"      -> Tick
      [] r.ev = "Advance"   -> Advance(r.args.dt)
      [] r.ev = "Dispatch"  -> Dispatch \/ UNCHANGED <<status, queued, todo, exec, timers>>
      [] r.ev = "Complete"  -> Complete(r.args.n, r.args.t)
      [] r.ev = "NewTarget" -> NewTarget
      [] r.ev = "LateTick"  -> LateTick(r.args.dt)
      [] r.ev = "Pause"     -> Pause
      [] r.ev = "Unpause"   -> Unpause
      [] OTHER -> TRUE

TraceInit ==
    /\ tid \in 1 .. Len(Traces)
    /\ l = 1
    /\ cfg = CfgOf(tid)
    /\ \A n \in Nodes : TimedEv(n) \subseteq Specs
    /\ LET r == Rec(tid, 1) IN
       /\ up = r.st.up /\ clock = r.st.clock /\ timers = ToSet(r.st.timers)
       /\ status = [n \in Nodes |-> r.st.status[n]]
       /\ todo = [n \in Nodes |-> ToSet(r.st.todo[n])] /\ exec = [n \in Nodes |-> ToSet(r.st.exec[n])]
       /\ queued = [n \in Nodes |-> r.st.nque[n] > 0 /\ (todo[n] # {} \/ exec[n] # {})]
       /\ targets = ToSet(r.st.targets)
    /\ booted = {} /\ lastFire = [n \in Nodes |-> -1] /\ env = 1000000
    /\ served = [n \in Nodes |-> [e \in Ev(n) |-> -1]]
    /\ paused = FALSE
    /\ bad = {} /\ drift = FALSE

TraceNext ==
    /\ l < Len(Traces[tid].steps)
    /\ l' = l + 1
    /\ UNCHANGED tid
    /\ LET r == Rec(tid, l + 1) IN
       /\ Bind(r)
       /\ bad' = UNION { StepClauses(n) : n \in Nodes }
       /\ drift' = ~ModelStep(r)
       /\ \A n \in Nodes : StepClauses(n) # {} => PrintT(<<"CLAUSE", Traces[tid].tid, l + 1, r.ev, StepClauses(n), n>>)
       /\ (drift' => PrintT(<<"DRIFT", Traces[tid].tid, l + 1, r.ev>>))
       \* witness (counted, not judged): a firing for a moment of today that came more than Window ago
       /\ \A n \in Nodes : (Fired(n) /\ \E m \in AllOcc(n) : /\ cfg.start < m /\ m + Window < clock' /\ clock' < EndOfDay(m)
                                                                /\ lastFire[n] < m - Window)
                               => PrintT(<<"LATEFIRE", Traces[tid].tid, l + 1, n>>)

TraceSpec == TraceInit /\ [][TraceNext]_tvars

TotalLines  == FoldLeft(LAMBDA acc, t : acc + Len(t.steps), 0, Traces)
AllConsumed == /\ PrintT(<<"CONSUMED", TLCGet("distinct"), TotalLines>>)
               /\ TLCGet("distinct") = TotalLines
=============================================================================
