-------------------------- MODULE MomentFire_Trace --------------------------
(***************************************************************************)
(* Validation of traces recorded from the REAL schedule.periodics / defer  *)
(* / next_job_batch / complete (harness/moment_h.py, mode "fire") on the   *)
(* virtual reactor clock, against the property level of MomentFire.        *)
(* One line per event:                                                     *)
(*  {"ev":"Init|Boot|Tick|Advance|Dispatch|Complete|NewTarget",            *)
(*   "args":{"dt":n,"t":"T1"},                                             *)
(*   "st":{"up":b,"clock":s,"timers":[s..],"status":"..","nque":n,         *)
(*         "todo":[..],"exec":[..],"targets":[..],"nbooted":n},            *)
(*   "obs":{"err":"", "defers":n}}                                         *)
(* timers = due instants of the reactor's pending delayed calls; exec =    *)
(* targets of the node's task messages written to worker transports (or    *)
(* queued for placement) and not answered yet.                             *)
(***************************************************************************)
EXTENDS MomentFire, Json, IOUtils, SequencesExt

Traces == ndJsonDeserialize(IOEnv.TRACE_FILE)

VARIABLES tid, l, bad, drift
tvars == <<fvars, tid, l, bad, drift>>

EvOf(e)  == [k |-> e.k, n |-> e.n, t |-> e.t]
CfgOf(t) == [kind   |-> Traces[t].cfg.kind,
             events |-> { EvOf(Traces[t].cfg.events[i]) : i \in DOMAIN Traces[t].cfg.events },
             start  |-> Traces[t].cfg.start]
Rec(t, i) == Traces[t].steps[i]

Bind(r) ==
    /\ cfg' = cfg
    /\ up' = r.st.up
    /\ clock' = r.st.clock
    /\ timers' = ToSet(r.st.timers)
    /\ status' = r.st.status
    /\ queued' = (r.st.nque > 0)
    /\ todo' = ToSet(r.st.todo)
    /\ exec' = ToSet(r.st.exec)
    /\ targets' = ToSet(r.st.targets)
    /\ booted' = IF r.st.nbooted > 0 THEN BootEv ELSE {}
    /\ env' = IF r.ev \in {"Tick", "Advance", "NewTarget"} THEN env - 1 ELSE env
    /\ lastFire' = IF Fired THEN clock' ELSE lastFire

Fail(name, ok) == IF ok THEN {} ELSE {name}

StepClauses ==
         Fail("C20.FireTargets", Fired => (queued' /\ (IF cfg.kind = "analysis" THEN {ALL} ELSE targets') \subseteq todo'))
    \cup Fail("C20.BootFires",   (~up /\ up' /\ BootEv # {}) => (Fired /\ queued'))
    \cup Fail("C20.BootOnce",    (Fired /\ (up \/ BootEv = {})) => Justified)
    \cup Fail("C20.Armed",       Armed')
    \cup Fail("C20.Recurs",      RecursStep)

(* is the recorded step a step of the implementation-shaped model? *)
ModelStep(r) ==
    CASE r.ev = "Boot"      -> Boot
      [] r.ev = "Tick"      -> Tick
      [] r.ev = "Advance"   -> Advance(r.args.dt)
      [] r.ev = "Dispatch"  -> Dispatch \/ UNCHANGED <<status, queued, todo, exec, timers>>
      [] r.ev = "Complete"  -> Complete(r.args.t)
      [] r.ev = "NewTarget" -> NewTarget
      [] OTHER -> TRUE

TraceInit ==
    /\ tid \in 1 .. Len(Traces)
    /\ l = 1
    /\ cfg = CfgOf(tid)
    /\ TimedEv \subseteq Specs
    /\ LET r == Rec(tid, 1) IN
       /\ up = r.st.up /\ clock = r.st.clock /\ timers = ToSet(r.st.timers)
       /\ status = r.st.status /\ queued = (r.st.nque > 0)
       /\ todo = ToSet(r.st.todo) /\ exec = ToSet(r.st.exec) /\ targets = ToSet(r.st.targets)
    /\ booted = {} /\ lastFire = -1 /\ env = 1000000
    /\ bad = {} /\ drift = FALSE

TraceNext ==
    /\ l < Len(Traces[tid].steps)
    /\ l' = l + 1
    /\ UNCHANGED tid
    /\ LET r == Rec(tid, l + 1) IN
       /\ Bind(r)
       /\ bad' = StepClauses
       /\ drift' = ~ModelStep(r)
       /\ (bad' # {} => PrintT(<<"CLAUSE", Traces[tid].tid, l + 1, r.ev, bad'>>))
       /\ (drift' => PrintT(<<"DRIFT", Traces[tid].tid, l + 1, r.ev>>))

TraceSpec == TraceInit /\ [][TraceNext]_tvars

TotalLines  == FoldLeft(LAMBDA acc, t : acc + Len(t.steps), 0, Traces)
AllConsumed == /\ PrintT(<<"CONSUMED", TLCGet("distinct"), TotalLines>>)
               /\ TLCGet("distinct") = TotalLines
=============================================================================
