------------------------------ MODULE Dag_Sim ------------------------------
(***************************************************************************)
(* Larger programs by simulation (tlc -simulate): the program is drawn     *)
(* step by step -- an algorithm (kind, package, state vectors x values),   *)
(* then for every earlier algorithm a subset of the reference              *)
(* granularities with the state vector / value they name, finally up to    *)
(* MaxFb feedback references (any algorithm <= value of another one) --    *)
(* and then Construct runs on it (module Dag) in a random iteration order.  *)
(* Four algorithms give diamonds and shared inputs.  Every behaviour ends   *)
(* in pc = "done", where the clauses of C09 are checked on the model and    *)
(* the program is exported as a CASE for the real code.                     *)
(***************************************************************************)
EXTENDS Dag_MC, Json
CONSTANTS NAlg, MaxFb

VARIABLES todo, nfb           \* earlier algorithms the newest one has not decided about; feedback references left
svars == <<vars, todo, nfb>>

Letters == <<"a", "b", "c", "d", "e">>
Pkgs == {"t0", "t1", "t2"}
Shapes == {S11, S12, S21, S22}
Empty == [kind |-> <<>>, pkg |-> <<>>, nm |-> <<>>, vals |-> <<>>, refs |-> <<>>, fb |-> <<>>]
Order(p) == LET A == AlgsOf(p) IN [i \in 1..Cardinality(A) |-> CHOOSE a \in A : p.nm[a] = Letters[i]]

SimInit ==
    /\ prog = Empty /\ pc = "gen" /\ bt = EmptyTree
    /\ known = {} /\ par = <<>> /\ stack = <<>> /\ g = Failed
    /\ todo = <<>> /\ nfb \in 0..MaxFb

GenAlg ==
    /\ pc = "gen" /\ todo = <<>> /\ Cardinality(AlgsOf(prog)) < NAlg
    /\ \E k \in Kinds, pk \in Pkgs, sh \in Shapes :
          LET nm == Letters[Cardinality(AlgsOf(prog)) + 1]
              a  == pk \o "." \o nm
          IN /\ prog' = [kind |-> prog.kind @@ (a :> k), pkg |-> prog.pkg @@ (a :> pk), nm |-> prog.nm @@ (a :> nm),
                         vals |-> prog.vals @@ (a :> sh), refs |-> prog.refs @@ (a :> {}), fb |-> prog.fb @@ (a :> {})]
             /\ todo' = Order(prog)
    /\ UNCHANGED <<pc, bt, known, par, stack, g, nfb>>

GenRefs ==
    /\ pc = "gen" /\ todo # <<>>
    /\ LET src == Head(todo)
           me  == Order(prog)[Cardinality(AlgsOf(prog))]
       IN \E G \in SUBSET Grans, x \in prog.vals[src], y \in prog.vals[src] :
            LET R == { [src |-> src, gran |-> gran,
                        sv  |-> IF gran = "alg" THEN "" ELSE IF gran = "sv" THEN x[1] ELSE y[1],
                        val |-> IF gran = "val" THEN y[2] ELSE ""] : gran \in G }
            IN prog' = [prog EXCEPT !.refs[me] = @ \cup R]
    /\ todo' = Tail(todo)
    /\ UNCHANGED <<pc, bt, known, par, stack, g, nfb>>

GenFb ==
    /\ pc = "gen" /\ todo = <<>> /\ Cardinality(AlgsOf(prog)) = NAlg /\ nfb > 0
    /\ LET o == Order(prog) IN
       \E i \in 1..NAlg, j \in 1..NAlg : i # j /\
          \E gran \in {"sv", "val"}, x \in prog.vals[o[j]] :
             prog' = [prog EXCEPT !.fb[o[i]] = @ \cup { [src |-> o[j], gran |-> gran, sv |-> x[1],
                                                         val |-> IF gran = "val" THEN x[2] ELSE ""] }]
    /\ nfb' = nfb - 1
    /\ UNCHANGED <<pc, bt, known, par, stack, g, todo>>

GenDone ==
    /\ pc = "gen" /\ todo = <<>> /\ Cardinality(AlgsOf(prog)) = NAlg /\ nfb = 0
    /\ pc' = "analysis"
    /\ UNCHANGED <<prog, bt, known, par, stack, g, todo, nfb>>

SimNext == \/ GenAlg \/ GenRefs \/ GenFb \/ GenDone
           \/ (Next /\ UNCHANGED <<todo, nfb>>)
SimSpec == SimInit /\ [][SimNext]_svars

(* at the end of every behaviour: the model satisfies every clause, and the program is exported *)
SimFaithful == pc = "done" => (WellFormed(prog) /\ Clauses(prog, g) = {} /\ SameGraph(g, ConstructOp(prog)))
SimEmit == pc = "done" => PrintT(<<"CASE", ToJson([prog |-> prog, feat |-> Features(prog)])>>)
=============================================================================
