----------------------------- MODULE Farm_Gen -----------------------------
EXTENDS Farm, Json
VARIABLE h
gvars == <<vars, h>>
GenInit == Init /\ h = <<>>
GenNext ==
    \/ Connect /\ h' = Append(h, [ev |-> "Connect"])
    \/ \E w \in W, r \in Revs : Register(w, r) /\ h' = Append(h, [ev |-> "Register", w |-> w, rev |-> r])
    \/ \E w \in W : Lost(w) /\ h' = Append(h, [ev |-> "Lost", w |-> w])
    \/ \E r \in Revs : Poll(r) /\ h' = Append(h, [ev |-> "Poll", rev |-> r])
    \/ \E x \in Alg, T \in SUBSET Targets : Run(x, T) /\ h' = Append(h, [ev |-> "Run", S |-> {x}, T |-> T])
    \/ Tick /\ h' = Append(h, [ev |-> "Tick"])
    \/ \E u \in fly, out \in {"success", "failure"}, new \in BOOLEAN :
          Reply(u, out, new) /\ h' = Append(h, [ev |-> "Reply", alg |-> u.alg, t |-> u.t, out |-> out, new |-> new])
    \/ Update /\ h' = Append(h, [ev |-> "Update"])
    \/ (\E r \in Revs : RevChange(r) /\ h' = Append(h, [ev |-> "RevChange", rev |-> r]))
    \/ Load /\ h' = Append(h, [ev |-> "Load"])
    \/ Resume /\ h' = Append(h, [ev |-> "Resume"])
    \/ Notify /\ h' = Append(h, [ev |-> "Notify"])
GenSpec == GenInit /\ [][GenNext]_gvars
(* lean variant for two targets: workers of the right revision only, no losses / polls / life-cycle moves -- requests,
   dispatch and replies across two targets (a unit of an algorithm released at different passes) *)
GenNextLean ==
    \/ Connect /\ h' = Append(h, [ev |-> "Connect"])
    \/ \E w \in W : Register(w, gitrev) /\ h' = Append(h, [ev |-> "Register", w |-> w, rev |-> gitrev])
    \/ \E x \in Alg, T \in (SUBSET Targets) \ {{}} : Run(x, T) /\ h' = Append(h, [ev |-> "Run", S |-> {x}, T |-> T])
    \/ Tick /\ h' = Append(h, [ev |-> "Tick"])
    \/ \E u \in fly, out \in {"success", "failure"}, new \in BOOLEAN :
          Reply(u, out, new) /\ h' = Append(h, [ev |-> "Reply", alg |-> u.alg, t |-> u.t, out |-> out, new |-> new])
GenSpecLean == GenInit /\ [][GenNextLean]_gvars
(* guided variant for the software update: every history starts with update -> checkout moves / reload -> load -> resume
   and goes on, on the reloaded pipeline, with workers of BOTH revisions (stragglers still on the superseded one and fresh
   ones), polls, a request, dispatch and replies *)
LastEv == IF h = <<>> THEN "" ELSE h[Len(h)].ev
GenNextUpd ==
    \/ cycles = 0 /\ Update /\ h' = Append(h, [ev |-> "Update"])
    \/ (\E r \in Revs \ {gitrev} : LastEv = "Update" /\ RevChange(r) /\ h' = Append(h, [ev |-> "RevChange", rev |-> r]))
    \/ LastEv = "RevChange" /\ Load /\ h' = Append(h, [ev |-> "Load"])
    \/ LastEv = "Load" /\ Resume /\ h' = Append(h, [ev |-> "Resume"])
    \/ /\ cycles > 0 /\ phase = "running"
       /\ \/ Connect /\ h' = Append(h, [ev |-> "Connect"])
          \/ \E w \in W, r \in Revs : Register(w, r) /\ h' = Append(h, [ev |-> "Register", w |-> w, rev |-> r])
          \/ \E r \in Revs : Poll(r) /\ h' = Append(h, [ev |-> "Poll", rev |-> r])
          \/ \E x \in Alg, T \in (SUBSET Targets) \ {{}} : Run(x, T) /\ h' = Append(h, [ev |-> "Run", S |-> {x}, T |-> T])
          \/ Tick /\ h' = Append(h, [ev |-> "Tick"])
          \/ \E u \in fly, out \in {"success", "failure"}, new \in BOOLEAN :
                Reply(u, out, new) /\ h' = Append(h, [ev |-> "Reply", alg |-> u.alg, t |-> u.t, out |-> out, new |-> new])
GenSpecUpd == GenInit /\ [][GenNextUpd]_gvars
View == vars
Emit == PrintT(<<"SCHED", ToJson([h |-> h'])>>)
SimInv == PrintT(<<"SCHED", ToJson([h |-> h])>>)
=============================================================================
