----------------------------- MODULE Search_Gen -----------------------------
(* Export of the inputs that the harness executes on the real code
   (BUILDING rule 2: inputs come from TLC).

   GenPart = "a"  run-id expressions: every expression of <= 3 items
                  (NScrub = 0) or a random sample of NScrub of them
   GenPart = "b"  databases (structured ones + NDb random subsets of the grid
                  per density class), each with NFind find queries, NPages page
                  walks and NFacet facet queries drawn from the whole query
                  space (run expression: 1..3 items of the 40-item domain x
                  7^4 name choices x 7 x 4 pages); about half of the name
                  constraints are anchored at an entry of the database so that
                  non-empty results are frequent.

   GenPart contains "h"  NHist histories (Search, part c): a start database, a
                  pool of two queries and a behaviour of >= NHSteps steps built
                  ONE TRANSITION PER STEP (every draw is in the state before the
                  next one depends on it): searches (find through the engine /
                  the front end / both, page walks, facets; three of four ask
                  the first query of the pool, so the very same question is
                  repeated), and changes of the database in between: a swap
                  (k entries removed + k others stored: the number of primary
                  keys is unchanged), a lone store / remove, close + open of
                  another database (of equal size, or any).

   The random draws use TLC's seeded generator (-seed).  Every draw is stored
   in the state before it is printed, so a printed case is one consistent value. *)
EXTENDS Search, Json, Randomization
CONSTANTS GenPart, NScrub, NDb, NFind, NPages_, NFacet,
          NHist, NHSteps     \* histories and their minimal length (0 = none)

VARIABLE c
vars == <<c>>

Exprs3   == Exprs(3)
Pick(S)  == RandomElement(S)
ItemSet  == {it \in Items : TRUE}                    \* enumerated once
RndExpr(x) == [i \in 1..Pick(1..3) |-> Pick(ItemSet)]   \* a non-empty expression of the domain

(* (parameterised: TLC evaluates zero-arity constant definitions once) *)
RndRun(x) == IF Pick(1..3) = 1 THEN Absent ELSE [hasrun |-> TRUE, run |-> RndExpr(x)]
RndNames(d, x) ==
    LET r == Pick(1..8)
        n == NameOf(x, d)
    IN IF r <= 3 THEN {}
       ELSE IF r <= 5 THEN {n}
       ELSE IF r = 6 THEN {n, Pick(ToSet(NameOrder[d]))}
       ELSE Pick(NameChoices(d))
RndQueryAt(x) == Query(RndRun(x), RndNames("tg", x), RndNames("tk", x), RndNames("al", x), RndNames("sv", x))
RndQuery(db)  == RndQueryAt(IF db = {} THEN Pick(Grid) ELSE Pick(db))

Structured == { {}, Grid,
                {x \in Grid : x.v = "v1"},
                {x \in Grid : x.run = 2},
                {x \in Grid : x.run \in {1, 4}},
                {x \in Grid : x.t = "T1" /\ x.k = "k1" /\ x.s = "s1"},
                {x \in Grid : x.run # 3 /\ x.a = "a1"},
                {x \in Grid : x.a = "a1b" /\ x.s = "s2"} }
GenDbs(n) == Structured
             \cup RandomSetOfSubsets(n, 2, Grid) \cup RandomSetOfSubsets(n, 6, Grid)
             \cup RandomSetOfSubsets(n, 16, Grid) \cup RandomSetOfSubsets(n, 40, Grid)
             \cup RandomSetOfSubsets((n + 1) \div 2, 90, Grid)

DbCase(d) == [kind   |-> "b", db |-> d, bump |-> Pick(BOOLEAN), rev |-> Pick(BOOLEAN), off |-> Pick(Offsets),
              finds  |-> [i \in 1..NFind |-> [q |-> RndQuery(d), index |-> Pick(PageIndex), limit |-> Pick(PageLimit)]],
              pages  |-> [i \in 1..NPages_ |-> [q |-> RndQuery(d), L |-> Pick(PageLimit \ {NOLIMIT})]],
              facets |-> [i \in 1..NFacet |-> [q |-> RndQuery(d), d |-> Pick(Dims)]]]

(* ---- histories ---- *)
HistDbs(n) == RandomSetOfSubsets((n + 1) \div 2, 5, Grid) \cup RandomSetOfSubsets((n + 1) \div 2, 12, Grid)
HistStart(d) == [kind |-> "h", db0 |-> d, db |-> d, bump |-> Pick(BOOLEAN), rev |-> Pick(BOOLEAN), off |-> Pick(Offsets),
                 pool |-> [i \in 1..2 |-> RndQuery(d)], steps |-> <<>>]
PickQi(x)  == IF Pick(1..4) = 1 THEN 2 ELSE 1
PickIdx(x) == IF Pick(1..2) = 1 THEN 0 ELSE Pick(PageIndex)
Push(ss)   == c' = [c EXCEPT !.steps = @ \o ss]
Change(db, ss) == c' = [c EXCEPT !.db = db, !.steps = @ \o ss]
Mut(ev, xs) == [ev |-> ev, xs |-> xs]
(* every bound variable below is a value drawn once (a singleton set is enumerated) *)
HistNext ==
    /\ c.kind = "h" /\ Len(c.steps) < NHSteps
    /\ \E r \in {Pick(1..14)} :
         \/ r \in 1..4 /\ \E s \in {[ev |-> "Find", qi |-> PickQi(r), index |-> PickIdx(r), limit |-> Pick(PageLimit),
                                       via |-> Pick({"db", "fe", "both"})]} : Push(<<s>>)
         \/ r = 5 /\ \E qi \in {PickQi(r)}, L \in {Pick(PageLimit \ {NOLIMIT})} :
                        Push(<<[ev |-> "Pages", qi |-> qi, L |-> L, n |-> NPages(Match(c.db, c.pool[qi]), L)]>>)
         \/ r = 6 /\ \E s \in {[ev |-> "Facet", qi |-> PickQi(r), d |-> Pick(Dims)]} : Push(<<s>>)
         \/ r \in 7..9 /\ \E k \in {Min2(Pick(1..3), Min2(Cardinality(c.db), Cardinality(Grid \ c.db)))} :
                           \E rm \in {RandomSubset(k, c.db)}, ad \in {RandomSubset(k, Grid \ c.db)} :
                              IF Pick(BOOLEAN) THEN Change((c.db \ rm) \cup ad, <<Mut("Remove", rm), Mut("Store", ad)>>)
                                               ELSE Change((c.db \ rm) \cup ad, <<Mut("Store", ad), Mut("Remove", rm)>>)
         \/ r = 10 /\ \E ad \in {RandomSubset(Pick(1..2), Grid)} : Change(c.db \cup ad, <<Mut("Store", ad)>>)
         \/ r = 11 /\ \E rm \in {RandomSubset(Min2(Pick(1..2), Cardinality(c.db)), c.db)} : Change(c.db \ rm, <<Mut("Remove", rm)>>)
         \/ r \in 12..13 /\ \E nd \in {RandomSubset(Cardinality(c.db), Grid)} : Change(nd, <<Mut("Reopen", nd)>>)
         \/ r = 14 /\ \E nd \in {RandomSubset(Pick(0..12), Grid)} : Change(nd, <<Mut("Reopen", nd)>>)

Init == c = [kind |-> "root"]
Next == \/ /\ c.kind = "root"
           /\ \/ GenPart \in {"a", "ab", "abh"} /\ c' \in {[kind |-> "a", e |-> e] : e \in (IF NScrub = 0 THEN Exprs3 ELSE RandomSubset(NScrub, Exprs3))}
              \/ GenPart \in {"b", "ab", "abh"} /\ c' \in {DbCase(d) : d \in GenDbs(NDb)}
              \/ GenPart \in {"h", "abh"} /\ NHist > 0 /\ c' \in {HistStart(d) : d \in HistDbs(NHist)}
        \/ HistNext
Spec == Init /\ [][Next]_vars

QJson(q) == [hasrun |-> q.hasrun, run |-> ShiftExpr(q.run, c.off), tg |-> q.tg, tk |-> q.tk, al |-> q.al, sv |-> q.sv]
HStepJson(s) ==
    CASE s.ev = "Find"  -> [ev |-> "Find", args |-> [q |-> QJson(c.pool[s.qi]), index |-> s.index, limit |-> s.limit, via |-> s.via]]
      [] s.ev = "Pages" -> [ev |-> "Pages", args |-> [q |-> QJson(c.pool[s.qi]), L |-> s.L, n |-> s.n]]
      [] s.ev = "Facet" -> [ev |-> "Facet", args |-> [q |-> QJson([c.pool[s.qi] EXCEPT ![s.d] = {}]), d |-> s.d]]
      [] OTHER          -> [ev |-> s.ev, args |-> [xs |-> ShiftDb(s.xs, c.off)]]
Emit ==
    CASE c.kind = "a" -> PrintT(<<"CASE", ToJson([kind |-> "a", e |-> c.e])>>)
      [] c.kind = "b" ->
           PrintT(<<"CASE", ToJson(
               \* database and run-id expressions are printed shifted by c.off (Search!ShiftDb)
               [kind |-> "b", db |-> ShiftDb(c.db, c.off), bump |-> c.bump, rev |-> c.rev, off |-> c.off,
                finds  |-> [i \in DOMAIN c.finds |-> [q |-> QJson(c.finds[i].q), index |-> c.finds[i].index, limit |-> c.finds[i].limit]],
                pages  |-> [i \in DOMAIN c.pages |->
                              [q |-> QJson(c.pages[i].q), L |-> c.pages[i].L,
                               n |-> NPages(Match(c.db, c.pages[i].q), c.pages[i].L)]],
                facets |-> [i \in DOMAIN c.facets |->
                              [q |-> QJson([c.facets[i].q EXCEPT ![c.facets[i].d] = {}]), d |-> c.facets[i].d]]])>>)
      [] c.kind = "h" /\ Len(c.steps) >= NHSteps ->
           PrintT(<<"CASE", ToJson(
               [kind |-> "h", db |-> ShiftDb(c.db0, c.off), bump |-> c.bump, rev |-> c.rev, off |-> c.off,
                steps |-> [i \in DOMAIN c.steps |-> HStepJson(c.steps[i])]])>>)
      [] OTHER -> TRUE
=============================================================================
