----------------------------- MODULE DbLock_Gen -----------------------------
EXTENDS DbLock, Json, Sequences
VARIABLE h
gvars == <<vars, h>>
GenInit == Init /\ h = <<>>
GenNext == \E c \in C :
    \/ Request(c) /\ h' = Append(h, [ev |-> "Request", c |-> c])
    \/ Poll(c) /\ h' = Append(h, [ev |-> "Poll", c |-> c])
    \/ Release(c) /\ h' = Append(h, [ev |-> "Release", c |-> c])
    \/ Disconnect(c) /\ h' = Append(h, [ev |-> "Disconnect", c |-> c])
    \/ Reopen(c) /\ h' = Append(h, [ev |-> "Reopen", c |-> c])
GenSpec == GenInit /\ [][GenNext]_gvars
View == vars
Emit == PrintT(<<"SCHED", ToJson([h |-> h'])>>)
SimInv == PrintT(<<"SCHED", ToJson([h |-> h])>>)
MaxLen == Len(h) < 12
=============================================================================
