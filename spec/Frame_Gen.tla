------------------------------ MODULE Frame_Gen ------------------------------
(* chunkings for replay: h = the chunk sizes handed over so far.  Without a
   VIEW every chunking is a distinct path, so TLC enumerates ALL chunkings of
   the (short) streams; a chunking is printed when the stream is exhausted or
   the connection was closed. *)
EXTENDS Frame_MC, Json
VARIABLE h
gvars == <<vars, h>>
GenInit == Init /\ h = <<>>
GenNext == \E k \in 1..Len(rest) : Chunk(k) /\ h' = Append(h, k)
GenSpec == GenInit /\ [][GenNext]_gvars
BitsJson(b) == [p1 |-> b.p1, sigA |-> b.sigA, p4 |-> b.p4, sigB |-> b.sigB, echo |-> b.echo]
Emit == (rest' = <<>> \/ closed') => PrintT(<<"CASE", ToJson([lens |-> lens, bits |-> BitsJson(bits), hs |-> Handshake, chunks |-> h'])>>)
SimInv == (rest = <<>> \/ closed) => PrintT(<<"CASE", ToJson([lens |-> lens, bits |-> BitsJson(bits), hs |-> Handshake, chunks |-> h])>>)
=============================================================================
