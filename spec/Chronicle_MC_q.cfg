SPECIFICATION Spec
CONSTANTS
  Cal <- CalY
  Tod <- TodMini
  EntAt <- EntAtY
  EntRun <- EntRunY
  EntSt <- EntStMini
  Cand <- CandA
  Bounds <- BoundsYM
  Limits = {1, 2}
  Nows <- NowsYQ
  WithApi = FALSE
  WithReader = FALSE
  Pinned = FALSE
  PinnedApi = FALSE
INVARIANT TypeOK
INVARIANT C18_Recorded
INVARIANT C18_FindOK
INVARIANT C18_ApiFindOK
PROPERTY C18_AppendOnce
CHECK_DEADLOCK FALSE
