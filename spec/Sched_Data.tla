----------------------------- MODULE Sched_Data -----------------------------
(***************************************************************************)
(* Data plane on top of Sched (C02, end-state part): "whenever changed     *)
(* values have content never stored before, the stored results at          *)
(* quiescence equal those of a from-scratch run in dependency order".      *)
(*                                                                         *)
(* Every algorithm is a pure function of its declared inputs:              *)
(*   root value      <<alg, val, target, revision>>                        *)
(*   task value      <<alg, val, target, <<content of each declared input>> >>  *)
(*   analysis value  <<alg, val, "__all__", <<per target: contents of the declared inputs>> >> *)
(* Novelty is decided as the store does it: a value is new iff identical   *)
(* content was never stored before (seen).  A root re-run (Bump) raises    *)
(* the revision of a chosen subset of the root's values, which makes their *)
(* content new.  The scheduler is the Sched module unchanged.              *)
(***************************************************************************)
EXTENDS Sched_MC

CONSTANTS MaxBump
Val == {"s.v", "s.w"}

VARIABLES src,      \* [root alg \X Targets \X Val -> revision]   (the all-targets marker for an analysis root)
          stored,   \* [Alg \X Tg \X Val -> content]  latest stored value; <<>> = nothing stored
          seen,     \* set of all contents ever stored
          execs,    \* history: sequence of [alg, t, just] -- every execution with its justification
          owed,     \* set of <<alg, t>> that were told to run (request / new input) and have not been released since
          rj,       \* released units that were owed a run when they were released
          bumps

dvars == <<vars, src, stored, seen, execs, owed, rj, bumps>>

Roots == { a \in Alg : prog.ins[a] = {} }
TgOf(a) == IF IsAsp(a) THEN {ALL} ELSE Targets
InSeq(a) == LET S == prog.ins[a] IN          \* declared inputs in a fixed order (by position of the source, then value name)
    SelectSeq(<< <<A1, "s.v">>, <<A1, "s.w">>, <<A2, "s.v">>, <<A3, "s.v">>, <<A4, "s.v">> >>, LAMBDA p : p \in S)

(* the stored value of input <<b, v>> as seen by a unit on target t *)
InputFor(st, b, v, t) == IF IsAsp(b) THEN st[<<b, ALL, v>>] ELSE st[<<b, t, v>>]
InputsAt(st, a, t) == [i \in DOMAIN InSeq(a) |-> InputFor(st, InSeq(a)[i][1], InSeq(a)[i][2], t)]
TSeq == IF Targets = {"T1"} THEN <<"T1">> ELSE <<"T1", "T2">>

Compute(st, sr, a, t, v) ==
    IF a \in Roots THEN <<a, v, t, sr[<<a, t, v>>]>>
    ELSE IF IsAsp(a) THEN <<a, v, ALL, [i \in DOMAIN TSeq |-> InputsAt(st, a, TSeq[i])]>>
    ELSE <<a, v, t, InputsAt(st, a, t)>>

(* from-scratch run in dependency order A1, A2, A3: each layer computed from the previous ones *)
Layer(st, sr, a) == [k \in Alg \X Tg \X Val |->
                        IF k[1] = a /\ k[2] \in TgOf(a) /\ k[3] \in prog.vals[a] THEN Compute(st, sr, a, k[2], k[3]) ELSE st[k]]
Empty == [k \in Alg \X Tg \X Val |-> <<>>]
FromScratch(sr) == Layer(Layer(Layer(Empty, sr, A1), sr, A2), sr, A3)

SrcDom == { k \in Alg \X Tg \X Val : k[1] \in Roots /\ k[2] \in TgOf(k[1]) /\ k[3] \in prog.vals[k[1]] }

DInit ==
    /\ Init
    /\ src = [k \in SrcDom |-> 0]
    /\ stored = FromScratch(src)
    /\ seen = { stored[k] : k \in DOMAIN stored } \ {<<>>}
    /\ execs = <<>> /\ owed = {} /\ rj = {} /\ bumps = 0

(* new data for a root: the revision of a chosen non-empty subset N of its values goes up, and the root is asked to run *)
Bump(a, t, N) ==
    /\ bumps < MaxBump /\ bumps' = bumps + 1
    /\ a \in Roots /\ t \in TgOf(a) /\ N # {} /\ N \subseteq prog.vals[a]
    /\ src' = [k \in SrcDom |-> IF k[1] = a /\ k[2] = t /\ k[3] \in N THEN src[k] + 1 ELSE src[k]]
    /\ Run({a}, IF t = ALL THEN {} ELSE {t})
    /\ owed' = owed \cup {<<a, t>>}
    /\ UNCHANGED <<stored, seen, execs, rj>>

DTick ==
    /\ Tick
    /\ LET R == { u \in Alg \X Tg : fly'[u] > fly[u] } IN
       /\ rj' = (rj \ R) \cup (R \cap owed)
       /\ owed' = owed \ R
    /\ UNCHANGED <<src, stored, seen, execs, bumps>>

(* the worker executes the unit (reads the latest stored inputs, stores its outputs, reports novelty) and replies *)
ExecReply(a, t) ==
    /\ fly[<<a, t>>] > 0
    /\ LET out == [v \in prog.vals[a] |-> Compute(stored, src, a, t, v)]
           new == { v \in prog.vals[a] : out[v] \notin seen }
           C == Consumers(a, new)
       IN /\ Reply(a, t, "success", new, FALSE)
          /\ stored' = [k \in Alg \X Tg \X Val |-> IF k[1] = a /\ k[2] = t /\ k[3] \in prog.vals[a] THEN out[k[3]] ELSE stored[k]]
          /\ seen' = seen \cup { out[v] : v \in prog.vals[a] }
          /\ execs' = Append(execs, [alg |-> a, t |-> t, just |-> <<a, t>> \in rj])
          /\ rj' = rj \ {<<a, t>>}
          /\ owed' = owed \cup UNION { { <<c, s>> : s \in Affected(c, t) } : c \in C }
    /\ UNCHANGED <<src, bumps>>

DNext ==
    \/ \E a \in Alg, t \in Tg : \E N \in SUBSET prog.vals[a] : Bump(a, t, N)
    \/ DTick
    \/ \E a \in Alg, t \in Tg : ExecReply(a, t)

DSpec == DInit /\ [][DNext]_dvars
DFair == DSpec /\ WF_dvars(DTick) /\ WF_dvars(\E a \in Alg, t \in Tg : ExecReply(a, t))

-----------------------------------------------------------------------------
Quiescent == que = {} /\ (\A u \in Alg \X Tg : fly[u] = 0) /\ (\A a \in Alg : todo[a] = {})

(* C02: at quiescence the store equals a from-scratch run on the current sources *)
C02_EndState == Quiescent => stored = FromScratch(src)
(* C02: minimality over the whole history -- every execution was justified by a request
   or by a new-value report of one of its declared inputs since its last run *)
C02_Justified == \A i \in DOMAIN execs : execs[i].just
(* C02: completeness over the history -- at quiescence nobody is owed a run *)
C02_NoneOwed == Quiescent => owed = {}
C02_Terminates == <>[]Quiescent
=============================================================================
