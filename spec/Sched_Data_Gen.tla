--------------------------- MODULE Sched_Data_Gen ---------------------------
EXTENDS Sched_Data, Json
VARIABLE h
gvars == <<dvars, h>>
GenInit == DInit /\ h = <<>>
GenNext ==
    \/ \E a \in Alg, t \in Tg : \E N \in SUBSET prog.vals[a] :
          Bump(a, t, N) /\ h' = Append(h, [ev |-> "Bump", alg |-> a, t |-> t, N |-> N])
    \/ DTick /\ h' = Append(h, [ev |-> "Tick"])
    \/ \E a \in Alg, t \in Tg : ExecReply(a, t) /\ h' = Append(h, [ev |-> "ExecReply", alg |-> a, t |-> t])
GenSpec == GenInit /\ [][GenNext]_gvars
View == dvars
ProgJson == [kind |-> prog.kind, ins |-> prog.ins, vals |-> prog.vals]
Emit == PrintT(<<"SCHED", ToJson([prog |-> ProgJson, h |-> h'])>>)
SimInv == PrintT(<<"SCHED", ToJson([prog |-> ProgJson, h |-> h])>>)
=============================================================================
