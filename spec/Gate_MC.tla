------------------------------ MODULE Gate_MC ------------------------------
(* Exhaustive enumeration of the descriptor space of Gate: one initial state
   per descriptor, no transitions.  Invariants:
     TypeOK        every descriptor is well formed (one violation, at an
                   element that exists in the package it describes)
     WalkAgrees    the transcription of _walk/_verify decides exactly Accept
                   (holds for Pinned = FALSE; for Pinned = TRUE the run with
                   invariant Report lists the descriptors on which the
                   traversal of the pinned tree disagrees with Accept)
     CmdAgrees     the transcription of the import path of the command judges
                   the submitted checkout in every environment case          *)
EXTENDS Gate, Json
VARIABLE d
vars == <<d>>
Init == d \in Descriptors
Next == UNCHANGED d
Spec == Init /\ [][Next]_vars

TypeOK ==
    /\ WellFormed(d)
    /\ d.viol \in ViolNames \cup {"none"}
    /\ (d.viol = "none") = (d.pos = NoPos)
    /\ d.kinds = {} <=> d.viol = NoFactory.v
    /\ Accept(d) \in BOOLEAN
WalkAgrees == ImplAccept(d) = Accept(d)
(* the command judges the submitted checkout in every environment case built on d *)
CmdAgrees == /\ ClaimedViolating(d) => WellFormed(Twin(d))      \* with WellFormed(d): every case of EnvCasesOf(d) is EnvWellFormed
             /\ \A c \in EnvCasesOf(d) : ImplCmdAccept(c) = CmdAccept(c)
Report == (ImplAccept(d) # Accept(d)) =>
             PrintT(<<"DISAGREE", ToJson(d), IF Accept(d) THEN "rejects-conforming" ELSE "accepts-violating">>)
=============================================================================
