--------------------------- MODULE StoreCrash_MC ---------------------------
(* constants for the exhaustive runs of StoreCrash.
   Keys name (target, algorithm, run): one base key and one key differing from it in
   each dimension, so that repeats of a content across targets, algorithms and runs
   and overwrites of the same entry all occur. *)
EXTENDS StoreCrash
C3 == {"c1", "c2", "c3"}
C2 == {"c1", "c2"}
K4 == {"T1.A.1", "T2.A.1", "T1.B.1", "T1.A.2"}
K3 == {"T1.A.1", "T2.A.1", "T1.A.2"}
K2 == {"T1.A.1", "T2.A.1"}
(* the persistent part of NoDangling only: what a process opening the files finds.  With
   RecordFirst = TRUE this is violated only through a Crash between Record and Move. *)
NoDanglingDown == ~up => NoDangling
(* vacuity witnesses: each must be VIOLATED (reachable) *)
NeverOldAnswer  == rep # "old"
NeverOrphanBlob == ~(\E n \in DOMAIN blobs : n \notin Rng(prime) /\ ~up)
NeverLostRecord == ~(~up /\ nev > 0 /\ \E n \in DOMAIN blobs : n \notin Rng(dprime))
=============================================================================
