---------------------------- MODULE Chronicle_MC ----------------------------
(* Tables and bounded domains for Chronicle (C18).  The tables are the single
   source of truth: Chronicle_Gen prints them, the harness builds the real
   datetimes from the printed copy and echoes it in every trace header, and
   Chronicle_Trace compares the echo with these definitions.

   Three calendars of real, contiguous days (5 times of day each):
     Y  2023-12-30 .. 2024-01-03   year end and month end
     L  2024-02-28 .. 2024-03-02   leap day and month end inside one year
     J  2023-12-30 .. 2024-03-01   both, joined by all of January and February
                                   (long walks over empty days, missing month
                                   and year directories in one history)
   In each, 8 slots hold the 24 table entries: entry 2k-1 is the successful,
   2k the failed and 16+k the invalid run (State.invalid: the worker raised
   NoValidInput/OutputDataError) completed at slot k.  The last day of Y and L
   holds no entry: it is where `now` lives.

   ZoneOff: the UTC offsets (minutes) in which the bounds of a query are
   written when it is replayed on the real code (tz-aware datetimes for find,
   ISO strings for the front end); zone 1 is UTC. *)
EXTENDS Chronicle

TodMini == << <<0, 0, 0>>, <<6, 0, 0>>, <<12, 0, 0>>, <<18, 0, 0>>, <<23, 59, 59>> >>
At(d, t) == (d - 1) * 5 + (t - 1)      \* t: 1 = 00:00:00, 2 = 06:00, 3 = 12:00, 4 = 18:00, 5 = 23:59:59
EntStMini == [e \in 1..24 |-> IF e > 16 THEN "invalid" ELSE IF e % 2 = 1 THEN "success" ELSE "failure"]
SlotOf(e) == IF e > 16 THEN e - 16 ELSE (e + 1) \div 2
BySlot(S) == [e \in 1..24 |-> S[SlotOf(e)]]
(* an invalid run is filed under the run id of the failed run of its slot *)
WithInvalid(R) == R \o [k \in 1..8 |-> R[2 * k]]
ZoneOff == <<0, 0 - 300, 330, 780, 0 - 660>>   \* UTC, -05:00, +05:30, +13:00, -11:00

CandA == {1, 4, 5, 7, 21, 11, 14, 24}         \* 4 successes, 2 failures, 2 invalid (slots 5, 8)
CandB == {17, 3, 6, 8, 9, 12, 23, 16}         \* other outcomes at the same slots
CandC == {1, 2, 17, 7, 8, 20, 9, 10, 13, 14}  \* all three / both outcomes at the same instants
CandS == {4, 5, 7, 11, 22}
CandL == {4, 7, 11}                           \* process-life generation: 2023-12-31, 2024-01-01, 2024-02-28 on J

(* ---- Y: day 1 = 2023-12-30, 2 = 12-31, 3 = 2024-01-01, 4 = 01-02, 5 = 01-03 *)
CalY == << <<2023, 12, 30>>, <<2023, 12, 31>>, <<2024, 1, 1>>, <<2024, 1, 2>>, <<2024, 1, 3>> >>
EntAtY == BySlot(<< At(1, 4),     \* 2023-12-30 18:00
                    At(2, 3),     \* 2023-12-31 12:00
                    At(2, 5),     \* 2023-12-31 23:59:59
                    At(3, 1),     \* 2024-01-01 00:00:00
                    At(3, 3),     \* 2024-01-01 12:00
                    At(3, 4),     \* 2024-01-01 18:00
                    At(4, 2),     \* 2024-01-02 06:00
                    At(4, 4) >>)  \* 2024-01-02 18:00
(* 12-31 has 1.json with entries 3..6; 01-01 has 2.json (7, 8, 9) and 3.json (10, 11, 12) *)
(* 01-02: the OLDER run (2) completes at 18:00, after the newer run (3) at 06:00 -- run ids and completion
   times are not ordered alike (a long unit of an earlier change set finishes late) *)
EntRunY == WithInvalid(<<1, 1, 1, 1, 1, 1, 2, 2, 2, 3, 3, 3, 3, 3, 2, 2>>)
BoundsYQ == { At(1, 3), At(2, 2), At(2, 5), At(3, 1), At(3, 2), At(3, 4), At(4, 2), At(4, 5), At(5, 2) }
BoundsYM == { At(1, 3), At(2, 5), At(3, 2), At(3, 4), At(4, 2), At(4, 5) }   \* the quick model run
NowsYQ == { At(5, 2) }              \* 2024-01-03 06:00
NowsYT == { At(5, 2), At(5, 5) }    \* and 23:59:59

(* ---- L: day 1 = 2024-02-28, 2 = 02-29, 3 = 03-01, 4 = 03-02 *)
CalL == << <<2024, 2, 28>>, <<2024, 2, 29>>, <<2024, 3, 1>>, <<2024, 3, 2>> >>
EntAtL == BySlot(<< At(1, 3),     \* 2024-02-28 12:00
                    At(1, 5),     \* 2024-02-28 23:59:59
                    At(2, 1),     \* 2024-02-29 00:00:00
                    At(2, 3),     \* 2024-02-29 12:00
                    At(2, 5),     \* 2024-02-29 23:59:59
                    At(3, 1),     \* 2024-03-01 00:00:00
                    At(3, 2),     \* 2024-03-01 06:00
                    At(3, 4) >>)  \* 2024-03-01 18:00
EntRunL == WithInvalid(<<1, 1, 1, 1, 2, 2, 2, 2, 3, 3, 3, 3, 3, 3, 4, 4>>)
BoundsLQ == { At(1, 1), At(1, 4), At(1, 5), At(2, 1), At(2, 4), At(3, 1), At(3, 2), At(3, 5), At(4, 2) }
NowsLQ == { At(4, 2) }              \* 2024-03-02 06:00
NowsLT == { At(4, 2), At(4, 5) }

(* ---- J: day 1 = 2023-12-30, 3 = 2024-01-01, 34 = 02-01, 61 = 02-28, 62 = 02-29, 63 = 03-01 *)
CalJ == [i \in 1..2 |-> <<2023, 12, 29 + i>>] \o [i \in 1..31 |-> <<2024, 1, i>>]
        \o [i \in 1..29 |-> <<2024, 2, i>>] \o << <<2024, 3, 1>> >>
EntAtJ == BySlot(<< At(1, 4),     \* 2023-12-30 18:00
                    At(2, 5),     \* 2023-12-31 23:59:59
                    At(3, 1),     \* 2024-01-01 00:00:00
                    At(3, 3),     \* 2024-01-01 12:00
                    At(4, 2),     \* 2024-01-02 06:00
                    At(61, 4),    \* 2024-02-28 18:00
                    At(62, 3),    \* 2024-02-29 12:00
                    At(63, 2) >>) \* 2024-03-01 06:00
EntRunJ == WithInvalid(<<1, 1, 1, 1, 2, 2, 2, 3, 2, 2, 3, 3, 3, 3, 4, 4>>)
BoundsJQ == { At(1, 3), At(2, 2), At(3, 1), At(3, 2), At(3, 4), At(4, 2), At(18, 3), At(62, 1), At(62, 5), At(63, 2) }
BoundsJL == { At(2, 2), At(62, 5) }   \* the process-life generation (Chronicle_Gen, LifeSpec)
BoundsYL == { At(2, 2), At(3, 2), At(4, 5) }
NowsJQ == { At(63, 3) }             \* 2024-03-01 12:00
NowsJT == { At(63, 3), At(63, 5) }

BoundsAll == Inst                   \* every instant of the calendar (Y: 25, L: 20)
=============================================================================
