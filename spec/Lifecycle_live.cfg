SPECIFICATION FairSpec
CONSTANTS
  MaxSubmit = 2
  MaxEnv = 2
  MaxCycle = 1
  MaxRaw = 0
  Pinned = FALSE
PROPERTY C10_Return
PROPERTY C12_EventuallyIfIdle
CHECK_DEADLOCK FALSE
