-------------------------- MODULE StoreCrash_Trace --------------------------
(***************************************************************************)
(* Validation of traces recorded from the REAL update path                 *)
(* (harness/storecrash_h.py: Interface._update -> Connector -> Worker.do   *)
(* -> db.util.encode/move on real files, every process life a forked       *)
(* child killed where TLC chose) against the property level of StoreCrash. *)
(*                                                                         *)
(* Every line carries the projected state after the step: the store        *)
(* listing with digests recomputed from the bytes and contents decoded     *)
(* from the bytes, the staging listing, the catalogue as the process sees  *)
(* it (prime) and as a fresh open of the files sees it (dprime); lines     *)
(* Crash / Close / Purge are read from the files after the process is      *)
(* gone.  The variables of StoreCrash are bound to the line, so every      *)
(* property-level formula is evaluated by TLC on the real code's states.   *)
(* A failing clause is reported, never aborts (verdicts are total).        *)
(* `drift`: the step is not a step of the implementation-shaped Next       *)
(* (specification drift, not an alarm).                                    *)
(*                                                                         *)
(* Real store names are related to the model's names through a table       *)
(* content -> md5_sha1 that the harness computes without any DAWGIE code;  *)
(* a name that is not in the table stays as it is.                         *)
(***************************************************************************)
EXTENDS StoreCrash, Json, IOUtils, SequencesExt

Traces == ndJsonDeserialize(IOEnv.TRACE_FILE)

VARIABLES tid, l, bad, drift
tvars == <<vars, tid, l, bad, drift>>

Rec(t, i) == Traces[t].steps[i]

NameOf(t, x) ==
    LET tab == Traces[t].digest
        hit == { c \in DOMAIN tab : tab[c] = x }
    IN  IF hit = {} THEN x ELSE Digest(CHOOSE c \in hit : TRUE)

BlobsOf(t, st) ==
    LET fs == ToSet(st.blobs) IN
    [n \in { NameOf(t, f.n) : f \in fs } |->
        LET f == CHOOSE g \in fs : NameOf(t, g.n) = n IN [c |-> f.c, h |-> NameOf(t, f.h)]]

TableOf(t, arr) ==
    LET ps == ToSet(arr) IN
    [k \in { p[1] : p \in ps } |-> NameOf(t, (CHOOSE p \in ps : p[1] = k)[2])]

EnvEvents == {"Crash", "Close", "Purge", "MoveFails", "StagedLost"}

Bind(t, i) ==
    LET r == Rec(t, i) IN
    /\ up'     = r.st.up
    /\ pc'     = r.st.pc
    /\ uk'     = r.st.uk
    /\ uc'     = r.st.uc
    /\ uname'  = NameOf(t, r.st.uname)
    /\ uex'    = r.st.uex
    /\ orph'   = ToSet(r.st.orph)
    /\ blobs'  = BlobsOf(t, r.st)
    /\ prime'  = TableOf(t, r.st.prime)
    /\ dprime' = TableOf(t, r.st.dprime)
    /\ rep'    = IF r.ev = "Answer" THEN (IF r.obs.isnew THEN "new" ELSE "old") ELSE "none"
    \* the store as it was when this update began: computed here, from the previous line
    /\ pre'    = IF r.ev = "StageMk" THEN Stored(blobs)
                 ELSE IF r.ev \in {"Answer", "Open", "Init"} \cup EnvEvents THEN {} ELSE pre
    /\ nupd'   = IF r.ev = "StageMk" THEN nupd + 1 ELSE nupd
    /\ nev'    = IF r.ev \in EnvEvents THEN nev + 1 ELSE nev

-----------------------------------------------------------------------------
FailClause(name, ok) == IF ok THEN {} ELSE {name}

\* clauses of the state reached
StateClauses ==
    FailClause("C07.NamedByDigest", NamedByDigest')
    \cup FailClause("C07.NoDangling", NoDangling')
    \cup FailClause("C07.SingleCopy", SingleCopy')
\* clauses of the step (the antecedent is an answered update)
StepClauses ==
    FailClause("C07.NoveltyExact", NoveltyStep)
    \cup FailClause("C07.SingleCopy", KeptStep)

(* is the recorded step a step of the implementation-shaped model? *)
CurKind(r) == IF r.st.cur = "" THEN {} ELSE {r.st.cur}
ModelStep(r) ==
    /\ CurStg' = CurKind(r)
    /\ CASE r.ev = "Open"        -> Reopen
         [] r.ev = "StageMk"     -> StageMk(r.st.uk, r.st.uc)
         [] r.ev = "StageWrite"  -> StageWrite
         [] r.ev = "Digest"      -> DoDigest
         [] r.ev = "ExistsCheck" -> ExistsCheck
         [] r.ev = "Move"        -> Move
         [] r.ev = "Record"      -> Record(r.obs.reach)
         [] r.ev = "Answer"      -> Answer
         [] r.ev = "Crash"       -> Crash(r.obs.site)
         [] r.ev = "MoveFails"   -> MoveFails
         [] r.ev = "StagedLost"  -> StagedLost
         [] r.ev = "Close"       -> Close
         [] r.ev = "Purge"       -> Purge
         [] OTHER -> FALSE

-----------------------------------------------------------------------------
InitClauses ==
    FailClause("C07.NamedByDigest", NamedByDigest)
    \cup FailClause("C07.NoDangling", NoDangling)
    \cup FailClause("C07.SingleCopy", SingleCopy)

TraceInit ==
    /\ tid \in 1..Len(Traces)
    /\ l = 1
    /\ LET r == Rec(tid, 1) IN
       /\ up = r.st.up /\ pc = r.st.pc /\ uk = r.st.uk /\ uc = r.st.uc
       /\ uname = NameOf(tid, r.st.uname) /\ uex = r.st.uex
       /\ orph = ToSet(r.st.orph)
       /\ blobs = BlobsOf(tid, r.st)
       /\ prime = TableOf(tid, r.st.prime) /\ dprime = TableOf(tid, r.st.dprime)
    /\ pre = {} /\ rep = "none" /\ nupd = 0 /\ nev = 0
    /\ bad = InitClauses /\ drift = ~(Init)
    /\ (bad # {} => PrintT(<<"CLAUSE", Traces[tid].tid, 1, "Init", bad>>))
    /\ (drift => PrintT(<<"DRIFT", Traces[tid].tid, 1, "Init">>))

TraceNext ==
    /\ l < Len(Traces[tid].steps)
    /\ l' = l + 1
    /\ UNCHANGED tid
    /\ Bind(tid, l + 1)
    /\ LET r == Rec(tid, l + 1) IN
       /\ bad' = StateClauses \cup StepClauses
       /\ drift' = ~ModelStep(r)
       /\ (bad' # {} => PrintT(<<"CLAUSE", Traces[tid].tid, l + 1, r.ev, bad'>>))
       /\ (drift' => PrintT(<<"DRIFT", Traces[tid].tid, l + 1, r.ev>>))

TraceSpec == TraceInit /\ [][TraceNext]_tvars

TotalLines == FoldLeft(LAMBDA acc, t : acc + Len(t.steps), 0, Traces)
AllConsumed == /\ PrintT(<<"CONSUMED", TLCGet("distinct"), TotalLines>>)
               /\ TLCGet("distinct") = TotalLines
=============================================================================
