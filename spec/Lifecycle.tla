----------------------------- MODULE Lifecycle -----------------------------
(***************************************************************************)
(* DAWGIE pipeline life cycle: pl/state.py (FSM over pl/state.dot), the    *)
(* submit flow of fe/submit.py / fe/api/submit.py (Process.step_1..3), the  *)
(* reset command (fe/api cmd_reset), the archive trigger of farm.dispatch  *)
(* and the three poller threads of the submit crossroads.                  *)
(*                                                                         *)
(* Grain: one action per reactor callback; every background step           *)
(* (deferToThread) completes as a SEPARATE action Complete(b); a poller is *)
(* split into Observe (the thread looks at its condition and flag), and    *)
(* Done (the reactor callback of the thread's deferred) so that TLC        *)
(* explores what happens between a thread's last look and the callback.    *)
(*                                                                         *)
(* Pinned = TRUE: behaviour of the pinned commit (findings 4, 13).         *)
(***************************************************************************)
EXTENDS Naturals, FiniteSets, Sequences, TLC

CONSTANTS MaxSubmit,   \* bound on submissions
          MaxEnv,      \* bound on environment toggles
          MaxCycle,    \* bound on update/archive cycles started by the environment (reset, dispatch archive)
          MaxRaw,      \* bound on triggers fired out of turn by the environment (C10 rejection)
          Pinned

States == {"starting", "loading", "contemplation", "running", "gitting", "archiving", "updating"}
Prios  == {"todo", "doing", "crew", "now", "junk"}      \* "junk": a string that is no Priority value (the front-end passes it through)
K      == {"crew", "doing", "todo"}                  \* the three waiters
Rank(p) == CASE p = "none" -> 0 [] p = "todo" -> 1 [] p = "doing" -> 2 [] p = "crew" -> 3 [] p = "now" -> 4
Norm(p) == IF p = "junk" THEN "todo" ELSE p            \* FSM.set_submit_info: unrecognised -> ToDo, then accumulated like any other
PMax(a, b) == IF b = "none" THEN (IF a = "none" THEN "todo" ELSE a) ELSE IF Rank(b) > Rank(a) THEN b ELSE a   \* tools.submit.Priority.max

(* the DOCUMENTED machine, written from the property statement (not read from state.dot) *)
Doc == { <<"starting", "loading">>, <<"loading", "contemplation">>, <<"contemplation", "running">>,
         <<"running", "gitting">>, <<"gitting", "running">>,
         <<"running", "archiving">>, <<"archiving", "running">>,
         <<"running", "updating">>, <<"updating", "archiving">>, <<"archiving", "updating">>, <<"updating", "loading">> }

VARIABLES st,       \* FSM.state
          tr,       \* FSM.transitioning: "active" | "entering" | "exiting"
          prior,    \* FSM.__prior
          bg,       \* outstanding background steps: subset of {"load","navel","archive","reload"}
          arch,     \* farm.ARCHIVE
          prio,     \* FSM.priority ("none" = None)
          wait,     \* [K -> BOOLEAN]   TRUE = that waiter is the active wait (its Event is cleared)
          slot,     \* [K -> "none" | "armed" | "finished" | "stale"]  crew_thread / doing_thread / todo_thread
                    \*    armed: thread polling; finished: thread returned, callback not yet delivered;
                    \*    stale: callback delivered but the attribute was not reset (pinned defect)
          busy, doing, que,     \* environment: farm._busy # [], schedule.view_doing() # {}, schedule.que # []
          sub,      \* "idle" | "gitting": a submission between step_1 and step_3
          subp,     \* its priority
          fire,     \* history of THIS step: "none" or [src, prio, busy, doing, que] when update_trigger was called and accepted
          nfired,   \* accepted update triggers since the last reset()
          rejected, \* history of THIS step: a trigger raised MachineError
          path,     \* history of THIS step: the states passed through, first = before, last = after
          nsub, nenv, ncyc, nraw

vars == <<st, tr, prior, bg, arch, prio, wait, slot, busy, doing, que, sub, subp, fire, nfired, rejected, path, nsub, nenv, ncyc, nraw>>

IsActive == st = "running" /\ tr = "active"            \* FSM.is_pipeline_active
AtRest   == bg = {} /\ tr = "active"
NoWait   == [k \in K |-> FALSE]
CondOf(k) == CASE k = "crew" -> ~busy [] k = "doing" -> ~doing [] k = "todo" -> ~que
KOf(p) == CASE p = "crew" -> "crew" [] p = "doing" -> "doing" [] p = "todo" -> "todo"
NoFire == [src |-> "none", prio |-> "none", busy |-> FALSE, doing |-> FALSE, que |-> FALSE]
Fire(src, p) == [src |-> src, prio |-> p, busy |-> busy, doing |-> doing, que |-> que]

Init ==
    /\ st = "starting" /\ tr = "active" /\ prior = "none" /\ bg = {} /\ arch = FALSE
    /\ prio = "none" /\ wait = NoWait /\ slot = [k \in K |-> "none"]
    /\ busy = FALSE /\ doing = FALSE /\ que = FALSE
    /\ sub = "idle" /\ subp = "none" /\ fire = NoFire /\ nfired = 0 /\ rejected = FALSE /\ path = <<"starting">>
    /\ nsub = 0 /\ nenv = 0 /\ ncyc = 0 /\ nraw = 0

(* ---- start, load, introspect, run --------------------------------------- *)
Boot ==         \* starting_trigger: before start(), after load()
    /\ st = "starting"
    /\ st' = "loading" /\ tr' = "entering" /\ bg' = bg \cup {"load"}
    /\ fire' = NoFire /\ rejected' = FALSE /\ path' = <<"starting", "loading">>
    /\ busy' = FALSE                                   \* load(): farm.notify_all(); farm.clear()
    /\ UNCHANGED <<prior, arch, prio, wait, slot, doing, que, sub, subp, nfired, nsub, nenv, ncyc, nraw>>

CompleteLoad ==     \* load.done: transitioning = active; contemplation_trigger; after navel_gaze()
    /\ "load" \in bg /\ st = "loading"
    /\ st' = "contemplation" /\ tr' = "entering" /\ bg' = (bg \ {"load"}) \cup {"navel"}
    /\ fire' = NoFire /\ rejected' = FALSE /\ path' = <<"loading", "contemplation">>
    /\ UNCHANGED <<prior, arch, prio, wait, slot, busy, doing, que, sub, subp, nfired, nsub, nenv, ncyc, nraw>>

CompleteNavel ==    \* _navel_gaze (in its thread): transitioning = active; running_trigger
    /\ "navel" \in bg
    /\ tr' = "active" /\ bg' = bg \ {"navel"} /\ fire' = NoFire
    /\ IF st = "contemplation"
       THEN st' = "running" /\ rejected' = FALSE /\ path' = <<"contemplation", "running">>
       ELSE \* running_trigger came out of turn (RawRun) before the step finished: the step's own trigger is
            \* refused (MachineError, swallowed by the deferred), the flag was lowered first
            UNCHANGED st /\ rejected' = TRUE /\ path' = <<st>>
    /\ UNCHANGED <<prior, arch, prio, wait, slot, busy, doing, que, sub, subp, nfired, nsub, nenv, ncyc, nraw>>

(* ---- update_trigger: running -> updating, after reload() ----------------- *)
(* as an operator on the primed FSM variables, used by every caller *)
DoUpdate(src, p, pre) ==       \* pre: the states passed through before `running` in this callback
    /\ st' = "updating" /\ tr' = "exiting" /\ bg' = bg \cup {"reload"}
    /\ fire' = Fire(src, p) /\ nfired' = nfired + 1 /\ rejected' = FALSE
    /\ path' = pre \o <<"running", "updating">>

CompleteReload ==   \* reload.done: active; archiving_trigger (before save_prior_state, after archive)
    /\ "reload" \in bg /\ st = "updating"
    /\ prior' = "updating"
    /\ IF arch
       THEN /\ st' = "archiving" /\ tr' = "entering" /\ bg' = (bg \ {"reload"}) \cup {"archive"}
            /\ path' = <<"updating", "archiving">>
            /\ UNCHANGED <<arch, prio, wait, busy>>
       ELSE \* archive() calls _archive_done() at once: updating_trigger, after loading_trigger (before reset, after load)
            /\ st' = "loading" /\ tr' = "entering" /\ bg' = (bg \ {"reload"}) \cup {"load"}
            /\ arch' = FALSE /\ prio' = "none" /\ wait' = NoWait /\ busy' = FALSE
            /\ path' = <<"updating", "archiving", "updating", "loading">>
    /\ fire' = NoFire /\ rejected' = FALSE
    /\ nfired' = IF arch THEN nfired ELSE 0
    /\ UNCHANGED <<slot, doing, que, sub, subp, nsub, nenv, ncyc, nraw>>

CompleteArchive ==  \* _archive_done: ARCHIVE = False; active; <prior>_trigger
    /\ "archive" \in bg
    /\ arch' = FALSE /\ fire' = NoFire
    /\ IF st # "archiving"
       THEN \* left `archiving` out of turn (RawRun, prior = running): flag lowered, the return trigger is refused
            /\ tr' = "active" /\ bg' = bg \ {"archive"} /\ rejected' = TRUE /\ path' = <<st>>
            /\ UNCHANGED <<st, prio, wait, nfired, busy>>
       ELSE /\ rejected' = FALSE
            /\ IF prior = "running"
               THEN /\ st' = "running" /\ tr' = "active" /\ bg' = bg \ {"archive"}
                    /\ path' = <<"archiving", "running">>
                    /\ UNCHANGED <<prio, wait, nfired, busy>>
               ELSE /\ st' = "loading" /\ tr' = "entering" /\ bg' = (bg \ {"archive"}) \cup {"load"}
                    /\ prio' = "none" /\ wait' = NoWait /\ nfired' = 0 /\ busy' = FALSE
                    /\ path' = <<"archiving", "updating", "loading">>
    /\ UNCHANGED <<prior, slot, doing, que, sub, subp, nsub, nenv, ncyc, nraw>>

(* ---- farm.dispatch: idle + new data -> archiving_trigger ----------------- *)
DispatchArchive ==
    /\ IsActive /\ arch /\ ~busy /\ ncyc < MaxCycle
    /\ ncyc' = ncyc + 1
    /\ prior' = "running" /\ st' = "archiving" /\ tr' = "entering" /\ bg' = bg \cup {"archive"}
    /\ fire' = NoFire /\ rejected' = FALSE /\ path' = <<"running", "archiving">>
    /\ UNCHANGED <<arch, prio, wait, slot, busy, doing, que, sub, subp, nfired, nsub, nenv, nraw>>

(* ---- reset command -------------------------------------------------------- *)
CmdReset(a) ==      \* fe.api.cmd_reset: refused unless active; ARCHIVE |= a; wait_for_nothing()
    /\ ncyc < MaxCycle /\ ncyc' = ncyc + 1
    /\ IF IsActive
       THEN /\ arch' = (arch \/ a) /\ wait' = NoWait /\ DoUpdate("reset", prio, <<>>)
       ELSE /\ UNCHANGED <<arch, wait, st, tr, bg, nfired>> /\ fire' = NoFire /\ rejected' = FALSE /\ path' = <<st>>
    /\ UNCHANGED <<prior, prio, slot, busy, doing, que, sub, subp, nsub, nenv, nraw>>

(* ---- submit flow ----------------------------------------------------------- *)
SubmitBegin(p) ==   \* Process.step_1: refused unless active; gitting_trigger
    /\ nsub < MaxSubmit /\ sub = "idle"
    /\ nsub' = nsub + 1
    /\ IF IsActive
       THEN /\ st' = "gitting" /\ sub' = "gitting" /\ subp' = p /\ path' = <<"running", "gitting">>
       ELSE UNCHANGED <<st, sub, subp>> /\ path' = <<st>>
    /\ fire' = NoFire /\ rejected' = FALSE
    /\ UNCHANGED <<tr, prior, bg, arch, prio, wait, slot, busy, doing, que, nfired, nenv, ncyc, nraw>>

Arm(k, sl) == IF sl[k] = "none" THEN [sl EXCEPT ![k] = "armed"] ELSE sl

(* submit_crossroads for priority p (the pipeline is active when this is evaluated) *)
Crossroads(p, sl) ==
    CASE p = "now"   -> /\ wait' = NoWait /\ slot' = sl /\ DoUpdate("now", p, <<"gitting">>)
      [] p = "crew"  -> /\ wait' = [k \in K |-> k = "crew"] /\ slot' = Arm("crew", sl)
                        /\ st' = "running" /\ fire' = NoFire /\ rejected' = FALSE /\ path' = <<"gitting", "running">> /\ UNCHANGED <<tr, bg, nfired>>
      [] p = "doing" -> /\ wait' = [wait EXCEPT !["doing"] = TRUE, !["todo"] = FALSE] /\ slot' = Arm("doing", sl)
                        /\ st' = "running" /\ fire' = NoFire /\ rejected' = FALSE /\ path' = <<"gitting", "running">> /\ UNCHANGED <<tr, bg, nfired>>
      [] p = "todo"  -> /\ wait' = [wait EXCEPT !["todo"] = TRUE] /\ slot' = Arm("todo", sl)
                        /\ st' = "running" /\ fire' = NoFire /\ rejected' = FALSE /\ path' = <<"gitting", "running">> /\ UNCHANGED <<tr, bg, nfired>>

SubmitEnd ==        \* Process.step_3: running_trigger; set_submit_info; submit_crossroads
    /\ sub = "gitting" /\ st = "gitting"
    /\ sub' = "idle" /\ subp' = "none"
    /\ prio' = PMax(prio, Norm(subp))
    /\ Crossroads(prio', slot)
    /\ UNCHANGED <<prior, arch, busy, doing, que, nsub, nenv, ncyc, nraw>>

SubmitFail ==       \* Process.failure: running_trigger only
    /\ sub = "gitting" /\ st = "gitting"
    /\ sub' = "idle" /\ subp' = "none" /\ st' = "running"
    /\ fire' = NoFire /\ rejected' = FALSE /\ path' = <<"gitting", "running">>
    /\ UNCHANGED <<tr, prior, bg, arch, prio, wait, slot, busy, doing, que, nfired, nsub, nenv, ncyc, nraw>>

(* ---- pollers ---------------------------------------------------------------- *)
(* is_<k>_done: `while <condition does not hold> and waiting: sleep`.  The repaired
   loop also keeps polling while the pipeline is not active. *)
PollerObserve(k) ==
    /\ slot[k] = "armed"
    /\ (~wait[k] \/ (CondOf(k) /\ (Pinned \/ IsActive)))         \* the loop exits
    /\ slot' = [slot EXCEPT ![k] = "finished"]
    /\ fire' = NoFire /\ rejected' = FALSE /\ path' = <<st>>
    /\ UNCHANGED <<st, tr, prior, bg, arch, prio, wait, busy, doing, que, sub, subp, nfired, nsub, nenv, ncyc, nraw>>

PollerDone(k) ==    \* the done() callback of wait_for_<k>
    /\ slot[k] = "finished"
    /\ IF Pinned
       THEN IF wait[k]
            THEN IF st = "running"
                 THEN /\ DoUpdate("poller", prio, <<>>) /\ slot' = [slot EXCEPT ![k] = "none"]
                 ELSE \* update_trigger raises MachineError; the slot is never reset
                      /\ slot' = [slot EXCEPT ![k] = "stale"] /\ rejected' = TRUE /\ fire' = NoFire
                      /\ UNCHANGED <<st, tr, bg, nfired>> /\ path' = <<st>> /\ path' = <<st>>
            ELSE /\ slot' = [slot EXCEPT ![k] = "stale"] /\ rejected' = FALSE /\ fire' = NoFire
                 /\ UNCHANGED <<st, tr, bg, nfired>> /\ path' = <<st>>
       ELSE \* repaired: always clear the slot; fire only if the condition still holds and the
            \* pipeline is at rest in running; otherwise keep waiting with a fresh poller
            IF wait[k]
            THEN IF IsActive /\ CondOf(k)
                 THEN /\ DoUpdate("poller", prio, <<>>) /\ slot' = [slot EXCEPT ![k] = "none"]
                 ELSE /\ slot' = [slot EXCEPT ![k] = "armed"] /\ rejected' = FALSE /\ fire' = NoFire
                      /\ UNCHANGED <<st, tr, bg, nfired>> /\ path' = <<st>> /\ path' = <<st>>
            ELSE /\ slot' = [slot EXCEPT ![k] = "none"] /\ rejected' = FALSE /\ fire' = NoFire
                 /\ UNCHANGED <<st, tr, bg, nfired>> /\ path' = <<st>>
    /\ UNCHANGED <<prior, arch, prio, wait, busy, doing, que, sub, subp, nsub, nenv, ncyc, nraw>>

(* ---- environment -------------------------------------------------------------- *)
Env ==          \* the scheduler's environment bits; a unit that is executing is also in the work queue (doing => que)
    /\ nenv < MaxEnv /\ nenv' = nenv + 1
    /\ \/ busy' = ~busy /\ UNCHANGED <<doing, que, arch>>
       \/ doing' = ~doing /\ que' = (que \/ doing') /\ UNCHANGED <<busy, arch>>
       \/ que' = ~que /\ (que => ~doing) /\ UNCHANGED <<busy, doing, arch>>
       \/ arch' = TRUE /\ ~arch /\ UNCHANGED <<busy, doing, que>>
    /\ fire' = NoFire /\ rejected' = FALSE /\ path' = <<st>>
    /\ UNCHANGED <<st, tr, prior, bg, prio, wait, slot, sub, subp, nfired, nsub, ncyc, nraw>>

(* ---- a trigger fired out of turn (any caller): the documented machine does not allow it here *)
Triggers == {"starting_trigger", "contemplation_trigger", "running_trigger", "gitting_trigger",
             "archiving_trigger", "update_trigger", "loading_trigger", "updating_trigger"}
SrcOf(n) == CASE n = "starting_trigger" -> {"starting"}
              [] n = "contemplation_trigger" -> {"loading"}
              [] n = "running_trigger" -> {"contemplation", "gitting", "archiving"}
              [] n = "gitting_trigger" -> {"running"}
              [] n = "archiving_trigger" -> {"running", "updating"}
              [] n = "update_trigger" -> {"running"}
              [] n = "loading_trigger" -> {"updating"}
              [] n = "updating_trigger" -> {"archiving"}
(* triggers that begin a transition of the machine itself are not allowed while it is busy
   (transitioning # active): their `before` step is the busy check *)
Guarded == {"starting_trigger", "archiving_trigger", "loading_trigger"}
NotAllowed(n) == st \notin SrcOf(n) \/ (n \in Guarded /\ tr # "active")
RawTrigger(n) ==
    /\ nraw < MaxRaw /\ nraw' = nraw + 1
    /\ NotAllowed(n)
    /\ rejected' = TRUE /\ fire' = NoFire /\ path' = <<st>>
    /\ UNCHANGED <<st, tr, prior, bg, arch, prio, wait, slot, busy, doing, que, sub, subp, nfired, nsub, nenv, ncyc>>

(* running_trigger is fired by several holders of the FSM (introspection, archive-done, submit): it may
   arrive out of turn in a state where the documented machine ALLOWS it, while that state's own background
   step is still outstanding.  The machine moves; the step later finds its own trigger refused. *)
RawRun ==
    /\ nraw < MaxRaw /\ nraw' = nraw + 1
    /\ \/ (st = "contemplation" /\ "navel" \in bg)
       \/ (st = "archiving" /\ "archive" \in bg /\ prior = "running")
    /\ st' = "running" /\ path' = <<st, "running">> /\ rejected' = FALSE /\ fire' = NoFire
    /\ UNCHANGED <<tr, prior, bg, arch, prio, wait, slot, busy, doing, que, sub, subp, nfired, nsub, nenv, ncyc>>

Next ==
    \/ (\E n \in Triggers : RawTrigger(n)) \/ RawRun
    \/ Boot \/ CompleteLoad \/ CompleteNavel \/ CompleteReload \/ CompleteArchive
    \/ DispatchArchive \/ (\E a \in BOOLEAN : CmdReset(a))
    \/ (\E p \in Prios : SubmitBegin(p)) \/ SubmitEnd \/ SubmitFail
    \/ (\E k \in K : PollerObserve(k)) \/ (\E k \in K : PollerDone(k))
    \/ Env

Spec == Init /\ [][Next]_vars

(* fairness: background steps complete, pollers run, submissions end; the environment
   eventually goes idle because its moves are bounded by MaxEnv *)
FairSpec == Spec /\ WF_vars(CompleteLoad) /\ WF_vars(CompleteNavel) /\ WF_vars(CompleteReload) /\ WF_vars(CompleteArchive)
                 /\ WF_vars(Boot) /\ WF_vars(SubmitEnd \/ SubmitFail)
                 /\ \A k \in K : WF_vars(PollerObserve(k)) /\ WF_vars(PollerDone(k))

-----------------------------------------------------------------------------
(* PROPERTY LEVEL                                                          *)

TypeOK == st \in States /\ tr \in {"active", "entering", "exiting"} /\ bg \subseteq {"load", "navel", "archive", "reload"}

(* C10 *)
C10_Edges    == [][ /\ path'[1] = st /\ path'[Len(path')] = st'
                    /\ \A i \in 1..(Len(path') - 1) : <<path'[i], path'[i + 1]>> \in Doc ]_vars
C10_Rest     == (st # "starting" /\ bg = {}) => (st \in {"running", "gitting"} /\ tr = "active")
C10_Active   == IsActive => bg = {}
C10_Rejected == [][ (rejected' /\ bg' = bg) => UNCHANGED <<st, tr, prior, bg, prio, wait>> ]_vars   \* (a completing step lowers its flag before its own trigger)
C10_Return   == []<>(bg = {})
C10_ArchiveReturns ==      \* archive, and back to where it came from
    [][ \A i \in 1..(Len(path') - 1) : path'[i] = "archiving" => path'[i + 1] = prior' ]_vars

(* C12 *)
Allowed(f) == CASE f.prio = "now" -> TRUE
                [] f.prio = "crew" -> ~f.busy
                [] f.prio = "doing" -> ~f.doing
                [] f.prio = "todo" -> ~f.que
                [] OTHER -> FALSE
C12_OnlyWhenAllowed == [][ (fire'.src # "none" /\ fire'.src # "reset") => Allowed(fire') ]_vars
C12_ExactlyOnce     == nfired <= 1
C12_NoSpuriousFire  == [][ (fire'.src # "none" /\ fire'.src = "poller") => prio # "none" ]_vars
(* safety form of "this holds for every later submission as well": a requested priority
   that has not fired yet always has a live waiter *)
C12_NotLost ==
    (prio \in {"crew", "doing", "todo"} /\ nfired = 0) =>
        (wait[KOf(prio)] /\ slot[KOf(prio)] \in {"armed", "finished"})
C12_Refused == [][ \A p \in Prios : (SubmitBegin(p) /\ ~IsActive) => UNCHANGED <<st, tr, prio, wait, slot, sub>> ]_vars
C12_Eventually == (prio # "none" /\ nfired = 0) ~> (nfired > 0 \/ prio = "none")
(* "interleaved with any progress of the work queue and crew": once the environment stays idle the reload happens *)
C12_EventuallyIfIdle == (<>[](~busy /\ ~doing /\ ~que)) => C12_Eventually

=============================================================================
