----------------------------- MODULE Sched_MC -----------------------------
EXTENDS Sched
(* every program over a fixed topological order t0.a < t1.b < t2.c (< t3.d);
   the first algorithm has two values so that value-level minimality (C02)
   is exercised, the others one *)
A1 == "t0.a"  A2 == "t1.b"  A3 == "t2.c"  A4 == "t3.d"
V(x) == IF x = A1 THEN {"s.v", "s.w"} ELSE {"s.v"}
Pairs(S) == { <<x, v>> \in S \X {"s.v", "s.w"} : v \in V(x) }
Kinds2 == {"task", "analysis"}
Kinds3 == {"task", "analysis", "regress"}
Progs3(K, P(_)) ==
  { [kind |-> (A1 :> k1 @@ A2 :> k2 @@ A3 :> k3),
     ins  |-> (A1 :> {} @@ A2 :> i2 @@ A3 :> i3),
     vals |-> (A1 :> V(A1) @@ A2 :> V(A2) @@ A3 :> V(A3))] :
       k1 \in K, k2 \in K, k3 \in K, i2 \in SUBSET P({A1}), i3 \in SUBSET P({A1, A2}) }
AlgLevel(S) == { <<x, "s.v">> : x \in S }
Programs3Alg == Progs3(Kinds2, AlgLevel)           \* 64 programs: 8 edge sets x 8 kind assignments
Programs3Val == Progs3(Kinds2, Pairs)              \* value-level declarations: 4 x 16 x 8 = 512
Programs3Reg == Progs3(Kinds3, AlgLevel)           \* with regressions: 216
(* focus set for deep sampled replays: chains, a fork and a triangle with the kind mixes that matter *)
FocusKinds == { <<"task", "task", "task">>, <<"task", "task", "analysis">>, <<"task", "analysis", "task">> }
FocusIns == { <<{<<A1, "s.v">>}, {<<A2, "s.v">>}>>,                      \* chain a -> b -> c
              <<{<<A1, "s.v">>}, {<<A1, "s.v">>}>>,                      \* fork  a -> b, a -> c
              <<{<<A1, "s.v">>}, {<<A1, "s.w">>, <<A2, "s.v">>}>> }      \* triangle with a value-level edge
Programs3Focus ==
  { [kind |-> (A1 :> k[1] @@ A2 :> k[2] @@ A3 :> k[3]),
     ins  |-> (A1 :> {} @@ A2 :> i[1] @@ A3 :> i[2]),
     vals |-> (A1 :> V(A1) @@ A2 :> V(A2) @@ A3 :> V(A3))] : k \in FocusKinds, i \in FocusIns }
(* three programs for the every-transition deep replay of the quick tier *)
Programs3Quick == { p \in Programs3Focus :
                      \/ (p.kind[A2] = "task" /\ p.ins[A3] = {<<A2, "s.v">>})           \* the two chains ending in a task / an analysis
                      \/ (p.kind[A3] = "task" /\ p.kind[A2] = "task" /\ p.ins[A3] = {<<A1, "s.w">>, <<A2, "s.v">>}) }
(* programs for the dispatch-fault instance: an analysis and a task that land in the same batch *)
Programs3Fault ==
  { [kind |-> (A1 :> k[1] @@ A2 :> k[2] @@ A3 :> k[3]),
     ins  |-> (A1 :> {} @@ A2 :> i[1] @@ A3 :> i[2]),
     vals |-> (A1 :> V(A1) @@ A2 :> V(A2) @@ A3 :> V(A3))] :
       k \in { <<"task", "analysis", "task">>, <<"analysis", "task", "task">> },
       i \in { <<{<<A1, "s.v">>}, {<<A1, "s.v">>}>>,       \* fork  a -> b, a -> c
               <<{}, {<<A2, "s.v">>}>> } }                  \* a alone, b -> c
ProgramsChain == { p \in Programs3Focus : p.kind[A2] = "task" /\ p.kind[A3] = "task" /\ p.ins[A3] = {<<A2, "s.v">>} }   \* a -> b -> c, tasks
(* an accumulator: the middle algorithm (two values here) reads the first one AND one of its own values.  (A self-reader
   without any other input is not a root of the derived graph and vanishes from it altogether.) *)
Programs3Self ==
  { [kind |-> (A1 :> "task" @@ A2 :> "task" @@ A3 :> k3),
     ins  |-> (A1 :> {} @@ A2 :> {<<A1, "s.v">>, <<A2, "s.w">>} @@ A3 :> i3),
     vals |-> (A1 :> V(A1) @@ A2 :> {"s.v", "s.w"} @@ A3 :> V(A3))] :
       k3 \in {"task", "analysis"}, i3 \in { {<<A2, "s.v">>}, {<<A2, "s.w">>}, {<<A1, "s.w">>} } }
(* feedback: the chain / the fork, the first algorithm declares a value of the last one as feedback input *)
Programs3Fb ==
  { [kind |-> (A1 :> "task" @@ A2 :> k2 @@ A3 :> "task"),
     ins  |-> (A1 :> {} @@ A2 :> {<<A1, "s.v">>} @@ A3 :> i3),
     vals |-> (A1 :> V(A1) @@ A2 :> V(A2) @@ A3 :> V(A3)),
     fb   |-> (A1 :> {<<A3, "s.v">>} @@ A2 :> f2 @@ A3 :> {})] :
       k2 \in {"task", "analysis"}, i3 \in { {<<A2, "s.v">>}, {<<A1, "s.w">>} }, f2 \in { {} } }
(* one declarer per fed-back value: dag.Construct.feedbacks maps a value to ONE declarer (C09: "mapped to a consumer"),
   so a second declarer of the same value is never told -- observed, outside the claim (DESIGN 10.3) *)
(* task-only programs with value-level declarations: executed end to end by the real worker code *)
Programs3Task == Progs3({"task"}, Pairs)
Progs4(K, P(_)) ==
  { [kind |-> (A1 :> k1 @@ A2 :> k2 @@ A3 :> k3 @@ A4 :> k4),
     ins  |-> (A1 :> {} @@ A2 :> i2 @@ A3 :> i3 @@ A4 :> i4),
     vals |-> (A1 :> V(A1) @@ A2 :> V(A2) @@ A3 :> V(A3) @@ A4 :> V(A4))] :
       k1 \in K, k2 \in K, k3 \in K, k4 \in K,
       i2 \in SUBSET P({A1}), i3 \in SUBSET P({A1, A2}), i4 \in SUBSET P({A1, A2, A3}) }
Programs4Alg == Progs4(Kinds2, AlgLevel)
Programs4Val == Progs4(Kinds3, Pairs)
(* a feedback loop keeps producing work for as long as the fed-back value keeps changing: the completion counter is
   the finiteness bound of those instances *)
RecBound == nrec <= 6
=============================================================================
