SPECIFICATION Spec
CONSTANTS
  Alg = {"t0.a", "t1.b", "t2.c"}
  Targets = {"T1", "T2"}
  Programs <- Programs3Alg
  MaxRun = 2
  MaxReload = 0
  Pinned = TRUE
INVARIANT C03_OneAtATime
CHECK_DEADLOCK FALSE
