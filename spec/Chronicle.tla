------------------------------ MODULE Chronicle ------------------------------
(***************************************************************************)
(* C18 - the execution history (dawgie.pl.logger.chronicle) and its        *)
(* callers dawgie.fe.api.schedule.failed / succeeded.                      *)
(*                                                                         *)
(* TIME.  A day is an index into Cal (a table of real, CONTIGUOUS calendar *)
(* days <<year, month, day of month>>), a time of day an index into Tod    *)
(* (<<h, m, s>>, strictly increasing, the last one 23:59:59).  An instant  *)
(* is the ordinal  (day-1)*NT + (tod-1);  instants compare as integers.    *)
(* NONE (-1) stands for an argument that is not given.                     *)
(*                                                                         *)
(* STATE.  journal : <<day, run id>> -> Seq(entry id)  are the files       *)
(* chronicles/YYYY/MM/DD/<run id>.json;  appended : entry id -> Nat is the *)
(* bag of everything handed to append.  An entry id indexes the tables     *)
(* EntAt (completion instant), EntRun (run id), EntSt (recorded outcome:   *)
(* "success", "failure" or "invalid" - schedule.complete records the name  *)
(* of State.success / failure / invalid).                                  *)
(*                                                                         *)
(* Two levels (DESIGN 2.1):                                                *)
(*  - PROPERTY LEVEL: JBag/AppendOnce and the declarative FindOK           *)
(*  - IMPLEMENTATION-SHAPED: Append (read-modify-write of one file) and    *)
(*    FindImpl (the backwards day walk of chronicle.find), ApiImpl (what   *)
(*    the front-end hands to find).  Pinned = TRUE transcribes the tree as *)
(*    pinned (commit 8ab289e), Pinned = FALSE the repaired find.           *)
(***************************************************************************)
EXTENDS Integers, Sequences, FiniteSets, FiniteSetsExt, TLC

CONSTANTS Cal, Tod, EntAt, EntRun, EntSt, \* tables
          Cand,       \* entry ids that the model appends
          Bounds,     \* instants used as after / before
          Limits,     \* naturals used as limit
          Nows,       \* wall clock at query time; later than every entry (clock is monotone)
          WithApi,    \* explore the front-end calls as well
          WithReader, \* explore other readers of the history between appends and queries
          Pinned,     \* find as in the pinned tree (cursor = before)
          PinnedApi   \* front end as in the pinned tree (after parsed, never passed on)

NONE == -1
ND   == Len(Cal)
NT   == Len(Tod)
Ent  == DOMAIN EntAt
Inst == 0 .. (ND * NT - 1)

ASSUME /\ NT >= 1 /\ Tod[NT] = <<23, 59, 59>>
       /\ DOMAIN EntRun = Ent /\ DOMAIN EntSt = Ent
       /\ \A e \in Ent : EntSt[e] \in {"success", "failure", "invalid"}
       /\ \A e \in Ent : EntAt[e] \in Inst
       /\ Cand \subseteq Ent /\ Bounds \subseteq Inst /\ Nows \subseteq Inst /\ Limits \subseteq Nat
       /\ \A n \in Nows, e \in Ent : EntAt[e] < n

DayOf(i) == IF i < 0 THEN 0 ELSE (i \div NT) + 1
TodOf(i) == (i % NT) + 1
Year(d)  == Cal[d][1]
Month(d) == Cal[d][2]

VARIABLES journal, appended, kind, q, res
vars == <<journal, appended, kind, q, res>>

NoQ == [after |-> NONE, before |-> NONE, limit |-> NONE, ok |-> TRUE, now |-> NONE]
OptB == Bounds \cup {NONE}
Now0 == CHOOSE n \in Nows : \A m \in Nows : n <= m
(* every query of the bounded domain.  find raises by contract when nothing is given; `now`
   only matters when before is not given (then it is pinned to Now0 to avoid duplicates) *)
Queries == { x \in [after : OptB, before : OptB, limit : Limits \cup {NONE}, ok : BOOLEAN, now : Nows] :
               /\ ~(x.after = NONE /\ x.before = NONE /\ x.limit = NONE)
               /\ (x.before # NONE => x.now = Now0) }

-----------------------------------------------------------------------------
(*                          PROPERTY LEVEL                                 *)

Occ(s, e) == Cardinality({ i \in DOMAIN s : s[i] = e })

(* the bag of entries in the files *)
JBag(J) == [e \in Ent |-> MapThenSumSet(LAMBDA f : Occ(J[f], e), DOMAIN J)]
Foreign(J) == \E f \in DOMAIN J : \E i \in DOMAIN J[f] : J[f][i] \notin Ent
Plus(A, e) == [A EXCEPT ![e] = @ + 1]

(* C18.AppendOnce: nothing lost, nothing doubled, nothing invented *)
AppendOnce(J1, J2, e) == ~Foreign(J2) /\ JBag(J2) = Plus(JBag(J1), e)

(* the outcome a query asks for: succeeded -> exactly "success", failed -> exactly "failure";
   an "invalid" run (NoValidInput/OutputDataError) belongs to neither answer.  The zone in which
   a bound is written is not part of the meaning of a query: instants are instants. *)
Want(k) == IF k THEN "success" ELSE "failure"
InWin(e, x) == /\ EntSt[e] = Want(x.ok)
               /\ (x.after  = NONE \/ EntAt[e] > x.after)
               /\ (x.before = NONE \/ EntAt[e] < x.before)
(* the window: recorded entries of the requested outcome strictly inside (after, before) *)
Win(A, x) == { e \in Ent : A[e] > 0 /\ InWin(e, x) }
WSize(A, x) == MapThenSumSet(LAMBDA e : A[e], Win(A, x))

Known(s)       == \A i \in DOMAIN s : s[i] \in Ent
NewestFirst(s) == \A i, j \in DOMAIN s : i < j => EntAt[s[i]] >= EntAt[s[j]]
NoExtra(s, A, W)   == \A i \in DOMAIN s : s[i] \in W /\ Occ(s, s[i]) <= A[s[i]]
NoMissing(s, A, W) == \A e \in W : Occ(s, e) >= A[e]
(* the n newest of the window; ties in completion time may be cut anywhere *)
Newest(s, A, W, n) ==
    LET size == MapThenSumSet(LAMBDA e : A[e], W) IN
    /\ Len(s) = IF size < n THEN size ELSE n
    /\ \A e \in W : Occ(s, e) < A[e] => \A i \in DOMAIN s : EntAt[e] <= EntAt[s[i]]

(* what the statement asks of a query, by the arguments that are given *)
Mode(x) == IF x.after # NONE
           THEN IF x.before # NONE \/ x.limit = NONE THEN "all" ELSE "free"   \* after+limit: unconstrained
           ELSE IF x.limit = NONE THEN "all" ELSE "newest"

(* C18.FindOK as the set of reasons why s is NOT an acceptable answer *)
FindBad(s, A, x) ==
    IF ~Known(s) THEN {"foreign"} ELSE
      LET W == Win(A, x) IN
      (IF NewestFirst(s) THEN {} ELSE {"order"})
      \cup (IF NoExtra(s, A, W) THEN {} ELSE {"extra"})
      \cup (IF Mode(x) = "all" /\ ~NoMissing(s, A, W) THEN {"missing"} ELSE {})
      \cup (IF Mode(x) = "newest" /\ ~Newest(s, A, W, x.limit) THEN {"truncation"} ELSE {})
FindOK(s, A, x) == FindBad(s, A, x) = {}

-----------------------------------------------------------------------------
(*                     IMPLEMENTATION-SHAPED LEVEL                         *)

FileOf(e) == <<DayOf(EntAt[e]), EntRun[e]>>

(* chronicle.append: read the file of (day, run id) if it exists, append, write *)
AppendTo(J, e) ==
    IF FileOf(e) \in DOMAIN J THEN [J EXCEPT ![FileOf(e)] = Append(@, e)]
    ELSE [f \in DOMAIN J \cup {FileOf(e)} |-> IF f = FileOf(e) THEN <<e>> ELSE J[f]]

(* the directories that exist: makedirs creates year/month/day, nothing is ever removed *)
FDays(J) == { f[1] : f \in DOMAIN J }
Dirs(J)  == [days |-> FDays(J), months |-> { <<Year(x), Month(x)>> : x \in FDays(J) }, years |-> { Year(x) : x \in FDays(J) }]
YearDir(D, d)  == Year(d) \in D.years
MonthDir(D, d) == <<Year(d), Month(d)>> \in D.months
DayDir(D, d)   == d \in D.days

FoM == [d \in 1..ND |-> CHOOSE x \in 1..d : /\ \A z \in x..d : Year(z) = Year(d) /\ Month(z) = Month(d)
                                            /\ (x = 1 \/ Month(x - 1) # Month(d) \/ Year(x - 1) # Year(d))]
FoY == [d \in 1..ND |-> CHOOSE x \in 1..d : /\ \A z \in x..d : Year(z) = Year(d)
                                            /\ (x = 1 \/ Year(x - 1) # Year(d))]
FirstOfMonth(d) == FoM[d]
FirstOfYear(d)  == FoY[d]
(* datetime(y, m, 1) - 1 s  and  datetime(y, 1, 1) - 1 s; below the first day of the table
   (where no directory exists) the ordinal is negative and the walk is over *)
EndPrevMonth(c) == (FirstOfMonth(DayOf(c)) - 1) * NT - 1
EndPrevYear(c)  == (FirstOfYear(DayOf(c)) - 1) * NT - 1

(* _most_recent_first, reversed: completed, run id, target (= entry id in the harness) *)
Newer(a, b) == \/ EntAt[a] > EntAt[b]
               \/ EntAt[a] = EntAt[b] /\ EntRun[a] > EntRun[b]
               \/ EntAt[a] = EntAt[b] /\ EntRun[a] = EntRun[b] /\ a >= b
RECURSIVE Ins(_, _)
Ins(s, e) == IF s = <<>> THEN <<e>>
             ELSE IF Newer(e, Head(s)) THEN <<e>> \o s ELSE <<Head(s)>> \o Ins(Tail(s), e)
RECURSIVE SortNewest(_)
SortNewest(s) == IF s = <<>> THEN <<>> ELSE Ins(SortNewest(Tail(s)), Head(s))

RECURSIVE Cat(_, _)
Cat(J, F) == IF F = {} THEN <<>> ELSE LET g == CHOOSE h \in F : TRUE IN J[g] \o Cat(J, F \ {g})

(* _load: every file of the day directory, filtered by the window handed in *)
Load(J, lo, hi, d, ok) ==
    SortNewest(SelectSeq(Cat(J, { f \in DOMAIN J : f[1] = d }),
                         LAMBDA e : e \in Ent /\ lo < EntAt[e] /\ EntAt[e] < hi /\ EntSt[e] = Want(ok)))

(* the loop of find.  lo is `after` (NONE = 1980-01-01, below every instant), hi the upper bound
   of the window, c the walking cursor.  Pinned tree: `before` IS the cursor, so the window
   handed to _load shrinks with it and the loop ends when the cursor passes `after`.
   Repaired: the window stays (lo, hi), the loop ends when the cursor's day is before after's.
   c < 0: the cursor is below the table, nothing is stored there; the real loop runs on (year
   by year) down to `after` without finding a directory. *)
RECURSIVE Walk(_, _, _, _, _, _, _, _)
Walk(D, J, lo, hi, lim, ok, c, acc) ==
    IF ~( /\ (lim = NONE \/ Len(acc) < lim)
          /\ c >= 0
          /\ IF Pinned THEN c > lo ELSE DayOf(c) >= DayOf(lo) )
    THEN acc
    ELSE LET d == DayOf(c) IN
         IF YearDir(D, d)
         THEN IF MonthDir(D, d)
              THEN Walk(D, J, lo, hi, lim, ok, c - NT,
                        IF DayDir(D, d) THEN acc \o Load(J, lo, IF Pinned THEN c ELSE hi, d, ok) ELSE acc)
              ELSE Walk(D, J, lo, hi, lim, ok, EndPrevMonth(c), acc)
         ELSE Walk(D, J, lo, hi, lim, ok, EndPrevYear(c), acc)

FirstN(s, n) == IF n >= Len(s) THEN s ELSE SubSeq(s, 1, n)                 \* entries[:n]
LastN(s, n)  == IF n = 0 \/ n >= Len(s) THEN s ELSE SubSeq(s, Len(s) - n + 1, Len(s))   \* entries[-n:]

FindImpl(J, x) ==
    LET lim == IF x.after # NONE /\ x.before # NONE THEN NONE ELSE x.limit
        hi  == IF x.before = NONE THEN x.now ELSE x.before
        acc == Walk(Dirs(J), J, x.after, hi, lim, x.ok, hi, <<>>)
    IN  IF lim = NONE THEN acc
        ELSE IF x.after # NONE THEN LastN(acc, lim)       \* `oldest`
        ELSE FirstN(acc, lim)

(* PROCESS LIFE.  Everything a query LOOKS AT while it walks is something the process may remember
   (a cache of directory listings, of missing directories, of loaded days ...).  FindObs is the set
   of observations of one query on the files J: <<"y", year, 0>> / <<"m", year, month>> /
   <<"d", day, 0>> = that directory was looked at and was MISSING, <<"l", day, 0>> = the files of
   that day were loaded.  A later append e OUTDATES the observations in Outdated(e): makedirs
   creates the year, the month and the day directory of e, and the files of its day change.  The
   property knows no process memory: whatever was observed and has been outdated since, a query
   answers from what has been appended (FindOK) - so the replays need queries BETWEEN the appends
   of one process life, in particular a query after an observation has been outdated (Chronicle_Gen,
   LifeSpec), and process restarts (nothing remembered, nothing lost). *)
RECURSIVE WalkObs(_, _, _, _, _, _, _, _, _)
WalkObs(D, J, lo, hi, lim, ok, c, acc, o) ==
    IF ~( /\ (lim = NONE \/ Len(acc) < lim)
          /\ c >= 0
          /\ IF Pinned THEN c > lo ELSE DayOf(c) >= DayOf(lo) )
    THEN o
    ELSE LET d == DayOf(c) IN
         IF YearDir(D, d)
         THEN IF MonthDir(D, d)
              THEN IF DayDir(D, d)
                   THEN WalkObs(D, J, lo, hi, lim, ok, c - NT,
                                acc \o Load(J, lo, IF Pinned THEN c ELSE hi, d, ok), o \cup {<<"l", d, 0>>})
                   ELSE WalkObs(D, J, lo, hi, lim, ok, c - NT, acc, o \cup {<<"d", d, 0>>})
              ELSE WalkObs(D, J, lo, hi, lim, ok, EndPrevMonth(c), acc, o \cup {<<"m", Year(d), Month(d)>>})
         ELSE WalkObs(D, J, lo, hi, lim, ok, EndPrevYear(c), acc, o \cup {<<"y", Year(d), 0>>})

FindObs(J, x) ==
    LET lim == IF x.after # NONE /\ x.before # NONE THEN NONE ELSE x.limit
        hi  == IF x.before = NONE THEN x.now ELSE x.before
    IN  WalkObs(Dirs(J), J, x.after, hi, lim, x.ok, hi, <<>>, {})

Outdated(e) == LET d == DayOf(EntAt[e]) IN
               {<<"y", Year(d), 0>>, <<"m", Year(d), Month(d)>>, <<"d", d, 0>>, <<"l", d, 0>>}

(* find converts both bounds to UTC before it walks (the day directories are named after the UTC
   date of completion), so the transcription works on instants and is independent of the zone the
   bounds are written in; the zone is an input dimension of the replays on the real code.
   fe.api.schedule.failed / succeeded hand before, limit and the outcome to find; pinned tree:
   `after` is parsed and never passed on.  When find is handed three Nones it raises: the answer
   is then <<0>> (0 is no entry id: not an answer at all). *)
ApiArgs(x)   == [x EXCEPT !.after = IF PinnedApi THEN NONE ELSE @]
ApiRaises(x) == LET y == ApiArgs(x) IN y.after = NONE /\ y.before = NONE /\ y.limit = NONE
ApiImpl(J, x) == IF ApiRaises(x) THEN <<0>> ELSE FindImpl(J, ApiArgs(x))

-----------------------------------------------------------------------------
Init == /\ journal = <<>> /\ appended = [e \in Ent |-> 0]
        /\ kind = "init" /\ q = NoQ /\ res = <<>>

DoAppend(e) == /\ appended[e] = 0
               /\ journal' = AppendTo(journal, e)
               /\ appended' = Plus(appended, e)
               /\ kind' = "append" /\ q' = NoQ /\ res' = <<>>

(* queries are leaves: they do not change the files *)
DoFind(x) == /\ kind' = "find" /\ q' = x /\ res' = FindImpl(journal, x)
             /\ UNCHANGED <<journal, appended>>

DoApi(x) == /\ kind' = "api" /\ q' = x /\ res' = ApiImpl(journal, x)
            /\ UNCHANGED <<journal, appended>>

(* another reader of the history (fe.api.df_model_statistics: the last outcome of a node since
   boot time; or any caller doing what it likes with the entries a query handed to it - they are
   the caller's own copies).  Per the property a reader changes NOTHING: not the files, not what
   later queries return.  One "stats" state per state of the files (the arguments do not matter). *)
DoReader == /\ kind # "stats"
            /\ kind' = "stats" /\ q' = NoQ /\ res' = <<>>
            /\ UNCHANGED <<journal, appended>>

Next == /\ kind \in {"init", "append", "stats"}
        /\ \/ \E e \in Cand : DoAppend(e)
           \/ \E x \in Queries : DoFind(x)
           \/ WithApi /\ \E x \in Queries : DoApi(x)
           \/ WithReader /\ DoReader

Spec == Init /\ [][Next]_vars

-----------------------------------------------------------------------------
(* what MC checks *)
TypeOK == /\ kind \in {"init", "append", "find", "api", "stats"}
          /\ (kind \in {"init", "append", "stats"} => DOMAIN journal \subseteq (1..ND) \X Nat)
C18_Recorded   == kind \in {"init", "append", "stats"} => ~Foreign(journal) /\ JBag(journal) = appended
C18_ReadOnly   == [][kind' \in {"find", "api", "stats"} => JBag(journal') = JBag(journal) /\ appended' = appended]_vars
C18_AppendOnce == [][kind' = "append" => \E e \in Ent : appended' = Plus(appended, e) /\ AppendOnce(journal, journal', e)]_vars
C18_FindOK     == kind = "find" => FindOK(res, appended, q)
C18_ApiFindOK  == kind = "api"  => FindOK(res, appended, q)
=============================================================================
