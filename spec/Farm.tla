-------------------------------- MODULE Farm --------------------------------
(***************************************************************************)
(* DAWGIE worker farm: pl/farm.py (Hand._reg, Hand._process, Hand.notify,  *)
(* connectionLost, dispatch, _put, rerunid, notify_all, clear) with a tiny *)
(* scheduler for one fixed program                                         *)
(*        a (task)  -->  b (task),   a --> r (regress)                     *)
(* so that batches with and without a run id occur naturally:              *)
(*   a user request carries no run id (one is drawn from the database),    *)
(*   a new-value report of a[T] queues b[T], r[T] under the reply's run id.*)
(*                                                                         *)
(* One action per reactor callback.  Worker connections are numbered       *)
(* 1..NW and each is used once (a worker process connects, registers,      *)
(* gets one task or is told to leave, disconnects).                        *)
(***************************************************************************)
EXTENDS Naturals, FiniteSets, Sequences, TLC

CONSTANTS NW,        \* number of worker connections
          Targets,   \* {"T1"} or {"T1","T2"}
          MaxRun,    \* bound on user requests
          MaxCycle   \* bound on reload/archive cycles

A == "t0.a"  B == "t1.b"  R == "t2.r"
Alg == {A, B, R}
Kind(x) == IF x = R THEN "regress" ELSE "task"
Revs == {"rev0", "rev1"}
W == 1..NW
None == 0 - 1

VARIABLES phase,    \* "running" | "updating" | "loading" | "archiving"   (life cycle as the farm sees it)
          gitrev,   \* pipeline revision: GROUND TRUTH = HEAD of the engine checkout when the pipeline (re)loaded it last
          pend,     \* [Alg -> SUBSET Targets]   node 'todo'
          exec,     \* [Alg -> SUBSET Targets]   released and not yet answered (live)
          rid,      \* [Alg -> Int]              node 'runid' (None = -1)
          cluster,  \* Seq([alg, t, run])        farm._cluster
          idle,     \* Seq(W)                    farm._workers
          wk,       \* [W -> [st, rev]]  GROUND TRUTH about each connection:
                    \*    st: "unused" | "conn" (accepted, not registered) | "idle" (registered, waiting) | "busy" (got a task, disconnected) | "gone"
          fly,      \* set of [alg, t, run, w]   task messages written and not yet answered (live)
          stored,   \* highest run id stored in the database
          archive,  \* farm.ARCHIVE
          wrote,    \* history of THIS step: set of [w, kind, alg, t, run]  kind in {"task","abort","wait","proceed"}
          drew,     \* history of THIS step: set of run ids drawn from the database
          runs, cycles

vars == <<phase, gitrev, pend, exec, rid, cluster, idle, wk, fly, stored, archive, wrote, drew, runs, cycles>>

Active == phase = "running"
SeqToSet(s) == { s[i] : i \in DOMAIN s }
Remove(s, x) == SelectSeq(s, LAMBDA y : y # x)

Init ==
    /\ phase = "running" /\ gitrev = "rev0"
    /\ pend = [x \in Alg |-> {}] /\ exec = [x \in Alg |-> {}] /\ rid = [x \in Alg |-> None]
    /\ cluster = <<>> /\ idle = <<>>
    /\ wk = [w \in W |-> [st |-> "unused", rev |-> "rev0"]]
    /\ fly = {} /\ stored = 0 /\ archive = FALSE
    /\ wrote = {} /\ drew = {} /\ runs = 0 /\ cycles = 0

(* ---- worker side ------------------------------------------------------- *)
NextW == IF \E w \in W : wk[w].st = "unused" THEN CHOOSE w \in W : wk[w].st = "unused" /\ \A v \in W : wk[v].st = "unused" => w <= v ELSE 0

Connect ==                             \* Foreman.buildProtocol: the connection is accepted, nothing said yet
    LET w == NextW IN
    /\ w # 0
    /\ wk' = [wk EXCEPT ![w].st = "conn"]
    /\ wrote' = {} /\ drew' = {}
    /\ UNCHANGED <<phase, gitrev, pend, exec, rid, cluster, idle, fly, stored, archive, runs, cycles>>

Register(w, rev) ==                    \* Hand._reg: the register message of an accepted connection arrives (any time later)
    /\ wk[w].st = "conn"
    /\ IF rev = gitrev
       THEN /\ idle' = Append(idle, w)
            /\ wk' = [wk EXCEPT ![w] = [st |-> "idle", rev |-> rev]]
            /\ wrote' = {}
       ELSE /\ idle' = idle
            /\ wk' = [wk EXCEPT ![w] = [st |-> "gone", rev |-> rev]]
            /\ wrote' = {[w |-> w, kind |-> "abort", alg |-> "", t |-> "", run |-> 0]}
    /\ drew' = {}
    /\ UNCHANGED <<phase, gitrev, pend, exec, rid, cluster, fly, stored, archive, runs, cycles>>

Lost(w) ==                             \* Hand.connectionLost of a waiting (or not yet registered) worker
    /\ wk[w].st \in {"idle", "conn"}
    /\ wk' = [wk EXCEPT ![w].st = "gone"]
    /\ idle' = Remove(idle, w)
    /\ wrote' = {} /\ drew' = {}
    /\ UNCHANGED <<phase, gitrev, pend, exec, rid, cluster, fly, stored, archive, runs, cycles>>

Poll(rev) ==                           \* Hand._process, status message on a fresh connection (uses a worker slot)
    LET w == NextW IN
    /\ w # 0
    /\ wk' = [wk EXCEPT ![w] = [st |-> "gone", rev |-> rev]]
    /\ wrote' = {[w |-> w, kind |-> IF rev = gitrev /\ Active THEN "proceed" ELSE "abort", alg |-> "", t |-> "", run |-> 0]}
    /\ drew' = {}
    /\ UNCHANGED <<phase, gitrev, pend, exec, rid, cluster, idle, fly, stored, archive, runs, cycles>>

(* ---- scheduler (tiny) --------------------------------------------------- *)
Run(x, T) ==                           \* fe.api.cmd_run -> organize(runid = None)
    /\ runs < MaxRun /\ T # {}
    /\ runs' = runs + 1
    /\ pend' = [pend EXCEPT ![x] = @ \cup T]
    /\ rid' = [rid EXCEPT ![x] = None]
    /\ wrote' = {} /\ drew' = {}
    /\ UNCHANGED <<phase, gitrev, exec, cluster, idle, wk, fly, stored, archive, cycles>>

Blocked(x, t) == x # A /\ (t \in pend[A] \/ t \in exec[A])
Avail(x) == { t \in pend[x] : ~Blocked(x, t) /\ t \notin exec[x] }

(* ---- farm.dispatch ------------------------------------------------------ *)
RECURSIVE SetToSeq(_)
SetToSeq(S) == IF S = {} THEN <<>> ELSE LET x == CHOOSE y \in S : \A z \in S : y <= z IN <<x>> \o SetToSeq(S \ {x})
TSeq(T) == IF T = {} THEN <<>> ELSE IF T = {"T1"} THEN <<"T1">> ELSE IF T = {"T2"} THEN <<"T2">> ELSE <<"T1", "T2">>

RunOf(x) == IF rid[x] = None THEN stored + 1 ELSE rid[x]            \* farm.rerunid
MsgRun(x) == IF Kind(x) = "regress" THEN 0 ELSE RunOf(x)
Msgs(x) == LET ts == TSeq(Avail(x)) IN [i \in DOMAIN ts |-> [alg |-> x, t |-> ts[i], run |-> MsgRun(x)]]
Batch == { x \in Alg : Avail(x) # {} }
NewMsgs == (IF A \in Batch THEN Msgs(A) ELSE <<>>) \o (IF B \in Batch THEN Msgs(B) ELSE <<>>) \o (IF R \in Batch THEN Msgs(R) ELSE <<>>)

(* _cluster_sort: stable sort by run id *)
RECURSIVE InsertSorted(_, _)
InsertSorted(s, m) == IF s = <<>> THEN <<m>>
                      ELSE IF Head(s).run <= m.run THEN <<Head(s)>> \o InsertSorted(Tail(s), m)
                      ELSE <<m>> \o s
RECURSIVE StableSort(_)
StableSort(s) == IF s = <<>> THEN <<>> ELSE InsertSorted(StableSort(SubSeq(s, 1, Len(s) - 1)), s[Len(s)])

Min(a, b) == IF a <= b THEN a ELSE b

Tick ==
    /\ Active                                                      \* something_to_do(): nothing at all happens otherwise
    /\ LET batch == Batch
           doArchive == archive /\ batch = {} /\ fly = {} /\ cluster = <<>>
           cl == StableSort(cluster \o NewMsgs)
           n  == IF doArchive THEN 0 ELSE Min(Len(cl), Len(idle))
           placed == { [alg |-> cl[i].alg, t |-> cl[i].t, run |-> cl[i].run, w |-> idle[i]] : i \in 1..n }
           rest == SubSeq(idle, n + 1, Len(idle))
       IN
       /\ drew' = { stored + 1 : x \in { y \in batch : rid[y] = None } }
       /\ pend' = [x \in Alg |-> pend[x] \ Avail(x)]
       /\ exec' = [x \in Alg |-> exec[x] \cup Avail(x)]
       /\ cluster' = SubSeq(cl, n + 1, Len(cl))
       /\ fly' = fly \cup placed
       /\ phase' = IF doArchive THEN "archiving" ELSE phase
       /\ IF doArchive
          THEN \* archiving_trigger() made the pipeline inactive: notify_all() tells every waiting worker to leave
               /\ idle' = <<>>
               /\ wk' = [w \in W |-> IF w \in SeqToSet(idle) THEN [wk[w] EXCEPT !.st = "gone"] ELSE wk[w]]
               /\ wrote' = { [w |-> w, kind |-> "abort", alg |-> "", t |-> "", run |-> 0] : w \in SeqToSet(idle) }
          ELSE /\ idle' = rest
               /\ wk' = [w \in W |-> IF \E p \in placed : p.w = w THEN [wk[w] EXCEPT !.st = "busy"] ELSE wk[w]]
               /\ wrote' = { [w |-> p.w, kind |-> "task", alg |-> p.alg, t |-> p.t, run |-> p.run] : p \in placed }
                           \cup { [w |-> w, kind |-> "wait", alg |-> "", t |-> "", run |-> 0] : w \in SeqToSet(rest) }
    /\ UNCHANGED <<gitrev, rid, stored, archive, runs, cycles>>

(* ---- Hand._res (live replies only; success with/without new values, failure) *)
Reply(u, out, new) ==
    /\ u \in fly
    /\ fly' = fly \ {u}
    /\ wk' = [wk EXCEPT ![u.w].st = "gone"]
    /\ exec' = [exec EXCEPT ![u.alg] = @ \ {u.t}]
    /\ stored' = IF out = "success" /\ u.run > stored THEN u.run ELSE stored
    /\ archive' = (archive \/ out = "success")
    /\ IF out = "success" /\ new /\ u.alg = A
       THEN /\ pend' = [pend EXCEPT ![B] = @ \cup {u.t}, ![R] = @ \cup {u.t}]
            /\ rid' = [rid EXCEPT ![B] = u.run, ![R] = u.run]
       ELSE IF out # "success" /\ u.alg = A
       THEN /\ pend' = [x \in Alg |-> pend[x] \ {u.t}] /\ rid' = rid        \* purge
       ELSE IF out # "success"
       THEN /\ pend' = [pend EXCEPT ![u.alg] = @ \ {u.t}] /\ rid' = rid
       ELSE UNCHANGED <<pend, rid>>
    /\ wrote' = {} /\ drew' = {}
    /\ UNCHANGED <<phase, gitrev, cluster, idle, runs, cycles>>

(* ---- life cycle as seen by the farm ------------------------------------- *)
Update ==                               \* update_trigger: running -> updating (reload thread changes the revision)
    /\ phase = "running" /\ cycles < MaxCycle
    /\ cycles' = cycles + 1
    /\ phase' = "updating"
    /\ wrote' = {} /\ drew' = {}
    /\ UNCHANGED <<gitrev, pend, exec, rid, cluster, idle, wk, fly, stored, archive, runs>>

RevChange(r) ==                         \* the update moves the engine checkout to commit r (gitting) and FSM._reload re-reads
                                        \* the revision FROM THE CHECKOUT (context._rev): the pipeline's current software
                                        \* revision is, from here on, the HEAD of the checkout -- ground truth, whatever any
                                        \* attribute or remembered answer says
    /\ phase = "updating"
    /\ gitrev' = r
    /\ wrote' = {} /\ drew' = {}
    /\ UNCHANGED <<phase, pend, exec, rid, cluster, idle, wk, fly, stored, archive, runs, cycles>>

Load ==                                 \* FSM.load: farm.notify_all(); farm.clear(); (build in a thread)
    /\ phase = "updating"
    /\ phase' = "loading"
    /\ wrote' = { [w |-> w, kind |-> "abort", alg |-> "", t |-> "", run |-> 0] : w \in SeqToSet(idle) }
    /\ wk' = [w \in W |-> IF w \in SeqToSet(idle) \/ wk[w].st = "busy" THEN [wk[w] EXCEPT !.st = "gone"] ELSE wk[w]]   \* work in flight is abandoned
    /\ idle' = <<>> /\ cluster' = <<>> /\ fly' = {}
    /\ pend' = [x \in Alg |-> {}] /\ exec' = [x \in Alg |-> {}] /\ rid' = [x \in Alg |-> None]
    /\ drew' = {}
    /\ UNCHANGED <<gitrev, stored, archive, runs, cycles>>

Resume ==                               \* loading/archiving complete -> running
    /\ phase \in {"loading", "archiving"}
    /\ phase' = "running"
    /\ archive' = IF phase = "archiving" THEN FALSE ELSE archive
    /\ wrote' = {} /\ drew' = {}
    /\ UNCHANGED <<gitrev, pend, exec, rid, cluster, idle, wk, fly, stored, runs, cycles>>

Notify ==                               \* farm.notify_all() on its own (any caller)
    /\ IF Active
       THEN /\ wrote' = { [w |-> w, kind |-> "wait", alg |-> "", t |-> "", run |-> 0] : w \in SeqToSet(idle) }
            /\ UNCHANGED <<idle, wk>>
       ELSE /\ wrote' = { [w |-> w, kind |-> "abort", alg |-> "", t |-> "", run |-> 0] : w \in SeqToSet(idle) }
            /\ wk' = [w \in W |-> IF w \in SeqToSet(idle) THEN [wk[w] EXCEPT !.st = "gone"] ELSE wk[w]]
            /\ idle' = <<>>
    /\ drew' = {}
    /\ UNCHANGED <<phase, gitrev, pend, exec, rid, cluster, fly, stored, archive, runs, cycles>>

Next ==
    \/ Connect
    \/ \E w \in W, r \in Revs : Register(w, r)
    \/ \E w \in W : Lost(w)
    \/ \E r \in Revs : Poll(r)
    \/ \E x \in Alg, T \in SUBSET Targets : Run(x, T)
    \/ Tick
    \/ \E u \in fly, out \in {"success", "failure"}, new \in BOOLEAN : Reply(u, out, new)
    \/ Update \/ (\E r \in Revs : RevChange(r)) \/ Load \/ Resume \/ Notify

Spec == Init /\ [][Next]_vars

-----------------------------------------------------------------------------
(* PROPERTY LEVEL (C11) -- over the ground-truth worker table wk, the      *)
(* messages written in the step (wrote') and the run ids drawn (drew')     *)

TaskWrites == { m \in wrote' : m.kind = "task" }

(* only to a worker that registered with the CURRENT revision, is connected and waiting, holds no task *)
Eligible_Step == \A m \in TaskWrites : wk[m.w].st = "idle" /\ wk[m.w].rev = gitrev /\ Active
OneTaskPerWorker_Step == \A m, n \in TaskWrites : m.w = n.w => m = n
(* while not active nothing is sent: neither in a step that starts inactive nor in one that ends inactive
   (a dispatch that switches the pipeline to archiving must not send anything afterwards) *)
Silent_Step == (~Active \/ ~Active') => TaskWrites = {}
(* a notification round while inactive tells every waiting worker to leave *)
Leave_Step ==
    (~Active' /\ \E m \in wrote' : m.kind \in {"abort", "wait"} /\ wk[m.w].st = "idle") =>
        /\ \A w \in W : wk[w].st = "idle" => (\E m \in wrote' : m.w = w /\ m.kind = "abort") /\ wk'[w].st = "gone"
        /\ idle' = <<>>
(* run 0 for regressions; a written message is for a unit that is executing afterwards *)
Fields_Step == \A m \in TaskWrites : /\ m.alg \in Alg /\ m.t \in exec'[m.alg]
                                      /\ (Kind(m.alg) = "regress" => m.run = 0)
(* every drawn id is strictly larger than every stored one *)
FreshLarger_Step == \A d \in drew' : d > stored
(* a run id is drawn exactly when a job of the released batch carries none *)
ReleasedAlgs == { x \in Alg : exec'[x] \ exec[x] # {} }
DrawnIff_Step == (drew' # {}) <=> (\E x \in ReleasedAlgs : rid[x] = None)
(* tasks that cannot be placed stay queued: nothing is lost or duplicated by a dispatch *)
Stay_Step ==
    (Active /\ phase' = "running" /\ (cluster' # cluster \/ TaskWrites # {})) =>
        Len(cluster') + Cardinality(TaskWrites)
          = Len(cluster) + Cardinality({ <<x, t>> \in Alg \X Targets : t \in exec'[x] \ exec[x] })

C11_Eligible         == [][Eligible_Step]_vars
C11_OneTaskPerWorker == [][OneTaskPerWorker_Step]_vars
C11_Silent           == [][Silent_Step]_vars
C11_Leave            == [][Leave_Step]_vars
C11_Fields           == [][Fields_Step]_vars
C11_FreshLarger      == [][FreshLarger_Step]_vars
C11_DrawnIff         == [][DrawnIff_Step]_vars
C11_Stay             == [][Stay_Step]_vars
(* consequences, as state invariants *)
C11_NoIdleStaleRev == Active => \A w \in W : wk[w].st = "idle" => wk[w].rev = gitrev
C11_IdleTruth      == SeqToSet(idle) = { w \in W : wk[w].st = "idle" }

=============================================================================
