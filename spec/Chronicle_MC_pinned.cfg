SPECIFICATION Spec
CONSTANTS
  Cal <- CalY
  Tod <- TodMini
  EntAt <- EntAtY
  EntRun <- EntRunY
  EntSt <- EntStMini
  Cand <- CandA
  Bounds <- BoundsYQ
  Limits = {1, 2}
  Nows <- NowsYQ
  WithApi = TRUE
  WithReader = FALSE
  Pinned = TRUE
  PinnedApi = TRUE
INVARIANT TypeOK
INVARIANT C18_Recorded
INVARIANT C18_FindOK
INVARIANT C18_ApiFindOK
PROPERTY C18_AppendOnce
CHECK_DEADLOCK FALSE
