\* traversal of the pinned tree: lists (DISAGREE) the descriptors on which _walk disagrees with Accept
SPECIFICATION Spec
CONSTANTS
  Pinned = TRUE
INVARIANT TypeOK
INVARIANT Report
CHECK_DEADLOCK FALSE
