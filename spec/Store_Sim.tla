------------------------------ MODULE Store_Sim ------------------------------
(* Long pseudo-random histories of Store for replay on the real code.  TLC makes every choice: the next
   operation is drawn by a generator carried in the state (two small multiplicative congruential generators
   combined; TLC re-seeds its own RandomElement for every state, so the generator is written out), first among
   the kinds of operation (weighted), then among its arguments; every state has one successor, `chain` numbers
   the histories, and the finished history is printed once (invariant Done, evaluated once per distinct state
   in breadth-first mode). *)
EXTENDS Store_Gen, SequencesExt
CONSTANTS Chains, Seed
VARIABLES chain, rng
svars == <<gvars, chain, rng>>

Levels == {"alg", "sv", "val"}
Op(ev, tgt, task, a, s, v, run, c, lvl, to) ==
    [ev |-> ev, tgt |-> tgt, task |-> task, tks |-> {}, a |-> a, s |-> s, v |-> v, run |-> run, c |-> c, lvl |-> lvl, to |-> to]
OpsOf(k) ==
    CASE k = "Update" -> { Op(k, tgt, task, a, s, v, run, c, "", 0) : tgt \in Targets, task \in Tasks, a \in AlgNames, s \in SvNames, v \in ValNames, run \in Runs, c \in Contents }
      [] k \in {"Load", "Remove"} -> { Op(k, tgt, task, a, s, v, run, 0, "", 0) : tgt \in Targets, task \in Tasks, a \in AlgNames, s \in SvNames, v \in ValNames, run \in Runs }
      [] k = "Reset" -> { Op(k, tgt, task, a, s, "", run, 0, "", 0) : tgt \in Targets, task \in Tasks, a \in AlgNames, s \in SvNames, run \in Runs }
      [] k = "Trace" -> { [Op(k, "", "", a, "", "", 0, 0, "", 0) EXCEPT !.tks = tks] : tks \in (SUBSET Tasks) \ {{}}, a \in AlgNames }
      [] k = "Worm" -> UNION { { Op(k, tgt, task, a, s, v, run, 0, "", 0) :
                                   run \in Given(m, "run", Runs, ANYRUN), tgt \in Given(m, "tgt", Targets, ""),
                                   task \in Given(m, "task", Tasks, ""), a \in Given(m, "a", AlgNames, ""),
                                   s \in Given(m, "s", SvNames, ""), v \in Given(m, "v", ValNames, "") } : m \in WormMasks }
      [] k = "Register" -> { Op(k, "", task, a, s, v, 0, 0, "", 0) : task \in Tasks, a \in AlgNames, s \in SvNames, v \in ValNames }
      [] k = "AddTarget" -> { Op(k, tgt, "", "", "", "", 0, 0, "", 0) : tgt \in Targets }
      [] k = "Bump" -> { Op(k, "", "", "", "", "", 0, 0, lvl, to) : lvl \in Levels, to \in Vers }
      [] OTHER -> { Op(k, "", "", "", "", "", 0, 0, "", 0) }
(* weights of the kinds of operation (out of 27) *)
KindTable == <<"Update", "Update", "Update", "Update", "Update", "Update", "Update",
               "Load", "Load", "Load", "Load", "Remove", "Remove", "Remove", "Reset", "Reset",
               "Bump", "Bump", "Bump", "Trace", "Trace", "Worm", "Worm", "Register", "AddTarget", "Next", "Reopen">>
Kinds == { KindTable[i] : i \in DOMAIN KindTable }
OpSeq == [k \in Kinds |-> SetToSeq(OpsOf(k))]      \* constant: evaluated once

G1(x) == (x * 171) % 30269
G2(y) == (y * 172) % 30307
Mix(g) == g[1] * 30307 + g[2]
Seed1(n) == ((Seed * 131 + n * 7) % 30268) + 1
Seed2(n) == ((Seed * 31 + n * 13) % 30306) + 1
Step2(g) == <<G1(g[1]), G2(g[2])>>

Apply(o) ==
    CASE o.ev = "Update"    -> Update(o.tgt, o.task, o.a, o.s, o.v, o.run, o.c)
      [] o.ev = "Load"      -> Load(o.tgt, o.task, o.a, o.s, o.v, o.run)
      [] o.ev = "Remove"    -> RemoveEntry(o.run, o.tgt, o.task, o.a, o.s, o.v)
      [] o.ev = "Reset"     -> Reset(o.run, o.tgt, o.task, o.a, o.s)
      [] o.ev = "Trace"     -> TraceReport(o.tks, o.a)
      [] o.ev = "Worm"      -> Worm(o.run, o.tgt, o.task, o.a, o.s, o.v)
      [] o.ev = "Register"  -> Register(o.task, o.a, o.s, o.v)
      [] o.ev = "AddTarget" -> AddTarget(o.tgt)
      [] o.ev = "Bump"      -> Bump(o.lvl, o.to)
      [] o.ev = "Next"      -> NextRun
      [] o.ev = "Reopen"    -> Reopen
      [] OTHER -> FALSE

SimInit == GenInit /\ chain \in 1..Chains /\ rng = <<Seed1(chain), Seed2(chain)>>
SimNext ==
    LET r1 == Step2(rng)
        r2 == Step2(r1)
        ops == OpSeq[KindTable[(Mix(r1) % Len(KindTable)) + 1]]
        pick == ops[(Mix(r2) % Len(ops)) + 1]
    IN /\ nops < MaxOps
       /\ UNCHANGED chain
       /\ rng' = r2
       /\ IF pick.ev = "Bump" /\ cur[pick.lvl] = pick.to
          THEN UNCHANGED gvars                      \* nothing to change: draw again
          ELSE Apply(pick) /\ h' = Append(h, Inp(out'))
SimSpec == SimInit /\ [][SimNext]_svars
Done == nops = MaxOps => PrintT(<<"SCHED", ToJson([h |-> h])>>)
=============================================================================
