-------------------------- MODULE Sched_Data_Trace --------------------------
(* Validation of data-plane traces (harness/sched_h.py, DataWorld): the real
   scheduler/farm decide what runs; the abstract worker computes every value
   as a pure function of the latest stored inputs and reports novelty by
   content.  TLC recomputes the from-scratch store from the sources and
   compares it with the recorded store at quiescence; it also keeps the
   justification bookkeeping (owed / rj) itself. *)
EXTENDS Sched_Data, Json, IOUtils, SequencesExt
Traces == ndJsonDeserialize(IOEnv.TRACE_FILE)
VARIABLES tid, l, bad
tvars == <<dvars, tid, l, bad>>
Rec(t, i) == Traces[t].steps[i]
Count(s, P(_)) == Cardinality({ i \in DOMAIN s : P(s[i]) })
ProgOf(p) == WithClosure([ kind |-> [a \in Alg |-> p.kind[a]],
                           ins  |-> [a \in Alg |-> { <<q[1], q[2]>> : q \in ToSet(p.ins[a]) }],
                           vals |-> [a \in Alg |-> ToSet(p.vals[a])] ])
Key(k) == k[1] \o "|" \o k[2] \o "|" \o k[3]
FlyOf(st) == [u \in Alg \X Tg |-> Count(st.inflight, LAMBDA m : m.alg = u[1] /\ m.t = u[2]) + Count(st.cluster, LAMBDA m : m.alg = u[1] /\ m.t = u[2])]

Bind(r) ==
    /\ prog' = prog
    /\ todo' = [a \in Alg |-> ToSet(r.st.todo[a])]
    /\ doing' = [a \in Alg |-> ToSet(r.st.doing[a])]
    /\ que' = ToSet(r.st.que)
    /\ fly' = FlyOf(r.st)
    /\ stale' = stale /\ hand' = hand /\ held' = held /\ faults' = faults /\ nrec' = nrec /\ ndrop' = ndrop /\ runs' = runs /\ reloads' = reloads
    /\ src' = [k \in SrcDom |-> r.st.src[Key(k)]]
    /\ stored' = [k \in Alg \X Tg \X Val |-> r.st.stored[Key(k)]]
    /\ seen' = seen
    /\ bumps' = bumps

FailClause(name, ok) == IF ok THEN {} ELSE {name}

TraceInit ==
    /\ tid \in 1..Len(Traces) /\ l = 1
    /\ prog = ProgOf(Traces[tid].prog)
    /\ todo = [a \in Alg |-> {}] /\ doing = [a \in Alg |-> {}] /\ hand = [a \in Alg |-> {}] /\ held = [a \in Alg |-> {}] /\ faults = 0 /\ que = {}
    /\ fly = [u \in Alg \X Tg |-> 0] /\ stale = [u \in Alg \X Tg |-> 0]
    /\ nrec = 0 /\ ndrop = 0 /\ runs = 0 /\ reloads = 0
    /\ src = [k \in SrcDom |-> Rec(tid, 1).st.src[Key(k)]]
    /\ stored = [k \in Alg \X Tg \X Val |-> Rec(tid, 1).st.stored[Key(k)]]
    /\ seen = {} /\ execs = <<>> /\ owed = {} /\ rj = {} /\ bumps = 0
    /\ bad = IF stored = FromScratch(src) THEN {} ELSE {"C02.InitialStore"}
    /\ (bad # {} => PrintT(<<"CLAUSE", Traces[tid].tid, 1, "Init", bad>>))

TraceNext ==
    /\ l < Len(Traces[tid].steps)
    /\ l' = l + 1 /\ UNCHANGED tid
    /\ LET r == Rec(tid, l + 1)
           R == { u \in Alg \X Tg : fly'[u] > fly[u] }
           isExec == r.ev = "ExecReply"
           x == IF isExec THEN r.args.alg ELSE ""
           t == IF isExec THEN r.args.t ELSE ""
           new == IF isExec THEN ToSet(r.obs.new) ELSE {}
           C == IF isExec THEN Consumers(x, new) ELSE {}
       IN
       /\ Bind(r)
       \* justification bookkeeping, kept by the specification
       /\ rj' = IF isExec THEN rj \ {<<x, t>>} ELSE (rj \ R) \cup (R \cap owed)
       /\ owed' = IF r.ev = "Bump" THEN owed \cup {<<r.args.alg, r.args.t>>}
                  ELSE IF isExec THEN owed \cup UNION { { <<c, s>> : s \in Affected(c, t) } : c \in C }
                  ELSE owed \ R
       /\ execs' = IF isExec THEN Append(execs, [alg |-> x, t |-> t, just |-> <<x, t>> \in rj]) ELSE execs
       /\ bad' = FailClause("C02.EndState", Quiescent' => stored' = FromScratch(src'))
                 \cup FailClause("C02.Justified", isExec => <<x, t>> \in rj)
                 \cup FailClause("C02.NoneOwed", Quiescent' => owed' = {})
                 \cup FailClause("C02.Drained", r.ev = "Quiesce" => Quiescent')
       /\ (bad' # {} => PrintT(<<"CLAUSE", Traces[tid].tid, l + 1, r.ev, bad'>>))
TraceSpec == TraceInit /\ [][TraceNext]_tvars
TotalLines == FoldLeft(LAMBDA acc, t : acc + Len(t.steps), 0, Traces)
AllConsumed == /\ PrintT(<<"CONSUMED", TLCGet("distinct"), TotalLines>>) /\ TLCGet("distinct") = TotalLines
=============================================================================
