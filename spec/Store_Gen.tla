------------------------------ MODULE Store_Gen ------------------------------
(* Export of transitions / behaviours of Store as input schedules for the real code.  h is the history of
   operations (arguments only: what the caller chooses), hidden from the fingerprint by VIEW together with
   `out`, so TLC keeps one witness path per distinct state and Emit prints every explored transition once,
   as the schedule h' that reaches it. *)
EXTENDS Store_MC, Json
VARIABLE h
gvars == <<vars, h>>
Inp(o) == [ev |-> o.ev, tgt |-> o.tgt, task |-> o.task, tks |-> o.tks, a |-> o.a, s |-> o.s, v |-> o.v, run |-> o.run, c |-> o.c,
           lvl |-> o.lvl, to |-> o.to]
GenInit == Init /\ h = <<>>
GenNext == Next /\ h' = Append(h, Inp(out'))
GenSpec == GenInit /\ [][GenNext]_gvars
Emit == PrintT(<<"SCHED", ToJson([h |-> h'])>>)
(* only histories of full length (three operations) of one of these shapes:
   (a) something is stored, a version changes, and the last operation is addressed by name
       (set-up, change, observe: e.g. update, version bump, reset)
   (b) the same names are stored twice, under another run or another task, and the last operation is a worm
       request or a trace (one call naming several tasks included) *)
ByName == {"Remove", "Reset", "Trace"}
Twice == /\ Len(h) = 2 /\ h[1].ev = "Update" /\ h[2].ev = "Update"
         /\ h[1].tgt = h[2].tgt /\ h[1].a = h[2].a /\ h[1].s = h[2].s /\ h[1].v = h[2].v
         /\ (h[1].run # h[2].run \/ h[1].task # h[2].task)
ShapeA == /\ out'.ev \in ByName
          /\ \E i \in DOMAIN h : h[i].ev = "Update"
          /\ \E i \in DOMAIN h : h[i].ev = "Bump"
ShapeB == out'.ev \in {"Worm", "Trace"} /\ Twice
EmitObserved == IF Len(h') = MaxOps /\ (ShapeA \/ ShapeB) THEN PrintT(<<"SCHED", ToJson([h |-> h'])>>) ELSE TRUE
EmitTwice    == IF Len(h') = MaxOps /\ ShapeB THEN PrintT(<<"SCHED", ToJson([h |-> h'])>>) ELSE TRUE
=============================================================================
