------------------------------ MODULE Store_Gen ------------------------------
(* Export of transitions / behaviours of Store as input schedules for the real code.  h is the history of
   operations (arguments only: what the caller chooses), hidden from the fingerprint by VIEW together with
   `out`, so TLC keeps one witness path per distinct state and Emit prints every explored transition once,
   as the schedule h' that reaches it. *)
EXTENDS Store_MC, Json
VARIABLE h
gvars == <<vars, h>>
Inp(o) == [ev |-> o.ev, tgt |-> o.tgt, task |-> o.task, a |-> o.a, s |-> o.s, v |-> o.v, run |-> o.run, c |-> o.c,
           lvl |-> o.lvl, to |-> o.to]
GenInit == Init /\ h = <<>>
GenNext == Next /\ h' = Append(h, Inp(out'))
GenSpec == GenInit /\ [][GenNext]_gvars
Emit == PrintT(<<"SCHED", ToJson([h |-> h'])>>)
(* only the histories of full length that store something, change a version, and end in an operation
   addressed by name (set-up, change, observe: e.g. update, version bump, reset) *)
ByName == {"Remove", "Reset", "Trace"}
EmitObserved ==
    IF /\ Len(h') = MaxOps /\ out'.ev \in ByName
       /\ \E i \in DOMAIN h : h[i].ev = "Update"
       /\ \E i \in DOMAIN h : h[i].ev = "Bump"
    THEN PrintT(<<"SCHED", ToJson([h |-> h'])>>) ELSE TRUE
=============================================================================
