---------------------------- MODULE DbLock_Trace ----------------------------
(* Validation of traces recorded from real comms.Worker protocol objects
   (harness/dblock_h.py): context.db_lock, each connection's ownership flag,
   and the status messages decoded from each client transport. *)
EXTENDS DbLock, Json, IOUtils, SequencesExt, Sequences
Traces == ndJsonDeserialize(IOEnv.TRACE_FILE)
VARIABLES tid, l, bad, drift
tvars == <<vars, tid, l, bad, drift>>
Rec(t, i) == Traces[t].steps[i]
Key(c) == ToString(c)

Bind(r) ==
    /\ lock' = r.st.lock
    /\ has' = [c \in C |-> r.st.has[Key(c)]]
    /\ ph' = [c \in C |-> r.st.ph[Key(c)]]
    /\ req' = [c \in C |-> r.st.req[Key(c)]]
    /\ stopped' = [c \in C |-> r.st.stopped[Key(c)]]
    /\ told' = { [c |-> r.obs.told[i].c, msg |-> r.obs.told[i].msg] : i \in DOMAIN r.obs.told }

FailClause(name, ok) == IF ok THEN {} ELSE {name}
StepClauses(r) ==
    FailClause("C13.Mutex", C13_Mutex')
    \cup FailClause("C13.ToldTruth", ToldTruth_Step)
    \cup FailClause("C13.NoFalseBusy", NoFalseBusy_Step)
    \cup FailClause("C13.CrashFree", CrashFree_Step)
    \cup FailClause("C13.GoneNeverGranted", GoneNeverGranted_Step)
    \cup FailClause("C13.GrantNext", GrantNext_Step)
    \cup FailClause("C13.OnlyHolderFrees", OnlyHolderFrees_Step)
    \cup FailClause("C13.FreedOnlyByHolder", FreedOnlyByHolder_Step)
    \cup FailClause("C13.PollAnswered",
           \* a live waiting client is told the lock status at every poll (the blocking client relies on it)
           (r.ev \in {"Poll", "Request"} /\ (r.ev = "Request" \/ Waiting(r.args.c))) =>
              \E m \in told' : m.c = r.args.c /\ m.msg \in {"granted", "busy"})
    \cup FailClause("C13.ClientView",
           \* the real blocking client (comms.acquire) returned only because it was told it holds the lock
           r.obs.client_acquired => (has'[r.args.c] /\ lock'))
    \cup FailClause("C13.AbandonedAtQuiescence",
           r.ev = "Quiesce" => (\A c \in C : ph'[c] = "closed" => ~has'[c]) /\ (lock' <=> \E c \in C : has'[c]))

ModelStep(r) ==
    CASE r.ev = "Request" -> Request(r.args.c)
      [] r.ev = "Poll" -> Poll(r.args.c)
      [] r.ev = "Release" -> Release(r.args.c) \/ ReleaseClose(r.args.c)
      [] r.ev = "Disconnect" -> Disconnect(r.args.c)
      [] r.ev = "Reopen" -> Reopen(r.args.c)
      [] OTHER -> TRUE

TraceInit == /\ tid \in 1..Len(Traces) /\ l = 1 /\ Init /\ bad = {} /\ drift = FALSE
TraceNext ==
    /\ l < Len(Traces[tid].steps)
    /\ l' = l + 1 /\ UNCHANGED tid
    /\ LET r == Rec(tid, l + 1) IN
       /\ Bind(r)
       /\ bad' = StepClauses(r)
       /\ drift' = ~ModelStep(r)
       /\ (bad' # {} => PrintT(<<"CLAUSE", Traces[tid].tid, l + 1, r.ev, bad'>>))
       /\ (drift' => PrintT(<<"DRIFT", Traces[tid].tid, l + 1, r.ev>>))
TraceSpec == TraceInit /\ [][TraceNext]_tvars
TotalLines == FoldLeft(LAMBDA acc, t : acc + Len(t.steps), 0, Traces)
AllConsumed == /\ PrintT(<<"CONSUMED", TLCGet("distinct"), TotalLines>>) /\ TLCGet("distinct") = TotalLines
=============================================================================
