SPECIFICATION TraceSpec
CONSTANTS
  Cal <- CalY
  Tod <- TodMini
  EntAt <- EntAtY
  EntRun <- EntRunY
  EntSt <- EntStMini
  Cand <- CandA
  Bounds <- BoundsYQ
  Limits = {0, 1, 2}
  Nows <- NowsYQ
  WithApi = TRUE
  WithReader = FALSE
  Pinned = FALSE
  PinnedApi = FALSE
POSTCONDITION AllConsumed
CHECK_DEADLOCK FALSE
