-------------------------- MODULE Lifecycle_Trace --------------------------
(* Validation of traces recorded from the real FSM / submit flow / pollers
   (harness/life_h.py) against the C10 and C12 property level of Lifecycle. *)
EXTENDS Lifecycle, Json, IOUtils, SequencesExt

Traces == ndJsonDeserialize(IOEnv.TRACE_FILE)
VARIABLES tid, l, bad, drift,
          want      \* the strongest priority REQUESTED since the last reload, accumulated by this module from the
                    \* submissions themselves (never read from the FSM): what C12 calls "requested so far"
tvars == <<vars, tid, l, bad, drift, want>>
Rec(t, i) == Traces[t].steps[i]

Accepted(fs) == SelectSeq(fs, LAMBDA f : f.accepted)
FireOf(o) == LET a == Accepted(o.fires) IN
             IF Len(a) = 0 THEN NoFire
             ELSE [src |-> a[1].src, prio |-> a[1].prio, busy |-> a[1].busy, doing |-> a[1].doing, que |-> a[1].que]
DidReset(pth) == \E i \in 1..(Len(pth) - 1) : pth[i] = "updating" /\ pth[i + 1] = "loading"

Bind(r) ==
    /\ st' = r.st.st /\ tr' = r.st.tr /\ prior' = r.st.prior
    /\ bg' = ToSet(r.st.bg) /\ arch' = r.st.arch /\ prio' = r.st.prio
    /\ wait' = [k \in K |-> r.st.wait[k]]
    /\ slot' = [k \in K |-> r.st.slot[k]]
    /\ busy' = r.st.busy /\ doing' = r.st.doing /\ que' = r.st.que
    /\ sub' = r.st.sub
    /\ subp' = IF r.ev = "SubmitBegin" /\ r.st.sub = "gitting" THEN r.args.p ELSE IF r.st.sub = "idle" THEN "none" ELSE subp
    /\ fire' = FireOf(r.obs)
    /\ nfired' = IF DidReset(r.obs.path) THEN 0 ELSE nfired + Len(Accepted(r.obs.fires))
    /\ rejected' = r.obs.rejected
    /\ path' = IF Len(r.obs.path) = 0 THEN <<st>> ELSE r.obs.path
    /\ nsub' = IF r.ev = "SubmitBegin" THEN nsub + 1 ELSE nsub
    /\ nenv' = IF r.ev = "Env" THEN nenv + 1 ELSE nenv
    /\ ncyc' = IF r.ev = "CmdReset" \/ (r.ev = "DispatchArchive" /\ r.st.st = "archiving" /\ st = "running") THEN ncyc + 1 ELSE ncyc
    /\ nraw' = IF r.ev \in {"RawTrigger", "RawRun"} THEN nraw + 1 ELSE nraw

FailClause(name, ok) == IF ok THEN {} ELSE {name}
EdgesOK == /\ path'[1] = st /\ path'[Len(path')] = st'
           /\ \A i \in 1..(Len(path') - 1) : <<path'[i], path'[i + 1]>> \in Doc

StepClauses(r) ==
    FailClause("C10.Edges", EdgesOK)
    \cup FailClause("C10.Rest", C10_Rest')
    \cup FailClause("C10.Active", r.st.active => (st' = "running" /\ tr' = "active" /\ bg' = {}))
    \cup FailClause("C10.Rejected", (rejected' /\ bg' = bg) => UNCHANGED <<st, tr, prior, bg, prio, wait>>)
    \cup FailClause("C10.OutOfTurnRejected",
           (r.ev = "RawTrigger" /\ NotAllowed(r.args.name)) => (rejected' /\ UNCHANGED <<st, tr, prior, bg, prio, wait, slot>>))
    \cup FailClause("C10.ArchiveReturns", \A i \in 1..(Len(path') - 1) : path'[i] = "archiving" => path'[i + 1] = prior')
    \cup FailClause("C12.OnlyWhenAllowed",
           \A i \in DOMAIN r.obs.fires :
              (r.obs.fires[i].accepted /\ r.obs.fires[i].src # "reset") =>
                 Allowed([prio |-> r.obs.fires[i].prio, busy |-> r.obs.fires[i].busy, doing |-> r.obs.fires[i].doing, que |-> r.obs.fires[i].que]))
    \cup FailClause("C12.StrongestRequested",
           \A i \in DOMAIN r.obs.fires :
              (r.obs.fires[i].accepted /\ r.obs.fires[i].src # "reset") =>
                 Allowed([prio |-> want', busy |-> r.obs.fires[i].busy, doing |-> r.obs.fires[i].doing, que |-> r.obs.fires[i].que]))
    \cup FailClause("C12.StrongestWaits",
           \* the waiter of the strongest priority requested so far is alive as long as the reload has not been triggered
           (want' \in {"crew", "doing", "todo"} /\ nfired' = 0 /\ st' = "running" /\ tr' = "active") =>
              (wait'[KOf(want')] /\ slot'[KOf(want')] \in {"armed", "finished"}))
    \cup FailClause("C12.ExactlyOnce", nfired' <= 1)
    \cup FailClause("C12.NoSpuriousFire", (fire'.src = "poller") => prio # "none")
    \cup FailClause("C12.NotLost", C12_NotLost')
    \cup FailClause("C12.Refused",
           (r.ev = "SubmitBegin" /\ ~IsActive) => (r.obs.refused /\ UNCHANGED <<st, tr, prio, wait, slot, sub>>))
    \cup FailClause("C12.AcceptedWhenActive", (r.ev = "SubmitBegin" /\ IsActive) => (~r.obs.refused /\ st' = "gitting"))
    \cup FailClause("C10.ReturnsToRest",
           \* after every background step has completed (the harness drains the schedule) the pipeline is at rest
           r.ev = "Quiesce" => (bg' = {} /\ st' = "running" /\ tr' = "active"))
    \cup FailClause("C12.FiredAtQuiescence",
           \* with the environment idle and every poller run to completion, no accepted submission is still waiting
           r.ev = "Quiesce" => (prio' = "none" /\ \A k \in K : ~wait'[k] /\ slot'[k] = "none"))
    \cup FailClause("C12.ResetRefused", (r.ev = "CmdReset" /\ ~IsActive) => (r.obs.refused /\ UNCHANGED <<st, tr, prio, wait, slot, bg>>))

ModelStep(r) ==
    CASE r.ev = "Boot" -> Boot
      [] r.ev = "CompleteLoad" -> CompleteLoad
      [] r.ev = "CompleteNavel" -> CompleteNavel
      [] r.ev = "CompleteReload" -> CompleteReload
      [] r.ev = "CompleteArchive" -> CompleteArchive
      [] r.ev = "DispatchArchive" -> DispatchArchive \/ UNCHANGED <<st, tr, bg, prio, wait, slot>>
      [] r.ev = "CmdReset" -> CmdReset(r.args.a)
      [] r.ev = "SubmitBegin" -> SubmitBegin(r.args.p)
      [] r.ev = "SubmitEnd" -> SubmitEnd
      [] r.ev = "SubmitFail" -> SubmitFail
      [] r.ev = "PollerObserve" -> PollerObserve(r.args.k) \/ UNCHANGED <<st, tr, bg, prio, wait, slot>>
      [] r.ev = "PollerDone" -> PollerDone(r.args.k)
      [] r.ev = "RawTrigger" -> RawTrigger(r.args.name) \/ ~NotAllowed(r.args.name)
      [] r.ev = "RawRun" -> RawRun
      [] r.ev = "Quiesce" -> UNCHANGED <<st, tr, bg, prio, wait, slot>>
      [] OTHER -> TRUE

TraceInit ==
    /\ tid \in 1..Len(Traces) /\ l = 1
    /\ Init
    /\ bad = {} /\ drift = FALSE /\ want = "none"

TraceNext ==
    /\ l < Len(Traces[tid].steps)
    /\ l' = l + 1 /\ UNCHANGED tid
    /\ LET r == Rec(tid, l + 1) IN
       /\ Bind(r)
       /\ want' = IF DidReset(r.obs.path) THEN "none"
                  ELSE IF r.ev = "SubmitEnd" /\ sub = "gitting" /\ r.st.sub = "idle" /\ ~r.obs.rejected THEN PMax(want, Norm(subp))
                  ELSE want
       /\ bad' = StepClauses(r)
       /\ drift' = ~ModelStep(r)
       /\ (bad' # {} => PrintT(<<"CLAUSE", Traces[tid].tid, l + 1, r.ev, bad'>>))
       /\ (drift' => PrintT(<<"DRIFT", Traces[tid].tid, l + 1, r.ev>>))
TraceSpec == TraceInit /\ [][TraceNext]_tvars
TotalLines == FoldLeft(LAMBDA acc, t : acc + Len(t.steps), 0, Traces)
AllConsumed == /\ PrintT(<<"CONSUMED", TLCGet("distinct"), TotalLines>>) /\ TLCGet("distinct") = TotalLines
=============================================================================
