------------------------------- MODULE Search -------------------------------
(***************************************************************************)
(* C17 -- search returns exactly the matching entries, in order, page by   *)
(* page; normalising a run-id expression never changes what it denotes.    *)
(*                                                                         *)
(* Two levels (DESIGN 2.1):                                                *)
(*  PROPERTY LEVEL   Den, ScrubOK, Match, FindOK, PagesOK, FacetOK         *)
(*                   -- the declarative meaning, independent of the code   *)
(*  IMPLEMENTATION   Scrub (db.basis.SearchFacade._divide/_scrub),         *)
(*                   ImplKeys/ImplFind/ImplFacet (db.shelve.search)        *)
(*                   -- transcriptions of what the code does; the two      *)
(*                   deviations of the pinned tree are switchable          *)
(*                   (RangeBug, SliceBug) so that the same text models the *)
(*                   tree before and after the repairs.                    *)
(* MC checks transcription against reference on the bounded domain; the    *)
(* trace module checks the recorded outputs of the REAL functions against  *)
(* the reference (VIOLATION) and against the transcription (DRIFT).        *)
(***************************************************************************)
EXTENDS Naturals, Integers, Sequences, FiniteSets, TLC, SequencesExt

CONSTANTS RangeBug,   \* TRUE: shelve/search.py tests Range objects by set membership (never match)
          SliceBug    \* TRUE: shelve/search.py slices pks[index:limit] instead of [index:index+limit]

OPEN    == -1         \* stop of an open range ("3:")
NOLIMIT == 0          \* page limit "none"

Min2(a, b) == IF a < b THEN a ELSE b

-----------------------------------------------------------------------------
(*                      (a) run-id expressions                             *)

IdItem(n)    == [k |-> "i", a |-> n, b |-> 0]
RgItem(a, b) == [k |-> "r", a |-> a, b |-> b]

Items == {IdItem(n) : n \in 0..4} \cup {RgItem(a, b) : a \in 0..4, b \in (0..5) \cup {OPEN}}
Exprs(n) == UNION {[1..m -> Items] : m \in 0..n}

(* declarative meaning.  Every number of the input domain is <= 5, so run  *)
(* ids above the universe are denoted iff some range is open.              *)
U == 0..7
Holds(n, it) == IF it.k = "i" THEN n = it.a ELSE it.a <= n /\ (it.b = OPEN \/ n < it.b)
Den(e) == [fin  |-> {n \in U : \E i \in DOMAIN e : Holds(n, e[i])},
           tail |-> \E i \in DOMAIN e : e[i].k = "r" /\ e[i].b = OPEN]
InUniverse(e) == \A i \in DOMAIN e :
                    /\ e[i].k \in {"i", "r"}
                    /\ e[i].a \in U
                    /\ e[i].k = "r" => e[i].b \in U \cup {OPEN}

ScrubOK(e, out) == InUniverse(out) /\ Den(out) = Den(e)

(* ---- transcription of SearchFacade._divide / _scrub ---- *)
IdsOf(e) == {e[i].a : i \in {j \in DOMAIN e : e[j].k = "i"}}
RgsOf(e) == SelectSeq(e, LAMBDA it : it.k = "r")

(* list.sort(key=start) is stable: insert behind every element with start <= r.start *)
InsertByStart(s, r) ==
    LET p == Cardinality({i \in DOMAIN s : s[i].a <= r.a})
    IN SubSeq(s, 1, p) \o <<r>> \o SubSeq(s, p + 1, Len(s))
SortByStart(s) == FoldLeft(InsertByStart, <<>>, s)

MergeStep(acc, r) ==
    LET m == acc[Len(acc)] IN
    IF m.b = OPEN THEN acc
    ELSE IF r.a > m.b THEN Append(acc, r)
    ELSE IF r.b = OPEN \/ r.b > m.b THEN [acc EXCEPT ![Len(acc)] = RgItem(m.a, r.b)]
    ELSE acc
Merge(rs) == IF rs = <<>> THEN <<>> ELSE FoldLeft(MergeStep, <<rs[1]>>, Tail(rs))

CoveredBy(i, rs) == \E j \in DOMAIN rs : rs[j].a <= i /\ i < (IF rs[j].b = OPEN THEN i + 1 ELSE rs[j].b)

Scrub(e) ==
    LET ids == IdsOf(e)
        rgs == RgsOf(e)
    IN IF ids = {-1} /\ rgs = <<>> THEN <<IdItem(-1)>>
       ELSE LET m    == Merge(SortByStart(rgs))
                keep == SetToSortSeq({i \in ids : ~CoveredBy(i, m)}, <)
            IN m \o [i \in 1..Len(keep) |-> IdItem(keep[i])]

-----------------------------------------------------------------------------
(*                      (b) find / facet                                   *)

Runs == 1..4
Dims == {"tg", "tk", "al", "sv"}
(* names as stored; the third of each row is a name that is never stored   *)
(* (and a prefix / extension of stored ones).  Listed in Python's sorted() *)
(* order: facet results are compared with the sub-sequence of this order.  *)
NameOrder == [tg |-> <<"T", "T1", "T2">>,
              tk |-> <<"k", "k1", "k2">>,
              al |-> <<"a", "a1", "a1b">>,
              sv |-> <<"s1", "s1x", "s2">>]
DbNames   == [tg |-> {"T1", "T2"}, tk |-> {"k1", "k2"}, al |-> {"a1", "a1b"}, sv |-> {"s1", "s2"}]
Unknown   == [tg |-> "T", tk |-> "k", al |-> "a", sv |-> "s1x"]
Grid == [run : Runs, t : DbNames.tg, k : DbNames.tk, a : DbNames.al, s : DbNames.sv, v : {"v1", "v2"}]

NameOf(x, d) == CASE d = "tg" -> x.t [] d = "tk" -> x.k [] d = "al" -> x.a [] d = "sv" -> x.s

(* a query: hasrun/run = the run-id expression (absent when ~hasrun), one  *)
(* set of names per dimension ({} = no constraint)                         *)
Sat(x, q) == /\ q.hasrun => \E i \in DOMAIN q.run : Holds(x.run, q.run[i])
             /\ \A d \in Dims : q[d] # {} => NameOf(x, d) \in q[d]
Proj(x)   == [run |-> x.run, t |-> x.t, k |-> x.k, a |-> x.a, s |-> x.s]
Match(db, q) == {Proj(x) : x \in {y \in db : Sat(y, q)}}
Render(m) == ToString(m.run) \o "." \o m.t \o "." \o m.k \o "." \o m.a \o "." \o m.s

(* items is the window [index, index+limit) of SOME run-ascending          *)
(* enumeration of M (the statement fixes no order among equal run ids):    *)
(* distinct members of M, and the element at global position p has a run r *)
(* with  |{m : m.run < r}| <= p < |{m : m.run <= r}|.                      *)
FindOK(M, index, limit, items, total) ==
    LET n    == Cardinality(M)
        want == IF index >= n THEN 0
                ELSE IF limit = NOLIMIT THEN n - index ELSE Min2(limit, n - index)
        Ent(s) == CHOOSE m \in M : Render(m) = s
    IN /\ total = n
       /\ Len(items) = want
       /\ \A i \in DOMAIN items : \E m \in M : Render(m) = items[i]
       /\ \A i, j \in DOMAIN items : i # j => items[i] # items[j]
       /\ \A i \in DOMAIN items :
             LET r == Ent(items[i]).run
                 p == index + i - 1
             IN /\ Cardinality({m \in M : m.run < r}) <= p
                /\ p < Cardinality({m \in M : m.run <= r})

NPages(M, L) == ((Cardinality(M) + L - 1) \div L) + 1      \* one page beyond the end
Concat(pages) == FoldLeft(LAMBDA acc, p : acc \o p, <<>>, pages)
(* pages[i] = find(q, (i-1)*L, L), i = 1..NPages *)
PagesOK(M, L, pages) ==
    LET C == Concat(pages)
        Ent(s) == CHOOSE m \in M : Render(m) = s
    IN /\ Len(pages) = NPages(M, L)
       /\ \A i \in DOMAIN pages : Len(pages[i]) <= L
       /\ Len(C) = Cardinality(M)
       /\ ToSet(C) = {Render(m) : m \in M}
       /\ \A i \in 1..(Len(C) - 1) : Ent(C[i]).run <= Ent(C[i + 1]).run

FacetOK(M, d, names) ==
    names = SelectSeq(NameOrder[d], LAMBDA n : n \in {NameOf(m, d) : m \in M})

(* ---- transcription of shelve/search.py on index tables ----             *)
(* tabs.<dim> : sequence, position i+1 = dissected name of index i         *)
(* tabs.prime : set of <<run, tgt, task, alg, sv, val>> index tuples       *)
IdxOf(tab, name) == {i - 1 : i \in {j \in DOMAIN tab : tab[j] = name}}
NameCons(tab, names) == UNION {IF IdxOf(tab, n) = {} THEN {-1} ELSE IdxOf(tab, n) : n \in names}
LexLess(x, y) == \E i \in 1..5 : (\A j \in 1..(i - 1) : x[j] = y[j]) /\ x[i] < y[i]
DimPos == [tg |-> 2, tk |-> 3, al |-> 4, sv |-> 5]

ImplKeys(tabs, q) ==
    LET sc  == IF q.hasrun THEN Scrub(q.run) ELSE <<>>
        ids == IdsOf(sc) \ {-1}
        rgs == ToSet(RgsOf(sc))
        runok(r) == \/ ids = {} /\ rgs = {}
                    \/ r \in ids
                    \/ ~RangeBug /\ \E g \in rgs : Holds(r, g)
        c == [d \in Dims |-> IF q[d] = {} THEN {} ELSE NameCons(tabs[d], q[d])]
        ok(pk) == runok(pk[1]) /\ \A d \in Dims : c[d] = {} \/ pk[DimPos[d]] \in c[d]
    IN SetToSortSeq({SubSeq(pk, 1, 5) : pk \in {p \in tabs.prime : ok(p)}}, LexLess)

RenderIdx(tabs, pk) == ToString(pk[1]) \o "." \o tabs.tg[pk[2] + 1] \o "." \o tabs.tk[pk[3] + 1]
                         \o "." \o tabs.al[pk[4] + 1] \o "." \o tabs.sv[pk[5] + 1]

(* the page of an already computed key list (so that callers can share pks) *)
ImplPage(tabs, pks, index, limit) ==
    LET hi  == IF limit = NOLIMIT THEN Len(pks)
               ELSE IF SliceBug THEN Min2(limit, Len(pks)) ELSE Min2(index + limit, Len(pks))
        pg  == IF index + 1 > hi THEN <<>> ELSE SubSeq(pks, index + 1, hi)
    IN [items |-> [i \in 1..Len(pg) |-> RenderIdx(tabs, pg[i])], total |-> Len(pks)]
ImplFind(tabs, q, index, limit) == ImplPage(tabs, ImplKeys(tabs, q), index, limit)

ImplFacetOf(tabs, pks, d) ==
    LET got == {tabs[d][pks[i][DimPos[d]] + 1] : i \in DOMAIN pks}
    IN SelectSeq(NameOrder[d], LAMBDA n : n \in got)
ImplFacet(tabs, q, d) == ImplFacetOf(tabs, ImplKeys(tabs, q), d)

(* ---- index tables of a database filled key by key (util.append) ----    *)
(* an algorithm entry is identified by (task, name, version), a state      *)
(* vector by (its algorithm entry, name); bump: runs >= 3 were produced    *)
(* by a newer version, i.e. one name owns several table indices.           *)
Dedupe(s) == FoldLeft(LAMBDA acc, x : IF \E i \in DOMAIN acc : acc[i] = x THEN acc ELSE Append(acc, x), <<>>, s)
PosIn(s, x) == (CHOOSE i \in DOMAIN s : s[i] = x) - 1
VerOf(x, bump) == IF bump /\ x.run >= 3 THEN 1 ELSE 0
TablesOf(ks, bump) ==
    LET tg == Dedupe([i \in DOMAIN ks |-> ks[i].t])
        tk == Dedupe([i \in DOMAIN ks |-> ks[i].k])
        al == Dedupe([i \in DOMAIN ks |-> <<ks[i].k, ks[i].a, VerOf(ks[i], bump)>>])
        sv == Dedupe([i \in DOMAIN ks |-> <<ks[i].k, ks[i].a, VerOf(ks[i], bump), ks[i].s>>])
        vl == Dedupe([i \in DOMAIN ks |-> <<ks[i].k, ks[i].a, VerOf(ks[i], bump), ks[i].s, ks[i].v>>])
    IN [tg |-> tg, tk |-> tk,
        al |-> [i \in DOMAIN al |-> al[i][2]],
        sv |-> [i \in DOMAIN sv |-> sv[i][4]],
        prime |-> {<<ks[i].run, PosIn(tg, ks[i].t), PosIn(tk, ks[i].k),
                     PosIn(al, <<ks[i].k, ks[i].a, VerOf(ks[i], bump)>>),
                     PosIn(sv, <<ks[i].k, ks[i].a, VerOf(ks[i], bump), ks[i].s>>),
                     PosIn(vl, <<ks[i].k, ks[i].a, VerOf(ks[i], bump), ks[i].s, ks[i].v>>)>> : i \in DOMAIN ks}]

(* ---- run ids as the code sees them: a monotone image of the model's ----  *)
(* The stored run ids are  model run + off  (off = 0, 7 or 97: 8..11 and    *)
(* 98..101 have different numbers of decimal digits, so "ascending run id"  *)
(* differs from the order of the rendered strings); the run-id expression   *)
(* of a query is shifted likewise.  Every operator above is on integers,    *)
(* so the reference and the transcription judge the shifted case as it is.  *)
Offsets == {0, 7, 97}
ShiftItem(it, off) == IF it.k = "i" THEN IdItem(it.a + off)
                      ELSE RgItem(it.a + off, IF it.b = OPEN THEN OPEN ELSE it.b + off)
ShiftExpr(e, off)  == [i \in DOMAIN e |-> ShiftItem(e[i], off)]
ShiftDb(db, off)   == {[x EXCEPT !.run = x.run + off] : x \in db}
ShiftQuery(q, off) == [q EXCEPT !.run = ShiftExpr(q.run, off)]
Width(n) == IF n < 10 THEN 1 ELSE IF n < 100 THEN 2 ELSE 3

(* ---- (c) histories: the database changes between the searches ----      *)
(* The property quantifies over histories: one process issues searches     *)
(* while entries are stored (a later run), removed (dawgie.db.remove) or   *)
(* the database is closed and another one opened.  Every search is judged  *)
(* against the database AS IT IS when the search is made, whatever was     *)
(* asked before:  FindOK(Match(DbAfter(prefix), q), ...).  HApply is the   *)
(* effect of one step on the set of primary entries.                       *)
HMutations == {"Store", "Remove", "Reopen"}
HApply(db, ev, xs) == CASE ev = "Store"  -> db \cup xs
                        [] ev = "Remove" -> db \ xs
                        [] ev = "Reopen" -> xs
                        [] OTHER         -> db

(* ---- the bounded query space ----                                       *)
NameChoices(d) ==
    LET n == DbNames[d]
        u == Unknown[d]
    IN {{}} \cup {{x} : x \in n} \cup {n} \cup {{u}} \cup {{x, u} : x \in n}
Absent == [hasrun |-> FALSE, run |-> <<>>]
Query(r, tg, tk, al, sv) == [hasrun |-> r.hasrun, run |-> r.run, tg |-> tg, tk |-> tk, al |-> al, sv |-> sv]
PageIndex == 0..6
PageLimit == {NOLIMIT, 1, 2, 3}
=============================================================================
