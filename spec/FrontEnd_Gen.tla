---------------------------- MODULE FrontEnd_Gen ----------------------------
(* Export of the bounded input domain for execution on the real code: one
   PrintT(<<"CASE", json>>) per case (every case is an initial state), plus
   the file tree the harness has to build.  `tags` are the antecedents of
   the property clauses that hold for the case, evaluated here so that the
   driver only has to count them (vacuity, distinct_nontrivial).  `ans` of
   an access case is the value a site hook has to return in that situation
   (FrontEnd!Answer); the hook of the harness returns just that. *)
EXTENDS FrontEnd_MC

Tree == [ top   |-> Top,
          roots |-> Roots,
          dirs  |-> Dirs,
          files |-> Files,
          links |-> LinkPairs ]

StaticTags(r) == (IF Escapes(r) THEN {"escapes"} ELSE {})
            \cup (IF NamesOutsideFile(r) THEN {"names_outside_file"} ELSE {})
            \cup (IF Plain(r) /\ RefServed(r) # {} THEN {"plain_hit"} ELSE {})
            \cup (IF RefServed(r) # {} THEN {"hit"} ELSE {})
AccessTags(s) == (IF Stranger(s) /\ IsCommand(s.e) THEN {"stranger_command"} ELSE {})
            \cup (IF HookFails(s) THEN {"hook_fails"} ELSE {})
            \cup (IF ImplRan(s) THEN {"expected_to_run"} ELSE {})
            \cup (IF HookSaysNo(s) THEN {"hook_says_no"} ELSE {})
            \cup (IF HookSaysNo(s) /\ Answer(s) # "False" THEN {"hook_no_not_False"} ELSE {})
            \cup (IF IsSite(s) /\ ImplRan(s) /\ Answer(s) # "True" THEN {"hook_yes_not_True"} ELSE {})

CaseJson(x) ==
    IF x.k = "static"
    THEN ToJson([k |-> x.k, lead |-> x.lead, segs |-> x.segs, q |-> x.q, uri |-> Uri(x), tags |-> StaticTags(x)])
    ELSE ToJson([k |-> x.k, e |-> x.e, m |-> x.m, certs |-> x.certs, tr |-> x.tr, hook |-> x.hook, ans |-> Answer(x), tags |-> AccessTags(x)])

GenInit == /\ c \in Cases
           /\ PrintT(<<"CASE", CaseJson(c)>>)
GenSpec == GenInit /\ [][Next]_vars
ASSUME PrintT(<<"TREE", ToJson(Tree)>>)
=============================================================================
