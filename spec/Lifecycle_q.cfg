SPECIFICATION Spec
CONSTANTS
  MaxSubmit = 3
  MaxEnv = 2
  MaxCycle = 1
  MaxRaw = 0
  Pinned = FALSE
INVARIANT TypeOK
INVARIANT C10_Rest
INVARIANT C10_Active
INVARIANT C12_ExactlyOnce
INVARIANT C12_NotLost
PROPERTY C10_Edges
PROPERTY C10_Rejected
PROPERTY C10_ArchiveReturns
PROPERTY C12_OnlyWhenAllowed
PROPERTY C12_NoSpuriousFire
PROPERTY C12_Refused
CHECK_DEADLOCK FALSE
