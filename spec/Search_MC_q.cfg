SPECIFICATION Spec
CONSTANTS
  RangeBug = FALSE
  SliceBug = FALSE
  Part = "all"
  MaxLen = 3
  Quick = TRUE
INVARIANT C17_Scrub
INVARIANT C17_Find
INVARIANT C17_Pages
INVARIANT C17_Facet
CHECK_DEADLOCK FALSE
