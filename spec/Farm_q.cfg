SPECIFICATION Spec
CONSTANTS
  NW = 3
  Targets = {"T1"}
  MaxRun = 2
  MaxCycle = 1
INVARIANT C11_NoIdleStaleRev
INVARIANT C11_IdleTruth
PROPERTY C11_Eligible
PROPERTY C11_OneTaskPerWorker
PROPERTY C11_Silent
PROPERTY C11_Leave
PROPERTY C11_Stay
PROPERTY C11_Fields
PROPERTY C11_FreshLarger
PROPERTY C11_DrawnIff
CHECK_DEADLOCK FALSE
