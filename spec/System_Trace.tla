---------------------------- MODULE System_Trace ----------------------------
(* Validation of traces of the COMPOSED real system (harness/compose_h.py): the real
   FSM with gated poller threads, the real submit steps and reset command, running
   on top of the real scheduler / farm / dag with ground truth from the worker
   transports.  The C12 conditions are judged against ground truth recorded at
   the instant update_trigger was called. *)
EXTENDS System, Json, IOUtils, SequencesExt
Traces == ndJsonDeserialize(IOEnv.TRACE_FILE)
VARIABLES tid, l, bad, drift
tvars == <<vars, tid, l, bad, drift>>
Rec(t, i) == Traces[t].steps[i]
Has(list) == \E i \in DOMAIN list : list[i] = T

Accepted(fs) == SelectSeq(fs, LAMBDA f : f.accepted)
FireOf(o) == LET a == Accepted(o.fires) IN
             IF Len(a) = 0 THEN NoFire ELSE [p |-> a[1].prio, src |-> a[1].src, executing |-> a[1].executing, pending |-> a[1].pending]
DidReset(pth) == \E i \in 1..(Len(pth) - 1) : pth[i] = "updating" /\ pth[i + 1] = "loading"

Bind(r) ==
    /\ todo' = [x \in Alg |-> Has(r.st.todo[x])]
    /\ doing' = [x \in Alg |-> Has(r.st.doing[x])]
    /\ hand' = [x \in Alg |-> Has(r.st.handed[x])]
    /\ que' = ToSet(r.st.que)
    /\ status' = [x \in Alg |-> IF r.st.status[x] \in {"initial", "waiting", "running"} THEN r.st.status[x] ELSE "waiting"]
    /\ fly' = { r.st.inflight[i].alg : i \in { j \in DOMAIN r.st.inflight : ~r.st.inflight[j].stale } }
    /\ old' = { r.st.inflight[i].alg : i \in { j \in DOMAIN r.st.inflight : r.st.inflight[j].stale /\ ~r.st.inflight[j].ancient } }
    /\ anc' = { r.st.inflight[i].alg : i \in { j \in DOMAIN r.st.inflight : r.st.inflight[j].ancient } }
    /\ arch' = r.st.archive
    /\ park' = ToSet(r.st.park) /\ free' = r.st.free
    /\ st' = r.st.st /\ tr' = r.st.tr /\ prior' = r.st.prior /\ bg' = ToSet(r.st.bg) /\ prio' = r.st.prio
    /\ wait' = [k \in K |-> r.st.wait[k]] /\ slot' = [k \in K |-> r.st.slot[k]]
    /\ sub' = r.st.sub
    /\ subp' = IF r.ev = "SubmitBegin" /\ r.st.sub = "gitting" THEN r.args.p ELSE IF r.st.sub = "idle" THEN "none" ELSE subp
    /\ fire' = FireOf(r.obs)
    /\ nfired' = IF DidReset(r.obs.path) THEN 0 ELSE nfired + Len(Accepted(r.obs.fires))
    /\ runs' = IF r.ev = "Run" THEN runs + 1 ELSE runs
    /\ nsub' = IF r.ev = "SubmitBegin" THEN nsub + 1 ELSE nsub
    /\ ncyc' = IF r.ev = "CmdReset" THEN ncyc + 1 ELSE ncyc

FailClause(name, ok) == IF ok THEN {} ELSE {name}
StepClauses(r) ==
    FailClause("SYS.ReloadOnlyWhenTrulyAllowed",
       \A i \in DOMAIN r.obs.fires :
          (r.obs.fires[i].accepted /\ r.obs.fires[i].src \in {"now", "poller"}) =>
             TruthAllowed([p |-> r.obs.fires[i].prio, executing |-> r.obs.fires[i].executing, pending |-> r.obs.fires[i].pending]))
    \cup FailClause("SYS.ExactlyOnce", nfired' <= 1)
    \cup FailClause("SYS.NoDispatchWhileInactive", (Len(r.obs.written) > 0) => (IsActive /\ \A i \in DOMAIN r.obs.written : r.obs.written[i].active))
    \cup FailClause("SYS.ReleasedFlyOrParked", SYS_ReleasedFlyOrParked' /\ SYS_ParkedNotFlying')
    \cup FailClause("SYS.NoArchiveOverParked", (st = "running" /\ st' = "archiving") => (park = {} /\ fly = {}))
    \cup FailClause("SYS.ViewsTruthful", SYS_ViewsTruthful')
    \cup FailClause("SYS.IdleMeansIdle", SYS_IdleMeansIdle')
    \cup FailClause("SYS.Rest", SYS_Rest')
    \cup FailClause("SYS.Quiescent", r.ev = "Quiesce" => (bg' = {} /\ st' = "running" /\ tr' = "active" /\ prio' = "none" /\ fly' = {} /\ ~Pending' /\ que' = {}))

ModelStep(r) ==
    CASE r.ev = "Run" -> Run(r.args.x)
      [] r.ev = "Tick" -> Tick(r.args.sc) \/ UNCHANGED <<todo, doing, que, fly, st, park>>
      [] r.ev = "WorkerArrive" -> WorkerArrive
      [] r.ev = "Reply" -> Reply(r.args.x, r.args.ok, r.args.new)
      [] r.ev = "OldReply" -> OldReply(r.args.x)
                              \* (two abandoned copies of one unit from different loads: the model keeps sets)
                              \/ (r.args.x \in anc /\ anc' = anc /\ UNCHANGED <<todo, doing, hand, que, status, arch, fly, old>>)
      [] r.ev = "CompleteReload" -> CompleteReload
      [] r.ev = "CompleteArchive" -> CompleteArchive
      [] r.ev = "CompleteLoad" -> CompleteLoad
      [] r.ev = "CompleteNavel" -> CompleteNavel
      [] r.ev = "CmdReset" -> CmdReset
      [] r.ev = "SubmitBegin" -> SubmitBegin(r.args.p)
      [] r.ev = "SubmitEnd" -> SubmitEnd
      [] r.ev = "PollerObserve" -> PollerObserve(r.args.k) \/ UNCHANGED <<st, tr, bg, prio, wait, slot>>
      [] r.ev = "PollerDone" -> PollerDone(r.args.k)
      [] OTHER -> TRUE

TraceInit == tid \in 1..Len(Traces) /\ l = 1 /\ Init /\ bad = {} /\ drift = FALSE
TraceNext ==
    /\ l < Len(Traces[tid].steps)
    /\ l' = l + 1 /\ UNCHANGED tid
    /\ LET r == Rec(tid, l + 1) IN
       /\ Bind(r)
       /\ bad' = StepClauses(r)
       /\ drift' = ~ModelStep(r)
       /\ (bad' # {} => PrintT(<<"CLAUSE", Traces[tid].tid, l + 1, r.ev, bad'>>))
       /\ (drift' => PrintT(<<"DRIFT", Traces[tid].tid, l + 1, r.ev>>))
TraceSpec == TraceInit /\ [][TraceNext]_tvars
TotalLines == FoldLeft(LAMBDA acc, t : acc + Len(t.steps), 0, Traces)
AllConsumed == /\ PrintT(<<"CONSUMED", TLCGet("distinct"), TotalLines>>) /\ TLCGet("distinct") = TotalLines
=============================================================================
