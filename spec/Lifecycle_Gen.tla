--------------------------- MODULE Lifecycle_Gen ---------------------------
EXTENDS Lifecycle, Json
VARIABLE h
gvars == <<vars, h>>
GenInit == Init /\ h = <<>>
E(name) == [ev |-> name]
GenNext ==
    \/ \E n \in Triggers : RawTrigger(n) /\ h' = Append(h, [ev |-> "RawTrigger", name |-> n])
    \/ RawRun /\ h' = Append(h, E("RawRun"))
    \/ Boot /\ h' = Append(h, E("Boot"))
    \/ CompleteLoad /\ h' = Append(h, E("CompleteLoad"))
    \/ CompleteNavel /\ h' = Append(h, E("CompleteNavel"))
    \/ CompleteReload /\ h' = Append(h, E("CompleteReload"))
    \/ CompleteArchive /\ h' = Append(h, E("CompleteArchive"))
    \/ DispatchArchive /\ h' = Append(h, E("DispatchArchive"))
    \/ \E a \in BOOLEAN : CmdReset(a) /\ h' = Append(h, [ev |-> "CmdReset", a |-> a])
    \/ \E p \in Prios : SubmitBegin(p) /\ h' = Append(h, [ev |-> "SubmitBegin", p |-> p])
    \/ SubmitEnd /\ h' = Append(h, E("SubmitEnd"))
    \/ SubmitFail /\ h' = Append(h, E("SubmitFail"))
    \/ \E k \in K : PollerObserve(k) /\ h' = Append(h, [ev |-> "PollerObserve", k |-> k])
    \/ \E k \in K : PollerDone(k) /\ h' = Append(h, [ev |-> "PollerDone", k |-> k])
    \/ \E b \in {"busy", "doing", "que", "arch"} :
          /\ Env
          /\ CASE b = "busy" -> busy' # busy [] b = "doing" -> doing' # doing [] b = "que" -> (que' # que /\ doing' = doing) [] b = "arch" -> arch' # arch
          /\ h' = Append(h, [ev |-> "Env", bit |-> b])
GenSpec == GenInit /\ [][GenNext]_gvars
(* focus instance: the pipeline at rest in `running` with work queued, executing and a worker busy -- the
   situation in which the submit priorities differ -- reached by the prefix below on the real code *)
LoadedPrefix == << E("Boot"), E("CompleteLoad"), E("CompleteNavel"), [ev |-> "Env", bit |-> "busy"], [ev |-> "Env", bit |-> "doing"] >>
FocusInit ==
    /\ st = "running" /\ tr = "active" /\ prior = "none" /\ bg = {} /\ arch = FALSE
    /\ prio = "none" /\ wait = NoWait /\ slot = [k \in K |-> "none"]
    /\ busy = TRUE /\ doing = TRUE /\ que = TRUE
    /\ sub = "idle" /\ subp = "none" /\ fire = NoFire /\ nfired = 0 /\ rejected = FALSE /\ path = <<"running">>
    /\ nsub = 0 /\ nenv = 0 /\ ncyc = 0 /\ nraw = 0
    /\ h = LoadedPrefix
FocusSpec == FocusInit /\ [][GenNext]_gvars
View == vars
Emit == PrintT(<<"SCHED", ToJson([h |-> h'])>>)
SimInv == PrintT(<<"SCHED", ToJson([h |-> h])>>)
=============================================================================
