---------------------------- MODULE FrontEnd_MC ----------------------------
(* Exhaustive run over the bounded input domain of FrontEnd.

   TLC configuration files cannot hold tuples, so the endpoint constants are
   bound (CONSTANT Endpoints <- RtEndpoints ...) to the routing table that
   harness/frontend_h.py (job kind "routes") read from the routing tree of
   the running code, dawgie.fe.basis._root, and wrote as JSON:
       {"endpoints": [["api","cmd","run"], ...], "GET": [...], "POST": [...], "PUT": [...], "DEL": [...]}
   The file is named by the environment variable C19_ROUTES.  By hand:
       C19_ROUTES=/verif/spec/FrontEnd_routes_pinned.json tlc -config FrontEnd_MC.cfg FrontEnd_MC.tla *)
EXTENDS FrontEnd, Json, IOUtils, SequencesExt
Routes      == JsonDeserialize(IOEnv.C19_ROUTES)
RtEndpoints == ToSet(Routes.endpoints)
RtGET       == ToSet(Routes.GET)
RtPOST      == ToSet(Routes.POST)
RtPUT       == ToSet(Routes.PUT)
RtDEL       == ToSet(Routes.DEL)
ASSUME RtEndpoints # {} /\ (RtGET \cup RtPOST \cup RtPUT \cup RtDEL) \subseteq RtEndpoints
=============================================================================
