----------------------------- MODULE Gate_Trace -----------------------------
(***************************************************************************)
(* Validation of the records produced by running the REAL compliance gate  *)
(* (harness/gate_h.py) on the package trees materialised from TLC's        *)
(* descriptors.  One trace per descriptor, one TLC state per line:         *)
(*   write   the tree was written (files > 0)                              *)
(*   verify  tools.compliant._scan / _verify in-process                    *)
(*   cli     python -m dawgie.tools.compliant as a process (sample)        *)
(*   cli_env the same command in an environment where a decoy copy of the  *)
(*           same base package (descriptor t.dec, opposite compliance) is  *)
(*           importable, listed at t.at of PYTHONPATH (sample)             *)
(*   sched   dag.Construct, schedule.build, periodics, organize,           *)
(*           next_job_batch on the package the gate accepted               *)
(* Every clause of C16 is evaluated here by TLC; a failing clause is       *)
(* printed (verdicts are total), acceptance is POSTCONDITION AllConsumed.  *)
(* DRIFT: the verdict differs from the transcription ImplAccept, or a      *)
(* violating package was rejected without its owning rule failing          *)
(* (injection / transcription sanity; never an alarm).                     *)
(* OBSERVE: verdicts on the descriptors that are generated but not claimed *)
(* (abstract methods that cannot be exercised by calling them).            *)
(***************************************************************************)
EXTENDS Gate, Json, IOUtils, SequencesExt

Traces == ndJsonDeserialize(IOEnv.TRACE_FILE)

VARIABLES tid, l, bad, drift
tvars == <<tid, l, bad, drift>>

DescOf(t) == [kinds |-> ToSet(t.d.kinds), shape |-> t.d.shape, vals |-> t.d.vals, evs |-> t.d.evs, viol |-> t.d.viol,
              pos |-> [k |-> t.d.pos.k, e |-> t.d.pos.e]]
DescJ(j) == [kinds |-> ToSet(j.kinds), shape |-> j.shape, vals |-> j.vals, evs |-> j.evs, viol |-> j.viol,
             pos |-> [k |-> j.pos.k, e |-> j.pos.e]]
EnvOf(t) == [sub |-> DescOf(t), dec |-> DescJ(t.dec), at |-> t.at]     \* meaningful on traces with t.at # "-"
Rec(t, i) == Traces[t].steps[i]
FailClause(name, ok) == IF ok THEN {} ELSE {name}

Claimed(d) == d.viol \notin UnclaimedNames

(* the verdicts of the gate on this package: in-process on the listed
   package, in-process through the scan (the path of `verify`), and the
   exit status of the command where it was run *)
Verdicts(d, r) ==
    CASE r.ev = "verify" -> {r.obs.v_list} \cup (IF d.kinds # {} THEN {r.obs.v_scan} ELSE {})
      [] r.ev = "cli"    -> IF r.obs.cli_run THEN {r.obs.cli_rc = 0} ELSE {}
      [] r.ev = "cli_env" -> IF r.obs.cli_run THEN {r.obs.cli_rc = 0} ELSE {}   \* d is the SUBMITTED package: CmdAccept(c) = Accept(d)
      [] OTHER           -> {}

StepClauses(t, d, r) ==
    IF ~Claimed(d) THEN {} ELSE
    \* the gate accepts every package that follows the rules ...
    FailClause("C16.AcceptConforming", Accept(d) => \A v \in Verdicts(d, r) : v)
    \cup
    \* ... and rejects every package that breaks one
    FailClause("C16.RejectViolating", ~Accept(d) => \A v \in Verdicts(d, r) : ~v)
    \cup
    \* a conforming package is seen by the scan that feeds the gate (for a violating one a
    \* scan that fails is a rejection: the command exits non-zero)
    FailClause("C16.ScanFinds", (r.ev = "verify" /\ d.kinds # {} /\ Accept(d)) => t.put \in ToSet(r.obs.scan))
    \cup
    \* every accepted package can be turned into a task graph and scheduled
    FailClause("C16.Schedulable", (r.ev = "sched" /\ r.obs.sched_run /\ r.obs.v_list) => r.obs.sched_ok)

Drift(d, r) ==
    /\ Claimed(d)
    /\ r.ev = "verify"
    /\ \/ r.obs.v_list # ImplAccept(d)
       \/ (d.viol # "none" /\ ~r.obs.v_list /\ Owners(d) \cap ToSet(r.obs.fired) = {})
(* the command in an environment with a decoy: exit status against the transcription of its import path *)
EnvDrift(t, r) == r.ev = "cli_env" /\ r.obs.cli_run /\ (r.obs.cli_rc = 0) # ImplCmdAccept(EnvOf(t))

Foreign(d) == ~WellFormed(d)     \* not a case of the space TLC enumerates (Descriptors \cup Observed)
ForeignEnv(t) == \/ t.at = "-" /\ \E i \in 1..Len(t.steps) : t.steps[i].ev = "cli_env"
                 \/ t.at # "-" /\ ~EnvWellFormed(EnvOf(t))            \* not an environment case of Gate!EnvCasesOf

Eval(t, i) ==
    LET tr == Traces[t]
        d  == DescOf(tr)
        r  == Rec(t, i) IN
    /\ bad' = StepClauses(tr, d, r)
    /\ drift' = (Drift(d, r) \/ EnvDrift(tr, r))
    /\ (bad' # {} => PrintT(<<"CLAUSE", tr.tid, i, r.ev, bad'>>))
    /\ (Drift(d, r) => PrintT(<<"DRIFT", tr.tid, i, r.ev, r.obs.v_list, ImplAccept(d), ToJson(r.obs.fired)>>))
    /\ (EnvDrift(tr, r) => PrintT(<<"DRIFT", tr.tid, i, r.ev, r.obs.cli_rc = 0, ImplCmdAccept(EnvOf(tr)), ToJson(r.obs.fired)>>))
    /\ ((i = 1 /\ (Foreign(d) \/ ForeignEnv(tr))) => PrintT(<<"FOREIGN", tr.tid>>))
    /\ ((~Claimed(d) /\ r.ev = "verify") => PrintT(<<"OBSERVE", tr.tid, d.viol, d.pos.k, d.pos.e, r.obs.v_list>>))

TraceInit ==
    /\ tid \in 1..Len(Traces)
    /\ l = 0
    /\ bad = {} /\ drift = FALSE

TraceNext ==
    /\ l < Len(Traces[tid].steps)
    /\ l' = l + 1
    /\ UNCHANGED tid
    /\ Eval(tid, l + 1)

TraceSpec == TraceInit /\ [][TraceNext]_tvars

TotalLines == FoldLeft(LAMBDA acc, t : acc + Len(t.steps), 0, Traces)
(* one state per line plus the initial state of every trace *)
AllConsumed == /\ PrintT(<<"CONSUMED", TLCGet("distinct") - Len(Traces), TotalLines>>)
               /\ TLCGet("distinct") - Len(Traces) = TotalLines
=============================================================================
