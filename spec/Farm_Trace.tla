----------------------------- MODULE Farm_Trace -----------------------------
(* Validation of traces recorded from the real farm code (harness/farm_h.py)
   against the C11 property level of module Farm.  wk (ground truth about
   each worker connection) is maintained by THIS specification from the
   events and from what was written to each connection -- it is the worker's
   own view: registered with revision r and not told to leave = waiting. *)
EXTENDS Farm, Json, IOUtils, SequencesExt

Traces == ndJsonDeserialize(IOEnv.TRACE_FILE)

VARIABLES tid, l, bad, drift
tvars == <<vars, tid, l, bad, drift>>

Rec(t, i) == Traces[t].steps[i]
Count(s, P(_)) == Cardinality({ i \in DOMAIN s : P(s[i]) })

Live(st) == { i \in DOMAIN st.inflight : ~st.inflight[i].stale }
FlyOf(st) == { [alg |-> st.inflight[i].alg, t |-> st.inflight[i].t, run |-> st.inflight[i].run, w |-> st.inflight[i].w] : i \in Live(st) }
ClusterOf(st) == [i \in DOMAIN st.cluster |-> [alg |-> st.cluster[i].alg, t |-> st.cluster[i].t, run |-> st.cluster[i].run]]
ExecOf(st) == [x \in Alg |-> { u.t : u \in { v \in FlyOf(st) : v.alg = x } } \cup { st.cluster[i].t : i \in { j \in DOMAIN st.cluster : st.cluster[j].alg = x } }]
WroteOf(obs) ==
    { [w |-> obs.written[i].w, kind |-> "task", alg |-> obs.written[i].alg, t |-> obs.written[i].t, run |-> obs.written[i].run] : i \in DOMAIN obs.written }
    \cup { [w |-> obs.told[i].w, kind |-> obs.told[i].msg, alg |-> "", t |-> "", run |-> 0] : i \in DOMAIN obs.told }

(* ground truth of the connections after the step *)
WkNext(r) ==
    LET wr == WroteOf(r.obs)
        base == IF r.ev = "Connect" THEN [wk EXCEPT ![r.obs.wid].st = "conn"]
                ELSE IF r.ev = "Register" THEN [wk EXCEPT ![r.args.w] = [st |-> "idle", rev |-> r.args.rev]]
                ELSE IF r.ev = "Poll" THEN [wk EXCEPT ![r.obs.wid] = [st |-> "gone", rev |-> r.args.rev]]
                ELSE IF r.ev = "Lost" THEN [wk EXCEPT ![r.args.w].st = "gone"]
                ELSE wk
    IN [w \in W |->
          IF \E m \in wr : m.w = w /\ m.kind = "task" THEN [base[w] EXCEPT !.st = "busy"]
          ELSE IF \E m \in wr : m.w = w /\ m.kind \in {"abort", "proceed"} THEN [base[w] EXCEPT !.st = "gone"]
          ELSE IF base[w].st = "busy" /\ ~(\E u \in FlyOf(r.st) : u.w = w) THEN [base[w] EXCEPT !.st = "gone"]
          ELSE base[w]]

(* what the triggering event carried (node 'runid') follows from the EVENTS, not from the node attribute the code
   happens to keep: a request carries none, new data of a carries the run of the reply, a (re)load forgets all *)
RidNext(r) ==
    CASE r.ev = "Run" -> [x \in Alg |-> IF x \in ToSet(r.args.S) THEN None ELSE rid[x]]
      [] r.ev = "Reply" /\ r.args.out = "success" /\ r.args.new /\ r.args.alg = A /\ Len(r.obs.reply) = 1
                       -> [rid EXCEPT ![B] = r.obs.reply[1].run, ![R] = r.obs.reply[1].run]
      [] r.ev = "Load" -> [x \in Alg |-> None]
      [] OTHER -> rid

(* the pipeline's current software revision is GROUND TRUTH: the HEAD of the engine checkout (st.head, read by the harness
   with its own git call) at the moment the pipeline loaded it last -- at start-up and at every update (RevChange = the
   checkout is moved, then the real FSM._reload runs).  What the code believes (st.rev = dawgie.context.git_rev, obtained
   through the real context._rev) is compared as drift only; the clauses are evaluated on the truth. *)
GitrevNext(r) == IF r.ev = "RevChange" THEN r.st.head ELSE gitrev

Bind(r) ==
    /\ phase' = r.st.phase
    /\ gitrev' = GitrevNext(r)
    /\ pend' = [x \in Alg |-> ToSet(r.st.todo[x])]
    /\ exec' = ExecOf(r.st)
    /\ rid' = RidNext(r)
    /\ cluster' = ClusterOf(r.st)
    /\ idle' = r.st.idle_ids
    /\ fly' = FlyOf(r.st)
    /\ stored' = r.st.stored_max
    /\ archive' = r.st.archive
    /\ wrote' = WroteOf(r.obs)
    /\ drew' = { r.obs.drawn[i].run : i \in DOMAIN r.obs.drawn }
    /\ wk' = WkNext(r)
    /\ runs' = runs /\ cycles' = cycles

Pkg(x) == IF x = A THEN "vae.t0" ELSE IF x = B THEN "vae.t1" ELSE "vae.t2"
FailClause(name, ok) == IF ok THEN {} ELSE {name}
BagOf(s) == [m \in ToSet(s) |-> Count(s, LAMBDA y : y = m)]
MsgView(s) == [i \in DOMAIN s |-> [alg |-> s[i].alg, t |-> s[i].t, run |-> s[i].run]]

StepClauses(p, r) ==
    FailClause("C11.Eligible", Eligible_Step)
    \cup FailClause("C11.OneTaskPerWorker", OneTaskPerWorker_Step)
    \cup FailClause("C11.Silent", Silent_Step)
    \cup FailClause("C11.Leave", Leave_Step)
    \cup FailClause("C11.Fields", Fields_Step)
    \cup FailClause("C11.FreshLarger", \A i \in DOMAIN r.obs.drawn : r.obs.drawn[i].run > r.obs.drawn[i].stored_max /\ r.obs.drawn[i].stored_max = stored)
    \cup FailClause("C11.DrawnIff", DrawnIff_Step)
    \cup FailClause("C11.NoIdleStaleRev", C11_NoIdleStaleRev')
    \cup FailClause("C11.IdleTruth", C11_IdleTruth')
    \cup FailClause("C11.FactoryAndRun",
           \* every task message created in this step carries the factory of its unit and the right run id
           \A i \in DOMAIN r.obs.put :
              LET m == r.obs.put[i] IN
              /\ m.alg \in Alg
              /\ m.fac = <<Pkg(m.alg), Kind(m.alg)>>
              /\ m.run = IF Kind(m.alg) = "regress" THEN 0
                         ELSE IF rid[m.alg] # None THEN rid[m.alg]
                         ELSE IF Len(r.obs.drawn) > 0 THEN r.obs.drawn[1].run ELSE None)
    \cup FailClause("C11.Stay",
           \* bag(queued after) + bag(written) = bag(queued before) + bag(created), message by message
           r.ev = "Tick" =>
              LET after == MsgView(r.st.cluster) \o MsgView(r.obs.written)
                  before == MsgView(p.st.cluster) \o MsgView(r.obs.put)
              IN BagOf(after) = BagOf(before))
    \cup FailClause("C11.SentOnlyWhileActive",
           \* the life-cycle bit as it was at the very moment each task message was written
           \A i \in DOMAIN r.obs.written : r.obs.written[i].active)
    \cup FailClause("C11.NothingWhileInactive",
           (~Active /\ r.ev = "Tick") => (Len(r.obs.written) = 0 /\ Len(r.obs.put) = 0 /\ Len(r.obs.drawn) = 0))

ModelStep(r) ==
    CASE r.ev = "Register" -> Register(r.args.w, r.args.rev)
      [] r.ev = "Connect" -> Connect
      [] r.ev = "Poll" -> Poll(r.args.rev)
      [] r.ev = "Lost" -> Lost(r.args.w)
      [] r.ev = "Tick" -> Tick \/ (~Active /\ UNCHANGED <<pend, exec, cluster, idle, fly, phase>>)
      [] r.ev = "Notify" -> Notify
      [] r.ev = "Load" -> Load
      [] r.ev = "RevChange" -> RevChange(r.args.rev)
      [] OTHER -> TRUE

TraceInit ==
    /\ tid \in 1..Len(Traces)
    /\ l = 1
    /\ Init
    /\ bad = {} /\ drift = (Rec(tid, 1).st.head # gitrev \/ Rec(tid, 1).st.rev # gitrev)
    /\ (drift => PrintT(<<"DRIFT", Traces[tid].tid, 1, "Init">>))

TraceNext ==
    /\ l < Len(Traces[tid].steps)
    /\ l' = l + 1
    /\ UNCHANGED tid
    /\ LET r == Rec(tid, l + 1) IN
       /\ Bind(r)
       /\ bad' = StepClauses(Rec(tid, l), r)
       /\ drift' = (\/ ~ModelStep(r)
                    \/ rid' # [x \in Alg |-> r.st.runid[x]]     \* the node attribute is compared as drift only
                    \/ r.st.rev # gitrev')                       \* so is the revision attribute the farm compares with
       /\ (bad' # {} => PrintT(<<"CLAUSE", Traces[tid].tid, l + 1, r.ev, bad'>>))
       /\ (drift' => PrintT(<<"DRIFT", Traces[tid].tid, l + 1, r.ev>>))

TraceSpec == TraceInit /\ [][TraceNext]_tvars
TotalLines == FoldLeft(LAMBDA acc, t : acc + Len(t.steps), 0, Traces)
AllConsumed == /\ PrintT(<<"CONSUMED", TLCGet("distinct"), TotalLines>>)
               /\ TLCGet("distinct") = TotalLines
=============================================================================
