SPECIFICATION Spec
CONSTANTS
  Alg = {"t0.a", "t1.b", "t2.c"}
  Targets = {"T1", "T2"}
  Programs <- Programs3Alg
  MaxRun = 2
  MaxReload = 0
  Pinned = FALSE
INVARIANT TypeOK
INVARIANT C03_OneAtATime
INVARIANT C03_NoDrop
INVARIANT C04_IdleEmpty
INVARIANT C04_NoStuck
PROPERTY C01_Release
PROPERTY C03_ReplyRecorded
INVARIANT C04_Progress
PROPERTY C04_ProgressStep
PROPERTY C05_Contained
PROPERTY C02_Step
CHECK_DEADLOCK FALSE
