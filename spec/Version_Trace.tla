--------------------------- MODULE Version_Trace ---------------------------
(***************************************************************************)
(* Validation of records produced by the REAL code (harness/version_h.py)  *)
(* against the property level of module Version.                           *)
(*                                                                         *)
(* part "a" traces: one step per pair (a, b); obs.r / obs.q are the results*)
(*   of the real dawgie.Version operators for `a op b` and `b op a`.       *)
(* part "b" traces: one trace per generated engine, one step per (re)load: *)
(*   args = the case chosen by TLC (targets, declared versions, persisted  *)
(*   lists), obs = what the real version.current() and the version tables  *)
(*   really held, st = schedule.que and the todo sets right after the real *)
(*   schedule.build().                                                     *)
(* Every clause is evaluated by TLC on every step; a failing clause is     *)
(* printed and the run goes on (verdicts are total).  drift = the recorded *)
(* output differs from the implementation-shaped transcription.            *)
(***************************************************************************)
EXTENDS Version, Json, IOUtils, SequencesExt

Traces == ndJsonDeserialize(IOEnv.TRACE_FILE)

VARIABLES tid, l, bad, drift, stat,
          ref, act       \* part b: reference and actual view of the step (0 for part a); bound once per step
tvars == <<mvars, tid, l, bad, drift, stat, ref, act>>

Rec(t, i) == Traces[t].steps[i]

Els(t, r, F(_, _)) == [k \in DOMAIN r.args.els |-> F(r.args.els[k], r.obs.els[k])]
Owner(a) == a.path[1] \o "." \o a.path[2]            \* structural: the descriptor's task and algorithm

(* reference view: declared versions, persisted lists as chosen / as recorded *)
RefT(t, r) ==
    [algs |-> Traces[t].algs, targets |-> r.args.targets,
     els |-> Els(t, r, LAMBDA a, o : [owner |-> Owner(a), level |-> Len(a.path) - 1,
                                      incur |-> TRUE, cur |-> VerStr(a.decl),
                                      present |-> a.present,
                                      pers |-> [j \in DOMAIN a.vers |-> VerStr(a.vers[j])]])]
(* actual view: what version.current() reported, what the tables given to build() held *)
ActT(t, r) ==
    [algs |-> Traces[t].algs, targets |-> r.args.targets,
     els |-> Els(t, r, LAMBDA a, o : [owner |-> Owner(a), level |-> Len(a.path) - 1,
                                      incur |-> o.incur, cur |-> o.cur,
                                      present |-> o.present, pers |-> o.pers])]

IsA(t) == Traces[t].part = "a"
RefOf(t, i) == IF IsA(t) THEN 0 ELSE RefT(t, Rec(t, i))
ActOf(t, i) == IF IsA(t) THEN 0 ELSE ActT(t, Rec(t, i))

Eval(t, i, rf, ac) ==
    LET r == Rec(t, i) IN
    IF IsA(t)
    THEN PairClauses(r.args.a, r.args.b, r.obs.r, r.obs.q)
    ELSE BuildClauses(rf, r.st) \cup FaithClauses(rf, ac, r.obs.extra)

Drifts(t, i, ac) ==
    LET r == Rec(t, i) IN
    IF IsA(t)
    THEN r.obs.r # ImplOps(r.args.a, r.args.b) \/ r.obs.q # ImplOps(r.args.b, r.args.a)
    ELSE ~ImplAgrees(ac, r.st)

(* vacuity counters, accumulated by TLC along each trace and printed at its end.
   part a: <<steps, a<b, a=b, a>b, 0>>
   part b: <<steps, algorithms that must be queued, algorithms that must stay out,
             analyses that must be queued, steps with no known target>>
   (TraceInit / TraceNext append the number of failing clauses) *)
B2N(x) == IF x THEN 1 ELSE 0
StatOf(t, i, rf) ==
    LET r == Rec(t, i) IN
    IF IsA(t)
    THEN <<1, B2N(Lex(r.args.a, r.args.b)), B2N(r.args.a = r.args.b), B2N(Lex(r.args.b, r.args.a)), 0>>
    ELSE LET ch == ChangedSet(rf)
         IN <<1,
              Cardinality({ a \in ch : WantIf(rf, ch, a) # {} }),
              Cardinality(AlgNames(rf) \ ch),
              Cardinality({ a \in ch : KindOf(rf, a) = "analysis" }),
              B2N(r.args.targets = <<>>)>>
Plus(x, y) == [k \in DOMAIN x |-> x[k] + y[k]]

(* one short row per failing clause: TLC wraps printed values longer than a line,
   and the output parser reads single lines.  The last component of the STAT row
   is the number of clause failures of the trace, so a lost row is noticed. *)
Report(t, i, b, d, s) ==
    /\ \A c \in b : PrintT(<<"CLAUSE", Traces[t].tid, i, Rec(t, i).ev, {c}>>)
    /\ (d => PrintT(<<"DRIFT", Traces[t].tid, i, Rec(t, i).ev>>))
    /\ (i = Len(Traces[t].steps) => PrintT(<<"STAT", Traces[t].tid, Traces[t].part, s>>))

TraceInit ==
    /\ ph = "trace" /\ pr = 0 /\ cs = 0
    /\ tid \in 1..Len(Traces)
    /\ l = 1
    /\ ref = RefOf(tid, 1)
    /\ act = ActOf(tid, 1)
    /\ bad = Eval(tid, 1, ref, act)
    /\ drift = Drifts(tid, 1, act)
    /\ stat = StatOf(tid, 1, ref) \o <<Cardinality(bad)>>
    /\ Report(tid, 1, bad, drift, stat)

TraceNext ==
    /\ l < Len(Traces[tid].steps)
    /\ l' = l + 1
    /\ UNCHANGED <<mvars, tid>>
    /\ ref' = RefOf(tid, l + 1)
    /\ act' = ActOf(tid, l + 1)
    /\ bad' = Eval(tid, l + 1, ref', act')
    /\ drift' = Drifts(tid, l + 1, act')
    /\ stat' = Plus(stat, StatOf(tid, l + 1, ref') \o <<Cardinality(bad')>>)
    /\ Report(tid, l + 1, bad', drift', stat')

TraceSpec == TraceInit /\ [][TraceNext]_tvars

TotalLines == FoldLeft(LAMBDA acc, t : acc + Len(t.steps), 0, Traces)
AllConsumed == /\ PrintT(<<"CONSUMED", TLCGet("distinct"), TotalLines>>)
               /\ TLCGet("distinct") = TotalLines
=============================================================================
