--------------------------- MODULE Version_Trace ---------------------------
(***************************************************************************)
(* Validation of records produced by the REAL code (harness/version_h.py)  *)
(* against the property level of module Version.                           *)
(*                                                                         *)
(* part "a" traces: one step per pair (a, b); obs.r / obs.q are the results*)
(*   of the real dawgie.Version operators for `a op b` and `b op a`.       *)
(* part "b" traces: one trace per generated engine, one step per (re)load: *)
(*   args = the case chosen by TLC (targets, declared versions, persisted  *)
(*   lists), obs = what the real version.current() and the version tables  *)
(*   really held, st = schedule.que and the todo sets right after the real *)
(*   schedule.build().                                                     *)
(* Every clause is evaluated by TLC on every step; a failing clause is     *)
(* printed and the run goes on (verdicts are total).  drift = the recorded *)
(* output differs from the implementation-shaped transcription.            *)
(***************************************************************************)
EXTENDS Version, Json, IOUtils, SequencesExt

Traces == ndJsonDeserialize(IOEnv.TRACE_FILE)

VARIABLES tid, l, bad, drift, stat
tvars == <<mvars, tid, l, bad, drift, stat>>

Rec(t, i) == Traces[t].steps[i]

NormT(t, r) ==
    [algs |-> Traces[t].algs,
     targets |-> r.args.targets,
     extra |-> r.obs.extra,
     els |-> [k \in DOMAIN r.args.els |->
                LET a == r.args.els[k]
                    o == r.obs.els[k]
                IN [owner |-> a.path[1] \o "." \o a.path[2],     \* structural: the descriptor's task and algorithm
                    level |-> Len(a.path) - 1,
                    cur |-> VerStr(a.decl),
                    present |-> a.present,
                    pers |-> [j \in DOMAIN a.vers |-> VerStr(a.vers[j])],
                    aincur |-> o.incur, acur |-> o.cur,
                    apresent |-> o.present, apers |-> o.pers]]]

Eval(t, i) ==
    LET r == Rec(t, i) IN
    IF Traces[t].part = "a"
    THEN PairClauses(r.args.a, r.args.b, r.obs.r, r.obs.q)
    ELSE BuildClauses(NormT(t, r), r.st)

Drifts(t, i) ==
    LET r == Rec(t, i) IN
    IF Traces[t].part = "a"
    THEN r.obs.r # ImplOps(r.args.a, r.args.b) \/ r.obs.q # ImplOps(r.args.b, r.args.a)
    ELSE ~ImplAgrees(NormT(t, r), r.st)

(* vacuity counters, accumulated by TLC along each trace and printed at its end.
   part a: <<steps, lt true, eq true, gt true, 0>>
   part b: <<steps, algorithms that must be queued, algorithms that must stay out,
             analyses that must be queued, steps with no known target>> *)
B2N(x) == IF x THEN 1 ELSE 0
StatOf(t, i) ==
    LET r == Rec(t, i) IN
    IF Traces[t].part = "a"
    THEN <<1, B2N(Lex(r.args.a, r.args.b)), B2N(r.args.a = r.args.b), B2N(Lex(r.args.b, r.args.a)), 0>>
    ELSE LET c == NormT(t, r) IN
         <<1,
           Cardinality({ a \in AlgNames(c) : Want(c, a) # {} }),
           Cardinality({ a \in AlgNames(c) : ~Changed(c, a) }),
           Cardinality({ a \in AlgNames(c) : Changed(c, a) /\ KindOf(c, a) = "analysis" }),
           B2N(r.args.targets = <<>>)>>
Plus(x, y) == [k \in DOMAIN x |-> x[k] + y[k]]

Report(t, i, b, d, s) ==
    /\ (b # {} => PrintT(<<"CLAUSE", Traces[t].tid, i, Rec(t, i).ev, b>>))
    /\ (d => PrintT(<<"DRIFT", Traces[t].tid, i, Rec(t, i).ev>>))
    /\ (i = Len(Traces[t].steps) => PrintT(<<"STAT", Traces[t].tid, Traces[t].part, s>>))

TraceInit ==
    /\ pr = 0 /\ cs = 0
    /\ tid \in 1..Len(Traces)
    /\ l = 1
    /\ bad = Eval(tid, 1)
    /\ drift = Drifts(tid, 1)
    /\ stat = StatOf(tid, 1)
    /\ Report(tid, 1, bad, drift, stat)

TraceNext ==
    /\ l < Len(Traces[tid].steps)
    /\ l' = l + 1
    /\ UNCHANGED <<mvars, tid>>
    /\ bad' = Eval(tid, l + 1)
    /\ drift' = Drifts(tid, l + 1)
    /\ stat' = Plus(stat, StatOf(tid, l + 1))
    /\ Report(tid, l + 1, bad', drift', stat')

TraceSpec == TraceInit /\ [][TraceNext]_tvars

TotalLines == FoldLeft(LAMBDA acc, t : acc + Len(t.steps), 0, Traces)
AllConsumed == /\ PrintT(<<"CONSUMED", TLCGet("distinct"), TotalLines>>)
               /\ TLCGet("distinct") = TotalLines
=============================================================================
