----------------------------- MODULE Frame_Trace -----------------------------
(* Validation of what the REAL protocol objects delivered, chunk by chunk
   (harness/frame_h.py).  One trace = one channel, one message sequence, one
   handshake validity assignment, one chunking.  Only the property level is
   evaluated: what was handed to the application after each chunk. *)
EXTENDS Naturals, Sequences, FiniteSets, TLC, Json, IOUtils, SequencesExt
Traces == ndJsonDeserialize(IOEnv.TRACE_FILE)
VARIABLES tid, l, bad
tvars == <<tid, l, bad>>
Rec(t, i) == Traces[t].steps[i]
FailClause(name, ok) == IF ok THEN {} ELSE {name}
IsPrefixSeq(a, b) == Len(a) <= Len(b) /\ \A i \in 1..Len(a) : a[i] = b[i]

(* number of whole application messages contained in the first n bytes of the application stream *)
RECURSIVE Whole(_, _, _)
Whole(sizes, i, n) == IF i > Len(sizes) \/ n < sizes[i] THEN 0 ELSE 1 + Whole(sizes, i + 1, n - sizes[i])

Clauses(t, p, r) ==
    LET sent == [i \in 1..Len(t.sizes) |-> i]
        good == ~t.hs \/ (t.bits.p1 /\ t.bits.sigA /\ t.bits.p4 /\ t.bits.sigB /\ t.bits.echo)
        appfed == IF r.fed > t.hslen THEN r.fed - t.hslen ELSE 0
    IN
    FailClause("C14.Prefix", IsPrefixSeq(r.delivered, sent))
    \cup FailClause("C14.Monotone", IsPrefixSeq(p.delivered, r.delivered))
    \cup FailClause("C14.Reassembly", (good /\ ~r.closed_by_app) => Len(r.delivered) = Whole(t.sizes, 1, appfed))
    \cup FailClause("C14.WholeDelivery", (r.last /\ good /\ ~r.closed_by_app) => r.delivered = sent)
    \cup FailClause("C14.Gate", Len(r.delivered) > 0 => (good /\ r.fed >= t.hslen))
    \cup FailClause("C14.FailClosed", (t.hs /\ ~good /\ r.last) => (r.closed /\ Len(r.delivered) = 0))
    \cup FailClause("C14.ClosedSilent", p.closed => r.delivered = p.delivered)
    \cup FailClause("C14.NoSpuriousClose", (good /\ ~r.closed_by_app) => ~r.closed)
    \cup FailClause("C14.NoException", r.exc = "")

TraceInit == tid \in 1..Len(Traces) /\ l = 1 /\ bad = {}
TraceNext ==
    /\ l < Len(Traces[tid].steps)
    /\ l' = l + 1 /\ UNCHANGED tid
    /\ bad' = Clauses(Traces[tid], Rec(tid, l), Rec(tid, l + 1))
    /\ (bad' # {} => PrintT(<<"CLAUSE", Traces[tid].tid, l + 1, Traces[tid].channel, bad'>>))
TraceSpec == TraceInit /\ [][TraceNext]_tvars
TotalLines == FoldLeft(LAMBDA acc, t : acc + Len(t.steps), 0, Traces)
AllConsumed == /\ PrintT(<<"CONSUMED", TLCGet("distinct"), TotalLines>>) /\ TLCGet("distinct") = TotalLines
=============================================================================
