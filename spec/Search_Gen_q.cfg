SPECIFICATION Spec
CONSTANTS
  RangeBug = FALSE
  SliceBug = FALSE
  GenPart = "ab"
  NScrub = 3000
  NDb = 24
  NFind = 20
  NPages_ = 4
  NFacet = 4
INVARIANT Emit
CHECK_DEADLOCK FALSE
