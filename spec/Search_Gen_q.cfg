SPECIFICATION Spec
CONSTANTS
  RangeBug = FALSE
  SliceBug = FALSE
  GenPart = "abh"
  NScrub = 3000
  NDb = 24
  NFind = 20
  NPages_ = 4
  NFacet = 4
  NHist = 30
  NHSteps = 24
INVARIANT Emit
CHECK_DEADLOCK FALSE
