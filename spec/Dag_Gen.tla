------------------------------ MODULE Dag_Gen ------------------------------
(* Export of the program domain for materialisation: one CASE line per
   program (the engine descriptor is a projection of it), with the features
   that make it a non-trivial case of the clauses. *)
EXTENDS Dag_MC, Json
GenSpec == Init /\ [][Pick]_vars
GenOK == pc = "analysis" => WellFormed(prog)
Emit == pc = "analysis" => PrintT(<<"CASE", ToJson([prog |-> prog, feat |-> Features(prog)])>>)
=============================================================================
