----------------------------- MODULE Search_MC -----------------------------
(* Exhaustive comparison of the implementation-shaped operators of Search
   with the declarative reference on bounded domains.

   Part = "all" the three parts below in one run
   Part = "a"   every run-id expression of <= MaxLen items (40 items; 65 641
                expressions for MaxLen = 3):   Den(Scrub(e)) = Den(e)
   Part = "b1"  the per-entry predicate: single-entry databases (every run x the
                two extreme name tuples) x every constraint combination (13 run
                choices x 7^4 name choices), with and without a second version
                of the names, every page
   Part = "b2"  set / order / page: every database of <= 2 entries of a
                sub-grid plus large structured databases x a family of
                constraints x every page (index 0..6, limit none/1/2/3),
                Pages for L = 1..3 and the four facets                       *)
EXTENDS Search
CONSTANTS Part, MaxLen,
          Quick      \* TRUE: smaller families for parts b1/b2 (quick tier)

VARIABLE c
vars == <<c>>

(* curated run-id expressions for part b (part a covers the whole domain) *)
RunExprs == { <<IdItem(2)>>, <<IdItem(0)>>, <<IdItem(1), IdItem(3)>>, <<IdItem(4), IdItem(4), IdItem(2)>>,
              <<RgItem(2, 4)>>, <<RgItem(2, OPEN)>>, <<RgItem(0, 2), IdItem(3)>>,
              <<RgItem(1, 3), RgItem(2, 5)>>, <<RgItem(3, 1)>>, <<RgItem(3, 4), RgItem(1, 2), IdItem(2)>>,
              <<RgItem(4, OPEN), RgItem(1, 2)>>, <<RgItem(0, OPEN)>> }
RunChoices == {Absent} \cup {[hasrun |-> TRUE, run |-> e] : e \in RunExprs}

(* a smaller family for the set-level part: one dimension (or the run and one
   dimension) constrained at a time, plus a few fully constrained ones *)
SomeQueries ==
    {Query(r, {}, {}, {}, {}) : r \in RunChoices}
    \cup {Query(r, tg, {}, {}, {}) : r \in RunChoices, tg \in NameChoices("tg")}
    \cup {Query(Absent, {}, tk, al, {}) : tk \in NameChoices("tk"), al \in NameChoices("al")}
    \cup {Query(r, {}, {}, al, sv) : r \in {Absent, [hasrun |-> TRUE, run |-> <<RgItem(2, OPEN)>>]},
                                     al \in NameChoices("al"), sv \in NameChoices("sv")}
    \cup {Query(r, {"T1"}, {"k1", "k"}, {"a1"}, {"s1", "s2"}) : r \in RunChoices}

SubGrid == IF Quick THEN {x \in Grid : x.run \in {1, 2} /\ x.t = "T1" /\ x.k = "k1" /\ x.s = "s1"}          \*  8 entries
           ELSE {x \in Grid : x.run \in {1, 2, 3} /\ x.t = "T1" /\ (x.k = "k1" \/ x.a = "a1")}      \* 36 entries
SmallDbs == {{}} \cup {{x} : x \in SubGrid} \cup {{x, y} : x, y \in SubGrid}
BigDbs == { Grid,
            {x \in Grid : x.v = "v1"},
            {x \in Grid : x.run = 2},
            {x \in Grid : x.t = "T1" /\ x.k = "k1" /\ x.s = "s1"},
            {x \in Grid : x.run # 3 /\ x.a = "a1"},
            {x \in Grid : (x.run = 1 /\ x.t = "T2") \/ (x.run = 4 /\ x.k = "k2") \/ (x.run = 2 /\ x.v = "v2" /\ x.s = "s2")} }

(* single entries for b1: every run, both extremes of the name grid (the predicate is a
   conjunction of independent per-dimension tests) *)
B1Keys == IF Quick THEN {x \in Grid : x.v = "v1" /\ <<x.run, x.t, x.k, x.a, x.s>> \in {<<2, "T1", "k1", "a1", "s1">>, <<3, "T2", "k2", "a1b", "s2">>}}
          ELSE {x \in Grid : x.v = "v1" /\ <<x.t, x.k, x.a, x.s>> \in {<<"T1", "k1", "a1", "s1">>, <<"T2", "k2", "a1b", "s2">>}}

(* quick: 5 of the 7 name choices per dimension *)
NameChoicesMC(d) ==
    IF Quick THEN LET x == CHOOSE n \in DbNames[d] : TRUE
                      y == CHOOSE n \in DbNames[d] : n # x
                  IN {{}, {x}, {x, y}, {Unknown[d]}, {y, Unknown[d]}}
    ELSE NameChoices(d)

(* Two-level fan-out (root -> node -> leaf) so that TLC's workers share the leaves: the
   root has one successor per node, every node is expanded by whichever worker takes it.
   The sets are parameterised so that TLC does not evaluate them for the other Parts. *)
Nodes(p) ==
    CASE p = "a"  -> {[kind |-> "a_", pre |-> e] : e \in Exprs(1)}
      [] p = "b1" -> {[kind |-> "b1", db |-> {x}, bump |-> b, r |-> r] : x \in B1Keys, b \in (IF Quick THEN {TRUE} ELSE BOOLEAN), r \in RunChoices}
      [] p = "b2" -> {[kind |-> "b2", db |-> d, bump |-> b] : d \in SmallDbs, b \in (IF Quick THEN {FALSE} ELSE BOOLEAN)}   \* (quick: no run >= 3)
                     \cup {[kind |-> "b2", db |-> d, bump |-> b] : d \in BigDbs, b \in BOOLEAN}
Leaves(p, n) ==
    CASE p = "a"  -> IF n.pre = <<>> THEN {[kind |-> "a", e |-> <<>>]}
                     ELSE {[kind |-> "a", e |-> n.pre \o t] : t \in Exprs(MaxLen - 1)}
      [] p = "b1" -> {[kind |-> "b", db |-> n.db, bump |-> n.bump, q |-> Query(n.r, tg, tk, al, sv)] :
                         tg \in NameChoicesMC("tg"), tk \in NameChoicesMC("tk"), al \in NameChoicesMC("al"), sv \in NameChoicesMC("sv")}
      [] p = "b2" -> {[kind |-> "b", db |-> n.db, bump |-> n.bump, q |-> q] : q \in SomeQueries}

Parts == IF Part = "all" THEN {"a", "b1", "b2"} ELSE {Part}
Init == c = [kind |-> "root"]
Next == \/ c.kind = "root" /\ \E p \in Parts : c' \in Nodes(p)
        \/ c.kind \in {"a_", "b1", "b2"} /\ c' \in Leaves(IF c.kind = "a_" THEN "a" ELSE c.kind, c)
Spec == Init /\ [][Next]_vars

-----------------------------------------------------------------------------
(* LET: the index tables, the key list and the match set are computed once per state *)
C17_Scrub == c.kind = "a" => ScrubOK(c.e, Scrub(c.e))

C17_Find == c.kind = "b" =>
    LET T   == TablesOf(SetToSeq(c.db), c.bump)
        pks == ImplKeys(T, c.q)
        M   == Match(c.db, c.q)
    IN \A index \in PageIndex, limit \in PageLimit :
          LET r == ImplPage(T, pks, index, limit) IN FindOK(M, index, limit, r.items, r.total)

C17_Pages == c.kind = "b" =>
    LET T   == TablesOf(SetToSeq(c.db), c.bump)
        pks == ImplKeys(T, c.q)
        M   == Match(c.db, c.q)
    IN \A L \in PageLimit \ {NOLIMIT} :
          PagesOK(M, L, [i \in 1..NPages(M, L) |-> ImplPage(T, pks, (i - 1) * L, L).items])

C17_Facet == c.kind = "b" =>
    LET T   == TablesOf(SetToSeq(c.db), c.bump)
        pks == ImplKeys(T, c.q)
        M   == Match(c.db, c.q)
    IN \A d \in Dims : c.q[d] = {} => FacetOK(M, d, ImplFacetOf(T, pks, d))
=============================================================================
