SPECIFICATION Spec
CONSTANTS
  Pinned = FALSE
INVARIANT TypeOK
INVARIANT WalkAgrees
INVARIANT CmdAgrees
CHECK_DEADLOCK FALSE
