SPECIFICATION Spec
CONSTANTS
  Pinned = FALSE
INVARIANT TypeOK
INVARIANT WalkAgrees
CHECK_DEADLOCK FALSE
