------------------------------ MODULE Store_MC ------------------------------
(* Exhaustive runs of Store.  `out` (the last operation) is hidden from the fingerprint: the step
   clauses are action properties, which TLC evaluates on every transition, also those into states
   it has already seen; the state clauses do not mention `out`. *)
EXTENDS Store
Metric1  == <<"m">>
View     == <<tab, idx, prime, cur, ref, nops>>
V2       == {10000, 20000}
=============================================================================
