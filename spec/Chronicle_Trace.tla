--------------------------- MODULE Chronicle_Trace ---------------------------
(***************************************************************************)
(* Validation of traces recorded from the REAL chronicle.append / find and *)
(* fe.api.schedule.failed / succeeded (harness/chronicle_h.py).            *)
(*                                                                         *)
(* line 1 of a trace is "init" (files read back from the empty directory); *)
(* an "append" line carries the entry id and ALL journal files read back   *)
(* from disk after the call; a "find" / "api" line carries the arguments   *)
(* (instants; the zone the bounds were written in is recorded but is not   *)
(* part of the meaning of the query) and the returned entries (projected   *)
(* to entry ids; 0 = an entry that is not byte-for-byte one of the table). *)
(* A "stats" line is another reader of the history between two queries     *)
(* (the real fe.api.df_model_statistics; and after every find the harness  *)
(* scribbles on the entries it was handed - the caller's own copies): by   *)
(* the property it changes nothing, so the queries after it are judged by  *)
(* the same FindOK against the same `appended`.                            *)
(* Appends, queries and readers come in ANY order within one trace = one    *)
(* process life (module state of the real code lives on); a "reopen" line  *)
(* is a restart of the process (module state gone, files read back).       *)
(* TLC evaluates the property level of Chronicle on every line (CLAUSE     *)
(* rows, never aborting) and compares with the implementation-shaped       *)
(* operators (DRIFT rows, not an alarm).                                   *)
(***************************************************************************)
EXTENDS Chronicle_MC, Json, IOUtils, SequencesExt

Traces == ndJsonDeserialize(IOEnv.TRACE_FILE)

VARIABLES tid, l, bad, why, drift
tvars == <<vars, tid, l, bad, why, drift>>

Rec(t, i) == Traces[t].steps[i]

JOf(files) == LET S == ToSet(files) IN
              [f \in { <<x.day, x.run>> : x \in S } |-> (CHOOSE x \in S : <<x.day, x.run>> = f).ents]
QOf(a) == [after |-> a.after, before |-> a.before, limit |-> a.limit, ok |-> a.ok, now |-> a.now]

HeaderOK(t) == LET T == Traces[t].table IN
               /\ T.cal = Cal /\ T.tod = Tod /\ T.at = EntAt /\ T.run = EntRun /\ T.st = EntSt /\ T.zone = ZoneOff

TraceInit ==
    /\ tid \in 1..Len(Traces)
    /\ l = 1
    /\ journal = JOf(Rec(tid, 1).st.files)
    /\ appended = [e \in Ent |-> 0]
    /\ kind = "init" /\ q = NoQ /\ res = <<>>
    /\ bad = (IF Rec(tid, 1).ev = "init" /\ journal = <<>> THEN {} ELSE {"C18.AppendOnce"})
    /\ why = {} /\ drift = FALSE
    /\ (~HeaderOK(tid) => PrintT(<<"HEADER", Traces[tid].tid>>))
    /\ (bad # {} => PrintT(<<"CLAUSE", ToJson([tid |-> Traces[tid].tid, line |-> 1, ev |-> "init", bad |-> bad, why |-> {"not-empty"}])>>))

Step(r) ==
    CASE r.ev = "append" ->
           /\ journal' = JOf(r.st.files)
           /\ appended' = Plus(appended, r.args.e)
           /\ kind' = "append" /\ q' = NoQ /\ res' = <<>>
           /\ why' = (IF r.obs.err # "" THEN {"error"} ELSE {})
                     \cup (IF Foreign(journal') THEN {"foreign"} ELSE {})
                     \cup (IF \E e \in Ent : JBag(journal')[e] < Plus(JBag(journal), r.args.e)[e] THEN {"lost"} ELSE {})
                     \cup (IF \E e \in Ent : JBag(journal')[e] > Plus(JBag(journal), r.args.e)[e] THEN {"doubled"} ELSE {})
           /\ bad' = IF AppendOnce(journal, journal', r.args.e) /\ r.obs.err = "" THEN {} ELSE {"C18.AppendOnce"}
           /\ drift' = (journal' # AppendTo(journal, r.args.e))
      [] r.ev \in {"find", "api"} ->
           /\ UNCHANGED <<journal, appended>>
           /\ kind' = r.ev /\ q' = QOf(r.args) /\ res' = r.obs.res
           /\ why' = IF r.obs.err # "" THEN {"error"} ELSE FindBad(res', appended, q')
           /\ bad' = IF why' = {} THEN {} ELSE {IF r.ev = "find" THEN "C18.FindOK" ELSE "C18.ApiFindOK"}
           /\ drift' = LET m == IF r.ev = "find" THEN FindImpl(journal, q') ELSE ApiImpl(journal, q') IN
                       IF r.obs.err # "" THEN m # <<0>> ELSE m # res'
      [] r.ev \in {"stats", "reopen"} ->   \* another reader ran / the process was restarted (files read back after it): nothing may have changed
           /\ journal' = JOf(r.st.files)
           /\ UNCHANGED appended
           /\ kind' = "stats" /\ q' = NoQ /\ res' = <<>>
           /\ why' = (IF r.obs.err # "" THEN {"error"} ELSE {})
                     \cup (IF Foreign(journal') \/ JBag(journal') # JBag(journal) THEN {"files-changed"} ELSE {})
           /\ bad' = IF why' = {} THEN {} ELSE {"C18.ReadOnly"}
           /\ drift' = (journal' # journal)
      [] OTHER ->
           /\ UNCHANGED vars
           /\ why' = {"unknown-event"} /\ bad' = {"C18.AppendOnce"} /\ drift' = FALSE

TraceNext ==
    /\ l < Len(Traces[tid].steps)
    /\ l' = l + 1
    /\ UNCHANGED tid
    /\ LET r == Rec(tid, l + 1) IN
       /\ Step(r)
       /\ (bad' # {} => PrintT(<<"CLAUSE", ToJson([tid |-> Traces[tid].tid, line |-> l + 1, ev |-> r.ev, bad |-> bad', why |-> why'])>>))
       /\ (drift' => PrintT(<<"DRIFT", Traces[tid].tid, l + 1, r.ev>>))

TraceSpec == TraceInit /\ [][TraceNext]_tvars

TotalLines == FoldLeft(LAMBDA acc, t : acc + Len(t.steps), 0, Traces)
AllConsumed == /\ PrintT(<<"CONSUMED", TLCGet("distinct"), TotalLines>>)
               /\ TLCGet("distinct") = TotalLines
=============================================================================
