--------------------------- MODULE FrontEnd_Trace ---------------------------
(***************************************************************************)
(* Validation of records made on the REAL front end (harness/frontend_h.py)*)
(* against the property level of FrontEnd.                                 *)
(*                                                                         *)
(* A trace is a chunk of cases of one kind; one line per case:             *)
(*  Static  args = the request chosen by TLC (FrontEnd_Gen), obs[via] =    *)
(*          which files' marker bytes came back from                       *)
(*            via "static"  dawgie.fe._static(uri, bdir, isdep)            *)
(*            via "render"  StaticContent.render_GET(request)              *)
(*            via "http"    the request line fed to twisted.web.server.Site*)
(*                          over dawgie.fe.root() ("skip" without a        *)
(*                          leading slash)                                 *)
(*          The Jail clause looks only at whose bytes were returned; it    *)
(*          needs no model of path resolution.                             *)
(*  Access  args = the situation chosen by TLC, st = what the security     *)
(*          module really had configured, obs[via].ran = whether any       *)
(*          (stubbed) endpoint handler was invoked, obs[via].answers = the *)
(*          values the site hook really returned when it was consulted     *)
(*            via "render"  DynamicContent.render(request)                 *)
(*            via "http"    through Site / routing tree                    *)
(* A failing clause is printed, never aborts (verdicts are total);         *)
(* DRIFT = the real code disagrees with the implementation-shaped model.   *)
(***************************************************************************)
EXTENDS FrontEnd_MC

Traces == ndJsonDeserialize(IOEnv.TRACE_FILE)

VARIABLES tid, l, bad, drift
tvars == <<vars, tid, l, bad, drift>>

Rec(t, i) == Traces[t].steps[i]
FailClause(name, ok) == IF ok THEN {} ELSE {name}

StaticVias == {"static", "render", "http"}
AccessVias == {"render", "http"}

CaseOf(r) ==
    IF r.ev = "Static"
    THEN [k |-> "static", lead |-> r.args.lead, segs |-> r.args.segs, q |-> r.args.q]
    ELSE [k |-> "access", e |-> r.args.e, m |-> r.args.m,
          certs |-> r.st.clients > 0,            \* what security.clients() really held
          tr |-> r.args.tr, hook |-> r.args.hook]

Found(r, v) == ToSet(r.obs[v].found)
Done(r, v)  == r.obs[v].kind # "skip"

Clauses(r, x) ==
    IF r.ev = "Static" THEN
        FailClause("C19.Jail", \A v \in StaticVias : Jail(Found(r, v)))
        \cup
        FailClause("C19.StillServes",
                   (Plain(x) /\ RefServed(x) # {}) =>
                       \A v \in StaticVias : Done(r, v) => Found(r, v) = RefServed(x))
    ELSE
        FailClause("C19.NoCommandForStrangers",
                   (Stranger(x) /\ IsCommand(x.e)) => \A v \in AccessVias : ~r.obs[v].ran)
        \cup
        FailClause("C19.HookFailClosed",
                   HookFails(x) => \A v \in AccessVias : ~r.obs[v].ran)

Drifts(r, x) ==
    IF r.ev = "Static"
    THEN \E v \in StaticVias : Done(r, v) /\ Found(r, v) # ImplServed(x)
    ELSE \E v \in AccessVias : \/ r.obs[v].ran # ImplRan(x)
                                \/ (IsSite(x) /\ Routable(x.m) /\ ToSet(r.obs[v].answers) # {Answer(x)})
                                        \* the site hook was consulted and said what the model says

Check(t, i) ==
    LET r == Rec(t, i) IN
    /\ c' = CaseOf(r)
    /\ bad' = Clauses(r, c')
    /\ drift' = Drifts(r, c')
    /\ (bad' # {} => PrintT(<<"CLAUSE", Traces[t].tid, i, r.ev, bad'>>))
    /\ (drift' => PrintT(<<"DRIFT", Traces[t].tid, i, r.ev>>))

TraceInit ==
    /\ tid \in 1..Len(Traces)
    /\ l = 1
    /\ LET r == Rec(tid, 1) IN
       /\ c = CaseOf(r)
       /\ bad = Clauses(r, c)
       /\ drift = Drifts(r, c)
       /\ (bad # {} => PrintT(<<"CLAUSE", Traces[tid].tid, 1, r.ev, bad>>))
       /\ (drift => PrintT(<<"DRIFT", Traces[tid].tid, 1, r.ev>>))

TraceNext ==
    /\ l < Len(Traces[tid].steps)
    /\ l' = l + 1
    /\ UNCHANGED tid
    /\ Check(tid, l + 1)

TraceSpec == TraceInit /\ [][TraceNext]_tvars

TotalLines == FoldLeft(LAMBDA acc, t : acc + Len(t.steps), 0, Traces)
AllConsumed == /\ PrintT(<<"CONSUMED", TLCGet("distinct"), TotalLines>>)
               /\ TLCGet("distinct") = TotalLines
=============================================================================
