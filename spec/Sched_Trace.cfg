SPECIFICATION TraceSpec
CONSTANTS
  Alg = {"t0.a", "t1.b", "t2.c"}
  Targets = {"T1", "T2"}
  Programs = {}
  MaxRun = 1000000
  MaxReload = 1000000
  Pinned = FALSE
POSTCONDITION AllConsumed
CHECK_DEADLOCK FALSE
