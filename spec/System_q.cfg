SPECIFICATION Spec
CONSTANTS
  MaxRun = 2
  MaxSubmit = 2
  MaxCycle = 1
INVARIANT SYS_ExactlyOnce
INVARIANT SYS_ViewsTruthful
INVARIANT SYS_IdleMeansIdle
INVARIANT SYS_Rest
PROPERTY SYS_ReloadOnlyWhenTrulyAllowed
PROPERTY SYS_NoDispatchWhileInactive
CHECK_DEADLOCK FALSE
