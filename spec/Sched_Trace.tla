---------------------------- MODULE Sched_Trace ----------------------------
(***************************************************************************)
(* Validation of traces recorded from the REAL scheduler/farm code         *)
(* (harness/sched_h.py) against the property level of module Sched.        *)
(*                                                                         *)
(* Every line of the trace carries the projected abstract state after the  *)
(* event; the variables of Sched are bound to it, so every property-level  *)
(* formula of Sched is evaluated by TLC on the real code's steps.  A       *)
(* failing clause is reported (never aborts the run: verdicts are total).  *)
(* `drift` records whether the step is also a step of the                  *)
(* implementation-shaped Next of Sched (specification drift, not an alarm) *)
(***************************************************************************)
EXTENDS Sched, Json, IOUtils, SequencesExt

Traces == ndJsonDeserialize(IOEnv.TRACE_FILE)

VARIABLES tid, l, bad, drift, seen
tvars == <<vars, tid, l, bad, drift, seen>>

Count(s, P(_)) == Cardinality({ i \in DOMAIN s : P(s[i]) })

ProgOf(p) == WithClosure([ kind |-> [a \in Alg |-> p.kind[a]],
                           ins  |-> [a \in Alg |-> { <<q[1], q[2]>> : q \in ToSet(p.ins[a]) }],
                           vals |-> [a \in Alg |-> ToSet(p.vals[a])],
                           fb   |-> [a \in Alg |-> { <<q[1], q[2]>> : q \in ToSet(p.fb[a]) }] ])

Rec(t, i) == Traces[t].steps[i]

(* ground truth: task messages queued for placement or written to a worker and not yet answered *)
FlyOf(st)   == [u \in Alg \X Tg |->
                  Count(st.inflight, LAMBDA m : m.alg = u[1] /\ m.t = u[2])
                + Count(st.cluster,  LAMBDA m : m.alg = u[1] /\ m.t = u[2])]
StaleOf(st) == [u \in Alg \X Tg |-> Count(st.inflight, LAMBDA m : m.alg = u[1] /\ m.t = u[2] /\ m.stale)]
PlacedOf(st) == [u \in Alg \X Tg |-> Count(st.inflight, LAMBDA m : m.alg = u[1] /\ m.t = u[2] /\ ~m.stale)]
BusyOfSt(st) == [u \in Alg \X Tg |-> Count(st.busy, LAMBDA b : b = u[1] \o "[" \o u[2] \o "]")]

Bind(t, i) ==
    LET r == Rec(t, i) IN
    /\ prog'  = prog
    /\ todo'  = [a \in Alg |-> ToSet(r.st.todo[a])]
    /\ doing' = [a \in Alg |-> ToSet(r.st.doing[a])]
    /\ que'   = ToSet(r.st.que)
    /\ fly'   = FlyOf(r.st)
    /\ stale' = StaleOf(r.st)
    /\ hand'  = [a \in Alg |-> { x \in Tg : fly'[<<a, x>>] - stale'[<<a, x>>] > 0 }]
    /\ held'  = [a \in Alg |-> ToSet(r.st.held[a])]
    /\ faults' = IF r.ev = "TickFault" THEN faults + 1 ELSE faults
    /\ nrec'  = nrec + Len(r.obs.chron)
    /\ runs'  = IF r.ev = "Run" THEN runs + 1 ELSE runs
    /\ reloads' = IF r.ev = "Reload" THEN reloads + 1 ELSE reloads
    /\ ndrop' = IF r.ev = "Reply" /\ ~r.obs.reply[1].stale /\ Len(r.obs.chron) = 0 THEN ndrop + 1 ELSE ndrop

-----------------------------------------------------------------------------
(* property clauses, evaluated on the step <<previous line, line i>> *)

IsReply(r)   == r.ev = "Reply" /\ ~r.obs.reply[1].stale
FailClause(name, ok) == IF ok THEN {} ELSE {name}

StepClauses(p, r) ==
    LET x == IF r.ev = "Reply" THEN r.args.alg ELSE "" 
        t == IF r.ev = "Reply" THEN r.args.t ELSE ""
        N == IF r.ev = "Reply" THEN ToSet(r.args.new) ELSE {}
        out == IF r.ev = "Reply" THEN r.args.out ELSE ""
        C == IF r.ev = "Reply" THEN Consumers(x, N) ELSE {}
        units == Alg \X Tg
    IN
    \* ---- C01
    FailClause("C01.Release", \A a \in Alg, s \in Tg : ((Released(a, s) /\ s \notin held[a]) \/ Decided(a, s)) => ~Blocked(a, s))
    \cup
    \* ---- C03
    FailClause("C03.OneAtATime", \A u \in units : fly'[u] - stale'[u] <= 1)
    \cup
    FailClause("C03.ReplyRecorded",
               IsReply(r) => /\ Len(r.obs.chron) = 1
                             /\ r.obs.chron[1].alg = x /\ r.obs.chron[1].t = t /\ r.obs.chron[1].status = (IF out = "empty" THEN "success" ELSE out))
    \cup
    FailClause("C18.CompletedOnce",
               \* every completed unit of work is appended to the execution history exactly once with its outcome
               \* (the path Hand._res -> schedule.complete -> chronicle.append), and nothing else is
               /\ IsReply(r) => /\ Len(r.obs.chron) = 1
                                /\ r.obs.chron[1].alg = x /\ r.obs.chron[1].t = t
                                /\ r.obs.chron[1].status = (IF out = "empty" THEN "success" ELSE out)
               /\ ~IsReply(r) => Len(r.obs.chron) = 0)
    \cup
    FailClause("C03.NoSpuriousRecord", ~IsReply(r) => (r.ev = "Reply" \/ Len(r.obs.chron) = 0))
    \cup
    FailClause("C03.HandedOnce",
               /\ \A i \in DOMAIN r.obs.written : r.obs.written[i].msgid \notin seen
               /\ \A i, j \in DOMAIN r.obs.written : i # j => r.obs.written[i].msgid # r.obs.written[j].msgid)
    \cup
    FailClause("C03.StaysQueued",
               \* every task message created in this step was either written to exactly one worker or is still queued
               r.ev \in {"Tick", "TickFault"} =>
                 \A u \in units :
                    Count(r.st.cluster, LAMBDA m : m.alg = u[1] /\ m.t = u[2])
                      + Count(r.obs.written, LAMBDA m : m.alg = u[1] /\ m.t = u[2])
                    = Count(r.obs.put, LAMBDA m : m.alg = u[1] /\ m.t = u[2])
                      + Count(p.st.cluster, LAMBDA m : m.alg = u[1] /\ m.t = u[2]))
    \cup
    FailClause("C03.ReleasedWasPending", \A a \in Alg, s \in Tg : Released(a, s) => s \in todo[a] \cup held[a])
    \cup
    FailClause("C03.CrewView", \A u \in units : BusyOfSt(r.st)[u] = PlacedOf(r.st)[u])
    \cup
    FailClause("C03.Propagated",
               (IsReply(r) /\ IsOk(out)) =>
                  \A c \in C : Affected(c, t) \subseteq todo'[c])
    \cup
    \* ---- C02 (step part)
    FailClause("C02.Complete",
               (IsReply(r) /\ IsOk(out)) =>
                  \A c \in C : Affected(c, t) \subseteq todo'[c])
    \cup
    FailClause("C02.Minimal",
               (r.ev = "Reply" /\ IsOk(out)) => \A c \in Alg \ C : todo'[c] = todo[c])
    \cup
    FailClause("C02.OnlyReplyOrRequestAddsWork",
               (r.ev \notin {"Reply", "Run", "Reload"}) => \A a \in Alg : todo'[a] \subseteq todo[a])
    \cup
    \* ---- C04
    FailClause("C04.IdleEmpty",
               NothingPending' =>
                  /\ que' = {} /\ Len(r.st.view_todo) = 0 /\ Len(r.st.view_doing) = 0
                  /\ Len(r.st.busy) = 0 /\ r.st.crew_busy = 0)
    \cup
    FailClause("C04.Progress",
               (r.ev \in {"Tick", "TickFault"} /\ r.st.active /\ ~r.st.paused) =>
                  \A a \in Alg, s \in Tg : Eligible(a, s) => (Released(a, s) \/ (r.ev = "TickFault" /\ s \in held'[a])))
    \cup
    FailClause("C04.HeldFlushed",
               \* a dispatch pass that does not raise serves everything left over from one that did
               (r.ev = "Tick" /\ r.st.active /\ ~r.st.paused) => \A a \in Alg : held'[a] = {})
    \cup
    \* ---- C05
    FailClause("C05.Withdrawn",
               (IsReply(r) /\ ~IsOk(out)) => \A d \in Desc(x) : t \notin todo'[d])
    \cup
    FailClause("C05.Frame",
               (IsReply(r) /\ ~IsOk(out)) =>
                  \A a \in Alg, s \in Tg :
                     (a \notin (Desc(x) \cup {x}) \/ s # t) =>
                        /\ (s \in todo[a] <=> s \in todo'[a])
                        /\ ((s \in doing[a] <=> s \in doing'[a]) \/ (a = x /\ t = ALL))
                        /\ fly'[<<a, s>>] = fly[<<a, s>>])
    \cup
    FailClause("C05.NothingTriggered",
               (r.ev = "Reply" /\ ~IsOk(out)) =>
                  /\ \A a \in Alg : todo'[a] \subseteq todo[a]
                  /\ Len(r.obs.put) = 0 /\ Len(r.obs.written) = 0)
    \cup
    FailClause("C05.Recorded",
               (IsReply(r) /\ ~IsOk(out)) =>
                  /\ Len(r.obs.chron) = 1 /\ r.obs.chron[1].status = out
                  /\ r.obs.chron[1].alg = x /\ r.obs.chron[1].t = t)

(* is the recorded step a step of the implementation-shaped model? *)
ModelStep(r) ==
    CASE r.ev = "Run"   -> Run(ToSet(r.args.S), ToSet(r.args.T)) \/ UNCHANGED <<todo, doing, que, fly>>
      [] r.ev = "Tick"  -> Tick \/ (UNCHANGED <<todo, doing, que, fly, held>> /\ Cands = {})
      [] r.ev = "TickFault" -> (\E P \in SUBSET Cands : TickPut(P)) \/ (UNCHANGED <<todo, doing, que, fly, held>> /\ Cands = {})
      [] r.ev = "Reply" -> Reply(r.args.alg, r.args.t, r.args.out, ToSet(r.args.new), r.obs.reply[1].stale)
      [] r.ev = "Reload" -> Reload(ToSet(r.args.S))
      [] OTHER -> TRUE

-----------------------------------------------------------------------------
TraceInit ==
    /\ tid \in 1..Len(Traces)
    /\ l = 1
    /\ prog = ProgOf(Traces[tid].prog)
    /\ todo = [a \in Alg |-> ToSet(Rec(tid, 1).st.todo[a])]
    /\ doing = [a \in Alg |-> ToSet(Rec(tid, 1).st.doing[a])]
    /\ hand = [a \in Alg |-> {}]
    /\ held = [a \in Alg |-> {}] /\ faults = 0
    /\ que = ToSet(Rec(tid, 1).st.que)
    /\ fly = FlyOf(Rec(tid, 1).st) /\ stale = StaleOf(Rec(tid, 1).st)
    /\ nrec = 0 /\ ndrop = 0 /\ runs = 0 /\ reloads = 0
    /\ bad = {} /\ drift = FALSE /\ seen = {}

TraceNext ==
    /\ l < Len(Traces[tid].steps)
    /\ l' = l + 1
    /\ UNCHANGED tid
    /\ Bind(tid, l + 1)
    /\ LET r == Rec(tid, l + 1) IN
       /\ seen' = seen \cup { r.obs.written[i].msgid : i \in DOMAIN r.obs.written }
       /\ bad' = StepClauses(Rec(tid, l), r)
       /\ drift' = ~ModelStep(r)
       /\ (bad' # {} => PrintT(<<"CLAUSE", Traces[tid].tid, l + 1, r.ev, bad'>>))
       /\ (drift' => PrintT(<<"DRIFT", Traces[tid].tid, l + 1, r.ev>>))

TraceSpec == TraceInit /\ [][TraceNext]_tvars

TotalLines == FoldLeft(LAMBDA acc, t : acc + Len(t.steps), 0, Traces)
AllConsumed == /\ PrintT(<<"CONSUMED", TLCGet("distinct"), TotalLines>>)
               /\ TLCGet("distinct") = TotalLines
=============================================================================
