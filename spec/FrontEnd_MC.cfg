SPECIFICATION Spec
CONSTANTS
  MaxSegs = 4
  FullLeadSegs = 4
  Pinned = FALSE
  Endpoints <- RtEndpoints
  EpGET <- RtGET
  EpPOST <- RtPOST
  EpPUT <- RtPUT
  EpDEL <- RtDEL
  SiteHooks = {"site_bool", "site_none", "site_zero", "site_estr", "site_elist"}
INVARIANT C19_Jail
INVARIANT C19_StillServes
INVARIANT StaticConforms
INVARIANT RefJail
INVARIANT C19_NoCommandForStrangers
INVARIANT C19_HookFailClosed
INVARIANT AccessConforms
CHECK_DEADLOCK FALSE
