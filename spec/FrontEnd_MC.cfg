SPECIFICATION Spec
CONSTANTS
  MaxSegs = 4
  FullLeadSegs = 4
  Pinned = FALSE
  Endpoints <- RtEndpoints
  EpGET <- RtGET
  EpPOST <- RtPOST
  EpPUT <- RtPUT
  EpDEL <- RtDEL
INVARIANT C19_Jail
INVARIANT C19_StillServes
INVARIANT StaticConforms
INVARIANT RefJail
INVARIANT C19_NoCommandForStrangers
INVARIANT C19_HookFailClosed
CHECK_DEADLOCK FALSE
