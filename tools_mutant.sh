#!/bin/sh
# usage: tools_mutant.sh <patch file> <property id>...   -- applies the patch in a scratch worktree of /repo (never in /repo) and runs the checks on it
patch="$1"; shift
wt=/tmp/wt_mut_$$
git -C /repo worktree add -q --detach "$wt" HEAD || exit 2
if ! git -C "$wt" apply "$patch"; then echo "patch does not apply"; git -C /repo worktree remove --force "$wt"; exit 2; fi
rc=0
for id in "$@"; do
  VERIF_REPO_PY="$wt/Python" /verif/check "$id" --tier "${TIER:-quick}" > "/tmp/mut_$$_$id.log" 2>&1
  r=$?
  echo "$id exit=$r $(grep -c '^VIOLATION' /tmp/mut_$$_$id.log) violation lines; $(grep 'by clause' /tmp/mut_$$_$id.log)"
  tail -1 "/tmp/mut_$$_$id.log"
  [ $r -ne 0 ] && rc=$r
  rm -f "/tmp/mut_$$_$id.log"
done
git -C /repo worktree remove --force "$wt"
exit $rc
