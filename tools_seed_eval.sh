#!/bin/sh
# usage: tools_seed_eval.sh <seed dir containing patch.diff demo.py meta.json> <name> <property id>...
# 1. confirms the demonstration (exit 0 unchanged, non-zero changed) in a scratch worktree of /repo
# 2. runs the given checks against the changed worktree (VERIF_REPO_PY), records the outcome in /verif/seeded/<name>/
src="$1"; name="$2"; shift 2
wt=/tmp/wt_seed_$$
out=/verif/seeded/$name
mkdir -p "$out"
cp "$src/patch.diff" "$src/demo.py" "$src/meta.json" "$out/" 2>/dev/null
git -C /repo worktree add -q --detach "$wt" HEAD || exit 2
# the demos were written against their own worktree path: rewrite it
sed -e "s#/tmp/seed7/C[0-9][0-9]#$wt#g" -e "s#/tmp/seed[0-9]*_C[0-9]*#$wt#g" "$src/demo.py" > "$wt/_demo.py"
(cd "$wt" && PYTHONPATH="$wt/Python" timeout 600 /venv/bin/python _demo.py > /tmp/seed_demo_$$.log 2>&1); d0=$?
if ! git -C "$wt" apply "$src/patch.diff"; then echo "$name: patch does not apply"; git -C /repo worktree remove --force "$wt"; exit 2; fi
(cd "$wt" && PYTHONPATH="$wt/Python" timeout 600 /venv/bin/python _demo.py > /tmp/seed_demo_$$.log 2>&1); d1=$?
res="demo_unchanged=$d0 demo_changed=$d1"
for id in "$@"; do
  [ -f "/verif/evidence/$id.json" ] && cp "/verif/evidence/$id.json" "/tmp/seed_ev_$$_$id.json"   # the evidence file belongs to runs on /repo itself
  VERIF_REPO_PY="$wt/Python" /verif/check "$id" --tier "${TIER:-quick}" > "/tmp/seed_$$_$id.log" 2>&1
  r=$?
  cl=$(grep 'by clause' "/tmp/seed_$$_$id.log" | head -1)
  res="$res | $id exit=$r $cl"
  [ -f "/tmp/seed_ev_$$_$id.json" ] && mv "/tmp/seed_ev_$$_$id.json" "/verif/evidence/$id.json"
  cp "/tmp/seed_$$_$id.log" "$out/check_$id.log"
  rm -f "/tmp/seed_$$_$id.log"
done
echo "$name: $res" | tee "$out/result.txt"
rm -f /tmp/seed_demo_$$.log
git -C /repo worktree remove --force "$wt"
