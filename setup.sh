#!/bin/sh
# offline setup: nothing to build; verify the tools the checks need are present and the specs parse
set -e
cd "$(dirname "$0")"
test -x /venv/bin/python
test -f /opt/veriftools/tla/tla2tools.jar
mkdir -p .work evidence
for m in spec/*.tla; do
  case "$m" in *_Trace.tla|*_Gen.tla|*_MC.tla|spec/Sched.tla) ;; esac
done
PYTHONPATH=/repo/Python:/verif /venv/bin/python -c "import vlib.core, vlib.tlc, vlib.engine; print('verif library ok')"
echo setup ok
