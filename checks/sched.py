'''C01 C02 C03 C04 C05: scheduler / farm core (spec/Sched.tla).

 1. MC      exhaustive TLC run of the implementation-shaped model with the
            property-level invariants of the requested property
 2. GEN     every transition of a small instance (as the input schedule that
            reaches it) + simulated behaviours of a larger instance
 3. REPLAY  each schedule is executed on the real scheduler/farm code
            (harness/sched_h.py), one trace line per event
 4. TRACE   TLC validates the recorded traces against the property level
            (spec/Sched_Trace.tla); Python only counts and reports
'''

import json
import os
import random

from vlib import core, tlc

ALG3 = ['t0.a', 't1.b', 't2.c']
ALG4 = ['t0.a', 't1.b', 't2.c', 't3.d']
TARGETS = ['T1', 'T2']

MC_PROPS = {
    'C01': dict(invariants=['TypeOK'], properties=['C01_Release']),
    'C02': dict(invariants=['TypeOK', 'C03_NoDrop'], properties=['C02_Step']),
    'C03': dict(invariants=['C03_OneAtATime', 'C03_NoDrop'], properties=['C03_ReplyRecorded', 'C03_ReleasedWasPending', 'C02_Step']),
    'C04': dict(invariants=['C04_IdleEmpty', 'C04_Progress', 'C04_NoStuck'], properties=['C04_ProgressStep', 'C04_HeldFlushed']),
    'C05': dict(invariants=['TypeOK'], properties=['C05_Contained']),
}


def consts(algs, programs, maxrun, maxreload=0, pinned=False, targets=None, maxfault=0):
    return {
        'Alg': tlc.tla_set(algs),
        'Targets': tlc.tla_set(targets or TARGETS),
        'Programs': '<- ' + programs if programs else '{}',
        'MaxRun': str(maxrun),
        'MaxReload': str(maxreload),
        'MaxFault': str(maxfault),
        'Pinned': 'TRUE' if pinned else 'FALSE',
    }


def prog_to_desc(prog):
    '''TLC's program record -> engine descriptor.  Reference granularity is
    chosen so that all three kinds occur: all values of the source -> ALG_REF,
    otherwise V_REF per value; a single-value source referenced in full by an
    analysis/regress consumer -> SV_REF.'''
    pkgs = []
    for tag in sorted(prog['kind']):
        pkg, name = tag.split('.')
        vals = sorted(prog['vals'][tag])
        svs = {}
        for v in vals:
            s, n = v.split('.')
            svs.setdefault(s, []).append(n)
        refs = []
        by_src = {}
        for src, v in prog['ins'][tag]:
            by_src.setdefault(src, set()).add(v)
        for src, vs in sorted(by_src.items()):
            spkg, salg = src.split('.')
            allv = set(prog['vals'][src])
            if vs == allv:
                if prog['kind'][tag] != 'task' and len(allv) == 1:
                    s, n = sorted(vs)[0].split('.')
                    refs.append({'pkg': spkg, 'alg': salg, 'gran': 'sv', 'sv': s})
                else:
                    refs.append({'pkg': spkg, 'alg': salg, 'gran': 'alg'})
            else:
                for v in sorted(vs):
                    s, n = v.split('.')
                    refs.append({'pkg': spkg, 'alg': salg, 'gran': 'val', 'sv': s, 'val': n})
        pkgs.append(
            {
                'name': pkg,
                'algs': [
                    {
                        'name': name,
                        'kind': prog['kind'][tag],
                        'ver': [1, 0, 0],
                        'svs': [{'name': s, 'ver': [1, 0, 0], 'vals': [{'name': n, 'ver': [1, 0, 0]} for n in ns]} for s, ns in sorted(svs.items())],
                        # placement wish: a third of the algorithms ask for the cloud, a third for the cluster, the rest leave it open;
                        # without a cloud provider all of them must reach the cluster crew
                        **({'where': ('cloud', 'cluster')[sum(map(ord, tag)) % 3]} if sum(map(ord, tag)) % 3 < 2 else {}),
                        'refs': refs,
                        'feedback': [{'pkg': src.split('.')[0], 'alg': src.split('.')[1], 'gran': 'val', 'sv': v.split('.')[0], 'val': v.split('.')[1]} for src, v in sorted(prog.get('fb', {}).get(tag, []))],
                    }
                ],
            }
        )
    return {'base': 'vae', 'pkgs': pkgs}


def sched_to_events(h):
    evs = []
    for e in h:
        if e['ev'] == 'Run':
            evs.append({'ev': 'Run', 'S': sorted(e['S']), 'T': sorted(e['T'])})
        elif e['ev'] == 'Tick':
            evs.append({'ev': 'Tick'})
        elif e['ev'] == 'TickFault':
            evs.append({'ev': 'TickFault', 'k': int(e['k'])})
        elif e['ev'] == 'Reply':
            evs.append({'ev': 'Reply', 'alg': e['alg'], 't': e['t'], 'out': e['out'], 'new': sorted(e['new']), 'old': bool(e.get('old', False))})
        elif e['ev'] == 'Reload':
            evs.append({'ev': 'Reload', 'S': sorted(e['S'])})
    return evs


def parse_scheds(res, maximal_only=False):
    out = []
    for row in tlc.printed(res, 'SCHED'):
        out.append(json.loads(row[1]))
    if maximal_only:
        keep = []
        seen = set()
        for i, s in enumerate(out):
            if s['h'] and (i + 1 == len(out) or len(out[i + 1]['h']) <= len(s['h'])):
                k = json.dumps(s, sort_keys=True)
                if k not in seen:
                    seen.add(k)
                    keep.append(s)
        out = keep
    return out


def leaves(scheds):
    '''executing a schedule (every step is validated) covers all its prefixes: keep the maximal ones'''
    key = lambda prog, h: json.dumps([prog, h], sort_keys=True)
    parents = {key(s['prog'], s['h'][:-1]) for s in scheds}
    return [s for s in scheds if key(s['prog'], s['h']) not in parents]


def gen_schedules(chk, name, algs, programs, maxrun, maxreload, timeout=1800):
    cfg = os.path.join(chk.work, f'{name}.cfg')
    tlc.write_cfg(cfg, spec='GenSpec', constants=consts(algs, programs, maxrun, maxreload), extra=['VIEW View', 'ACTION_CONSTRAINT Emit'])
    res = tlc.run('Sched_Gen.tla', cfg, workers=1, timeout=timeout, out_file=os.path.join(chk.work, f'{name}.out'))
    if not res.ok:
        raise core.Machinery(f'generation {name} failed: {res.error or res.violated}')
    chk.mc_runs.append(dict(res.summary(), name=name, module='Sched_Gen.tla'))
    return parse_scheds(res)


def sampled_schedules(chk, name, algs, programs, maxrun, maxreload, rate, focus, timeout=1800, targets=None):
    '''BFS over a larger instance, every transition printed with probability 1/rate (uniform over transitions,
    so deep histories dominate -- unlike random walks); nondeterministic across runs (multi-worker BFS)'''
    cfg = os.path.join(chk.work, f'{name}.cfg')
    tlc.write_cfg(cfg, spec='GenSpecFocus' if focus else 'GenSpec', constants=consts(algs, programs, maxrun, maxreload, targets=targets), extra=['VIEW View', f'ACTION_CONSTRAINT EmitS{rate}'])
    res = tlc.run('Sched_Gen.tla', cfg, workers=core.NPROC, timeout=timeout, out_file=os.path.join(chk.work, f'{name}.out'))
    if not res.ok:
        raise core.Machinery(f'generation {name} failed: {res.error or res.violated}')
    chk.note(f'sampled export {name}: {res.distinct} distinct / {res.generated} generated, {res.wall:.1f}s')
    chk.mc_runs.append(dict(res.summary(), name=name, module='Sched_Gen.tla', mode=f'transitions sampled 1/{rate}'))
    chk.states += res.distinct
    chk.transitions += res.generated
    return parse_scheds(res)


def gen_focus_all(chk, programs, name='focus1t_all', maxrun=3, maxfault=0, spec='GenSpecFocus', targets=('T1',), constraint=None, maxreload=0):
    cfg = os.path.join(chk.work, f'{name}.cfg')
    tlc.write_cfg(cfg, spec=spec, constants=consts(ALG3, programs, maxrun, maxreload, targets=list(targets), maxfault=maxfault), extra=['VIEW View', 'ACTION_CONSTRAINT Emit'] + (['CONSTRAINT ' + constraint] if constraint else []))
    res = tlc.run('Sched_Gen.tla', cfg, workers=1, timeout=1800, out_file=os.path.join(chk.work, f'{name}.out'))
    if not res.ok:
        raise core.Machinery(f'generation {name} failed: {res.error or res.violated}')
    chk.mc_runs.append(dict(res.summary(), name=name, module='Sched_Gen.tla', mode='all transitions'))
    return parse_scheds(res)


def sim_schedules(chk, name, algs, programs, maxrun, maxreload, num, depth, seed, timeout=600):
    cfg = os.path.join(chk.work, f'{name}.cfg')
    tlc.write_cfg(cfg, spec='GenSpec', constants=consts(algs, programs, maxrun, maxreload), invariants=['SimInv'])
    res = tlc.run('Sched_Gen.tla', cfg, workers=1, simulate=f'num={num}', depth=depth, seed=seed, timeout=timeout, out_file=os.path.join(chk.work, f'{name}.out'))
    if res.error and 'Error:' in res.out and 'simulat' not in res.out.lower():
        raise core.Machinery(f'simulation {name} failed: {res.error}')
    chk.mc_runs.append(dict(res.summary(), name=name, module='Sched_Gen.tla', mode='simulate'))
    return parse_scheds(res, maximal_only=True)


def to_jobs(scheds, start=0):
    jobs = []
    for i, s in enumerate(scheds):
        jobs.append({'id': start + i, 'desc': prog_to_desc(s['prog']), 'targets': TARGETS, 'events': sched_to_events(s['h']), 'drain': True, 'same_names': (start + i) % 4 == 3})
    return jobs


def validate_and_collect(chk, pid, jobs_by_algs):
    '''jobs_by_algs: list of (algs, jobs). Runs harness + TLC trace validation; collects violations for pid.'''
    for algs, jobs in jobs_by_algs:
        if not jobs:
            continue
        files = chk.run_harness('sched_h', jobs)
        chk.traces += len(jobs)
        rows = chk.validate('Sched_Trace.tla', dict(spec='TraceSpec', constants=consts(algs, None, 10**6, 10**6, maxfault=10**6), extra=['POSTCONDITION AllConsumed']), files)
        byid = {j['id']: j for j in jobs}
        first_stale = {}  # trace id -> first line at which a reply of work released before a reload was delivered
        for fn in files:
            with open(fn) as f:
                for ln in f:
                    if '"stale": true' not in ln:
                        continue
                    t = json.loads(ln)
                    for i, st in enumerate(t['steps']):
                        if st['ev'] == 'Reply' and st['obs']['reply'] and st['obs']['reply'][0]['stale']:
                            first_stale[t['tid']] = i + 1
                            break
        for r in rows['DRIFT']:
            chk.drift += 1
            if len(chk.drift_samples) < 5:
                chk.drift_samples.append({'trace': r[1], 'line': r[2], 'ev': r[3]})
        for r in rows['CLAUSE']:
            _tag, tid, line, ev, bad = r
            for clause in sorted(bad['set']):
                if not clause.startswith(pid + '.') and not os.environ.get('VERIF_ALL_CLAUSES'):
                    continue
                job = byid[tid]
                kinds = [e['ev'] for e in job['events']]
                sig = ','.join(kinds[: line - 1]) if line - 1 <= len(kinds) else ','.join(kinds) + ',drain'
                if tid in first_stale and first_stale[tid] <= line:
                    sig = 'stale-reply-after-reload:' + sig
                chk.add_violation(clause, sig, {'trace': tid, 'line': line, 'event': ev}, {'job': job, 'line': line, 'algs': algs})


def timer_path(chk, pid, thorough, rnd):
    '''C04 on the timer path (schedule.periodics / defer / complete): the firing histories of spec/MomentFire.tla are
    replayed on the real code (half of them with units that store nothing) and clause C04.IdleEmpty of
    MomentFire_Trace.tla is evaluated: a node without pending or executing work is not in the work queue'''
    from checks import moment

    domain = moment.gen_domain(chk)
    moment.replay_b(chk, pid, rnd, domain[0], domain[2], None if thorough else 700, 3 if thorough else 2)


def rebumped(events):
    '''the source of some (algorithm, target) changes AGAIN after that unit has already executed once in this history:
    two run ids are alive for one target (known finding C02-rebump-older-runid)'''
    for i, e in enumerate(events):
        if e['ev'] != 'Bump':
            continue
        for j in range(i + 1, len(events)):
            if events[j]['ev'] == 'ExecReply' and events[j]['alg'] == e['alg'] and events[j]['t'] == e['t']:
                if any(x['ev'] == 'Bump' and x['alg'] == e['alg'] and x['t'] == e['t'] for x in events[j + 1 :]):
                    return True
                break
    return False


def data_plane(chk, pid, thorough, seed, rnd):
    '''C02 end-state part: spec/Sched_Data.tla (MC) + real scheduler with the abstract pure-function worker'''
    c = dict(consts(ALG3, 'Programs3Alg', 10), MaxBump='2' if thorough else '1')
    chk.mc('mc_data', 'Sched_Data.tla', dict(spec='DSpec', constants=c, invariants=['C02_EndState', 'C02_Justified', 'C02_NoneOwed']))
    if thorough:
        chk.mc('mc_data_val', 'Sched_Data.tla', dict(spec='DSpec', constants=dict(consts(ALG3, 'Programs3Val', 10), MaxBump='1'), invariants=['C02_EndState', 'C02_Justified', 'C02_NoneOwed']))

    def run_gen(name, consts_, sim=None):
        cfg = os.path.join(chk.work, f'{name}.cfg')
        if sim:
            tlc.write_cfg(cfg, spec='GenSpec', constants=consts_, invariants=['SimInv'])
            res = tlc.run('Sched_Data_Gen.tla', cfg, workers=1, simulate=f'num={sim[0]}', depth=sim[1], seed=seed, timeout=900, out_file=os.path.join(chk.work, f'{name}.out'))
        else:
            tlc.write_cfg(cfg, spec='GenSpec', constants=consts_, extra=['VIEW View', 'ACTION_CONSTRAINT Emit'])
            res = tlc.run('Sched_Data_Gen.tla', cfg, workers=1, timeout=1800, out_file=os.path.join(chk.work, f'{name}.out'))
            if not res.ok:
                raise core.Machinery(f'generation {name} failed: {res.error or res.violated}')
        chk.mc_runs.append(dict(res.summary(), name=name, module='Sched_Data_Gen.tla'))
        return parse_scheds(res, maximal_only=bool(sim))

    trans = run_gen('gen_data', dict(consts(ALG3, 'Programs3Alg', 10), MaxBump='1'))
    total = len(trans)
    if not thorough:
        rnd.shuffle(trans)
        trans = trans[:1000]
    sim = run_gen('sim_data', dict(consts(ALG3, 'Programs3Val', 10), MaxBump='3'), sim=(2000 if thorough else 200, 30))
    jobs = []
    for s in trans + sim:
        evs = []
        for e in s['h']:
            e = dict(e)
            if 'N' in e:
                e['N'] = sorted(e['N'])
            evs.append(e)
        jobs.append({'id': len(jobs), 'desc': prog_to_desc(s['prog']), 'targets': TARGETS, 'events': evs})
    files = chk.run_harness('data_h', jobs)
    chk.traces += len(jobs)
    rows = chk.validate('Sched_Data_Trace.tla', dict(spec='TraceSpec', constants=dict(consts(ALG3, None, 10**6, 10**6), MaxBump='1000000'), extra=['POSTCONDITION AllConsumed']), files, tags=('CLAUSE', 'CONSUMED'))
    byid = {j['id']: j for j in jobs}
    for _tag, tid, line, ev, bad in rows['CLAUSE']:
        for clause in sorted(bad['set']):
            if clause.startswith(pid + '.'):
                job = byid[tid]
                kinds = [e['ev'] for e in job['events']]
                sig = 'data:' + (','.join(kinds[: line - 1]) if line - 1 <= len(kinds) else ','.join(kinds) + ',drain')
                chk.add_violation(clause, sig, {'trace': tid, 'line': line, 'event': ev}, {'data_job': job, 'line': line})
    # ---- the same property through the REAL data path: real worker code + real shelve store (task-only programs)
    e2e = run_gen('gen_e2e', dict(consts(ALG3, 'Programs3Task', 10), MaxBump='2' if thorough else '1'))
    e2e_total = len(e2e)
    rnd.shuffle(e2e)
    e2e = e2e[: 4000 if thorough else 120]
    e2e += run_gen('sim_e2e', dict(consts(ALG3, 'Programs3Task', 10), MaxBump='3'), sim=(600 if thorough else 25, 30))
    ejobs = []
    for s in e2e:
        evs = []
        for e in s['h']:
            e = dict(e)
            if 'N' in e:
                e['N'] = sorted(e['N'])
            evs.append(e)
        ejobs.append({'id': len(ejobs), 'desc': prog_to_desc(s['prog']), 'targets': TARGETS, 'events': evs, 'real_digest': len(ejobs) % 60 == 0})
    efiles = chk.run_harness('e2e_h', ejobs)
    chk.traces += len(ejobs)
    erows = chk.validate('Sched_Data_Trace.tla', dict(spec='TraceSpec', constants=dict(consts(ALG3, None, 10**6, 10**6), MaxBump='1000000'), extra=['POSTCONDITION AllConsumed']), efiles, tags=('CLAUSE', 'CONSUMED'), name='Sched_Data_Trace_e2e')
    ebyid = {j['id']: j for j in ejobs}
    for _tag, tid, line, ev, bad in erows['CLAUSE']:
        for clause in sorted(bad['set']):
            if clause.startswith(pid + '.'):
                job = ebyid[tid]
                kinds = [e['ev'] for e in job['events']]
                sig = ('e2e-rebump:' if rebumped(job['events']) else 'e2e:') + (','.join(kinds[: line - 1]) if line - 1 <= len(kinds) else ','.join(kinds) + ',drain')
                chk.add_violation(clause, sig, {'trace': tid, 'line': line, 'event': ev}, {'e2e_job': job, 'line': line})
    # ---- and through the REAL worker entry point worker.cluster.execute() over in-memory sockets (register, wait, task,
    #      status poll, response) -- a prefix of the same schedules
    # (the worker takes whichever unit the farm hands it and the farm dispatches inside the call: the event-by-event
    #  reading of Sched_Data_Trace holds for histories with ONE source change; those are the ones replayed this way)
    single = [j for j in ejobs if sum(1 for e in j['events'] if e['ev'] == 'Bump') <= 1]
    pjobs = [dict(j, id=i) for i, j in enumerate(single[: 1500 if thorough else 60])]
    pfiles = chk.run_harness('proto_h', pjobs)
    chk.traces += len(pjobs)
    prows = chk.validate('Sched_Data_Trace.tla', dict(spec='TraceSpec', constants=dict(consts(ALG3, None, 10**6, 10**6), MaxBump='1000000'), extra=['POSTCONDITION AllConsumed']), pfiles, tags=('CLAUSE', 'CONSUMED'), name='Sched_Data_Trace_proto')
    for _tag, tid, line, ev, bad in prows['CLAUSE']:
        for clause in sorted(bad['set']):
            if clause.startswith(pid + '.'):
                job = pjobs[tid]
                chk.add_violation(clause, 'proto:' + ','.join(e['ev'] for e in job['events']), {'trace': tid, 'line': line, 'event': ev}, {'proto_job': job, 'line': line})
    nproto = 0
    for fn in pfiles:
        with open(fn) as f:
            for ln in f:
                nproto += sum(1 for st in json.loads(ln)['steps'] if st['ev'] == 'ExecReply')
    chk.counters.update(real_worker_process_runs=nproto)
    nreal = 0
    for fn in efiles:
        with open(fn) as f:
            for ln in f:
                nreal += sum(1 for st in json.loads(ln)['steps'] if st['ev'] == 'ExecReply')
    chk.counters.update(e2e_transitions=e2e_total, e2e_schedules=len(ejobs), e2e_real_worker_executions=nreal)
    nexec = 0
    for fn in files:
        with open(fn) as f:
            for ln in f:
                nexec += sum(1 for st in json.loads(ln)['steps'] if st['ev'] == 'ExecReply')
    chk.counters.update(data_plane_transitions=total, data_plane_schedules=len(jobs), data_plane_executions=nexec)
    chk.samples.append({'data_plane_events': jobs[0]['events']})


def nontrivial(jobs):
    '''distinct schedules that release at least one unit and apply at least one reply'''
    seen = set()
    for j in jobs:
        kinds = [e['ev'] for e in j['events']]
        if 'Tick' in kinds and 'Reply' in kinds:
            seen.add(json.dumps([j['desc'], j['events']], sort_keys=True))
    return len(seen)


def run(pid, tier, seed, replay=None):
    chk = core.Check(pid, tier, seed)
    rnd = random.Random(seed)
    if replay:
        with open(replay) as f:
            rp = json.load(f)['replay']
        if 'data_job' in rp or 'e2e_job' in rp or 'proto_job' in rp:
            files = chk.run_harness('data_h', [rp['data_job']]) if 'data_job' in rp else chk.run_harness('e2e_h', [rp['e2e_job']]) if 'e2e_job' in rp else chk.run_harness('proto_h', [rp['proto_job']])
            rows = chk.validate('Sched_Data_Trace.tla', dict(spec='TraceSpec', constants=dict(consts(ALG3, None, 10**6, 10**6), MaxBump='1000000'), extra=['POSTCONDITION AllConsumed']), files, tags=('CLAUSE', 'CONSUMED'))
            for _tag, tid, line, ev, bad in rows['CLAUSE']:
                for clause in sorted(bad['set']):
                    if clause.startswith(pid + '.'):
                        chk.add_violation(clause, 'replay', {'line': line, 'event': ev}, rp)
            chk.traces = 1
            return chk.finish('replay of one recorded data-plane schedule')
        validate_and_collect(chk, pid, [(rp['algs'], [rp['job']])])
        return chk.finish('replay of one recorded schedule')
    thorough = tier == 'thorough'
    # 1. MC
    props = MC_PROPS[pid]
    chk.mc('mc3', 'Sched_MC.tla', dict(spec='Spec', constants=consts(ALG3, 'Programs3Alg', 3 if thorough else 2), **props))
    chk.mc('mc3fb', 'Sched_MC.tla', dict(spec='Spec', constants=consts(ALG3, 'Programs3Fb', 2 if thorough else 1), extra=['CONSTRAINT RecBound'], **props))
    if thorough:
        chk.mc('mc3self', 'Sched_MC.tla', dict(spec='Spec', constants=consts(ALG3, 'Programs3Self', 2), **props))
        chk.mc('mc3fault', 'Sched_MC.tla', dict(spec='Spec', constants=consts(ALG3, 'Programs3Alg', 2, maxfault=1), **props))
        chk.mc('mc3val', 'Sched_MC.tla', dict(spec='Spec', constants=consts(ALG3, 'Programs3Val', 2), **props))
        chk.mc('mc3reload', 'Sched_MC.tla', dict(spec='Spec', constants=consts(ALG3, 'Programs3Alg', 1, 1), **{k: [x for x in v if x != 'C03_NoDrop' or True] for k, v in props.items()}))
    # 2. GEN
    scheds = gen_schedules(chk, 'gen3', ALG3, 'Programs3Alg', 1, 0)
    total_transitions = len(scheds)
    scheds = leaves(scheds)
    if not thorough:
        rnd.shuffle(scheds)
        scheds = scheds[:1200]
    # deep histories (3 requests, one target): EVERY transition of 3 (quick) / 9 (thorough) focus programs ...
    focus = gen_focus_all(chk, 'Programs3Focus' if thorough else 'Programs3Quick')
    total_focus = len(focus)
    focus = leaves(focus)
    # dispatch passes cut short by an exception (the code expects rerunid()/the database to throw): every transition of
    # the 2-request instance with one (quick) / two (thorough) such passes, maximal histories only
    faulty = leaves(gen_focus_all(chk, 'Programs3Focus' if thorough else 'Programs3Quick', name='fault1t_all', maxrun=2, maxfault=2 if thorough else 1))
    faulty += leaves(gen_focus_all(chk, 'Programs3Fault', name='fault1t_mixed', maxrun=2, maxfault=2 if thorough else 1))
    # an algorithm that reads its own earlier output (accumulator): no ordering edge to itself, it must still be released
    selfs = leaves(gen_focus_all(chk, 'Programs3Self', name='self1t_all', maxrun=2))
    chk.counters['self_reading_histories'] = len(selfs)
    if not thorough:
        rnd.shuffle(selfs)
        selfs = selfs[:300] if pid == 'C02' else selfs[:900]
    focus += selfs
    # feedback declarations: a new fed-back value re-schedules its declarer (schedule.update "following feedback loop");
    # the loop goes on for as long as the value keeps changing, bounded here by the number of completions
    fbs = leaves(gen_focus_all(chk, 'Programs3Fb', name='fb1t_all', maxrun=2 if thorough else 1, constraint='RecBound'))
    chk.counters['feedback_histories'] = len(fbs)
    focus += fbs
    # two targets, three requests on the chain a -> b -> c with lean replies (nothing new / failure): release, withdrawal
    # and late results interleaved across targets; every maximal history (thorough) or a stratified sample (quick)
    lean = leaves(gen_focus_all(chk, 'ProgramsChain', name='lean2t_all', maxrun=3, spec='GenSpecLean', targets=TARGETS))
    chk.counters['lean_two_target_histories'] = len(lean)
    if not thorough:
        rnd.shuffle(lean)
        fails = [s for s in lean if any(e['ev'] == 'Reply' and e['out'] == 'failure' for e in s['h'])]
        lean = fails[:1400] + [s for s in lean if not any(e['ev'] == 'Reply' and e['out'] == 'failure' for e in s['h'])][:300]
    # ... and a (re)load after such a pass: what the pass left behind belongs to the old load (farm.clear())
    fr = leaves(gen_focus_all(chk, 'Programs3Focus' if thorough else 'ProgramsChain', name='faultreload1t', maxrun=2, maxfault=1, maxreload=1))
    fr = [s for s in fr if [e['ev'] for e in s['h']].count('TickFault') and 'Reload' in [e['ev'] for e in s['h']] and [e['ev'] for e in s['h']].index('TickFault') < [e['ev'] for e in s['h']].index('Reload')]
    chk.counters['histories_with_a_reload_after_a_dispatch_fault'] = len(fr)
    if not thorough:
        rnd.shuffle(fr)
        fr = fr[:300] if pid == 'C02' else fr[:900]
    focus += fr
    if not thorough:
        rnd.shuffle(faulty)
        faulty = [s for s in faulty if any(e['ev'] == 'TickFault' for e in s['h'])][:2200]
        if pid == 'C02':
            # the quick tier of C02 spends its time on the data plane (end state through the real worker and store);
            # the withdrawal / fault instances address C01, C03, C04, C05 and run for C02 in the thorough tier
            lean, faulty = lean[:300], faulty[:300]
    focus += lean
    chk.counters['schedules_with_a_dispatch_fault'] = sum(1 for s in faulty if any(e['ev'] == 'TickFault' for e in s['h']))
    focus += faulty
    # ... and two targets, sampled
    if thorough:
        focus += sampled_schedules(chk, 'focus3', ALG3, 'Programs3Focus', 3, 0, 100, True)
    sim3 = sim_schedules(chk, 'sim3', ALG3, 'Programs3Val', 3, 1, 3000, 16, seed) if thorough else []
    if thorough:
        focus += sampled_schedules(chk, 'full2', ALG3, 'Programs3Alg', 2, 0, 250, False)
    sim4 = sim_schedules(chk, 'sim4', ALG4, 'Programs4Alg', 3, 1, 3000 if thorough else 400, 18, seed + 1)
    jobs3 = to_jobs(scheds + focus + sim3)
    jobs4 = to_jobs(sim4, start=len(jobs3))
    chk.samples = [{'algs': ALG3, 'events': j['events']} for j in rnd.sample(jobs3, min(3, len(jobs3)))] + [{'algs': ALG4, 'events': j['events']} for j in jobs4[:1]]
    # 3+4
    validate_and_collect(chk, pid, [(ALG3, jobs3), (ALG4, jobs4)])
    if pid == 'C02':
        data_plane(chk, pid, thorough, seed, rnd)
    if pid == 'C04':
        timer_path(chk, pid, thorough, rnd)
    if pid == 'C03':
        # worker scarcity: released units that wait in the farm for a worker, composed with the life cycle (spec/System.tla)
        from checks import life

        life.scarcity(chk, pid, thorough, rnd)
    chk.counters.update(
        transitions_of_gen_instance=total_transitions,
        transitions_replayed=len(scheds),
        sim_behaviours=len(sim3) + len(sim4),
        sampled_deep_transitions=len(focus),
        transitions_of_focus_instance=total_focus,
        distinct_nontrivial=nontrivial(jobs3 + jobs4),
    )
    chk.assumptions = [
        'bounded model: 3 algorithms exhaustively (4 in simulation), 2 targets + all-targets marker, 2-3 external requests',
        'reactor callbacks are atomic (Twisted); workers, database (targets/next run id) and life-cycle bits are environment stubs',
        'ground truth of executing work = task messages decoded from the bytes written to fake worker transports',
    ]
    return chk.finish(
        'schedules = every transition of the 3-algorithm/1-request instance (sampled in quick) as the input sequence reaching it, plus '
        'simulated behaviours of larger instances; each is executed on the real schedule/farm/dag code and the recorded trace validated by TLC. '
        'non-trivial = schedule releases work and applies at least one reply; distinct by (program, event sequence)'
    )


if __name__ == '__main__':
    core.main(run)
