'''C20: timer events are computable, land on their moment, and keep recurring
(spec/Moment.tla, spec/MomentFire.tla).

 (a) time to event
   1. MC     the transcription of schedule._delay satisfies Computable / Lands /
             NotFurther for every specification at every clock instant of the
             bounded calendar (Moment_MC); the pinned transcription must not
   2. GEN    TLC prints the factors of the input space (specifications, days
             with their calendar dates, times of day) and every SHAPE of
             dawgie.MOMENT (fields absent / well typed / ill typed) with the
             model's WellFormed                                 (Moment_Gen)
   3. REPLAY the real _delay runs under an injected clock for the product
             (sampled in quick) plus seeded random instants; every shape is
             offered to the REAL rule_10 and the accepted ones run through the
             real _delay as well: the domain of the property is the rule's
                                                             (harness/moment_h)
   4. TRACE  TLC evaluates the three clauses on every record   (Moment_Trace)
 (b) firing
   1. MC     implementation-shaped model of periodics/defer/dispatch/complete
             (Fire = "rearm": the repaired defer of fixes/C20_rearm.patch;
             "pinned": finding 11) on the virtual clock with the property-level
             invariants; the pinned variant must violate Armed, the repaired
             one must reach a second firing
   2. GEN    every transition of the bounded instance as the input schedule
             reaching it                                     (MomentFire_Gen)
   3. REPLAY each schedule runs on the real schedule/farm code, then drains and
             advances a week and a month with the monitors on
   4. TRACE  FireTargets, BootFires, BootOnce, Armed, Recurs, Once, CatchUp on
             every step, per node
   5. LATE   the environment may run a wake-up later than the firing window
             (LateTick, also in 2.) and, in a guided instance that starts 8
             minutes before a moment, hold the pipeline (Pause / Unpause: the
             passes only poll) while the clock moves past the moment: no
             occurrence is skipped while the pipeline stays up (CatchUp)
                                                            (MomentFire_Trace)
Python only materialises TLC's choices, projects, counts and reports.
'''

import json
import os
import random

from vlib import core, tlc

VARIANT = os.environ.get('VERIF_C20_VARIANT', 'fixed')  # which transcription of _delay the tree is expected to match (drift only)
FIRE = os.environ.get('VERIF_C20_FIRE', 'rearm')  # which transcription of schedule.defer: "rearm" (fixes/C20_rearm.patch) | "pinned"


def q(s):
    return json.dumps(s)


# --------------------------------------------------------------------- part (a)
def gen_domain(chk):
    cfg = os.path.join(chk.work, 'genA.cfg')
    tlc.write_cfg(cfg, spec='GenSpec', constants={'Variant': q(VARIANT)})
    res = tlc.run('Moment_Gen.tla', cfg, workers=1, timeout=600)
    if not res.ok:
        raise core.Machinery(f'Moment_Gen failed: {res.error or res.violated}')
    chk.mc_runs.append(dict(res.summary(), name='genA', module='Moment_Gen.tla'))
    epoch = tlc.printed(res, 'EPOCH')[0][1:4]
    specs = [{'k': r[1], 'n': r[2], 't': r[3], 'date': r[4:7]} for r in tlc.printed(res, 'SPEC')]
    days = [{'i': r[1], 'ymd': r[2:5], 'wd': r[5], 'edge': r[6]} for r in tlc.printed(res, 'DAY')]
    tods = sorted(r[1] for r in tlc.printed(res, 'TOD'))
    fields = ('boot', 'day', 'dom', 'dow', 'time')
    SHAPES['shapes'] = [{'shape': dict(zip(fields, r[1:6])), 'wellformed': r[6]} for r in tlc.printed(res, 'SHAPE')]
    v = tlc.printed(res, 'SHAPEVALUES')[0]
    SHAPES['values'] = {'dow': v[1], 'dom': v[2], 'day': v[3:6], 'time': v[6]}
    if not specs or not days or not tods or not SHAPES['shapes']:
        raise core.Machinery('Moment_Gen printed an empty domain')
    return epoch, specs, days, tods


SHAPES = {}  # the shapes of dawgie.MOMENT printed by Moment_Gen (with the model's WellFormed, for counting only)


def shape_jobs(epoch, instants, start):
    '''every shape of MOMENT is offered to the real rule_10; an accepted one is evaluated at the given instants'''
    return [
        {'id': start + i, 'mode': 'shape', 'epoch': epoch, 'shape': sh['shape'], 'spec': {'k': 'shape', 'n': 0, 't': 0}, 'values': SHAPES['values'], 'nows': instants}
        for i, sh in enumerate(SHAPES['shapes'])
    ]


def delay_jobs(epoch, specs, instants, extras, block):
    jobs = []
    for s in specs:
        nows = sorted(set(instants) | set(extras))
        for b in range(0, len(nows), block):
            jobs.append({'id': len(jobs), 'mode': 'delay', 'epoch': epoch, 'spec': s, 'nows': nows[b : b + block]})
    return jobs


def sig_a(clause, spec, rec):
    if spec['k'] == 'shape':
        return 'shape-accepted-by-rule_10:' + (rec['obs']['exc'] or clause)
    if clause == 'C20.Computable':
        return f'{spec["k"]}:{rec["obs"]["exc"]}'
    if clause == 'C20.NotFurther':
        return f'{spec["k"]}:designates-an-occurrence-after-the-next-one'
    return f'{spec["k"]}:designated-instant-does-not-match-the-specification'


def collect_a(chk, pid, jobs, files):
    rows = chk.validate(
        'Moment_Trace.tla',
        dict(spec='TraceSpec', constants={'Variant': q(VARIANT)}, extra=['POSTCONDITION AllConsumed']),
        files,
        tags=('CLAUSE', 'DRIFT', 'CONSUMED', 'CALBAD', 'ACCEPT'),
    )
    if rows['CALBAD']:
        raise core.Machinery(f'harness clock and specification calendar disagree: {rows["CALBAD"][:3]}')
    byid = {j['id']: j for j in jobs}
    need = {r[1] for r in rows['CLAUSE']} | {r[1] for r in rows['DRIFT'][:5]}
    traces = {}
    n_rec = n_nontrivial = n_unaccepted = 0
    shapes = {'offered': 0, 'accepted': 0, 'accepted_records': 0}
    for fn in files:
        with open(fn) as f:
            for ln in f:
                t = json.loads(ln)
                if t['mode'] == 'shape':
                    shapes['offered'] += 1
                    shapes['accepted'] += 1 if t['acc'] else 0
                    shapes['accepted_records'] += len(t['steps']) - 1
                    if t['tid'] in need:
                        traces[t['tid']] = t
                    continue
                if not t['acc']:
                    n_unaccepted += 1
                    continue
                for st in t['steps'][1:]:
                    n_rec += 1
                    if not st['obs']['ok'] or st['obs']['d'] != 0:
                        n_nontrivial += 1
                if t['tid'] in need:
                    traces[t['tid']] = t
    for r in rows['DRIFT']:
        chk.drift += 1
        if len(chk.drift_samples) < 5:
            t = traces.get(r[1])
            chk.drift_samples.append({'trace': r[1], 'line': r[2], 'spec': byid[r[1]]['spec'], 'record': t['steps'][r[2] - 1] if t else None})
    for r in rows['ACCEPT']:  # the real rule and the model's WellFormed disagree about a shape: drift, not an alarm
        chk.drift += 1
        if len(chk.drift_samples) < 5:
            chk.drift_samples.append({'trace': r[1], 'shape': byid[r[1]].get('shape'), 'rule_10_accepts': r[2], 'model_wellformed': r[3]})
    for _tag, tid, line, _ev, bad in rows['CLAUSE']:
        job = byid[tid]
        rec = traces[tid]['steps'][line - 1]
        for clause in sorted(bad['set']):
            if clause.startswith(pid + '.'):
                one = dict(job, nows=[rec['args']['now']])
                what = {'shape': job['shape']} if job['mode'] == 'shape' else {'spec': job['spec']}
                chk.add_violation(clause, sig_a(clause, job['spec'], rec), dict(what, now=rec['args'], result=rec['obs']), {'mode': job['mode'], 'job': one})
    if shapes['offered']:
        if shapes['accepted'] == 0 and shapes['offered'] > 1:
            raise core.Machinery('rule_10 accepts no shape of MOMENT at all: the domain of the property is empty')
        chk.counters.update(moment_shapes_offered_to_rule_10=shapes['offered'], moment_shapes_accepted=shapes['accepted'], shape_delay_records_validated=shapes['accepted_records'], rule_10_vs_wellformed_disagreements=len(rows['ACCEPT']))
    return n_rec, n_nontrivial, n_unaccepted


def part_a(chk, pid, thorough, rnd, domain):
    inv = ['C20_Computable', 'C20_Lands', 'C20_NotFurther', 'DomainSane']
    epoch, specs, days, tods = domain
    res = chk.mc('mcA', 'Moment_MC.tla', dict(spec='MCSpec', constants={'Variant': q('fixed'), 'Days': '<- AllNowDays' if thorough else '<- QuickDays'}, invariants=inv), workers=core.NPROC if thorough else 4)
    chk.counters['delay_evaluations_in_model'] = res.distinct // (len(specs) + 1) * len(specs) * len(tods)
    if thorough:
        # the pinned transcription (snapshot commit) must violate: the model tells the two apart
        pin = chk.mc('mcA_pinned', 'Moment_MC.tla', dict(spec='MCSpec', constants={'Variant': q('pinned'), 'Days': '<- LeapYearDays'}, invariants=inv), workers=4, expect_ok=False)
        if pin.ok:
            raise core.Machinery('the pinned transcription of _delay satisfies the clauses: the model cannot tell the defect')
        chk.states -= pin.distinct
        chk.transitions -= pin.generated
    return replay_a(chk, pid, rnd, domain, None if thorough else 24, 400 if thorough else 32)


def replay_a(chk, pid, rnd, domain, ndays, nextra):
    '''ndays None: every day of the domain; else the month boundaries + ndays seeded days'''
    epoch, specs, days, tods = domain
    horizon = len(days) * 86400
    if ndays is None:
        use = days
    else:
        edge = [d for d in days if d['edge']]
        rest = [d for d in days if not d['edge']]
        use = edge + rnd.sample(rest, ndays)
    extras = [rnd.randrange(horizon) for _ in range(nextra)]
    instants = [d['i'] * 86400 + t for d in use for t in tods]
    jobs = delay_jobs(epoch, specs, instants, extras, block=1200)
    # the domain of the property from the real compliance rule: all shapes of MOMENT at a spread of the instants
    some = sorted(set(instants))
    jobs += shape_jobs(epoch, some[:: max(1, len(some) // (48 if ndays is None else 16))], len(jobs))
    files = chk.run_harness('moment_h', jobs)
    chk.traces += len(jobs)
    n_rec, n_nontrivial, n_unacc = collect_a(chk, pid, jobs, files)
    if n_rec == 0:
        raise core.Machinery('no _delay record was produced (no specification accepted?)')
    chk.counters.update(
        specifications=len(specs),
        specifications_rejected_by_rule_10=n_unacc,
        instants_per_specification=len(set(instants) | set(extras)),
        instants_of_the_domain=len(days) * len(tods),
        delay_records_validated=n_rec,
        delay_records_nontrivial=n_nontrivial,
    )
    chk.samples.append({'part': 'a', 'spec': jobs[0]['spec'], 'first_instants': jobs[0]['nows'][:3]})
    return n_nontrivial


# --------------------------------------------------------------------- part (b)
def consts_b(configs, maxenv, fire=FIRE):
    if configs is None:  # trace validation: the configuration comes from the trace
        return {'Variant': q(VARIANT), 'Fire': q(fire), 'Configs': '{}', 'MaxEnv': str(maxenv), 'Jumps': '{}', 'LateJumps': '{}', 'Lates': '{}'}
    return {'Variant': q(VARIANT), 'Fire': q(fire), 'Configs': '<- ' + configs, 'MaxEnv': str(maxenv), 'Jumps': '<- JumpsStd', 'LateJumps': '<- JumpsLate', 'Lates': '<- LatesStd'}


if FIRE == 'pinned':  # the model of finding 11: Armed / Recurs only up to the recorded signature
    PROPS_B = dict(invariants=['TypeOK', 'C20_ArmedOrKnown'], properties=['C20_FireTargets', 'C20_BootFires', 'C20_BootOnce', 'C20_RecursOrKnown', 'C20_Once'])
else:
    PROPS_B = dict(invariants=['TypeOK', 'C20_Armed'], properties=['C20_FireTargets', 'C20_BootFires', 'C20_BootOnce', 'C20_Recurs', 'C20_Once', 'C20_CatchUp'])


def gen_b(chk, maxenv, name='genB'):
    '''one TLC run: checks the invariants / action properties of the bounded instance AND prints every transition'''
    cfg = os.path.join(chk.work, name + '.cfg')
    tlc.write_cfg(cfg, spec='GenSpec', constants=consts_b('ConfigsAll', maxenv), extra=['VIEW View', 'ACTION_CONSTRAINT Emit'], **PROPS_B)
    res = tlc.run('MomentFire_Gen.tla', cfg, workers=1, timeout=1800, out_file=os.path.join(chk.work, name + '.out'))
    if not res.ok:
        raise core.Machinery(f'MomentFire_Gen failed: {res.error or res.violated} (see {chk.work}/{name}.out)')
    chk.mc_runs.append(dict(res.summary(), name=name, module='MomentFire_Gen.tla', invariants=PROPS_B['invariants'] + PROPS_B['properties']))
    chk.states += res.distinct
    chk.transitions += res.generated
    chk.note(f'gen {name}: {res.distinct} distinct / {res.generated} generated, ok={res.ok}, {res.wall:.1f}s')
    return [json.loads(r[1]) for r in tlc.printed(res, 'SCHED')]


def fire_jobs(scheds, epoch, days):
    date = {d['i']: d['ymd'] for d in days}
    jobs = []
    for s in scheds:
        nodes = {}
        for tag, nd in s['cfg']['nodes'].items():
            evs = []
            for e in sorted(nd['events'], key=lambda e: (e['k'], e['n'], e['t'])):
                e = dict(e)
                if e['k'] == 'day':
                    e['date'] = date[e['n']]
                evs.append(e)
            nodes[tag] = {'kind': nd['kind'], 'events': evs}
        cfg = {'start': s['cfg']['start'], 'nodes': nodes}
        events = [{'ev': h['ev'], 'dt': h['dt'], 't': h['t'], 'n': h['n']} for h in s['h']]
        jobs.append({'id': len(jobs), 'mode': 'fire', 'epoch': epoch, 'horizon': len(days) * 86400, 'cfg': cfg, 'events': events, 'drain': True})
    return jobs


def shape(steps, upto):
    out = []
    for st in steps[1:upto]:
        if not out or out[-1] != st['ev']:
            out.append(st['ev'])
    return ','.join(out)


def collect_b(chk, pid, jobs, files):
    rows = chk.validate(
        'MomentFire_Trace.tla',
        dict(spec='TraceSpec', constants=consts_b(None, 1000000), extra=['POSTCONDITION AllConsumed']),
        files,
        tags=('CLAUSE', 'DRIFT', 'CONSUMED', 'LATEFIRE'),
    )
    # firings TLC found to come more than the window after their moment (the antecedent of C20.CatchUp is met and answered)
    chk.counters['firings_later_than_the_window'] = chk.counters.get('firings_later_than_the_window', 0) + len(rows['LATEFIRE'])
    byid = {j['id']: j for j in jobs}
    need = {r[1] for r in rows['CLAUSE']} | {r[1] for r in rows['DRIFT'][:5]}
    traces = {}
    fires = completes = refires = nontrivial = two = 0
    for fn in files:
        with open(fn) as f:
            for ln in f:
                t = json.loads(ln)
                nf = nc = 0
                per_node = {}
                for p, s in zip(t['steps'], t['steps'][1:]):
                    for tag in s['st']['todo']:
                        if set(s['st']['todo'][tag]) - set(p['st']['todo'][tag]):
                            nf += 1
                            per_node[tag] = per_node.get(tag, 0) + 1
                    if s['ev'] == 'Complete':
                        nc += 1
                fires += nf
                completes += nc
                refires += 1 if any(v > 1 for v in per_node.values()) else 0
                nontrivial += 1 if nf and nc else 0
                two += 1 if len(t['cfg']['nodes']) > 1 else 0
                if t['tid'] in need:
                    traces[t['tid']] = t
    for r in rows['DRIFT']:
        chk.drift += 1
        if len(chk.drift_samples) < 5:
            chk.drift_samples.append({'trace': r[1], 'line': r[2], 'ev': r[3], 'cfg': byid[r[1]]['cfg']})
    for _tag, tid, line, ev, bad, node in rows['CLAUSE']:
        t = traces[tid]
        st = t['steps'][line - 1]['st']
        idle = not st['nque'][node] and not st['exec'][node]
        for clause in sorted(bad['set']):
            if not clause.startswith(pid + '.'):
                continue
            if clause in ('C20.Armed', 'C20.Recurs') and idle:
                sig = f'idle-status-{st["status"][node]}:{shape(t["steps"], line)}'
            else:
                sig = f'{ev}:{shape(t["steps"], line)}'
            chk.add_violation(clause, sig, {'cfg': t['cfg'], 'node': node, 'line': line, 'event': ev, 'state': st}, {'mode': 'fire', 'job': byid[tid], 'line': line, 'node': node})
    return fires, completes, refires, nontrivial, two


def part_b(chk, pid, thorough, rnd, epoch, days):
    if thorough:
        chk.mc('mcB', 'MomentFire_MC.tla', dict(spec='FSpec', constants=consts_b('ConfigsAll', 5), **PROPS_B), workers=8)
        # the pinned defer (finding 11, fires once per process) violates Armed in the model; the repaired one fires again
        for name, fire, inv in (('mcB_pinned', 'pinned', 'C20_Armed'), ('mcB_refires', 'rearm', 'NoSecondFiring')):
            known = chk.mc(name, 'MomentFire_MC.tla', dict(spec='FSpec', constants=consts_b('ConfigsSmall', 4, fire), invariants=[inv]), workers=2, expect_ok=False)
            if known.ok:
                raise core.Machinery(f'{name}: expected a counterexample of {inv} (the model cannot tell the two defer variants apart)')
            chk.states -= known.distinct
            chk.transitions -= known.generated
        # ... and the guided configurations do reach a firing later than the window (C20_CatchUp is not vacuous in the model)
        wit = chk.mc('mcB_latefire', 'MomentFire_MC.tla', dict(spec='FSpec', constants=consts_b('ConfigsLate', 3), invariants=['NoLateFiring']), workers=2, expect_ok=False)
        if wit.ok:
            raise core.Machinery('mcB_latefire: the guided instance never fires later than the window after a moment')
        chk.states -= wit.distinct
        chk.transitions -= wit.generated
    return replay_b(chk, pid, rnd, epoch, days, None if thorough else 1000, 3 if thorough else 2, nlate=100)


def replay_b(chk, pid, rnd, epoch, days, nsample, maxenv=2, nlate=0):
    '''nlate: how many schedules of the guided configurations (cfg.late: a moment passes while defer() cannot act -- held
    pipeline whose passes only poll, wake-up 10 minutes late) a sampled run replays on top of nsample'''
    scheds = gen_b(chk, maxenv)
    total = len(scheds)
    guided = [s for s in scheds if s['cfg']['late'] and any(h['ev'] in ('Pause', 'LateTick') for h in s['h'])]
    if nsample is not None:
        # the start of the pipeline of EVERY configuration, plus a seeded sample of the longer schedules
        first = [s for s in scheds if len(s['h']) == 1]
        rest = [s for s in scheds if len(s['h']) > 1 and not s['cfg']['late']]
        rnd.shuffle(rest)
        # guided: the longest histories first (release after the moment), seeded order among equals
        rnd.shuffle(guided)
        guided.sort(key=lambda s: -len(s['h']))
        guided = guided[:nlate]
        scheds = first + rest[:nsample] + guided
    elif nlate and len(guided) > 20 * nlate:
        # every transition of the ordinary configurations; the guided ones (a poll every 10 s: ~100 lines each) are capped
        rnd.shuffle(guided)
        guided.sort(key=lambda s: -len(s['h']))
        guided = guided[: 20 * nlate]
        keep = {id(s) for s in guided}
        scheds = [s for s in scheds if not s['cfg']['late'] or id(s) in keep or not any(h['ev'] in ('Pause', 'LateTick') for h in s['h'])]
    jobs = fire_jobs(scheds, epoch, days)
    files = chk.run_harness('moment_h', jobs)
    chk.traces += len(jobs)
    fires, completes, refires, nontrivial, two = collect_b(chk, pid, jobs, files)
    if fires == 0 or completes == 0 or two == 0:
        raise core.Machinery(f'vacuous firing replay: fires={fires} completions={completes} two-node schedules={two}')
    if guided:
        npause = sum(1 for s in guided if any(h['ev'] == 'Pause' for h in s['h']))
        nlt = sum(1 for s in guided if any(h['ev'] == 'LateTick' for h in s['h']))
        latef = chk.counters.get('firings_later_than_the_window', 0)
        chk.counters.update(guided_schedules_replayed=len(guided), guided_schedules_with_a_held_pipeline=npause, guided_schedules_with_a_late_wakeup=nlt)
        if not npause or not nlt:
            raise core.Machinery(f'vacuous late-pass replay: held={npause} late wake-ups={nlt}')
        if latef == 0 and not chk.violations:
            raise core.Machinery('vacuous late-pass replay: no firing later than the window after its moment was observed')
    shared = sum(
        1
        for j in jobs
        if len({t.split('.')[1] for t in j['cfg']['nodes']}) < len(j['cfg']['nodes'])
        and all(any(e['k'] == 'boot' for e in nd['events']) for nd in j['cfg']['nodes'].values())
    )
    if shared == 0:
        raise core.Machinery('vacuous firing replay: no schedule with two boot events of algorithms that share their short name')
    chk.counters.update(schedules_with_two_nodes=two, schedules_two_boot_events_same_short_name=shared)
    chk.counters.update(
        firing_transitions_of_gen_instance=total,
        firing_schedules_replayed=len(jobs),
        firings_observed=fires,
        completions_observed=completes,
        schedules_with_a_second_firing=refires,
    )
    chk.samples.append({'part': 'b', 'cfg': jobs[0]['cfg'], 'events': jobs[0]['events']})
    return nontrivial


# --------------------------------------------------------------------- self-test
MUTANTS = [  # (in-memory mutant of the real code, part, clause that must be reported)
    ('late_hour', 'a', 'C20.Lands'),
    ('dow_next_week', 'a', 'C20.NotFurther'),
    ('leap_day_raises', 'a', 'C20.Computable'),
    ('rule_time_optional', 'a', 'C20.Computable'),  # rule_10 lets a weekly/monthly/dated event without a time of day through
    ('first_target_only', 'b', 'C20.FireTargets'),
    ('boot_by_short_name', 'b', 'C20.BootFires'),
    ('forget_served', 'b', 'C20.Once'),  # only meaningful on a tree with the repaired defer (fixes/C20_rearm.patch)
    ('timer_late', 'b', 'C20.Armed'),
]


def corrupt(files, out, fn):
    '''rewrite the traces with fn(trace) -> bool applied until it reports one corruption'''
    done = False
    with open(out, 'wt') as o:
        for f in files:
            with open(f) as i:
                for ln in i:
                    t = json.loads(ln)
                    if not done:
                        done = fn(t)
                    o.write(json.dumps(t) + '\n')
    if not done:
        raise core.Machinery('self-test: nothing to corrupt')
    return [out]


def selftest(pid, seed):
    '''the binding is demonstrated, not assumed: every in-memory mutant of the real code and every
    corrupted trace field must be reported as a violation of the expected clause by the ordinary pipeline'''
    results = []
    domain = None
    for name, part, clause in MUTANTS:
        chk = core.Check(pid, 'selftest', seed)
        chk.findings = {'findings': []}
        rnd = random.Random(seed)
        domain = domain or gen_domain(chk)
        os.environ['VERIF_C20_MUTANT'] = name
        try:
            if part == 'a':
                replay_a(chk, pid, rnd, domain, 4, 10)
            else:
                replay_b(chk, pid, rnd, domain[0], domain[2], 400)
        finally:
            del os.environ['VERIF_C20_MUTANT']
        hit = sum(1 for v in chk.violations if v['clause'] == clause and not v['signature'].startswith('idle-status-waiting'))
        if name == 'rule_time_optional':
            hit = sum(1 for v in chk.violations if v['clause'] == clause and v['signature'].startswith('shape-accepted-by-rule_10'))
        if name == 'forget_served' and hit == 0 and chk.counters.get('schedules_with_a_second_firing', 0) == 0:
            print(f'SELFTEST {pid} mutant {name}: skipped, this tree never fires a second time (defer without fixes/C20_rearm.patch)')
            continue
        results.append((f'mutant {name}', clause, hit))
    # corrupted trace fields on an unmutated run
    chk = core.Check(pid, 'selftest', seed)
    chk.findings = {'findings': []}
    rnd = random.Random(seed)
    _e, specs, days, tods = domain
    jobs = delay_jobs(domain[0], specs[:6], [d['i'] * 86400 + tods[1] for d in days[:40]], [], 1200)
    files = chk.run_harness('moment_h', jobs)

    def shift(t):
        for st in t['steps'][1:]:
            if st['obs']['ok']:
                st['obs']['d'] += 60
                return True
        return False

    collect_a(chk, pid, jobs, corrupt(files, os.path.join(chk.work, 'corruptA.ndjson'), shift))
    results.append(('corrupt delay +60 s', 'C20.Lands', sum(1 for v in chk.violations if v['clause'] == 'C20.Lands')))
    scheds = gen_b(chk, 2)
    rnd.shuffle(scheds)
    jobs = fire_jobs(scheds[:400], domain[0], days)
    files = chk.run_harness('moment_h', jobs)

    def drop_timer(t):
        for st in t['steps'][1:]:
            if 'delayed' in st['st']['status'].values() and st['st']['timers']:
                st['st']['timers'] = []
                return True
        return False

    def second_boot_fire(t):
        if len(t['cfg']['nodes']) != 1:
            return False
        (tag, nd), = t['cfg']['nodes'].items()
        if {e['k'] for e in nd['events']} != {'boot'}:
            return False
        for p, st in zip(t['steps'][1:], t['steps'][2:]):
            if st['ev'] == 'Advance' and not p['st']['nque'][tag] and not p['st']['todo'][tag]:
                st['st']['nque'][tag] = 1
                st['st']['todo'][tag] = ['__all__'] if nd['kind'] == 'analysis' else list(st['st']['targets'])
                return True
        return False

    for label, fn, clause in (('corrupt pending timer removed', drop_timer, 'C20.Armed'), ('corrupt second boot firing', second_boot_fire, 'C20.BootOnce')):
        chk.violations = []
        collect_b(chk, pid, jobs, corrupt(files, os.path.join(chk.work, 'corruptB.ndjson'), fn))
        results.append((label, clause, sum(1 for v in chk.violations if v['clause'] == clause and not v['signature'].startswith('idle-status-waiting'))))
    bad = [r for r in results if r[2] == 0]
    for label, clause, hit in results:
        print(f'SELFTEST {pid} {label}: {clause} reported {hit} times' + ('' if hit else '  <-- NOT DETECTED'))
    if bad:
        raise core.Machinery(f'self-test: not detected: {bad}')
    print(f'{pid}: self-test passed ({len(results)} mutants / corruptions detected)')
    return 0


# ------------------------------------------------------------------------ driver
def run(pid, tier, seed, replay=None):
    if tier == 'selftest':
        return selftest(pid, seed)
    chk = core.Check(pid, tier, seed)
    rnd = random.Random(seed)
    if replay:
        with open(replay) as f:
            rp = json.load(f)['replay']
        job = dict(rp['job'], id=0)
        files = chk.run_harness('moment_h', [job])
        chk.traces += 1
        if rp['mode'] in ('delay', 'shape'):
            collect_a(chk, pid, [job], files)
        else:
            collect_b(chk, pid, [job], files)
        return chk.finish('replay of one recorded input')
    thorough = tier == 'thorough'
    domain = gen_domain(chk)
    na = part_a(chk, pid, thorough, rnd, domain)
    nb = part_b(chk, pid, thorough, rnd, domain[0], domain[2])
    chk.counters['distinct_nontrivial'] = na + nb
    import collections

    by_sig = collections.Counter(f'{v["clause"]} {v["signature"]}' for v in chk.violations + chk.known_hits)
    chk.extra['rejections_by_signature'] = dict(by_sig.most_common(40))
    chk.assumptions = [
        'calendar 2023-01-01..2025-12-31 for clock instants (designated moments up to 2026-12-31), 4 times of day + seeded random seconds; '
        '7 weekdays, days of month 1..31, 4 dates, 3 event times; wall clock injected (module attribute datetime of dawgie.pl.schedule)',
        'day-of-month matches literally: a month without that day has no occurrence; no lower bound on the delay (the occurrence just missed may be designated)',
        'firing: one periodic node (task or analysis; 8 event sets, 5 start instants) or two nodes in different packages without data dependency, with the same '
        'short algorithm name (t0.a, t1.a) or not (t0.a, t1.b) (3 kind pairs, 7 event-set pairs, 2 starts): 164 configurations; <= 2 (quick) / 3 (thorough) environment steps '
        '(5 in the thorough MC run), then drain + one week + one month; '
        'reactor callbacks atomic; workers/database are environment stubs; executing = task messages decoded from the worker transports',
        'a node that is queued (with work) or executing when a moment passes is exempt from firing for that moment; a firing up to 300 s before a moment is the firing for it; '
        'an event fires at most once per occurrence (two firings are not both within [m - 300 s, end of the day of m])',
        'late passes: 4 guided configurations (weekly task, boot+weekly analysis, monthly task, dated analysis) start 480 s before their moment with one more environment step; '
        'there a wake-up may run 600 s late (same day: a wake-up delayed across midnight is outside the bound) and the operator may hold the pipeline (passes only poll every 10 s) '
        'while the clock moves 900 s; a moment that passes while the pipeline is held is exempt from Recurs at that instant and owed to the first acting pass of the same day (CatchUp); '
        'Armed is not demanded of a held pipeline',
    ]
    return chk.finish(
        '(a) every specification of the domain x clock instants (all 4384 in thorough; first and last two days of every month + 24 seeded days in quick) + seeded random instants: '
        'the real _delay under the injected clock, each record judged by TLC; non-trivial = records whose delay is not 0. '
        '(b) every transition of the bounded firing model (quick: the pipeline start of every configuration + 1000 seeded longer schedules + the 100 longest guided late-pass schedules) as the input schedule reaching it, executed on the real schedule/farm code with a drain; '
        'non-trivial = schedules with at least one firing and one completion.'
    )


if __name__ == '__main__':
    core.main(run)
