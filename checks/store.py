'''C06 C08: shelve catalogue / primary table (spec/Store.tla).

 1. MC      exhaustive TLC run of the implementation-shaped model of the REPAIRED code (Pinned = FALSE) with the
            property-level clauses of the requested property; a small run of the transcription of the tree AS
            PINNED (Pinned = TRUE) must be refuted by TLC (the model can tell the defect)
 2. GEN     every transition of a small instance (Store_Gen), as the operation history that reaches it, plus
            long pseudo-random histories (Store_Sim: depth 25, every choice made by TLC) over larger alphabets
 3. REPLAY  each history is executed on the real shelve backend (harness/store_h.py): real dbm files, real
            Interface._update/_load over the in-memory client <-> comms.Worker bridge, real remove / reset /
            trace / next / add / update, close + reopen; closing sweep reads every stored identity back
            the environment of a history (driver's choice, logged): pre-registered names giving ids 1 / 10..,
            run ids crossing digit boundaries or starting at 0, large values (70 KiB common prefix); after every
            load the harness edits the loaded object in place; trace is one call naming the algorithm under
            several tasks; db.tools.worm requests (run id 0 included) are operations of the model
 4. TRACE   TLC rebuilds the real state from the logged deltas and evaluates every clause on every line
            (spec/Store_Trace.tla); Python only counts and reports

usage: python -m checks.store C06|C08 [--tier quick|thorough] [--replay file]
'''

import collections
import concurrent.futures
import json
import os
import random

from vlib import core, tlc

# two tasks owning the same algorithm name (one trace call naming both; worm requests that give the task)
TWO = dict(Targets=['T'], Tasks=['k', 'k2'], AlgNames=['A'], SvNames=['s'], ValNames=['v'], Runs=[1, 2], Contents=[1], Masks=[['run', 'task']])
TINY = dict(Targets=['T'], Tasks=['k'], AlgNames=['A', 'A2'], SvNames=['s'], ValNames=['v'], Runs=[1, 2], Contents=[1, 2])
SMALL = dict(Targets=['T', 'T2'], Tasks=['k'], AlgNames=['A', 'A2', 'AB'], SvNames=['s'], ValNames=['v'], Runs=[1, 2], Contents=[1, 2])
FULL = dict(Targets=['T', 'T2'], Tasks=['k', 'k2'], AlgNames=['A', 'A2', 'AB'], SvNames=['s'], ValNames=['v'], Runs=[1, 2, 3], Contents=[1, 2, 3])
DENSE = dict(Targets=['T', 'T2'], Tasks=['k'], AlgNames=['A', 'A2', 'AB'], SvNames=['s'], ValNames=['v'], Runs=[1, 2, 3], Contents=[1, 2, 3])
MID = dict(Targets=['T', 'T2'], Tasks=['k'], AlgNames=['A', 'A2', 'AB'], SvNames=['s', 's2'], ValNames=['v'], Runs=[1, 2, 3], Contents=[1, 2, 3])
WIDE = dict(Targets=['T', 'T2'], Tasks=['k', 'k2'], AlgNames=['A', 'A2', 'AB'], SvNames=['s', 's2'], ValNames=['v', 'v2'], Runs=[1, 2, 3], Contents=[1, 2, 3])

MC_PROPS = {
    'C06': dict(invariants=['TypeOK'], properties=['C06_LoadOK']),
    'C08': dict(invariants=['TypeOK', 'C08_Bijective', 'C08_Resolves'], properties=['C08_Survives', 'C08_NextRun', 'C08_ExactRemove', 'C08_ExactReset', 'C08_ExactTrace', 'C08_ExactWorm']),
}
# which kinds of cases must have occurred for the run not to be vacuous
NEEDED = {
    'C06': ['Update', 'Bump', 'Load-exact-run', 'Load-absent-run', 'Load-future-run', 'Load-other-version-only', 'Load-other-target-only', 'Load-nothing', 'Remove-hit', 'Reopen-some'],
    'C08': ['Worm-hit', 'Worm-run-0-beside-other-runs', 'Trace-same-name-under-two-tasks', 'Reset-with-id-prefix-neighbour', 'Next-across-digit-boundary', 'Update', 'Register', 'AddTarget', 'Remove-hit', 'Remove-miss', 'Remove-with-prefix-sibling', 'Reset-hit', 'Reset-prefix-sibling-only', 'Reset-other-algorithm-only', 'Trace-some', 'Trace-with-prefix-sibling', 'Next-some', 'Next-empty', 'Reopen-some'],
}
MCW = min(core.NPROC, 8)


MASKS = [['run', 'task'], ['run', 'a'], ['a']]  # what a worm request gives (the rest is left open)


def consts(alpha, maxops, pinned=False, canon=False, metric='<- Metric1'):
    return {
        'WormMasks': '{' + ', '.join(tlc.tla_set(m) for m in alpha.get('Masks', MASKS)) + '}',
        'Targets': tlc.tla_set(alpha['Targets']),
        'Tasks': tlc.tla_set(alpha['Tasks']),
        'AlgNames': tlc.tla_set(alpha['AlgNames']),
        'SvNames': tlc.tla_set(alpha['SvNames']),
        'ValNames': tlc.tla_set(alpha['ValNames']),
        'Vers': '{10000, 20000}',
        'Runs': '{' + ', '.join(str(r) for r in alpha['Runs']) + '}',
        'Contents': '{' + ', '.join(str(r) for r in alpha['Contents']) + '}',
        'MetricVals': metric,
        'MaxOps': str(maxops),
        'Canon': 'TRUE' if canon else 'FALSE',
        'Pinned': 'TRUE' if pinned else 'FALSE',
    }


TRACE_CONSTS = {
    'WormMasks': '{}',
    'Targets': '{}',
    'Tasks': '{}',
    'AlgNames': '{}',
    'SvNames': '{}',
    'ValNames': '{}',
    'Vers': '{10000}',
    'Runs': '{}',
    'Contents': '{}',
    'MetricVals': '<- TraceMetricVals',
    'MaxOps': '1000000000',
    'Canon': 'FALSE',
    'Pinned': 'FALSE',
}

FIELDS = ('ev', 'tgt', 'task', 'tks', 'a', 's', 'v', 'run', 'c', 'lvl', 'to')


def parse_scheds(res, maximal_only=False):
    out = [json.loads(row[1])['h'] for row in tlc.printed(res, 'SCHED')]
    if maximal_only:
        keep, seen = [], set()
        for i, h in enumerate(out):
            if h and (i + 1 == len(out) or len(out[i + 1]) <= len(h)):
                k = json.dumps(h, sort_keys=True)
                if k not in seen:
                    seen.add(k)
                    keep.append(h)
        out = keep
    return out


def gen_schedules(chk, name, alpha, maxops, emit='Emit', timeout=1800):
    cfg = os.path.join(chk.work, f'{name}.cfg')
    tlc.write_cfg(cfg, spec='GenSpec', constants=consts(alpha, maxops), extra=['VIEW View', f'ACTION_CONSTRAINT {emit}'])
    res = tlc.run('Store_Gen.tla', cfg, workers=1, timeout=timeout, out_file=os.path.join(chk.work, f'{name}.out'))
    if not res.ok:
        raise core.Machinery(f'generation {name} failed: {res.error or res.violated}')
    chk.mc_runs.append(dict(res.summary(), name=name, module='Store_Gen.tla'))
    return parse_scheds(res)


def sim_schedules(chk, name, alpha, chains, depth, seed, workers=4, timeout=1800):
    '''long histories: Store_Sim, one successor per state, `chains` histories, every choice made by TLC'''
    cfg = os.path.join(chk.work, f'{name}.cfg')
    cst = consts(alpha, depth)
    cst['Chains'] = str(chains)
    cst['Seed'] = str(seed % 1000)
    tlc.write_cfg(cfg, spec='SimSpec', constants=cst, invariants=['Done'])
    res = tlc.run('Store_Sim.tla', cfg, workers=workers, timeout=timeout, out_file=os.path.join(chk.work, f'{name}.out'))
    if not res.ok:
        raise core.Machinery(f'simulation {name} failed: {res.error or res.violated}')
    chk.mc_runs.append(dict(res.summary(), name=name, module='Store_Sim.tla', mode='pseudo-random chains'))
    # a chain forks where the model leaves the result of reset open (several recorded versions): a few more
    # histories than chains; identical histories are kept once
    out = [json.loads(k) for k in sorted({json.dumps(h, sort_keys=True) for h in parse_scheds(res)})]
    if not chains * 0.9 <= len(out) <= chains * 1.5:
        raise core.Machinery(f'simulation {name}: {len(out)} histories for {chains} chains')
    return out


RUNMAPS = [{1: 9, 2: 10, 3: 11}, {1: 8, 2: 9, 3: 10}, {1: 1, 2: 10, 3: 11}, {1: 99, 2: 100, 3: 101}, {1: 1, 2: 2, 3: 3}, {1: 0, 2: 1, 3: 2}]
ZEROMAPS = [{1: 0, 2: 1, 3: 2}, {1: 0, 2: 9, 3: 10}]  # run id 0 is where regression results are stored
FILLERS = 10


def _environment(n, h, alpha):
    '''the database the history starts on (logged in the trace header; nothing here is judged):
    every fourth history starts on an empty database with the model's own run ids; the others on a database
    where ten filler targets / tasks / algorithms (each with a state vector and a value) and the model's own
    names are registered in an order that gives ONE model name of each table the id 1 and the others ids 10..,
    and with run ids that cross a digit boundary.  The name that gets id 1 is the one the last name-addressed
    operation of the history speaks about (else it rotates).'''
    if n % 4 == 3:
        return {'targets': [], 'regs': [], 'runmap': {}}
    adds = len(h) <= 3 and any(e['ev'] == 'AddTarget' for e in h)
    if adds and n % 2 == 0:
        # a short history that adds a target itself starts on an empty database: explicitly added targets
        # (db.add) and targets first seen by an update are then numbered side by side
        return {'targets': [], 'regs': [], 'runmap': RUNMAPS[(n // 4) % len(RUNMAPS)]}
    last = next((e for e in reversed(h) if e['ev'] in ('Reset', 'Remove', 'Trace') and e['a']), None)
    rot = n // 4

    def first(names, want):
        names = sorted(names)
        f = want if want in names else names[rot % len(names)]
        return [f] + [x for x in names if x != f]

    tgts = first(alpha['Targets'], last['tgt'] if last else '')
    tasks = first(alpha['Tasks'], last['task'] if last else '')
    algs = first(alpha['AlgNames'], last['a'] if last else '')
    svs = first(alpha['SvNames'], last['s'] if last else '')
    vals = first(alpha['ValNames'], last['v'] if last else '')
    # versions the history never declares are not registered beforehand: trace reports on the newest REGISTERED
    # version of an algorithm, and a version without data would make it report nothing at all
    if any(e['ev'] == 'Bump' and e['lvl'] == 'alg' for e in h):
        vers = (10000, 20000) if rot % 2 == 0 else (20000, 10000)
    else:
        vers = (10000,)
    model = [
        {'task': tk, 'a': a, 'av': av, 's': svs[0], 'sv': 10000, 'v': vals[0], 'vv': 10000}
        for av in vers
        for tk in tasks
        for a in algs
    ]
    fill = [{'task': f'Q{i:02d}', 'a': f'F{i:02d}', 'av': 10000, 's': 'g', 'sv': 10000, 'v': 'w', 'vv': 10000} for i in range(FILLERS)]
    gt = [f'G{i:02d}' for i in range(FILLERS)]
    return {
        # ... and leaves every target to be registered by the history itself if it adds one
        'targets': [] if adds else gt[:1] + tgts[:1] + gt[1:-1] + tgts[1:],
        'regs': fill[:1] + model[:1] + fill[1:-1] + model[1:],
        'runmap': RUNMAPS[rot % len(RUNMAPS)],
    }


def environment(n, h, alpha):
    env = _environment(n, h, alpha)
    # every fifth history stores large values (70 KiB of common bytes in front of the content)
    env['big'] = n % 5 == 0
    # a history with a worm request for the model's lowest run is played with that run as run id 0
    if any(e['ev'] == 'Worm' and e['run'] == min(alpha['Runs']) for e in h) and (len(h) <= 3 or n % 2 == 0):
        env['runmap'] = ZEROMAPS[n % len(ZEROMAPS)]
    return env


def to_jobs(scheds, alpha_of, start=0):
    jobs = []
    for i, h in enumerate(scheds):
        n = start + i
        jobs.append(
            {
                'id': n,
                'env': environment(n, h, alpha_of(i)),
                'events': [{k: (sorted(e[k]) if k == 'tks' else e[k]) for k in FIELDS} for e in h],
                'sweep': True,
                'chunk': 7 if n % 3 == 0 else 0,  # framing on the path for every third history
                'real_digest': n % 400 == 0,  # the external md5sum / sha1sum programs really spawned for a sample
            }
        )
    return jobs


def is_proper_prefix(a, b):
    return a != b and b.startswith(a)


def signature(clause, job, steps, line):
    '''canonical description of the failing history class (reporting only)'''
    st = steps[line - 1]
    a = st['args']
    before = steps[1 : line - 1]
    if clause == 'C06.LoadOK':
        for p in before:
            if p['ev'] == 'Remove' and p['args']['tgt'] == a['tgt'] and p['args']['task'] == a['task'] and any(is_proper_prefix(p['args'][k], a[k]) for k in ('a', 's', 'v')):
                return 'load of an entry deleted by a remove addressed to a name that is a proper prefix of one of its names'
        return 'load:' + ','.join(p['ev'] for p in before)
    if clause.startswith('C08.ExactNames'):
        for level, key in (('algorithm', 'a'), ('state vector', 's'), ('value', 'v')) if st['ev'] == 'Remove' else (('algorithm', 'a'),):
            names = {p['args'][key] for p in before if p['ev'] in ('Update', 'Register', 'Load')}
            if a[key] and any(is_proper_prefix(a[key], n) for n in names):
                return f'{st["ev"].lower()} addressed to a name that is a proper prefix of another {level} name'
        return f'{st["ev"].lower()} addressed to an algorithm without entries at that run while another algorithm of the task has some'
    return clause + ':' + ','.join(p['ev'] for p in before) + ',' + st['ev']


def validate_and_collect(chk, pid, jobs, kinds):
    files = chk.run_harness('store_h', jobs)
    chk.traces += len(jobs)
    rows = chk.validate('Store_Trace.tla', dict(spec='TraceSpec', constants=TRACE_CONSTS, extra=['POSTCONDITION AllConsumed']), files, tags=('CLAUSE', 'DRIFT', 'CONSUMED', 'KIND'))
    for r in rows['KIND']:
        kinds[r[1]] += 1
    byid = {j['id']: j for j in jobs}
    want = {r[1] for r in rows['CLAUSE']} | {r[1] for r in rows['DRIFT'][:5]}
    recorded = {}
    if want:
        for fn in files:
            with open(fn, encoding='utf-8') as f:
                for ln in f:
                    t = json.loads(ln)
                    if t['tid'] in want:
                        recorded[t['tid']] = t['steps']
    for r in rows['DRIFT']:
        chk.drift += 1
        if len(chk.drift_samples) < 5:
            st = recorded[r[1]][r[2] - 1]
            chk.drift_samples.append({'trace': r[1], 'line': r[2], 'ev': r[3], 'args': st['args'], 'obs': st['obs']})
    for r in rows['CLAUSE']:
        _tag, tid, line, ev, bad = r
        for clause in sorted(bad['set']):
            if not clause.startswith(pid + '.'):
                continue
            steps = recorded[tid]
            st = steps[line - 1]
            detail = {'trace': tid, 'line': line, 'event': ev, 'args': {k: v for k, v in st['args'].items() if v not in ('', 0)}, 'obs': {k: v for k, v in st['obs'].items() if v not in ('', 0, [], False)}, 'env': {'runmap': byid[tid].get('env', {}).get('runmap', {}), 'preregistered': len(byid[tid].get('env', {}).get('regs', []))}, 'history': [[p['ev']] + [p['args'][k] for k in ('tgt', 'task', 'a', 's', 'v', 'run', 'c', 'av', 'sv', 'vv')] for p in steps[1 : line - 1]][-8:]}
            chk.add_violation(clause, signature(clause, byid[tid], steps, line), detail, {'job': byid[tid], 'line': line})
    return rows


def run(pid, tier, seed, replay=None):
    if pid not in MC_PROPS:
        raise core.Machinery(f'checks.store decides C06 and C08, not {pid}')
    chk = core.Check(pid, tier, seed)
    rnd = random.Random(seed)
    kinds = collections.Counter()
    if replay:
        with open(replay, encoding='utf-8') as f:
            rp = json.load(f)['replay']
        validate_and_collect(chk, pid, [rp['job']], kinds)
        return chk.finish('replay of one recorded history')
    thorough = tier == 'thorough'
    props = MC_PROPS[pid]
    # TLC runs that do not depend on one another are started together (a JVM start costs seconds; the heavy
    # exhaustive runs of the thorough tier keep the machine to themselves)
    pool = concurrent.futures.ThreadPoolExecutor(max_workers=6)

    def mc(name, alpha, maxops, workers, **kw):
        return chk.mc(name, 'Store_MC.tla', dict(spec='Spec', constants=consts(alpha, maxops, **{k: kw.pop(k) for k in ('pinned', 'canon') if k in kw}), extra=['VIEW View'], **props), workers=workers, **kw)

    # 2. GEN (started first, runs beside the model checking)
    f_gen = pool.submit(gen_schedules, chk, 'gen', SMALL, 3 if thorough else 2)
    # the three-operation histories of the tiny instance that store something, change a version and end in an
    # operation addressed by name (set-up, change, observe: e.g. update, version bump, reset)
    f_obs = pool.submit(gen_schedules, chk, 'gen_obs3', TINY, 3, 'EmitObserved')
    f_two = pool.submit(gen_schedules, chk, 'gen_two3', TWO, 3, 'EmitTwice')
    if thorough:
        f_sim = pool.submit(sim_schedules, chk, 'sim_dense', DENSE, 1000, 25, seed, 4)
        f_wide = pool.submit(sim_schedules, chk, 'sim_wide', WIDE, 500, 25, seed + 1, 4)
    else:
        f_sim = pool.submit(sim_schedules, chk, 'sim_mid', MID, 60, 25, seed, 2)
        f_wide = None
    # 1. MC: the repaired transcription satisfies the clauses on the whole bounded domain ...
    f_pin = pool.submit(mc, 'mc_pinned', TINY, 3, 2, pinned=True, expect_ok=False)
    if thorough:
        mc('mc_tiny3', TINY, 3, 4)
        mc('mc_small2', SMALL, 2, 4)
        mc('mc_small3', SMALL, 3, MCW)
        mc('mc_full2', FULL, 2, MCW)
        f_gen.result(), f_obs.result(), f_two.result(), f_sim.result(), f_wide.result()
        mc('mc_small4', SMALL, 4, core.NPROC, canon=True)
        mc('mc_full3', FULL, 3, core.NPROC, canon=True)
    else:
        mc('mc_tiny3', TINY, 3, 4)
    #    ... and the transcription of the tree as pinned is refuted (design-level defect visible without running code)
    pin = f_pin.result()
    if pin.ok:
        raise core.Machinery('the transcription of the pinned subset/reset satisfies the clauses: the model cannot tell the defect')
    chk.extra['pinned_transcription_refuted_by'] = pin.violated
    scheds = f_gen.result()
    total_transitions = len(scheds)
    cap = 16000 if thorough else 700
    if len(scheds) > cap:
        # kept whatever the sample: the two-operation histories that add a target and store for a target
        both = lambda h: len(h) == 2 and {e['ev'] for e in h} == {'AddTarget', 'Update'}  # noqa: E731
        must = [h for h in scheds if both(h)]
        scheds = [h for h in scheds if not both(h)]
        cap -= len(must)
        short = [h for h in scheds if len(h) <= 2]
        rest = [h for h in scheds if len(h) > 2]
        rnd.shuffle(rest)
        scheds = must + ((short + rest)[:cap] if len(short) < cap else rnd.sample(short, cap))
    alphas = [SMALL] * len(scheds)
    for part, alpha in ((f_obs.result(), TINY), (f_two.result(), TWO)):
        total_transitions += len(part)
        scheds += part
        alphas += [alpha] * len(part)
    sims = f_sim.result()
    wide = f_wide.result() if f_wide else []
    pool.shutdown()
    alphas += [DENSE if thorough else MID] * len(sims) + [WIDE] * len(wide)
    sims += wide
    jobs = to_jobs(scheds + sims, lambda i: alphas[i])
    chk.samples = [{'history': [[e[k] for k in FIELDS if e[k] not in ('', 0)] for e in j['events']]} for j in rnd.sample(jobs[: len(scheds)], min(3, len(scheds)))] + [
        {'history': [[e[k] for k in FIELDS if e[k] not in ('', 0)] for e in j['events']]} for j in jobs[len(scheds) : len(scheds) + 1]
    ]
    # 3 + 4
    validate_and_collect(chk, pid, jobs, kinds)
    missing = [k for k in NEEDED[pid] if kinds[k] == 0]
    if missing:
        raise core.Machinery(f'vacuous run: no line of kind {missing}')
    big = sum(1 for j in jobs if j['env'].get('big') and len({e['c'] for e in j['events'] if e['ev'] == 'Update'}) >= 2)
    if big == 0:
        raise core.Machinery('vacuous run: no history stores two different large values')
    nontrivial = len({json.dumps(j['events'], sort_keys=True) for j in jobs if any(e['ev'] == 'Update' for e in j['events']) and len(j['events']) >= 2})
    chk.counters.update(
        transitions_of_gen_instance=total_transitions,
        transitions_replayed=len(scheds),
        sim_behaviours=len(sims),
        histories_storing_different_large_values=big,
        kinds=dict(sorted(kinds.items())),
        distinct_nontrivial=nontrivial,
    )
    chk.assumptions = [
        'bounded model: 2 targets, 1-2 tasks, algorithm names A/A2/AB (prefixes of one another), 2 versions per level, runs 1..3, 3 contents; one state vector with one value per algorithm object',
        'names are identifiers (no catalogue separators, no dots); no __all__ target in the histories',
        'environment stubs: Twisted reactor, sockets (in-memory bridge into the real comms.Worker), md5sum/sha1sum answered by hashlib in process except for a sample of histories that spawn the real programs',
        'stored content is read back from the blob files by the harness for the state projection; the PostgreSQL backend is not executed',
    ]
    return chk.finish(
        'histories = every transition of the small Store instance (sampled above the cap) as the operation sequence reaching it, plus simulated '
        'histories of depth 25 over the wide alphabets; each is executed on the real shelve backend (fresh database per history, closing sweep of '
        'loads after a reopen) and every recorded line is validated by TLC. non-trivial = history stores at least one value and has a second '
        'operation; distinct by operation sequence'
    )


if __name__ == '__main__':
    core.main(run)
