'''C18: execution history (spec/Chronicle.tla).

 1. MC      exhaustive TLC run: every append history over the candidate entries x every query
            (after, before, limit, outcome, now) of the bounded domain; the implementation-shaped
            transcription of chronicle.append / find / the front-end callers is compared with the
            declarative property level (C18_AppendOnce, C18_FindOK, C18_ApiFindOK)
 2. GEN     TLC prints the tables, every query of the domain and one append history per distinct
            state of the journal files
 3. REPLAY  harness/chronicle_h.py executes histories x queries on the real append / find /
            fe.api.schedule.failed|succeeded (real files, injected wall clock)
 4. TRACE   TLC validates every recorded line (spec/Chronicle_Trace.tla); Python counts and reports
'''

import json
import os
import random

from vlib import core, tlc

INVS = ['TypeOK', 'C18_Recorded', 'C18_FindOK', 'C18_ApiFindOK']
PROPS = ['C18_AppendOnce', 'C18_ReadOnly']
SETS = ('Y', 'L', 'J')  # calendars of spec/Chronicle_MC.tla
MCW = min(core.NPROC, 8)  # measured: on a busy machine 16 TLC workers thrash on the state queue


def consts(cal, cand, bounds, limits, nows, api=False, pinned=False, pinned_api=False, reader=False):
    return {
        'Cal': f'<- Cal{cal}',
        'Tod': '<- TodMini',
        'EntAt': f'<- EntAt{cal}',
        'EntRun': f'<- EntRun{cal}',
        'EntSt': '<- EntStMini',
        'Cand': '<- ' + cand,
        'Bounds': '<- ' + (bounds if bounds == 'BoundsAll' else f'Bounds{cal}{bounds}'),
        'Limits': '{' + ', '.join(str(x) for x in limits) + '}',
        'Nows': f'<- Nows{cal}{nows}',
        'WithApi': 'TRUE' if api else 'FALSE',
        'WithReader': 'TRUE' if reader else 'FALSE',
        'Pinned': 'TRUE' if pinned else 'FALSE',
        'PinnedApi': 'TRUE' if pinned_api else 'FALSE',
    }


def generate(chk, name, cst):
    cfg = os.path.join(chk.work, f'{name}.cfg')
    tlc.write_cfg(cfg, spec='GenSpec', constants=cst, invariants=['HistInv'], extra=['VIEW View'])
    res = tlc.run('Chronicle_Gen.tla', cfg, workers=1, timeout=1800, out_file=os.path.join(chk.work, f'{name}.out'))
    if not res.ok:
        raise core.Machinery(f'generation {name} failed: {res.error or res.violated}')
    chk.mc_runs.append(dict(res.summary(), name=name, module='Chronicle_Gen.tla'))
    table = [json.loads(r[1]) for r in tlc.printed(res, 'TABLE')]
    queries = [json.loads(r[1]) for r in tlc.printed(res, 'QUERY')]
    readers = [tuple(json.loads(r[1])) for r in tlc.printed(res, 'READER')]
    hists = [json.loads(r[1]) for r in tlc.printed(res, 'HIST') if r[1] != '[]']
    if not table or not queries or not hists or not readers:
        raise core.Machinery(f'generation {name}: nothing generated')
    if len(hists) + 1 != res.distinct:
        raise core.Machinery(f'generation {name}: {len(hists)} histories for {res.distinct} states')
    return table[0], [tuple(x) for x in queries], hists, readers


def generate_life(chk, name, cst):
    """process lives (spec/Chronicle_Gen.tla LifeSpec): one event history per distinct (files, observations of
    the queries so far that still hold, observations that a later append has outdated)"""
    cfg = os.path.join(chk.work, f'{name}.cfg')
    tlc.write_cfg(cfg, spec='LifeSpec', constants=cst, invariants=['LifeInv', 'C18_FindOK'], extra=['VIEW LifeView'])
    res = tlc.run('Chronicle_Gen.tla', cfg, workers=1, timeout=1800, out_file=os.path.join(chk.work, f'{name}.out'))
    if not res.ok:
        raise core.Machinery(f'generation {name} failed: {res.error or res.violated}')
    chk.mc_runs.append(dict(res.summary(), name=name, module='Chronicle_Gen.tla'))
    lives = [json.loads(r[1]) for r in tlc.printed(res, 'LIFE')]
    lives = [x for x in lives if x[0]]
    if len(lives) + 1 != res.distinct or not any(x[1][1] for x in lives):
        raise core.Machinery(f'generation {name}: {len(lives)} lives for {res.distinct} states')
    return lives


def life_jobs(rnd, table, lives, queries, n, nq, start):
    """lives with an outdated observation first (all of them when n is None), then the others; nq further queries at the end"""
    hot = [x for x in lives if x[1][1]]
    cold = [x for x in lives if not x[1][1]]
    if n is not None:
        hot = rnd.sample(hot, min(len(hot), n - n // 5))
        cold = rnd.sample(cold, min(len(cold), n // 5))
    nz = len(table['zone'])
    jobs = []
    for i, (h, _) in enumerate(hot + cold):
        ev = []
        for k, a, b, c, d, e in h:
            ev.append(['a', a] if k == 0 else ['r'] if k == 2 else ['q', a, b, c, d, e, rnd.randint(1, nz), 1 if rnd.random() < 0.25 else 0, 0])
        qs = [list(x) + [1 if rnd.random() < 0.25 else 0, 0] for x in rnd.sample(queries, min(nq, len(queries)))]
        jobs.append({'id': start + i, 'table': table, 'appends': [x[1] for x in ev if x[0] == 'a'], 'events': ev, 'strform': bool(i % 2), 'queries': qs})
    return jobs


def prog(job):
    """the events of one process life in the order the harness runs them (trace line k + 2 is event k)"""
    return ([list(x) for x in job['events']] if job.get('events') else [['a', e] for e in job['appends']]) + [['q'] + list(x) for x in job['queries']]


def cut(job, n):
    """the job that replays the first n events"""
    return dict(job, events=prog(job)[:n] or [['r']], queries=[])


def when(table, i):
    if i < 0:
        return None
    nt = len(table['tod'])
    y, m, d = table['cal'][i // nt]
    hh, mm, ss = table['tod'][i % nt]
    return f'{y:04d}-{m:02d}-{d:02d} {hh:02d}:{mm:02d}:{ss:02d}'


def shape(q):
    s = '+'.join(n for n, v in (('after', q[0]), ('before', q[1]), ('limit', q[2])) if v >= 0)
    return s + ('' if q[5] == 1 else '@offset')


def zone(table, z):
    off = table['zone'][z - 1]
    return f'{"-" if off < 0 else "+"}{abs(off) // 60:02d}:{abs(off) % 60:02d}'


def trace_consts(cal):
    return consts(cal, 'CandA', 'Q', [0, 1, 2], 'Q', api=True)


def validate_and_collect(chk, pid, cal, jobs):
    """harness + TLC trace validation of the jobs of one calendar; collects violations of pid"""
    if not jobs:
        return
    files = chk.run_harness('chronicle_h', jobs)
    for i, fn in enumerate(files):  # run_harness reuses file names: keep one set per calendar
        os.replace(fn, fn + '.' + cal)
        files[i] = fn + '.' + cal
    chk.traces += len(jobs)
    rows = chk.validate(
        'Chronicle_Trace.tla',
        dict(spec='TraceSpec', constants=trace_consts(cal), extra=['POSTCONDITION AllConsumed']),
        files,
        tags=('CLAUSE', 'DRIFT', 'CONSUMED', 'HEADER'),
        name='Chronicle_Trace_' + cal,
    )
    if rows['HEADER']:
        raise core.Machinery(f'trace header (tables) differs from the specification in {len(rows["HEADER"])} traces')
    rows['CLAUSE'] = [json.loads(r[1]) for r in rows['CLAUSE']]
    byid = {j['id']: j for j in jobs}
    recs = {}
    need = {(r['tid'], r['line']) for r in rows['CLAUSE']} | {(r[1], r[2]) for r in rows['DRIFT'][:5]}
    stats = dict(queries_before_an_append=0, answers_with_an_entry_appended_after_a_query=0, restart_lines=0, append_lines=0, find_lines=0, api_lines=0, reader_lines=0, answers_after_a_reader=0, nonempty_answers=0, nonempty_offset_answers=0, truncated_answers=0, errors=0)
    nontrivial = set()
    for fn in files:
        with open(fn, 'rt', encoding='utf-8') as f:
            for ln in f:
                t = json.loads(ln)
                apps = tuple(byid[t['tid']]['appends'])
                read = False
                last_app = max([i for i, st in enumerate(t['steps']) if st['ev'] == 'append'], default=-1)
                late, asked = set(), False
                for i, st in enumerate(t['steps']):
                    if st['ev'] in ('find', 'api'):
                        asked = True
                        stats['queries_before_an_append'] += i < last_app
                        stats['answers_with_an_entry_appended_after_a_query'] += bool(late & set(st['obs']['res']))
                    elif st['ev'] == 'append' and asked:
                        late.add(st['args']['e'])
                    elif st['ev'] == 'reopen':
                        stats['restart_lines'] += 1
                    if st['ev'] == 'stats':
                        stats['reader_lines'] += 1
                        read = True
                    elif read and st['ev'] in ('find', 'api') and st['obs']['res']:
                        stats['answers_after_a_reader'] += 1
                    if (t['tid'], i + 1) in need:
                        recs[(t['tid'], i + 1)] = st
                    if st['ev'] == 'append':
                        stats['append_lines'] += 1
                    elif st['ev'] in ('find', 'api'):
                        stats[st['ev'] + '_lines'] += 1
                        if st['obs']['err']:
                            stats['errors'] += 1
                        if st['obs']['res']:
                            stats['nonempty_answers'] += 1
                            a = st['args']
                            nontrivial.add((apps, st['ev'], a['after'], a['before'], a['limit'], a['ok'], a['now'], a['zone']))
                            if a['zone'] != 1 and (a['after'] >= 0 or a['before'] >= 0):
                                stats['nonempty_offset_answers'] += 1
                            if 0 <= a['limit'] == len(st['obs']['res']):
                                stats['truncated_answers'] += 1
    for k, v in stats.items():
        chk.counters[k] = chk.counters.get(k, 0) + v
    chk.counters['distinct_nontrivial'] = chk.counters.get('distinct_nontrivial', 0) + len(nontrivial)
    for r in rows['DRIFT']:
        chk.drift += 1
        if len(chk.drift_samples) < 5:
            chk.drift_samples.append({'trace': r[1], 'line': r[2], 'ev': r[3], 'record': recs.get((r[1], r[2]))})
    for r in rows['CLAUSE']:
        tid, line, ev = r['tid'], r['line'], r['ev']
        job = byid[tid]
        table = job['table']
        st = recs.get((tid, line), {})
        reasons = ','.join(sorted(r['why']))
        pg = prog(job)
        qi = line - 2
        if ev == 'stats':
            q = pg[qi][1:]
            sig = f'reader:{reasons}'
            detail = {'call': 'fe.api.df_model_statistics', 'node_of_entry': q[7], 'boot_time': when(table, q[0]), 'now': when(table, q[4]), 'appends': job['appends'], 'files_after': st.get('st', {}).get('files'), 'error': st.get('obs', {}).get('err')}
            rjob = cut(job, qi + 1)
        elif ev in ('find', 'api'):
            q = pg[qi][1:]
            earlier = [x[1:] for x in pg[:qi] if x[0] == 'q']
            hist = ('after-reader:' if any(x[6] == 2 for x in earlier) else 'after-find:' if any(x[6] == 0 for x in earlier) else '')
            sig = f'{ev}:{shape(q)}:{reasons}'
            detail = {
                'call': ('chronicle.find' if ev == 'find' else 'fe.api.schedule.' + ('succeeded' if q[3] else 'failed')),
                'after': when(table, q[0]),
                'before': when(table, q[1]),
                'limit': None if q[2] < 0 else q[2],
                'succeeded': bool(q[3]),
                'now': when(table, q[4]),
                'bounds_written_with_offset': zone(table, q[5]),
                'appended': [{'id': x[1], 'completed': when(table, table['at'][x[1] - 1]), 'status': table['st'][x[1] - 1], 'run': table['run'][x[1] - 1]} for x in pg[:qi] if x[0] == 'a'],
                'process_life': [x[0] if x[0] != 'a' else x[1] for x in pg[:qi]],
                'returned_ids': st.get('obs', {}).get('res'),
                'error': st.get('obs', {}).get('err'),
                'earlier_calls_in_this_history': hist.rstrip(':') or 'none',
            }
            rjob = cut(job, qi + 1)  # answers may depend on the earlier readers of the history
        else:
            sig = f'{ev}:{reasons}'
            detail = {'process_life': [x[0] if x[0] != 'a' else x[1] for x in pg[: max(0, line - 1)]], 'files_after': st.get('st', {}).get('files'), 'error': st.get('obs', {}).get('err')}
            rjob = cut(job, max(0, line - 1))
        for clause in sorted(r['bad']):
            if clause.startswith(pid + '.'):
                chk.add_violation(clause, sig, dict(detail, calendar=cal, trace=tid, line=line, why=reasons), {'cal': cal, 'job': rjob})


def with_readers(rnd, qs, readers, h, n, nows, nzones):
    '''insert n other readers of the history (kind 2) at seeded places of the first half of the query list'''
    pool = [r for r in readers if r[1] in h] or readers
    for b, e in rnd.sample(pool, min(n, len(pool))):
        qs.insert(rnd.randint(0, max(0, len(qs) // 2)), [b, -1, -1, 1, rnd.choice(nows), rnd.randint(1, nzones), 2, e])
    return qs


def make_jobs(rnd, table, hists, queries, readers, nfind, napi, nread, start=0):
    jobs = []
    nows = sorted({x[4] for x in queries})
    for i, h in enumerate(hists):
        fq = queries if nfind is None or nfind >= len(queries) else rnd.sample(queries, nfind)
        aq = queries if napi is None or napi >= len(queries) else rnd.sample(queries, napi)
        # (after, before, limit, ok, now, zone) + kind (0 find, 1 front end, 2 other reader) + entry id (readers)
        qs = [list(x) + [0, 0] for x in fq] + [list(x) + [1, 0] for x in aq]
        rnd.shuffle(qs)
        jobs.append({'id': start + i, 'table': table, 'appends': h, 'strform': bool(i % 2), 'queries': with_readers(rnd, qs, readers, h, nread, nows, len(table['zone']))})
    return jobs


def random_jobs(rnd, table, n, nq, nread, start):
    '''extras on top of TLC's enumeration: any subset of ALL table entries (an entry may be appended
    twice), any order, bounds anywhere on the instant grid'''
    ne = len(table['at'])
    ninst = len(table['cal']) * len(table['tod'])
    top = max(table['at'])
    hot = sorted({min(ninst - 1, max(0, a + d)) for a in table['at'] for d in (-6, -5, -1, 0, 1, 4, 5, 6)})
    jobs = []
    for i in range(n):
        k = rnd.randint(0, ne)
        h = [rnd.randint(1, ne) for _ in range(k)]
        if rnd.random() < 0.5:
            h = list(dict.fromkeys(h))
        qs = []
        for _ in range(nq):
            pick = lambda: -1 if rnd.random() < 0.3 else (rnd.choice(hot) if rnd.random() < 0.7 else rnd.randrange(ninst))  # noqa: E731
            a, b = pick(), pick()
            lim = -1 if rnd.random() < 0.4 else rnd.randint(0, 5)
            if a < 0 and b < 0 and lim < 0:
                lim = rnd.randint(0, 5)
            qs.append([a, b, lim, rnd.randint(0, 1), rnd.randint(top + 1, ninst - 1), rnd.randint(1, len(table['zone'])), 1 if rnd.random() < 0.2 else 0, 0])
        readers = [(rnd.choice([0] + hot), e) for e in (h or [1])]
        with_readers(rnd, qs, readers, h, nread, list(range(top + 1, ninst)), len(table['zone']))
        job = {'id': start + i, 'table': table, 'appends': h, 'strform': bool(i % 2), 'queries': qs}
        if i % 2 and h:  # one process life: some of the queries run between the appends, now and then a restart
            ev = [['a', e] for e in h]
            k = rnd.randint(1, max(1, len(qs) // 2))
            for x in qs[:k]:
                ev.insert(rnd.randint(0, len(ev) - 1), ['q'] + x)
            if rnd.random() < 0.4:
                ev.insert(rnd.randint(1, len(ev)), ['r'])
            job.update(events=ev, queries=qs[k:])
        jobs.append(job)
    return jobs


def completions(chk, pid, thorough, rnd):
    '''first sentence of C18 on the producing side: spec/Sched.tla histories (deep one-target instance, two-target
    withdrawal instance) run on the REAL farm.Hand._res -> schedule.complete -> chronicle.append path; clause
    C18.CompletedOnce of Sched_Trace.tla: one record per completed unit, with its outcome, and no other'''
    from checks import sched

    focus = sched.leaves(sched.gen_focus_all(chk, 'Programs3Focus' if thorough else 'Programs3Quick'))
    lean = sched.leaves(sched.gen_focus_all(chk, 'ProgramsChain', name='lean2t_all', maxrun=3, spec='GenSpecLean', targets=sched.TARGETS))
    if not thorough:
        rnd.shuffle(focus)
        rnd.shuffle(lean)
        fails = [s for s in lean if any(e['ev'] == 'Reply' and e['out'] == 'failure' for e in s['h'])]
        focus, lean = focus[:1500], fails[:1500]
    jobs = sched.to_jobs(focus + lean, start=10**6)
    before = chk.traces
    sched.validate_and_collect(chk, pid, [(sched.ALG3, jobs)])
    chk.counters['scheduler_histories_for_completion_records'] = chk.traces - before
    n = 0
    for fn in os.listdir(chk.work):
        if fn.startswith('sched_h.') and fn.endswith('.ndjson'):
            with open(os.path.join(chk.work, fn)) as f:
                for ln in f:
                    n += ln.count('"status": "')
    chk.counters['completions_recorded_by_the_scheduler'] = n


def run(pid, tier, seed, replay=None):
    chk = core.Check(pid, tier, seed)
    rnd = random.Random(seed)
    thorough = tier == 'thorough'
    chk.assumptions = [
        'bounded model: 24 table entries (8 instants x 3 recorded outcomes success/failure/invalid, 3-4 run ids, several entries per file, several files per day) on calendars of real contiguous days: '
        'Y 2023-12-30..2024-01-03 (year end), L 2024-02-28..03-02 (leap day, month end), J 2023-12-30..2024-03-01 (both, 56 empty days between); 5 times of day incl. 00:00:00 and 23:59:59',
        'the wall clock is monotone: every entry completed strictly before the `now` of a query (so "no upper bound" and "before = now" select the same entries)',
        'after+limit without before is unconstrained beyond "subset of the window, newest first" (statement is silent); ties in completion time may be ordered / cut anywhere',
        'bounds are handed over tz-aware, written with the offsets +00:00, -05:00, +05:30, +13:00, -11:00 (datetimes for find, ISO strings in lists for failed/succeeded - the form the web layer hands over); the zone is not part of the meaning of a query; a call that raises is not an answer',
        'journal files are read back from disk after every append; an entry counts only if it is byte-for-byte (as JSON) the entry that was handed to append',
        'one trace is one process life: appends, queries and other readers in any order (TLC enumerates one life per distinct (files, what the queries so far saw missing/loaded and still holds, what an append has outdated since) on calendar J, 3 entries in 3 months / 2 years), process restarts = reload of the chronicle module; completion times need not be appended in order and a window may reach beyond the clock',
        'other readers of the history run between the queries of a history: the real fe.api.df_model_statistics (scheduler queues empty, boot time injected) and, after every find, the harness editing the entries it was handed (the caller\'s own copies); by the property they change nothing',
    ]
    if replay:
        with open(replay, 'rt', encoding='utf-8') as f:
            rp = json.load(f)['replay']
        if 'algs' in rp:
            from checks import sched

            sched.validate_and_collect(chk, pid, [(rp['algs'], [rp['job']])])
            return chk.finish('replay of one recorded scheduler history (completion records)')
        validate_and_collect(chk, pid, rp['cal'], [rp['job']])
        return chk.finish('replay of one recorded history + query')
    # 1. MC
    if thorough:
        runs = [
            ('mcYA', consts('Y', 'CandA', 'BoundsAll', [0, 1, 2, 3], 'T')),
            ('mcYB', consts('Y', 'CandB', 'Q', [0, 1, 2, 3], 'T')),
            ('mcLA', consts('L', 'CandA', 'BoundsAll', [0, 1, 2, 3], 'T')),
            ('mcLB', consts('L', 'CandB', 'Q', [0, 1, 2, 3], 'T')),
            ('mcYC', consts('Y', 'CandC', 'Q', [1, 2], 'Q')),  # 10 entries, both outcomes at the same instants
            ('mcJA', consts('J', 'CandA', 'Q', [0, 1, 2], 'T')),
            ('mcJB', consts('J', 'CandB', 'Q', [1, 2], 'Q')),
            ('mcApi', consts('Y', 'CandA', 'Q', [0, 1, 2], 'Q', api=True, reader=True)),  # front end + other readers between appends and queries
        ]
    else:
        # quick: one light model run (launches dominate the quick tier); the L / J / front-end / 10-entry
        # runs and the refutation of the pinned transcription are in thorough
        runs = [('mcY', consts('Y', 'CandA', 'M', [1, 2], 'Q'))]
    for name, cst in runs:
        chk.mc(name, 'Chronicle_MC.tla', dict(spec='Spec', constants=cst, invariants=INVS, properties=PROPS), workers=MCW)
    if thorough:
        # the transcription of the tree as pinned (commit 8ab289e) is refuted by TLC at design level.
        # Informational: a counterexample of a MODEL is never an alarm; the verdict comes from the
        # traces of the real code below.
        pin = chk.mc('mcPinned', 'Chronicle_MC.tla', dict(spec='Spec', constants=consts('Y', 'CandA', 'Q', [1, 2], 'Q', api=True, pinned=True, pinned_api=True), invariants=INVS, properties=PROPS), expect_ok=False, workers=4)
        if pin.ok:
            raise core.Machinery('the transcription of the pinned find is expected to violate C18_FindOK in the model')
        chk.extra['pinned_transcription_refuted_by'] = pin.violated
    # 2. GEN
    if thorough:
        gens = [
            ('Y', 'genYA', consts('Y', 'CandA', 'BoundsAll', [0, 1, 2, 3], 'T'), 500, 60),
            ('Y', 'genYB', consts('Y', 'CandB', 'BoundsAll', [0, 1, 2, 3], 'T'), 150, 25),
            ('L', 'genLA', consts('L', 'CandA', 'BoundsAll', [0, 1, 2, 3], 'T'), 400, 60),
            ('L', 'genLB', consts('L', 'CandB', 'BoundsAll', [0, 1, 2, 3], 'T'), 150, 25),
            ('J', 'genJA', consts('J', 'CandA', 'Q', [0, 1, 2], 'T'), 100, 20),
        ]
        nrand, nrq, nread = 600, 60, 4
        lifegen, nlife, nlq = ('J', 'lifeJ', consts('J', 'CandL', 'L', [2], 'Q')), None, 12
    else:
        gens = [
            ('Y', 'genYA', consts('Y', 'CandA', 'Q', [0, 1, 2], 'Q'), 45, 12),
            ('J', 'genJS', consts('J', 'CandS', 'Q', [0, 1, 2], 'Q'), 40, 10),
        ]
        nrand, nrq, nread = 50, 40, 2
        lifegen, nlife, nlq = ('J', 'lifeJ', consts('J', 'CandL', 'L', [2], 'Q')), 60, 6
    jobs = {c: [] for c in SETS}
    tables = {}
    lastq = {}
    nid = 0
    for cal, name, cst, nfind, napi in gens:
        table, queries, hists, readers = generate(chk, name, cst)
        tables[cal] = table
        lastq[cal] = queries
        chk.counters['histories_' + name] = len(hists)
        chk.counters['queries_' + name] = len(queries)
        new = make_jobs(rnd, table, hists, queries, readers, nfind, napi, nread, start=nid)
        nid += len(new)
        jobs[cal] += new
    cal, name, cst = lifegen
    lives = generate_life(chk, name, cst)
    chk.counters['process_lives_' + name] = len(lives)
    chk.counters['process_lives_with_an_outdated_observation_' + name] = sum(1 for x in lives if x[1][1])
    new = life_jobs(rnd, tables[cal], lives, lastq[cal], nlife, nlq, start=nid)
    chk.counters['process_lives_run'] = len(new)
    nid += len(new)
    jobs[cal] += new
    for cal in SETS:
        if cal not in tables:
            continue
        new = random_jobs(rnd, tables[cal], nrand if cal == 'J' or not thorough else nrand // 3, nrq, nread, start=nid)
        nid += len(new)
        jobs[cal] += new
        chk.counters['random_extra_traces'] = chk.counters.get('random_extra_traces', 0) + len(new)
    chk.samples = []
    for cal in SETS:
        for j in rnd.sample(jobs[cal], min(2, len(jobs[cal]))):
            t = j['table']
            chk.samples.append(
                {
                    'calendar': cal,
                    'appends': [[e, when(t, t['at'][e - 1]), t['st'][e - 1]] for e in j['appends']],
                    'queries': [{'call': ('find', 'front end', 'other reader')[q[6]], 'after': when(t, q[0]), 'before': when(t, q[1]), 'offset': zone(t, q[5]), 'limit': None if q[2] < 0 else q[2], 'succeeded': bool(q[3]), 'now': when(t, q[4])} for q in j['queries'][:2]],
                }
            )
    # 3 + 4
    for cal in SETS:
        validate_and_collect(chk, pid, cal, jobs[cal])
    completions(chk, pid, thorough, rnd)
    for k in ('queries_before_an_append', 'answers_with_an_entry_appended_after_a_query', 'restart_lines', 'append_lines', 'find_lines', 'api_lines', 'reader_lines', 'answers_after_a_reader', 'nonempty_answers', 'nonempty_offset_answers', 'truncated_answers', 'completions_recorded_by_the_scheduler'):
        if not chk.counters.get(k) and not chk.violations:
            raise core.Machinery(f'vacuous run: counter {k} is zero')
    return chk.finish(
        'histories = one append sequence per distinct state of the journal files of the bounded model (all of them), queries = the (after, before, limit, outcome, now) '
        'domain printed by TLC (exhaustive in the model; per history a seeded sample of it is run on the real code), each through the real chronicle.find and through '
        'fe.api.schedule.failed/succeeded on real files, in seeded order, with other readers of the history (fe.api.df_model_statistics; the caller editing the entries it got) in between; plus process lives generated by TLC (queries between the appends, every way an earlier observation of a query can be outdated by a later append) followed by sampled queries; plus seeded random histories/queries over all table entries and the whole instant grid of each calendar, half of them with queries between the appends and restarts. '
        'non-trivial = distinct (history, call, query) with a non-empty real answer'
    )


if __name__ == '__main__':
    core.main(run)
