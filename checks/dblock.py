'''C13: the database lock is exclusive, survives client crashes, is eventually granted (spec/DbLock.tla)'''

import json
import os
import random

from vlib import core, tlc

SAFETY = dict(invariants=['C13_Mutex'], properties=['C13_ToldTruth', 'C13_NoFalseBusy', 'C13_CrashFree', 'C13_GoneNeverGranted', 'C13_GrantNext', 'C13_OnlyHolderFrees', 'C13_FreedOnlyByHolder'])


def gen(chk, name, clients, sim=None, seed=0):
    cfg = os.path.join(chk.work, f'{name}.cfg')
    c = {'C': '{' + ', '.join(str(x) for x in clients) + '}'}
    if sim:
        tlc.write_cfg(cfg, spec='GenSpec', constants=c, invariants=['SimInv'])
        res = tlc.run('DbLock_Gen.tla', cfg, workers=1, simulate=f'num={sim[0]}', depth=sim[1], seed=seed, timeout=600, out_file=os.path.join(chk.work, f'{name}.out'))
    else:
        tlc.write_cfg(cfg, spec='GenSpec', constants=c, extra=['VIEW View', 'ACTION_CONSTRAINT Emit'])
        res = tlc.run('DbLock_Gen.tla', cfg, workers=1, timeout=900, out_file=os.path.join(chk.work, f'{name}.out'))
        if not res.ok:
            raise core.Machinery(f'generation {name} failed: {res.error or res.violated}')
    chk.mc_runs.append(dict(res.summary(), name=name, module='DbLock_Gen.tla', mode='simulate' if sim else 'transitions'))
    out = [json.loads(r[1])['h'] for r in tlc.printed(res, 'SCHED')]
    if sim:
        keep, seen = [], set()
        for i, h in enumerate(out):
            if h and (i + 1 == len(out) or len(out[i + 1]) <= len(h)):
                k = json.dumps(h)
                if k not in seen:
                    seen.add(k)
                    keep.append(h)
        out = keep
    return out


def collect(chk, pid, jobs, clients):
    files = chk.run_harness('dblock_h', jobs)
    chk.traces += len(jobs)
    rows = chk.validate('DbLock_Trace.tla', dict(spec='TraceSpec', constants={'C': '{' + ', '.join(str(x) for x in clients) + '}'}, extra=['POSTCONDITION AllConsumed']), files, name=f'DbLock_Trace_{len(clients)}')
    byid = {j['id']: j for j in jobs}
    c = chk.counters
    for fn in files:
        with open(fn) as f:
            for ln in f:
                for st in json.loads(ln)['steps']:
                    for m in st['obs']['told']:
                        c['told_' + m['msg']] = c.get('told_' + m['msg'], 0) + 1
                    c['real_client_acquired'] = c.get('real_client_acquired', 0) + (1 if st['obs']['client_acquired'] else 0)
                    c['disconnect_while_holding'] = c.get('disconnect_while_holding', 0)
    for r in rows['DRIFT']:
        chk.drift += 1
        if len(chk.drift_samples) < 5:
            chk.drift_samples.append({'trace': r[1], 'line': r[2], 'ev': r[3], 'events': byid[r[1]]['events']})
    for _tag, tid, line, ev, bad in rows['CLAUSE']:
        for clause in sorted(bad['set']):
            if clause.startswith(pid + '.'):
                job = byid[tid]
                sig = ','.join(f"{e['ev']}{e['c']}" for e in job['events'][: line - 1])
                chk.add_violation(clause, sig, {'trace': tid, 'line': line, 'event': ev}, {'job': job, 'line': line, 'clients': clients})


def run(pid, tier, seed, replay=None):
    chk = core.Check(pid, tier, seed)
    rnd = random.Random(seed)
    if replay:
        with open(replay) as f:
            rp = json.load(f)['replay']
        collect(chk, pid, [rp['job']], rp['clients'])
        return chk.finish('replay of one recorded schedule')
    thorough = tier == 'thorough'
    chk.mc('mc3', 'DbLock.tla', dict(spec='Spec', constants={'C': '{1, 2, 3}'}, **SAFETY))
    chk.mc('live3', 'DbLock.tla', dict(spec='FairSpec', constants={'C': '{1, 2, 3}'}, properties=['C13_NoStarve', 'C13_LockFreed']))
    if thorough:
        chk.mc('mc4', 'DbLock.tla', dict(spec='Spec', constants={'C': '{1, 2, 3, 4}'}, **SAFETY))
        chk.mc('live4', 'DbLock.tla', dict(spec='FairSpec', constants={'C': '{1, 2, 3, 4}'}, properties=['C13_NoStarve', 'C13_LockFreed']), timeout=1800)
    trans = gen(chk, 'gen', [1, 2, 3])
    total = len(trans)
    sim = gen(chk, 'sim', [1, 2, 3, 4], sim=(3000 if thorough else 500, 14), seed=seed)
    chunks = [0, 1, 7]
    jobs3 = []
    for i, h in enumerate(trans):
        jobs3.append({'id': i, 'clients': [1, 2, 3], 'events': h, 'chunk': chunks[i % 3]})
    # the same schedules again with the REAL blocking client functions where the model says the request is granted at once
    real = []
    for h in trans if thorough else rnd.sample(trans, min(600, len(trans))):
        hh = [dict(e, real=True) if e['ev'] in ('Request', 'Release') else e for e in h]
        real.append({'id': len(jobs3) + len(real), 'clients': [1, 2, 3], 'events': hh, 'chunk': 5})
    jobs4 = [{'id': len(jobs3) + len(real) + i, 'clients': [1, 2, 3, 4], 'events': h, 'chunk': chunks[i % 3]} for i, h in enumerate(sim)]
    chk.samples = [j['events'] for j in rnd.sample(jobs3, 2)] + [jobs4[0]['events']]
    collect(chk, pid, jobs3 + real, [1, 2, 3])
    collect(chk, pid, jobs4, [1, 2, 3, 4])
    for k in ('told_granted', 'told_busy', 'told_released', 'told_notheld', 'real_client_acquired'):
        if not chk.counters.get(k) and not chk.violations:
            raise core.Machinery(f'vacuous run: counter {k} is zero')
    chk.counters.update(transitions_of_gen_instance=total, transitions_replayed=len(trans), sim_behaviours=len(sim), distinct_nontrivial=len({json.dumps(j['events']) for j in jobs3 + jobs4 if len(j['events']) >= 3}))
    chk.assumptions = [
        '3 clients exhaustively (every transition replayed), 4 clients in MC-thorough and simulation; each connection has its own virtual clock, so any poll order is realisable',
        'requests are real pickled COMMANDs fed through dataReceived in 1-, 7-byte or whole chunks; part of the schedules uses the real blocking client functions comms.acquire/release',
        'liveness (NoStarve) is decided in the model under weak fairness of polls and of release-or-death of holders',
    ]
    return chk.finish('every transition of the 3-client instance (request / poll / release / disconnect by any client at any step) as the event sequence reaching it + simulated 4-client behaviours, executed on real comms.Worker objects; TLC validates lock bit, ownership flags and every status message decoded from the client transports', exhaustive=True)


if __name__ == '__main__':
    core.main(run)
