'''C10, C12: pipeline life cycle and submit crossroads (spec/Lifecycle.tla)'''

import json
import os
import random

from vlib import core, tlc

MC = {
    'C10': dict(invariants=['TypeOK', 'C10_Rest', 'C10_Active'], properties=['C10_Edges', 'C10_Rejected', 'C10_ArchiveReturns']),
    'C12': dict(invariants=['TypeOK', 'C12_ExactlyOnce', 'C12_NotLost'], properties=['C12_OnlyWhenAllowed', 'C12_NoSpuriousFire', 'C12_Refused']),
}
LIVE = {'C10': ['C10_Return'], 'C12': ['C12_EventuallyIfIdle']}


def consts(ms, me, mc, mr, pinned=False):
    return {'MaxSubmit': str(ms), 'MaxEnv': str(me), 'MaxCycle': str(mc), 'MaxRaw': str(mr), 'Pinned': 'TRUE' if pinned else 'FALSE'}


def leaves(hs):
    '''executing a history (every step is validated) covers all its prefixes: keep the maximal ones'''
    parents = {json.dumps(h[:-1], sort_keys=True) for h in hs}
    return [h for h in hs if json.dumps(h, sort_keys=True) not in parents]


def gen(chk, name, c, sim=None, seed=0, spec='GenSpec'):
    cfg = os.path.join(chk.work, f'{name}.cfg')
    if sim:
        tlc.write_cfg(cfg, spec='GenSpec', constants=c, invariants=['SimInv'])
        res = tlc.run('Lifecycle_Gen.tla', cfg, workers=1, simulate=f'num={sim[0]}', depth=sim[1], seed=seed, timeout=900, out_file=os.path.join(chk.work, f'{name}.out'))
    else:
        tlc.write_cfg(cfg, spec=spec, constants=c, extra=['VIEW View', 'ACTION_CONSTRAINT Emit'])
        res = tlc.run('Lifecycle_Gen.tla', cfg, workers=1, timeout=1800, out_file=os.path.join(chk.work, f'{name}.out'))
        if not res.ok:
            raise core.Machinery(f'generation {name} failed: {res.error or res.violated}')
    chk.mc_runs.append(dict(res.summary(), name=name, module='Lifecycle_Gen.tla', mode='simulate' if sim else 'transitions'))
    out = [json.loads(r[1])['h'] for r in tlc.printed(res, 'SCHED')]
    if sim:
        keep, seen = [], set()
        for i, h in enumerate(out):
            if h and (i + 1 == len(out) or len(out[i + 1]) <= len(h)):
                k = json.dumps(h, sort_keys=True)
                if k not in seen:
                    seen.add(k)
                    keep.append(h)
        out = keep
    return out


def collect(chk, pid, jobs):
    files = chk.run_harness('life_h', jobs)
    chk.traces += len(jobs)
    rows = chk.validate('Lifecycle_Trace.tla', dict(spec='TraceSpec', constants=consts(10**6, 10**6, 10**6, 10**6), extra=['POSTCONDITION AllConsumed']), files)
    byid = {j['id']: j for j in jobs}
    c = chk.counters
    for fn in files:
        with open(fn) as f:
            for ln in f:
                for st in json.loads(ln)['steps']:
                    o = st['obs']
                    c['update_triggers_accepted'] = c.get('update_triggers_accepted', 0) + sum(1 for x in o['fires'] if x['accepted'])
                    c['poller_fires'] = c.get('poller_fires', 0) + sum(1 for x in o['fires'] if x['accepted'] and x['src'] == 'poller')
                    c['rejections'] = c.get('rejections', 0) + (1 if o['rejected'] else 0)
                    c['refusals'] = c.get('refusals', 0) + (1 if o['refused'] else 0)
                    c['rearmed_in_callback'] = c.get('rearmed_in_callback', 0) + (1 if st['ev'] == 'PollerDone' and st['st']['slot'][st['args']['k']] == 'armed' else 0)
                    c['composite_steps'] = c.get('composite_steps', 0) + (1 if len(o['path']) > 2 else 0)
    for r in rows['DRIFT']:
        chk.drift += 1
        if len(chk.drift_samples) < 5:
            chk.drift_samples.append({'trace': r[1], 'line': r[2], 'ev': r[3], 'events': byid[r[1]]['events']})
    for _tag, tid, line, ev, bad in rows['CLAUSE']:
        for clause in sorted(bad['set']):
            if clause.startswith(pid + '.'):
                job = byid[tid]
                kinds = [e['ev'] + (':' + str(e.get('p') or e.get('k') or e.get('bit') or e.get('name') or '')).rstrip(':') for e in job['events']]
                sig = ','.join(kinds[: line - 1]) if line - 1 <= len(kinds) else ','.join(kinds) + ',drain'
                chk.add_violation(clause, sig, {'trace': tid, 'line': line, 'event': ev}, {'job': job, 'line': line})


SYS_PROPS = dict(invariants=['SYS_ExactlyOnce', 'SYS_ViewsTruthful', 'SYS_IdleMeansIdle', 'SYS_Rest', 'SYS_ReleasedFlyOrParked', 'SYS_ParkedNotFlying'], properties=['SYS_ReloadOnlyWhenTrulyAllowed', 'SYS_NoDispatchWhileInactive', 'SYS_NoArchiveOverParked'])


def scarcity_histories(chk, thorough, rnd, cap=600):
    """guided instance 2 of System_Gen (worker scarcity): an archive is due and a unit is released while no worker is there;
    it waits in the farm; from there everything (workers arriving, scarce / plentiful passes, submissions), maximal histories"""
    cfg = os.path.join(chk.work, 'gen_guided2.cfg')
    tlc.write_cfg(cfg, spec='Guided2Spec', constants={'MaxRun': '3', 'MaxSubmit': '1', 'MaxCycle': '0'}, extra=['VIEW View', 'ACTION_CONSTRAINT Emit'])
    res = tlc.run('System_Gen.tla', cfg, workers=1, timeout=1800, out_file=os.path.join(chk.work, 'gen_guided2.out'))
    if not res.ok:
        raise core.Machinery(f'generation gen_guided2 failed: {res.error or res.violated}')
    chk.mc_runs.append(dict(res.summary(), name='gen_guided2', module='System_Gen.tla'))
    guided2 = leaves([json.loads(r[1])['h'] for r in tlc.printed(res, 'SCHED')])
    chk.counters['system_scarcity_histories'] = len(guided2)
    if not thorough:
        rnd.shuffle(guided2)
        # every history in which a worker arrives while a unit waits and a scarce pass follows; a sample of the rest
        hot = [h for h in guided2 if any(e['ev'] == 'WorkerArrive' for e in h[5:])]
        guided2 = hot[:cap] + [h for h in guided2 if not any(e['ev'] == 'WorkerArrive' for e in h[5:])][: cap // 4]
    return guided2


def system_replay(chk, pid, hs):
    """run composed histories on the real FSM + real scheduler / farm (harness/compose_h.py) and let TLC judge them (System_Trace)"""
    jobs = [{'id': i, 'events': h, 'drain': True} for i, h in enumerate(hs)]
    files = chk.run_harness('compose_h', jobs)
    chk.traces += len(jobs)
    rows = chk.validate('System_Trace.tla', dict(spec='TraceSpec', constants={'MaxRun': '1000000', 'MaxSubmit': '1000000', 'MaxCycle': '1000000'}, extra=['POSTCONDITION AllConsumed']), files)
    for r in rows['DRIFT']:
        chk.drift += 1
        if len(chk.drift_samples) < 5:
            chk.drift_samples.append({'system_trace': r[1], 'line': r[2], 'ev': r[3], 'events': jobs[r[1]]['events']})
    for _tag, tid, line, ev, bad in rows['CLAUSE']:
        for clause in sorted(bad['set']):
            job = jobs[tid]
            kinds = [e['ev'] + (':' + str(e.get('p') or e.get('k') or e.get('x') or '')).rstrip(':') for e in job['events']]
            sig = 'system:' + (','.join(kinds[: line - 1]) if line - 1 <= len(kinds) else ','.join(kinds) + ',drain')
            chk.add_violation(pid + '.' + clause, sig, {'trace': tid, 'line': line, 'event': ev}, {'system_job': job, 'line': line})
    return jobs, files


def scarcity(chk, pid, thorough, rnd):
    """C03 (a released unit is handed to at most one worker and otherwise stays queued) through the composed system with
    scarce workers: the model instance is checked by TLC, its histories run on the real code, the traces are judged by TLC"""
    sc = {'MaxRun': '2', 'MaxSubmit': '1', 'MaxCycle': '1'}
    chk.mc('mc_system', 'System.tla', dict(spec='Spec', constants=sc, **SYS_PROPS))
    hs = scarcity_histories(chk, thorough, rnd, cap=400)
    jobs, files = system_replay(chk, pid, hs)
    parked = 0
    for fn in files:
        with open(fn) as f:
            for ln in f:
                parked += sum(1 for st in json.loads(ln)['steps'] if st['st']['park'])
    chk.counters.update(system_scarcity_schedules=len(jobs), steps_with_a_unit_waiting_in_the_farm=parked)
    if not parked and not chk.violations:
        raise core.Machinery('vacuous run: no step with a unit waiting in the farm')


def composition(chk, pid, thorough, seed, rnd):
    '''spec/System.tla: the crossroads on top of the REAL scheduler / farm; the C12 conditions judged against ground truth'''
    sc = {'MaxRun': '2', 'MaxSubmit': '2', 'MaxCycle': '1'}
    chk.mc('mc_system', 'System.tla', dict(spec='Spec', constants=sc, **SYS_PROPS))
    cfg = os.path.join(chk.work, 'gen_system.cfg')
    tlc.write_cfg(cfg, spec='GenSpec', constants=sc, extra=['VIEW View', 'ACTION_CONSTRAINT ' + ('Emit' if thorough else 'EmitS10')])
    res = tlc.run('System_Gen.tla', cfg, workers=core.NPROC if not thorough else 1, timeout=1800, out_file=os.path.join(chk.work, 'gen_system.out'))
    if not res.ok:
        raise core.Machinery(f'generation gen_system failed: {res.error or res.violated}')
    chk.mc_runs.append(dict(res.summary(), name='gen_system', module='System_Gen.tla'))
    hs = [json.loads(r[1])['h'] for r in tlc.printed(res, 'SCHED')]
    if thorough:
        hs = leaves(hs)
    if not thorough:
        # the sampled transitions in which a waiter fires after a unit failed (withdrawals change what the scheduler
        # reports as executing) all run; a seeded sample of the others
        rnd.shuffle(hs)
        hot = [h for h in hs if any(e['ev'] == 'Reply' and not e['ok'] for e in h) and any(e['ev'] == 'PollerDone' for e in h)]
        cold = [h for h in hs if not (any(e['ev'] == 'Reply' and not e['ok'] for e in h) and any(e['ev'] == 'PollerDone' for e in h))]
        hs = hot[:1000] + cold[:500]
    # guided instance: a unit is executing while its upstream is re-run and fails (the scheduler withdraws the unit's
    # target although it is still out on a worker); everything from there, maximal histories
    cfg = os.path.join(chk.work, 'gen_guided.cfg')
    tlc.write_cfg(cfg, spec='GuidedSpec', constants=sc, extra=['VIEW View', 'ACTION_CONSTRAINT Emit'])
    res = tlc.run('System_Gen.tla', cfg, workers=1, timeout=1800, out_file=os.path.join(chk.work, 'gen_guided.out'))
    if not res.ok:
        raise core.Machinery(f'generation gen_guided failed: {res.error or res.violated}')
    chk.mc_runs.append(dict(res.summary(), name='gen_guided', module='System_Gen.tla'))
    guided = leaves([json.loads(r[1])['h'] for r in tlc.printed(res, 'SCHED')])
    chk.counters['system_guided_histories'] = len(guided)
    if not thorough:
        rnd.shuffle(guided)
        # a waiter that looks (and, in the correct code, may have to keep waiting) is what matters here
        looks = [h for h in guided if any(e['ev'] == 'PollerObserve' for e in h)]
        guided = looks + [h for h in guided if not any(e['ev'] == 'PollerObserve' for e in h)][:300]
    guided2 = scarcity_histories(chk, thorough, rnd)
    hs = hs + guided + guided2
    jobs = [{'id': i, 'events': h, 'drain': True} for i, h in enumerate(hs)]
    files = chk.run_harness('compose_h', jobs)
    chk.traces += len(jobs)
    rows = chk.validate('System_Trace.tla', dict(spec='TraceSpec', constants={'MaxRun': '1000000', 'MaxSubmit': '1000000', 'MaxCycle': '1000000'}, extra=['POSTCONDITION AllConsumed']), files)
    nf = 0
    for fn in files:
        with open(fn) as f:
            for ln in f:
                for st in json.loads(ln)['steps']:
                    nf += sum(1 for x in st['obs']['fires'] if x['accepted'] and x['src'] in ('now', 'poller'))
    chk.counters.update(system_schedules=len(jobs), system_reloads_judged_against_ground_truth=nf)
    for r in rows['DRIFT']:
        chk.drift += 1
        if len(chk.drift_samples) < 5:
            chk.drift_samples.append({'system_trace': r[1], 'line': r[2], 'ev': r[3], 'events': jobs[r[1]]['events']})
    for _tag, tid, line, ev, bad in rows['CLAUSE']:
        for clause in sorted(bad['set']):
            job = jobs[tid]
            kinds = [e['ev'] + (':' + str(e.get('p') or e.get('k') or e.get('x') or '')).rstrip(':') for e in job['events']]
            sig = 'system:' + (','.join(kinds[: line - 1]) if line - 1 <= len(kinds) else ','.join(kinds) + ',drain')
            chk.add_violation(pid + '.' + clause, sig, {'trace': tid, 'line': line, 'event': ev}, {'system_job': job, 'line': line})


def run(pid, tier, seed, replay=None):
    chk = core.Check(pid, tier, seed)
    rnd = random.Random(seed)
    if replay:
        with open(replay) as f:
            rp = json.load(f)['replay']
        if 'system_job' in rp:
            files = chk.run_harness('compose_h', [dict(rp['system_job'], id=0)])
            rows = chk.validate('System_Trace.tla', dict(spec='TraceSpec', constants={'MaxRun': '1000000', 'MaxSubmit': '1000000', 'MaxCycle': '1000000'}, extra=['POSTCONDITION AllConsumed']), files)
            for _tag, tid, line, ev, bad in rows['CLAUSE']:
                for clause in sorted(bad['set']):
                    chk.add_violation(pid + '.' + clause, 'replay', {'line': line, 'event': ev}, rp)
            chk.traces = 1
            return chk.finish('replay of one recorded composed schedule')
        collect(chk, pid, [rp['job']])
        return chk.finish('replay of one recorded schedule')
    thorough = tier == 'thorough'
    chk.mc('mc', 'Lifecycle.tla', dict(spec='Spec', constants=consts(3, 2, 1, 0), **MC[pid]))
    chk.mc('live', 'Lifecycle.tla', dict(spec='FairSpec', constants=consts(2, 2 if thorough else 1, 1, 0), properties=LIVE[pid]), timeout=1800)
    if thorough:
        chk.mc('mc_big', 'Lifecycle.tla', dict(spec='Spec', constants=consts(3, 3, 2, 1), **MC[pid]))
    trans = gen(chk, 'gen', consts(2, 1, 1, 1))
    total = len(trans)
    trans = leaves(trans)
    if not thorough:
        rnd.shuffle(trans)
        trans = trans[:2500]
    # focus instance: two submissions of any priorities (and an unrecognised one) while work is queued, executing and
    # a worker is busy, with the environment draining in every order
    focus = gen(chk, 'focus', consts(2, 2, 0, 0), spec='FocusSpec')
    total_focus = len(focus)
    focus = leaves(focus)
    if not thorough:
        rnd.shuffle(focus)
        if pid == 'C12':
            # every history in which a second submission meets a waiting one; a sample of the others
            two = [h for h in focus if sum(e['ev'] == 'SubmitEnd' for e in h) >= 2]
            focus = two + [h for h in focus if sum(e['ev'] == 'SubmitEnd' for e in h) < 2][:300]
        else:
            focus = focus[:500]
    trans = trans + focus
    sim = gen(chk, 'sim', consts(4, 4, 3, 2), sim=(3000 if thorough else 400, 40), seed=seed)
    jobs = [{'id': i, 'events': h, 'drain': True} for i, h in enumerate(trans + sim)]
    chk.samples = [j['events'] for j in rnd.sample(jobs, min(3, len(jobs)))]
    collect(chk, pid, jobs)
    if pid == 'C12':
        composition(chk, pid, thorough, seed, rnd)
    nontriv = {json.dumps(j['events'], sort_keys=True) for j in jobs if any(e['ev'] in ('SubmitEnd', 'CmdReset', 'DispatchArchive') for e in j['events'])}
    for k in ('update_triggers_accepted', 'poller_fires', 'rejections', 'refusals', 'rearmed_in_callback', 'composite_steps'):
        if not chk.counters.get(k) and not chk.violations:
            raise core.Machinery(f'vacuous run: counter {k} is zero')
    chk.counters.update(transitions_of_gen_instance=total, transitions_of_focus_instance=total_focus, histories_replayed=len(trans), sim_behaviours=len(sim), distinct_nontrivial=len(nontriv))
    chk.assumptions = [
        'reactor callbacks atomic; background steps (load, reload, archive, introspection) complete as separate events in any order TLC chooses; poller threads are real threads gated at every sleep, their deferred callback is a separate event',
        'bodies touching the outside world are stubs (scan/db/git/GUI/log/farm.plow); the FSM, submit Process steps, cmd_reset and farm.dispatch are real',
        'triggers come from their real sources; out-of-turn triggers are only fired where the documented machine forbids them (rejection clause)',
        'bounds: <=3 submissions (4 in simulation), <=2-4 environment toggles, <=1-3 reset/archive cycles',
    ]
    return chk.finish('event sequences = every transition of the 2-submission instance (sampled in quick) + simulated behaviours; each executed on the real FSM with gated poller threads and then drained to quiescence; non-trivial = contains a completed submission, a reset or a dispatch archive')


if __name__ == '__main__':
    core.main(run)
