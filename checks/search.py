'''C17: search returns exactly the matching entries, in order, page by page;
normalising a run-id expression never changes what it denotes (spec/Search.tla).

 1. MC      Search_MC: the transcriptions (Scrub, ImplFind, ImplFacet) against the
            declarative reference (Den, Match, FindOK, PagesOK, FacetOK) on the
            bounded domain -- part a: all 65 641 expressions; b1: per-entry
            predicate x every constraint combination; b2: set/order/page level
 2. GEN     Search_Gen: TLC enumerates / draws (seeded) the run-id expressions and
            the databases with their find / page-walk / facet queries, and the
            HISTORIES (one behaviour of Search_Gen per history, one transition per
            step): repeated identical searches in one process with stores, removes,
            count-preserving swaps and close + open of another database in between
 3. REAL    harness/search_h.py executes them on dawgie.db.basis.SearchFacade._scrub
            and on real shelve tables through dawgie.db.search() and dawgie.fe.api.*;
            a history runs in one process state, changes go through util.append,
            dawgie.db.shelve.remove and DBI().close()/open()
 4. TRACE   Search_Trace: TLC judges every recorded output with the declarative
            operators (CLAUSE -> VIOLATION) and compares with the transcription
            on the logged index tables (DRIFT); in a history TLC carries the model
            database (cur' = HApply(cur, step)) and judges every search against it;
            Python only counts and reports
'''

import json
import os

from vlib import core, tlc

BASE = {'RangeBug': 'FALSE', 'SliceBug': 'FALSE'}
COUNTERS = ['scrub_changed', 'find_nonempty', 'find_by_range_nonempty', 'find_inner_window_nonempty', 'walk_two_or_more_pages', 'facet_nonempty', 'result_mixed_width_run_ids',
            'repeat_same_query_after_equal_size_change', 'repeat_same_query_across_reopen']
SCRUB_BATCH = 250


def mc_consts(part, quick):
    return dict(BASE, Part=json.dumps(part), MaxLen='3', Quick='TRUE' if quick else 'FALSE')


def gen(chk, name, seed, **consts):
    cfg = os.path.join(chk.work, f'{name}.cfg')
    const = dict(BASE, GenPart='"b"', NScrub='0', NDb='1', NFind='1', NPages_='1', NFacet='1', NHist='0', NHSteps='0')
    const.update({k: (v if isinstance(v, str) else str(v)) for k, v in consts.items()})
    tlc.write_cfg(cfg, spec='Spec', constants=const, invariants=['Emit'])
    # TLC seeds its random draws from -seed and from state fingerprints; the fingerprint
    # polynomial is chosen at random unless -fp is given: fix both for reproducibility
    res = tlc.run('Search_Gen.tla', cfg, workers=1, seed=seed, extra_args=['-fp', str(seed % 131)], timeout=1800, out_file=os.path.join(chk.work, f'{name}.out'))
    if not res.ok:
        raise core.Machinery(f'generation {name} failed: {res.error or res.violated}')
    chk.mc_runs.append(dict(res.summary(), name=name, module='Search_Gen.tla'))
    cases = [json.loads(r[1]) for r in tlc.printed(res, 'CASE')]
    chk.note(f'gen {name}: {len(cases)} cases in {res.wall:.1f}s')
    return cases


def to_jobs(scrub_cases, db_cases, hist_cases=()):
    jobs = []
    exprs = [c['e'] for c in scrub_cases]
    for i in range(0, len(exprs), SCRUB_BATCH):
        jobs.append({'id': len(jobs) + 1, 'kind': 'a', 'exprs': exprs[i : i + SCRUB_BATCH]})
    for c in db_cases:
        steps = [{'ev': 'Find', 'args': f} for f in c['finds']]
        steps += [{'ev': 'Pages', 'args': p} for p in c['pages']]
        steps += [{'ev': 'Facet', 'args': f} for f in c['facets']]
        jobs.append({'id': len(jobs) + 1, 'kind': 'b', 'db': c['db'], 'bump': c['bump'], 'rev': c['rev'], 'off': c.get('off', 0), 'steps': steps})
    for c in hist_cases:
        jobs.append({'id': len(jobs) + 1, 'kind': 'h', 'db': c['db'], 'bump': c['bump'], 'rev': c['rev'], 'off': c.get('off', 0), 'steps': c['steps']})
    return jobs


def step_of(job, line):
    '''(event, args) of trace line `line` (1-based) of a job'''
    if job['kind'] == 'a':
        return 'Scrub', {'e': job['exprs'][line - 1]}
    s = job['steps'][line - 1]
    return s['ev'], s['args']


def single(job, line):
    '''the job reduced to one step: the replay object of a violation'''
    if job['kind'] == 'a':
        return {'id': 1, 'kind': 'a', 'exprs': [job['exprs'][line - 1]]}
    if job['kind'] == 'h':  # a history is replayed up to the failing step
        return dict(job, id=1, steps=job['steps'][:line])
    return {'id': 1, 'kind': 'b', 'db': job['db'], 'bump': job['bump'], 'rev': job['rev'], 'off': job.get('off', 0), 'steps': [job['steps'][line - 1]]}


def run_kind(run, hasrun=True):
    if not hasrun:
        return 'none'
    if any(it['k'] == 'r' and it['b'] == -1 for it in run):
        return 'open-range'
    if any(it['k'] == 'r' for it in run):
        return 'range'
    return 'ids'


def signature(ev, args):
    '''short class of the failing input (descriptive only; the verdict was TLC's)'''
    if ev == 'Scrub':
        return 'scrub:' + run_kind(args['e'])
    if 'q' not in args:
        return ev.lower()
    rk = run_kind(args['q']['run'], args['q']['hasrun'])
    if ev == 'Find':
        i, lim = args['index'], args['limit']
        page = ('all' if not lim else 'first') if i == 0 else ('offset' if not lim else 'window')
        return f'find:run={rk},page={page}'
    if ev == 'Pages':
        return f'pages:run={rk},L={args["L"]}'
    return f'facet:{args["d"]}:run={rk}'


def observed(files, wanted):
    '''obs of the (tid, line) pairs in wanted, read back from the trace files'''
    out = {}
    tids = {t for t, _ in wanted}
    for fn in files:
        with open(fn, 'rt', encoding='utf-8') as f:
            for ln in f:
                t = json.loads(ln)
                if t['tid'] in tids:
                    for tid, line in wanted:
                        if tid == t['tid']:
                            out[(tid, line)] = t['steps'][line - 1]['obs']
    return out


def execute(chk, pid, jobs):
    files = chk.run_harness('search_h', jobs)
    chk.traces += len(jobs)
    rows = chk.validate('Search_Trace.tla', dict(spec='TraceSpec', constants=BASE, extra=['POSTCONDITION AllConsumed']), files, tags=('CLAUSE', 'DRIFT', 'CONSUMED', 'STAT'))
    byid = {j['id']: j for j in jobs}
    for r in rows['DRIFT']:
        chk.drift += 1
        if len(chk.drift_samples) < 5:
            ev, args = step_of(byid[r[1]], r[2])
            chk.drift_samples.append({'trace': r[1], 'line': r[2], 'ev': ev, 'args': args})
    hits = [(r[1], r[2], r[3], sorted(c for c in r[4]['set'] if c.startswith(pid + '.'))) for r in rows['CLAUSE']]
    hits = [h for h in hits if h[3]]
    obs = observed(files, {(h[0], h[1]) for h in hits[:400]}) if hits else {}
    for tid, line, ev, clauses in hits:
        ev, args = step_of(byid[tid], line)
        for clause in clauses:
            detail = {'trace': tid, 'line': line, 'event': ev, 'args': args, 'obs': obs.get((tid, line), '(not loaded)')}
            sig = signature(ev, args)
            if byid[tid]['kind'] in 'bh':
                detail['db_entries'] = len(byid[tid]['db'])
            if byid[tid]['kind'] == 'h':
                before = [s['ev'] for s in byid[tid]['steps'][: line - 1]]
                detail['history_before'] = before
                sig = 'history:' + sig + (',after-change' if any(e in ('Store', 'Remove', 'Reopen') for e in before) else '')
            chk.add_violation(clause, sig, detail, {'job': single(byid[tid], line)})
    # vacuity counters (TLC's) and the distinct non-trivial inputs (counted here)
    totals = [0] * len(COUNTERS)
    nontrivial = set()
    for r in rows['STAT']:
        tid, stat = r[1], json.loads(r[2])
        cnt, lines = stat['cnt'], stat['lines']
        totals = [a + b for a, b in zip(totals, cnt)]
        job = byid[tid]
        dbkey = json.dumps([job.get('db'), job.get('bump'), job.get('rev'), job.get('off')], sort_keys=True)
        for line in lines:
            ctx = json.dumps(job['steps'][: line - 1], sort_keys=True) if job['kind'] == 'h' else ''
            nontrivial.add(dbkey + ctx + json.dumps(step_of(job, line), sort_keys=True))
    if len(rows['STAT']) != len(jobs):
        raise core.Machinery(f'{len(rows["STAT"])} trace summaries for {len(jobs)} jobs')
    return dict(zip(COUNTERS, totals)), len(nontrivial)


def run(pid, tier, seed, replay=None):
    chk = core.Check(pid, tier, seed)
    mutant = os.environ.get('VERIF_MUTANT', '')
    if mutant:
        chk.note(f'SELF-TEST: harness runs with in-memory mutant "{mutant}" of the real code')
        chk.extra['mutant'] = mutant
    if replay:
        with open(replay, 'rt', encoding='utf-8') as f:
            rp = json.load(f)['replay']
        execute(chk, pid, [rp['job']])
        return chk.finish('replay of one recorded case')
    thorough = tier == 'thorough'
    # 1. MC: transcription = reference on the bounded domain
    chk.mc('mc', 'Search_MC.tla', dict(spec='Spec', constants=mc_consts('all', not thorough), invariants=['C17_Scrub', 'C17_Find', 'C17_Pages', 'C17_Facet']))
    # 2. GEN: inputs chosen by TLC
    if thorough:
        cases = gen(chk, 'gen', seed, GenPart='"abh"', NScrub=0, NDb=300, NFind=40, NPages_=8, NFacet=8, NHist=200, NHSteps=40)
    else:
        cases = gen(chk, 'gen', seed, GenPart='"abh"', NScrub=3000, NDb=24, NFind=20, NPages_=4, NFacet=4, NHist=30, NHSteps=24)
    scrub_cases = [c for c in cases if c['kind'] == 'a']
    db_cases = [c for c in cases if c['kind'] == 'b']
    hist_cases = [c for c in cases if c['kind'] == 'h']
    if not scrub_cases or not db_cases or not hist_cases:
        raise core.Machinery('generation produced no cases')
    jobs = to_jobs(scrub_cases, db_cases, hist_cases)
    # 3 + 4. real code, then TLC on the records
    counters, distinct = execute(chk, pid, jobs)
    chk.counters.update(counters)
    chk.counters.update(
        expressions=len(scrub_cases),
        databases=len(db_cases),
        steps=sum(len(j['steps']) for j in jobs if j['kind'] == 'b'),
        histories=len(hist_cases),
        history_steps=sum(len(j['steps']) for j in jobs if j['kind'] == 'h'),
        distinct_nontrivial=distinct,
    )
    empty = [k for k in COUNTERS if counters[k] == 0]
    if empty:
        raise core.Machinery(f'vacuous run: no case with {empty}')
    some_db = sorted((j for j in jobs if j['kind'] == 'b' and len(j['db']) >= 6), key=lambda j: len(j['db']))
    chk.samples = [{'scrub': j['exprs'][0]} for j in jobs[:2] if j['kind'] == 'a'] + [
        {'db_entries': len(j['db']), 'bump': j['bump'], 'step': j['steps'][k]} for j in some_db[:4] for k in (0,)
    ]
    chk.assumptions = [
        'bounded domain: run-id items = id 0..4 or range start 0..4 : stop 0..5/open, <= 3 items; databases = subsets of the 4x2x2x2x2x2 grid '
        '(runs 1..4, stored as run + 0 / 7 / 97 so that run ids of different decimal widths occur: 8..11, 98..101; names with a stored name that is a prefix of another and unknown names that are prefixes/extensions of stored ones); '
        'index 0..6, limit none/1/2/3',
        'order among entries with equal run id is not constrained (the statement fixes run-id order only); an empty run-id expression means "no constraint" (as the front end does)',
        'one version per name and run (optionally a newer version from run 3 on); the value constraint and the run-id facet are not part of the property (not reachable from fe.api)',
        'histories: one process, <= ~40 steps over subsets of the same grid; changes = store / remove of 1..3 entries, swaps that keep the number of primary keys, '
        'close + open of another database (equal or other size); a search is judged against the database as it is when the search is made',
        'shelve back end only, opened locally (DBI().open()); the PostgreSQL implementation is not reached (no server)',
    ]
    return chk.finish(
        'expressions: every run-id expression of the domain (thorough) or a seeded sample of 3000 (quick), each normalised by the real _scrub in three input forms; '
        'databases: structured ones plus TLC-drawn subsets of the grid in five density classes, each filled into real shelve tables and queried with TLC-drawn '
        'find / page-walk / facet queries over the full constraint space, through dawgie.db.search() and the fe.api wrappers; '
        'histories: TLC behaviours of searches (three of four repeat the same question) interleaved with stores, removes, count-preserving swaps and reopen, run in one process. '
        'non-trivial = normalisation changed the expression / find with a non-empty match / walk over >= 2 pages / facet with a non-empty match; distinct by (database, query)'
    )


if __name__ == '__main__':
    core.main(run)
