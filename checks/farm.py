'''C11: work goes only to eligible workers, only while the pipeline is active (spec/Farm.tla)'''

import json
import os
import random

from vlib import core, tlc

PROPS = dict(
    invariants=['C11_NoIdleStaleRev', 'C11_IdleTruth'],
    properties=['C11_Eligible', 'C11_OneTaskPerWorker', 'C11_Silent', 'C11_Leave', 'C11_Stay', 'C11_Fields', 'C11_FreshLarger', 'C11_DrawnIff'],
)


def consts(nw, targets, maxrun, maxcycle):
    return {'NW': str(nw), 'Targets': tlc.tla_set(targets), 'MaxRun': str(maxrun), 'MaxCycle': str(maxcycle)}


def events_of(h):
    evs = []
    for e in h:
        e = dict(e)
        if 'S' in e:
            e['S'] = sorted(e['S'])
        if 'T' in e:
            e['T'] = sorted(e['T'])
        evs.append(e)
    return evs


def gen(chk, name, c, sim=None, seed=0, spec='GenSpec', deadlock=False):
    cfg = os.path.join(chk.work, f'{name}.cfg')
    if sim:
        tlc.write_cfg(cfg, spec='GenSpec', constants=c, invariants=['SimInv'])
        res = tlc.run('Farm_Gen.tla', cfg, workers=1, simulate=f'num={sim[0]}', depth=sim[1], seed=seed, timeout=900, out_file=os.path.join(chk.work, f'{name}.out'))
    else:
        tlc.write_cfg(cfg, spec=spec, constants=c, extra=['VIEW View', 'ACTION_CONSTRAINT Emit'])
        res = tlc.run('Farm_Gen.tla', cfg, workers=1, timeout=1800, deadlock=deadlock, out_file=os.path.join(chk.work, f'{name}.out'))
        if not res.ok:
            raise core.Machinery(f'generation {name} failed: {res.error or res.violated}')
    chk.mc_runs.append(dict(res.summary(), name=name, module='Farm_Gen.tla', mode='simulate' if sim else 'transitions'))
    out = [json.loads(r[1])['h'] for r in tlc.printed(res, 'SCHED')]
    if sim:
        keep, seen = [], set()
        for i, h in enumerate(out):
            if h and (i + 1 == len(out) or len(out[i + 1]) <= len(h)):
                k = json.dumps(h, sort_keys=True)
                if k not in seen:
                    seen.add(k)
                    keep.append(h)
        out = keep
    return out


def collect(chk, pid, jobs, nw, targets):
    files = chk.run_harness('farm_h', jobs)
    chk.traces += len(jobs)
    rows = chk.validate('Farm_Trace.tla', dict(spec='TraceSpec', constants=consts(nw, targets, 10**6, 10**6), extra=['POSTCONDITION AllConsumed']), files, name=f'Farm_Trace_{nw}_{len(targets)}')
    byid = {j['id']: j for j in jobs}
    # vacuity counters (reporting only): how often the antecedents of the clauses were true on the real traces
    for fn in files:
        with open(fn) as f:
            for ln in f:
                for st in json.loads(ln)['steps']:
                    o = st['obs']
                    c = chk.counters
                    c['task_messages_written'] = c.get('task_messages_written', 0) + len(o['written'])
                    c['abort_told'] = c.get('abort_told', 0) + sum(1 for m in o['told'] if m['msg'] == 'abort')
                    c['run_ids_drawn'] = c.get('run_ids_drawn', 0) + len(o['drawn'])
                    c['ticks_while_inactive'] = c.get('ticks_while_inactive', 0) + (1 if st['ev'] == 'Tick' and not st['st']['active'] else 0)
                    c['messages_left_queued'] = c.get('messages_left_queued', 0) + (len(st['st']['cluster']) if st['ev'] == 'Tick' else 0)
                    c['updates_through_real_reload'] = c.get('updates_through_real_reload', 0) + (1 if st['ev'] == 'RevChange' and st['st']['head'] != 'rev0' else 0)
                    c['registrations_after_update'] = c.get('registrations_after_update', 0) + (1 if st['ev'] == 'Register' and st['st']['head'] != 'rev0' else 0)
                    c['run_id_reused'] = c.get('run_id_reused', 0) + sum(1 for m in o['put'] if m['run'] > 0 and not o['drawn'])
    for r in rows['DRIFT']:
        chk.drift += 1
        if len(chk.drift_samples) < 5:
            chk.drift_samples.append({'trace': r[1], 'line': r[2], 'ev': r[3], 'events': byid[r[1]]['events']})
    for _tag, tid, line, ev, bad in rows['CLAUSE']:
        for clause in sorted(bad['set']):
            if clause.startswith(pid + '.'):
                job = byid[tid]
                kinds = [e['ev'] for e in job['events']]
                chk.add_violation(clause, ','.join(kinds[: line - 1]), {'trace': tid, 'line': line, 'event': ev}, {'job': job, 'line': line, 'nw': nw, 'targets': targets})


def run(pid, tier, seed, replay=None):
    chk = core.Check(pid, tier, seed)
    rnd = random.Random(seed)
    if replay:
        with open(replay) as f:
            rp = json.load(f)['replay']
        collect(chk, pid, [rp['job']], rp['nw'], rp['targets'])
        return chk.finish('replay of one recorded schedule')
    thorough = tier == 'thorough'
    chk.mc('mc', 'Farm.tla', dict(spec='Spec', constants=consts(3, ['T1'], 2, 1), **PROPS))
    if thorough:
        chk.mc('mc2t', 'Farm.tla', dict(spec='Spec', constants=consts(3, ['T1', 'T2'], 2, 1), **PROPS))
        chk.mc('mc4w', 'Farm.tla', dict(spec='Spec', constants=consts(4, ['T1'], 2, 2), **PROPS))
    trans = gen(chk, 'gen', consts(2, ['T1'], 1, 1))
    total = len(trans)
    if not thorough:
        rnd.shuffle(trans)
        trans = trans[:2500]
    sim = gen(chk, 'sim', consts(4, ['T1', 'T2'], 3, 2), sim=(2000 if thorough else 300, 24), seed=seed)
    # two targets, requests / dispatch / replies only (workers of the right revision): a unit of one algorithm released at
    # different passes, run ids carried or drawn -- maximal histories (all in thorough, a sample in quick)
    lean = gen(chk, 'lean2t', consts(2, ['T1', 'T2'], 2, 0), spec='GenSpecLean')
    parents = {json.dumps(h[:-1], sort_keys=True) for h in lean}
    lean = [h for h in lean if json.dumps(h, sort_keys=True) not in parents]
    chk.counters['lean_two_target_histories'] = len(lean)
    if not thorough:
        rnd.shuffle(lean)
        lean = lean[:2500]
    # the software update: every transition of the guided instance (update -> checkout moved / real reload -> load -> resume,
    # then workers of both revisions, polls, a request, dispatch, replies on the reloaded pipeline)
    upd = gen(chk, 'upd', consts(2, ['T1'], 1, 1), spec='GenSpecUpd', deadlock=True)
    chk.counters['update_instance_transitions'] = len(upd)
    if not thorough:
        rnd.shuffle(upd)
        upd = upd[:400]
    jobs_a = [{'id': i, 'targets': ['T1'], 'events': events_of(h)} for i, h in enumerate(trans)]
    jobs_a += [{'id': 2 * 10**6 + i, 'targets': ['T1'], 'events': events_of(h)} for i, h in enumerate(upd)]
    jobs_c = [{'id': 10**6 + i, 'targets': ['T1', 'T2'], 'events': events_of(h)} for i, h in enumerate(lean)]
    jobs_b = [{'id': len(jobs_a) + i, 'targets': ['T1', 'T2'], 'events': events_of(h)} for i, h in enumerate(sim)]
    chk.samples = [j['events'] for j in rnd.sample(jobs_a, min(2, len(jobs_a)))] + [j['events'] for j in jobs_b[:1]]
    collect(chk, pid, jobs_a, 2, ['T1'])
    collect(chk, pid, jobs_b, 4, ['T1', 'T2'])
    collect(chk, pid, jobs_c, 2, ['T1', 'T2'])
    nontriv = set()
    for j in jobs_a + jobs_b:
        kinds = [e['ev'] for e in j['events']]
        if 'Register' in kinds and 'Tick' in kinds and 'Run' in kinds:
            nontriv.add(json.dumps(j['events'], sort_keys=True))
    for k in ('task_messages_written', 'abort_told', 'run_ids_drawn', 'ticks_while_inactive', 'messages_left_queued', 'run_id_reused', 'updates_through_real_reload', 'registrations_after_update'):
        if not chk.counters.get(k) and not chk.violations:
            raise core.Machinery(f'vacuous run: counter {k} is zero')
    chk.counters.update(transitions_of_gen_instance=total, transitions_replayed=len(trans), sim_behaviours=len(sim), distinct_nontrivial=len(nontriv))
    chk.assumptions = [
        'fixed program a->b, a->r(regress); 2-4 worker connections, 1-2 targets, revisions rev0/rev1, one or two reload/archive cycles',
        "the pipeline's current software revision is ground truth: the HEAD of a real scratch git checkout (two commits) at start-up and after each update; the code learns it only through dawgie.context._rev() (start-up) and FSM._reload() (update); dawgie.context.git_rev itself is compared as drift only",
        'life-cycle bits (active, phase) are environment inputs here; module Lifecycle decides how the real FSM produces them',
        'worker ground truth (registered with revision r, waiting, holds a task) is maintained by the trace specification from the events and the bytes written to each connection',
        '"fresh strictly larger" = larger than every run id stored at the time of the draw',
    ]
    return chk.finish('event sequences = every transition of the 2-connection instance (sampled in quick) + simulated behaviours with 4 connections / 2 targets; each executed on the real farm/scheduler code with in-memory transports; non-trivial = has a registration, a request and a dispatch')


if __name__ == '__main__':
    core.main(run)
