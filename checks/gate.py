'''C16: the compliance gate accepts exactly the engines that follow the architecture
(spec/Gate.tla, tools/compliant.py).

 1. MC      (quick: folded into the GEN run; thorough: own runs) TLC enumerates the descriptor space [kinds, shape, vals, evs, viol, pos] and checks
            that the transcription of _walk/_verify (repaired form) decides exactly
            Accept(d) = (d.viol = "none"); a second run with the traversal of the
            pinned tree lists the descriptors on which that traversal disagrees
            (design-level finding, informational)
 2. GEN     the same space is exported, one CASE per descriptor (plus the
            observed-only ones)
 3. HARNESS every descriptor is materialised ON DISK as a package tree
            (vlib.engine text + one injected violation) and the REAL gate runs on
            it: _scan/_verify in-process for all, `python -m dawgie.tools.compliant`
            as a process for a seeded sample; every accepted package goes through
            dag.Construct / schedule.build / periodics / organize / next_job_batch;
            for a sample of ENVIRONMENT CASES [sub, dec, at] (spec: EnvCasesOf) the command is
            also run where a decoy copy of the same base package (same layout, opposite
            compliance: violating submission + conforming decoy, and the reverse) is
            importable through PYTHONPATH (front / back): the verdict must be that of the
            submitted checkout
 4. TRACE   TLC validates verdict = Accept(d) etc. on the records
            (spec/Gate_Trace.tla); Python only counts and reports

thorough runs the whole space through the in-process gate and 640 packages through
the command; quick runs every conforming descriptor and 8 seeded members (kind subset
x shape) of every stratum (violated clause, factory kind, element, value layout, event layout), 32
through the command.

Interpretation choices
 * A violation is one clause of the CODE of rule_01..rule_11.  rule_03's text says
   that "all of the methods" that raise NotImplementedError are checked; run(),
   view() and features() cannot be exercised by calling them and the rule has no
   clause for them.  Packages lacking one of them are generated and their verdict
   is recorded (OBSERVE rows, evidence key `observed_unclaimed`) but they are not
   claimed as violations of C16.
 * A package without any factory (rule_01) is judged on the `-t <package>` path
   only: the scan that feeds the gate ignores such a directory, as the pipeline does.
 * For a violating package a gate that crashes (exception out of _scan, non-zero
   exit) is a rejection.
 * ALG_REF among traits()/variables() is a violation (clause of rule_03) although
   the docstring of Analyzer.traits mentions ALG_REF; conforming packages use only
   state-vector / value references there.
'''

import concurrent.futures
import json
import os
import random

from vlib import core, tlc

CLI_SAMPLE = {'quick': 32, 'thorough': 640}
ENV_SAMPLE = {'quick': 8, 'thorough': 160}
UNCLAIMED = {'alg_norun', 'sv_noview', 'val_nofeatures'}
PER_STRATUM_QUICK = 8


def _tlc(chk, name, module, cfg_kwargs, workers, **kw):
    cfg = os.path.join(chk.work, f'{name}.cfg')
    tlc.write_cfg(cfg, **cfg_kwargs)
    return tlc.run(module, cfg, workers=workers, timeout=1800, out_file=os.path.join(chk.work, f'{name}.out'), **kw)


def _book(chk, name, module, cfg_kwargs, res, expect_ok=True):
    chk.note(f'mc {name}: {res.distinct} distinct / {res.generated} generated, ok={res.ok}, {res.wall:.1f}s')
    rec = res.summary()
    rec.update(name=name, module=module, invariants=list(cfg_kwargs.get('invariants', ())))
    chk.mc_runs.append(rec)
    chk.states += res.distinct
    chk.transitions += res.generated
    if res.timed_out:
        raise core.Machinery(f'TLC timed out on {name}')
    if res.error and not res.violated:
        raise core.Machinery(f'TLC error in {name}: {res.error}')
    if expect_ok and not res.ok:
        raise core.Machinery(f'model {name} violates {res.violated}; see {chk.work}/{name}.out')


def model_runs(chk, thorough):
    '''TLC runs over the descriptor space.  quick: one run (Gate_Gen) that checks the invariants of
    Gate_MC on the claimed descriptors and exports all cases; thorough: additionally Gate_MC on its
    own and the traversal of the pinned tree (informational list of disagreements), side by side'''
    runs = {
        'gen': ('Gate_Gen.tla', dict(spec='GenSpec', constants={'Pinned': 'FALSE'}, invariants=['GenOK', 'GenTypeOK', 'GenWalkAgrees', 'GenCmdAgrees', 'Emit']), 1),
    }
    if thorough:
        runs['mc'] = ('Gate_MC.tla', dict(spec='Spec', constants={'Pinned': 'FALSE'}, invariants=['TypeOK', 'WalkAgrees', 'CmdAgrees']), 4)
        runs['mc_pinned'] = ('Gate_MC.tla', dict(spec='Spec', constants={'Pinned': 'TRUE'}, invariants=['TypeOK', 'Report']), 1)
    with concurrent.futures.ThreadPoolExecutor(3) as ex:
        futs = {n: ex.submit(_tlc, chk, n, m, c, w) for n, (m, c, w) in runs.items()}
        res = {n: f.result() for n, f in futs.items()}
    for n, (m, c, w) in runs.items():
        _book(chk, n, m, c, res[n])
    cases = [json.loads(r[1]) for r in tlc.printed(res['gen'], 'CASE')]
    names = tlc.printed(res['gen'], 'VIOLNAMES')
    ats = tlc.printed(res['gen'], 'ENVATS')
    if not ats:
        raise core.Machinery('generation produced no environment dimension')
    disagree = [(json.loads(r[1]), r[2]) for r in tlc.printed(res['mc_pinned'], 'DISAGREE')] if thorough else None
    if not cases or not names:
        raise core.Machinery('generation produced no cases')
    return cases, set(json.loads(names[0][1])), disagree, sorted(json.loads(ats[0][1]))


def dkey(d):
    return json.dumps([sorted(d['kinds']), d['shape'], d.get('vals', 'own'), d.get('evs', 'boot_dow'), d['viol'], d['pos']['k'], d['pos']['e']])


def signature(d, ev):
    return f'viol={d["viol"]}@{d["pos"]["k"]}/{d["pos"]["e"]}:kinds={"+".join(sorted(d["kinds"])) or "-"}:shape={d["shape"]}:vals={d.get("vals", "own")}:evs={d.get("evs", "boot_dow")}:{ev}'


def stratified(cases, per, rnd):
    '''quick tier: every conforming descriptor, the factory-less one, and `per` seeded members
    (kind subset x shape) of every stratum (violated clause, factory kind, element, value layout, event layout)'''
    strata = {}
    for d in cases:
        strata.setdefault((d['viol'], d['pos']['k'], d['pos']['e'], d['vals'], d['evs']), []).append(d)
    out = []
    for key in sorted(strata):
        members = strata[key]
        n = per if key[4] == 'boot_dow' else max(1, per // 2)
        if key[0] in ('none', 'no_factory') or len(members) <= n:
            out += members
        else:
            out += rnd.sample(members, n)
    return out


def choose_cli(cases, n, rnd):
    '''process-level sample: one shape of every conforming kind subset, the factory-less
    package, and a seeded choice among the rest'''
    idx = list(range(len(cases)))
    rnd.shuffle(idx)
    pick = []
    seen = set()
    for i in idx:
        d = cases[i]
        if d['viol'] == 'none' and tuple(sorted(d['kinds'])) not in seen:
            seen.add(tuple(sorted(d['kinds'])))
            pick.append(i)
        elif d['viol'] == 'no_factory':
            pick.append(i)
    rest = [i for i in idx if i not in set(pick)]
    pick += rest[: max(0, n - len(pick))]
    return set(pick)


def layout(d):
    return (tuple(sorted(d['kinds'])), d['shape'], d['vals'], d['evs'])


def choose_env(cases, ats, n, rnd):
    '''environment cases of the command (spec: EnvCasesOf): index of the submitted descriptor -> {dec, at}.
    n seeded pairs (violating descriptor, its conforming twin) among the selected cases, on distinct layouts and
    distinct clauses as far as possible; the roles (which of the two is submitted) and `at` rotate so that every
    (role, at) combination occurs.  Both members of a pair are cases of this run, so the verdict of the gate on the
    decoy ALONE is validated by the decoy's own trace.'''
    twin = {layout(d): i for i, d in enumerate(cases) if d['viol'] == 'none'}
    cand = [i for i, d in enumerate(cases) if d['viol'] not in UNCLAIMED | {'none', 'no_factory'} and layout(d) in twin]
    rnd.shuffle(cand)
    out, used_l, used_v = {}, set(), set()
    for strict in (True, False):
        for i in cand:
            d = cases[i]
            if len(out) >= n:
                break
            if i in out or layout(d) in used_l or (strict and d['viol'] in used_v):
                continue
            j = len(out)
            at = ats[(j // 2) % len(ats)]
            used_l.add(layout(d))
            used_v.add(d['viol'])
            if j % 2 == 0:  # violating submission, conforming copy deployed
                out[i] = {'dec': cases[twin[layout(d)]], 'at': at}
            else:  # conforming submission, violating copy deployed
                out[twin[layout(d)]] = {'dec': d, 'at': at}
    return out


def execute(chk, pid, jobs):
    files = chk.run_harness('gate_h', jobs)
    chk.traces += len(jobs)
    rows = chk.validate(
        'Gate_Trace.tla',
        dict(spec='TraceSpec', constants={'Pinned': 'FALSE'}, extra=['POSTCONDITION AllConsumed']),
        files,
        tags=('CLAUSE', 'DRIFT', 'CONSUMED', 'FOREIGN', 'OBSERVE'),
    )
    if rows['FOREIGN']:
        raise core.Machinery(f'{len(rows["FOREIGN"])} records are not cases of the enumerated space: {rows["FOREIGN"][:3]}')
    recs = {}
    for fn in files:
        with open(fn) as f:
            for ln in f:
                t = json.loads(ln)
                recs[t['tid']] = t
    byid = {j['id']: j for j in jobs}
    for r in rows['DRIFT']:
        chk.drift += 1
        if len(chk.drift_samples) < 5:
            chk.drift_samples.append({'d': recs[r[1]]['d'], 'verdict': r[4], 'model': r[5], 'rules_failed': json.loads(r[6])})
    for _tag, tid, line, ev, bad in rows['CLAUSE']:
        t = recs[tid]
        obs = t['steps'][line - 1]['obs']
        for clause in sorted(bad['set']):
            if clause.startswith(pid + '.'):
                detail = {k: obs[k] for k in ('v_list', 'v_scan', 'fired', 'cli_run', 'cli_rc', 'sched_run', 'sched_ok', 'err')}
                detail.update(d=t['d'], event=ev)
                sig = signature(t['d'], ev)
                if ev == 'cli_env':
                    detail.update(decoy=t['dec'], decoy_at=t['at'])
                    sig += f':decoy={t["dec"]["viol"]}@{t["at"]}'
                chk.add_violation(clause, sig, detail, {'job': dict(byid[tid], cli=True)})
    return rows, recs


def run(pid, tier, seed, replay=None):
    chk = core.Check(pid, tier, seed)
    rnd = random.Random(seed)
    if replay:
        with open(replay) as f:
            job = json.load(f)['replay']['job']
        execute(chk, pid, [job])
        return chk.finish('replay of one recorded descriptor')
    # 1 + 2
    cases, names, disagree, ats = model_runs(chk, tier == 'thorough')
    covered = {d['viol'] for d in cases}
    if names - covered:
        raise core.Machinery(f'vacuous: no descriptor carries {sorted(names - covered)}')
    # 3 + 4
    total = len(cases)
    if tier != 'thorough':
        cases = stratified(cases, PER_STRATUM_QUICK, rnd)
    cli = choose_cli(cases, CLI_SAMPLE.get(tier, CLI_SAMPLE['quick']), rnd)
    env = choose_env(cases, ats, ENV_SAMPLE.get(tier, ENV_SAMPLE['quick']), rnd)
    jobs = [{'id': i + 1, 'd': d, 'cli': i in cli} for i, d in enumerate(cases)]
    for i, e in env.items():
        jobs[i]['env'] = e
    rows, recs = execute(chk, pid, jobs)
    # counts (measured on the records)
    n = dict(conforming=0, violating=0, observed=0, accepted=0, rejected=0, cli=0, sched=0, sched_ok=0, env_sub_conforming=0, env_sub_violating=0)
    claimed_viol = set()
    for t in recs.values():
        d = t['d']
        ver = [s for s in t['steps'] if s['ev'] == 'verify'][0]['obs']
        if d['viol'] in {'alg_norun', 'sv_noview', 'val_nofeatures'}:
            n['observed'] += 1
            continue
        n['conforming' if d['viol'] == 'none' else 'violating'] += 1
        n['accepted' if ver['v_list'] else 'rejected'] += 1
        if d['viol'] != 'none':
            claimed_viol.add((d['viol'], d['pos']['k']))
        for s in t['steps']:
            if s['ev'] == 'cli':
                n['cli'] += 1
            if s['ev'] == 'cli_env':
                n['env_sub_conforming' if d['viol'] == 'none' else 'env_sub_violating'] += 1
            if s['ev'] == 'sched' and s['obs']['v_list']:
                n['sched'] += 1
                n['sched_ok'] += bool(s['obs']['sched_ok'])
    for k in ('conforming', 'violating', 'accepted', 'rejected', 'cli', 'sched', 'env_sub_conforming', 'env_sub_violating'):
        if not n[k]:
            raise core.Machinery(f'vacuous run: no {k} record')
    bad_ids = {r[1] for r in rows['CLAUSE'] if r[3] == 'verify'}
    chk.counters.update(
        descriptors_enumerated=total,
        descriptors=len(cases),
        conforming=n['conforming'],
        violating=n['violating'],
        shared_value_class=sum(1 for t in recs.values() if t['d']['vals'] == 'shared'),
        falsy_moment_layouts=sum(1 for t in recs.values() if t['d']['evs'] != 'boot_dow'),
        violation_clauses=len(names),
        violation_clause_x_kind=len(claimed_viol),
        accepted_by_gate=n['accepted'],
        rejected_by_gate=n['rejected'],
        cli_runs=n['cli'],
        cli_runs_with_decoy_copy=n['env_sub_conforming'] + n['env_sub_violating'],
        decoy_conforming_submission_violating=n['env_sub_violating'],
        decoy_violating_submission_conforming=n['env_sub_conforming'],
        decoy_positions=len({t['at'] for t in recs.values() if t['at'] != '-'}),
        accepted_and_scheduled=n['sched'],
        scheduled_ok=n['sched_ok'],
        observed_unclaimed=n['observed'],
        observed_unclaimed_accepted=sum(1 for r in rows['OBSERVE'] if r[5]),
        distinct_nontrivial=len({dkey(t['d']) for t in recs.values()}),
    )
    if disagree is not None:
        pinned_ids = {dkey(d) for d, _ in disagree}
        chk.counters.update(
            pinned_model_disagreements=len(disagree),
            pinned_model_rejects_conforming=sum(1 for _, w in disagree if w == 'rejects-conforming'),
            pinned_model_accepts_violating=sum(1 for _, w in disagree if w == 'accepts-violating'),
        )
        wrong = {dkey(recs[i]['d']) for i in bad_ids}
        judged = {dkey(t['d']) for t in recs.values()}
        # reporting only: which transcription of _walk the verdicts of the real gate coincide with
        chk.extra['real_gate_behaves_like'] = 'repaired traversal (r.feedback())' if not wrong else 'pinned traversal (a.feedback())' if wrong == pinned_ids & judged else 'neither transcription'
    some = rnd.sample(sorted(recs), 4)
    chk.samples = [{'d': recs[i]['d'], 'steps': [{'ev': s['ev'], **{k: s['obs'][k] for k in ('v_list', 'v_scan', 'fired', 'cli_rc', 'sched_ok')}} for s in recs[i]['steps'][1:]]} for i in some]
    chk.assumptions = [
        'bounded space: package under test with one or two algorithms per offered factory, one state vector with two values each, '
        'at most one dependency and one feedback reference per algorithm, two events; exactly one injected violation per package',
        'violations are the clauses of the code of rule_01..rule_11; run()/view()/features() missing is observed, not claimed',
        'environment of the command: at most one other importable copy of the base package, of the same layout and of the opposite compliance, '
        'reachable through PYTHONPATH (front or back); copies installed by other means (site-packages, .pth files) are not generated',
        'generated engines use the factory/bot pattern (scan.deprecated_factories); environment stubs: virtual reactor, svg writer, db.targets',
    ]
    return chk.finish(
        'cases = the descriptors TLC enumerates (kind subset x shape x rule clause x applicable position, plus the conforming ones; thorough: all, '
        'quick: all conforming + 8 seeded members of every (clause, kind, element) stratum); each is '
        'written to disk as a package tree and judged by the real _scan/_verify (all) and the command (sample; a further sample with a decoy copy of the same package on PYTHONPATH); TLC validates the verdicts. '
        'non-trivial = distinct descriptors materialised and judged (all of them: every one exercises all eleven rules)',
        exhaustive=(tier == 'thorough'),
    )


if __name__ == '__main__':
    core.main(run)
