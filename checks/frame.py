'''C14: message streams are fragmentation-proof and gated by the handshake (spec/Frame.tla)'''

import json
import os
import random

from vlib import core, tlc

INV = ['C14_Prefix', 'C14_Reassembly', 'C14_NoGarbage', 'C14_Gate', 'C14_AfterFinal', 'C14_NoSpuriousClose']
GOOD = {'p1': True, 'sigA': True, 'p4': True, 'sigB': True, 'echo': True}
CHANNELS = ['farm', 'db', 'log']
LA, LB = 2, 2


def consts(lens, hs, bits):
    return {'LensChoices': '<- ' + lens, 'Handshake': 'TRUE' if hs else 'FALSE', 'LA': str(LA), 'LB': str(LB), 'BitChoices': '<- ' + bits}


def gen(chk, name, c, sim=None, seed=0, timeout=1200):
    cfg = os.path.join(chk.work, f'{name}.cfg')
    if sim:
        tlc.write_cfg(cfg, spec='GenSpec', constants=c, invariants=['SimInv'])
        res = tlc.run('Frame_Gen.tla', cfg, workers=1, simulate=f'num={sim[0]}', depth=sim[1], seed=seed, timeout=timeout, out_file=os.path.join(chk.work, f'{name}.out'))
    else:
        tlc.write_cfg(cfg, spec='GenSpec', constants=c, extra=['ACTION_CONSTRAINT Emit'])
        res = tlc.run('Frame_Gen.tla', cfg, workers=1, timeout=timeout, out_file=os.path.join(chk.work, f'{name}.out'))
        if not res.ok:
            raise core.Machinery(f'generation {name} failed: {res.error or res.violated}')
    chk.mc_runs.append(dict(res.summary(), name=name, module='Frame_Gen.tla', mode='simulate' if sim else 'all chunkings'))
    seen, out = set(), []
    for r in tlc.printed(res, 'CASE'):
        if r[1] not in seen:
            seen.add(r[1])
            out.append(json.loads(r[1]))
    return out


def cuts(chk, name, n, maxcuts):
    cfg = os.path.join(chk.work, f'{name}.cfg')
    tlc.write_cfg(cfg, spec='Spec', constants={'N': str(n), 'MaxCuts': str(maxcuts)}, invariants=['Emit'])
    res = tlc.run('Frame_Cuts.tla', cfg, workers=1, timeout=600, out_file=os.path.join(chk.work, f'{name}.out'))
    if not res.ok:
        raise core.Machinery(f'cut enumeration {name} failed: {res.error or res.violated}')
    chk.mc_runs.append(dict(res.summary(), name=name, module='Frame_Cuts.tla'))
    return [sorted(json.loads(r[1])) for r in tlc.printed(res, 'CUTS')]


def collect(chk, pid, jobs):
    files = chk.run_harness('frame_h', jobs)
    chk.traces += len(jobs)
    rows = chk.validate('Frame_Trace.tla', dict(spec='TraceSpec', extra=['POSTCONDITION AllConsumed']), files, tags=('CLAUSE', 'CONSUMED'))
    byid = {j['id']: j for j in jobs}
    c = chk.counters
    for fn in files:
        with open(fn) as f:
            for ln in f:
                t = json.loads(ln)
                last = t['steps'][-1]
                c['traces_all_delivered'] = c.get('traces_all_delivered', 0) + (1 if len(last['delivered']) == len(t['sizes']) else 0)
                c['traces_failed_closed'] = c.get('traces_failed_closed', 0) + (1 if t['hs'] and last['closed'] and not last['delivered'] else 0)
                c['handshakes_passed'] = c.get('handshakes_passed', 0) + (1 if t['hs'] and last['delivered'] else 0)
                c['chunks_fed'] = c.get('chunks_fed', 0) + len(t['steps']) - 1
                c['coalesced_with_final_packet'] = c.get('coalesced_with_final_packet', 0) + (
                    1 if t['hs'] and any(p['fed'] < t['hslen'] < s['fed'] and s['delivered'] for p, s in zip(t['steps'], t['steps'][1:])) else 0
                )
    for _tag, tid, line, channel, bad in rows['CLAUSE']:
        for clause in sorted(bad['set']):
            if clause.startswith(pid + '.'):
                job = byid[tid] if tid in byid else byid[tid - 5000000]
                sig = f"{channel}:hs={job['hs']}:bits={''.join('1' if job['bits'][k] else '0' for k in ('p1', 'sigA', 'p4', 'sigB', 'echo'))}:lens={job['lens']}"
                chk.add_violation(clause, sig, {'trace': tid, 'line': line, 'chunks': job.get('chunks') or job.get('cuts')}, {'job': job, 'line': line})


def probe_lengths(chk):
    '''real stream lengths (they depend on pickle output): one whole-message run per channel'''
    jobs = [{'id': i, 'channel': ch, 'hs': False, 'bits': GOOD, 'lens': [2, 1], 'cuts': [], 'la': LA, 'lb': LB} for i, ch in enumerate(CHANNELS)]
    jobs += [{'id': 10 + i, 'channel': ch, 'hs': True, 'bits': GOOD, 'lens': [2, 1], 'cuts': [], 'la': LA, 'lb': LB} for i, ch in enumerate(CHANNELS)]
    files = chk.run_harness('frame_h', jobs, shards=1)
    res = {}
    with open(files[0]) as f:
        for ln in f:
            t = json.loads(ln)
            res[(t['channel'], t['hs'])] = sum(t['sizes']) + (t['hslen'] if t['hs'] else 0)
            res[(t['channel'], 'hsA')] = 8 + 5 + 36
    return res


def run(pid, tier, seed, replay=None):
    chk = core.Check(pid, tier, seed)
    rnd = random.Random(seed)
    if replay:
        with open(replay) as f:
            rp = json.load(f)['replay']
        collect(chk, pid, [rp['job']])
        return chk.finish('replay of one recorded chunking')
    thorough = tier == 'thorough'
    chk.mc('mc_plain', 'Frame_MC.tla', dict(spec='Spec', constants=consts('Lens3', False, 'GoodOnly'), invariants=INV, properties=['C14_ClosedSilent']))
    chk.mc('mc_hs', 'Frame_MC.tla', dict(spec='Spec', constants=consts('Lens2', True, 'AllBits'), invariants=INV + ['C14_FailClosed'], properties=['C14_ClosedSilent']))
    jobs = []

    def add(channel, hs, bits, lens, **kw):
        jobs.append(dict({'id': len(jobs), 'channel': channel, 'hs': hs, 'bits': bits, 'lens': lens, 'la': LA, 'lb': LB}, **kw))

    # (1) every chunking of the short plain streams, on every channel
    plain = gen(chk, 'gen_plain', consts('LensTiny' if not thorough else 'LensSmall', False, 'GoodOnly'))
    for case in plain:
        for ch in CHANNELS + ['recv']:
            add(ch, False, GOOD, case['lens'], chunks=case['chunks'])
        # the same chunking while a second connection of the same protocol class is served in between (two traces per job)
        for ch in CHANNELS:
            if len(case['lens']) >= 2:
                add(ch, False, GOOD, case['lens'], chunks=case['chunks'], pair=True)
    n_all_chunkings = len(plain)
    # (2) handshake: simulated chunkings with every validity assignment
    sim = gen(chk, 'sim_hs', consts('Lens2', True, 'AllBits'), sim=(6000 if thorough else 1200, 40), seed=seed)
    for i, case in enumerate(sim):
        add(CHANNELS[i % 3] if thorough else 'farm' if i % 4 else CHANNELS[1 + i % 2], True, case['bits'], case['lens'], chunks=case['chunks'])
    # (3) real byte lengths: every single split and every pair of splits
    n = probe_lengths(chk)
    for ch in CHANNELS:
        N = n[(ch, False)]
        allc = cuts(chk, f'cuts_{ch}', N, 2)
        singles = [c for c in allc if len(c) <= 1]
        doubles = [c for c in allc if len(c) == 2]
        if not thorough:
            doubles = rnd.sample(doubles, min(700, len(doubles)))
        for c in singles + doubles:
            add(ch, False, GOOD, [2, 1], cuts=c)
        chk.counters[f'real_stream_bytes_{ch}'] = N
        if ch == 'farm':
            # the blocking reader (message.receive) gets the same real stream in the same segments
            for c in singles + doubles:
                add('recv', False, GOOD, [2, 1], cuts=c)
    # handshake: every single split of the second half (final packet + application bytes), all-good and each single bad bit
    Nh = n[('farm', True)] - n[('farm', 'hsA')] + 6
    hs_cuts = [c for c in cuts(chk, 'cuts_hs', Nh, 2 if thorough else 1)]
    if thorough:
        hs_cuts = [c for c in hs_cuts if len(c) <= 1] + rnd.sample([c for c in hs_cuts if len(c) == 2], 3000)
    variants = [GOOD] + [dict(GOOD, **{k: False}) for k in GOOD]
    for c in hs_cuts:
        for b in variants if (thorough or len(c) == 0) else [GOOD, rnd.choice(variants[1:])]:
            add('farm', True, b, [2, 1], cuts=c, cuts_a=[])
    for ch in ('db', 'log'):
        for c in rnd.sample(hs_cuts, min(len(hs_cuts), 150)):
            add(ch, True, GOOD, [2, 1], cuts=c, cuts_a=[])
    # every single split of the first handshake packet
    for pos in range(1, n[('farm', 'hsA')]):
        for b in (GOOD, dict(GOOD, sigA=False), dict(GOOD, p1=False)):
            add('farm', True, b, [1], cuts=[], cuts_a=[pos])
    chk.samples = [{k: v for k, v in j.items() if k != 'id'} for j in rnd.sample(jobs, 3)]
    collect(chk, pid, jobs)
    for k in ('traces_all_delivered', 'traces_failed_closed', 'handshakes_passed', 'coalesced_with_final_packet'):
        if not chk.counters.get(k) and not chk.violations:
            raise core.Machinery(f'vacuous run: counter {k} is zero')
    chk.counters.update(all_chunkings_of_short_streams=n_all_chunkings, simulated_handshake_chunkings=len(sim), distinct_nontrivial=len({json.dumps(j, sort_keys=True) for j in jobs if len(j.get('chunks') or j.get('cuts') or []) >= 1}))
    chk.assumptions = [
        'abstract chunkings are mapped onto the real pickled streams segment by segment (length prefixes 1:1, payload offsets proportionally); the second instance uses the real byte positions directly (every single split, every/sampled pair of splits)',
        'the fake transport honours the Twisted contract: nothing is delivered after loseConnection; message sequences are those a peer can legitimately put on one connection',
        'gpg is a stub whose verdicts are the validity bits; the TLS listeners are not reached (framing code is the same)',
        'a chunk cannot span the first and second handshake packet (the client needs the challenge first); the model allows it (superset)',
    ]
    return chk.finish('every chunking of short plain streams x 3 push channels (dataReceived) and the blocking reader (message.receive); simulated chunkings of handshake streams x 32 validity assignments; real-length streams at every single and (sampled) double split; recorded after every chunk and validated by TLC')


if __name__ == '__main__':
    core.main(run)
