'''C19: the front end never serves files outside its roots nor commands to
strangers (spec/FrontEnd.tla).

 0. ROUTES  the endpoints and their HTTP methods are read from the routing tree
            of the running code (harness job "routes") and handed to TLC as the
            constants Endpoints / EpGET / EpPOST / EpPUT / EpDEL
 1. MC+GEN  one exhaustive TLC run over the bounded input domain: the
            implementation-shaped _static / access path against the property
            level (jail, reference serving, access table), and every case
            printed for execution (FrontEnd_Gen)
 2. REPLAY  every case is executed on the real code (harness/frontend_h.py)
 3. TRACE   TLC validates the records against the property level
            (spec/FrontEnd_Trace.tla); Python only counts and reports
'''

import collections
import json
import os
import random

from vlib import core, tlc

INVARIANTS = ['C19_Jail', 'C19_StillServes', 'StaticConforms', 'RefJail', 'C19_NoCommandForStrangers', 'C19_HookFailClosed', 'AccessConforms']
SITE_HOOKS = ['site_bool', 'site_none', 'site_zero', 'site_estr', 'site_elist']  # DOMAIN FrontEnd!Form
CHUNK = 400


def consts(maxsegs, fulllead=None, pinned=False, site_hooks=SITE_HOOKS):
    return {
        'SiteHooks': tlc.tla_set(site_hooks),
        'MaxSegs': str(maxsegs),
        'FullLeadSegs': str(maxsegs if fulllead is None else fulllead),
        'Pinned': 'TRUE' if pinned else 'FALSE',
        'Endpoints': '<- RtEndpoints',
        'EpGET': '<- RtGET',
        'EpPOST': '<- RtPOST',
        'EpPUT': '<- RtPUT',
        'EpDEL': '<- RtDEL',
    }


def read_routes(chk):
    files = chk.run_harness('frontend_h', [{'id': 0, 'kind': 'routes'}])
    with open(files[0]) as f:
        rec = json.loads(f.readline())
    routes = rec['routes']
    if not routes['endpoints']:
        raise core.Machinery('no endpoint found in the routing tree')
    fn = os.path.join(chk.work, 'routes.json')
    with open(fn, 'wt') as f:
        json.dump(routes, f)
    os.environ['C19_ROUTES'] = fn  # read by FrontEnd_MC!Routes (IOEnv)
    return routes


def generate(chk, name, maxsegs, fulllead):
    '''exhaustive run of the model (invariants) that also prints every case'''
    res = chk.mc(
        name,
        'FrontEnd_Gen.tla',
        dict(spec='GenSpec', constants=consts(maxsegs, fulllead), invariants=INVARIANTS),
        workers=4,
        out_file=os.path.join(chk.work, f'{name}.out'),
    )
    trees = tlc.printed(res, 'TREE')
    if not trees:
        raise core.Machinery('generation did not print the tree')
    tree = json.loads(trees[0][1])
    cases = []
    pre = '<<"CASE", '
    for ln in res.prints:
        if ln.startswith(pre):
            try:  # the printed TLA+ string literal is also a JSON string literal (fast path)
                cases.append(json.loads(json.loads(ln[len(pre) : -2])))
            except ValueError:
                cases.append(json.loads(tlc.tla_value(ln)[1]))
    if len(cases) != res.distinct:
        raise core.Machinery(f'{len(cases)} cases printed for {res.distinct} model states')
    return tree, cases


def to_jobs(tree, cases, start=1):
    jobs = []
    for kind in ('static', 'access'):
        part = [c for c in cases if c['k'] == kind]
        for i in range(0, len(part), CHUNK):
            job = {'id': start + len(jobs), 'kind': kind, 'cases': part[i : i + CHUNK]}
            if kind == 'static':
                job['tree'] = tree
            jobs.append(job)
    return jobs


def signature(clause, step):
    '''canonical class of a failing record (the verdict itself is TLC's)'''
    a, obs = step['args'], step['obs']
    if step['ev'] == 'Static':
        got = sorted({'/'.join(p) for v in obs.values() for p in v['found']})
        return 'static request answered with ' + (','.join(got) or 'nothing')
    if clause.endswith('HookFailClosed'):
        return f'{"/".join(a["e"])} handler ran although the access hook failed'
    if a['hook'].startswith('site_'):
        return f'{"/".join(a["e"])} handler ran for a caller without certificate although the site hook answered {a.get("ans")}'
    return f'{"/".join(a["e"])} handler ran for a caller without certificate'


def validate_and_collect(chk, pid, jobs, tree):
    files = chk.run_harness('frontend_h', jobs)
    chk.traces += sum(len(j['cases']) for j in jobs)
    rows = chk.validate('FrontEnd_Trace.tla', dict(spec='TraceSpec', constants=consts(1), extra=['POSTCONDITION AllConsumed']), files)
    steps = {}
    ran = served = 0
    for fn in files:
        with open(fn) as f:
            for ln in f:
                t = json.loads(ln)
                steps[t['tid']] = t['steps']
                for s in t['steps']:
                    if s['ev'] == 'Access':
                        ran += any(v['ran'] for v in s['obs'].values())
                    else:
                        served += any(v['found'] for v in s['obs'].values())
    chk.counters['records_handler_ran'] = chk.counters.get('records_handler_ran', 0) + ran
    chk.counters['records_file_served'] = chk.counters.get('records_file_served', 0) + served
    for r in rows['DRIFT']:
        chk.drift += 1
        if len(chk.drift_samples) < 5:
            s = steps[r[1]][r[2] - 1]
            chk.drift_samples.append({'trace': r[1], 'line': r[2], 'args': s['args'], 'obs': s['obs']})
    hits = []
    for _tag, tid, line, ev, bad in rows['CLAUSE']:
        s = steps[tid][line - 1]
        for clause in sorted(bad['set']):
            if clause.startswith(pid + '.'):
                hits.append((len(s['args'].get('uri', '')) + 100 * (s['args'].get('lead') == 0), clause, tid, line, ev, s))
    hits.sort(key=lambda h: h[:4])  # shortest failing request that also went through HTTP first
    for _n, clause, tid, line, ev, s in hits:
        job = {'kind': 'static' if ev == 'Static' else 'access', 'cases': [s['args']]}
        if ev == 'Static':
            job['tree'] = tree
        chk.add_violation(clause, signature(clause, s), {'trace': tid, 'line': line, 'event': ev, 'args': s['args'], 'obs': s['obs']}, {'job': job})


def count_tags(cases):
    n = collections.Counter()
    for c in cases:
        n['cases_' + c['k']] += 1
        for t in c['tags']:
            n[t] += 1
    return n


def run(pid, tier, seed, replay=None):
    chk = core.Check(pid, tier, seed)
    rnd = random.Random(seed)
    mutant = os.environ.get('VERIF_C19_MUTANT', '')
    if mutant:
        chk.note(f'SELFTEST: harness applies in-memory mutant {mutant}')
        chk.extra['mutant'] = mutant
    routes = read_routes(chk)
    chk.note(f'routing tree: {len(routes["endpoints"])} endpoints, POST: {len(routes["POST"])}')
    if replay:
        with open(replay) as f:
            job = json.load(f)['replay']['job']
        job['id'] = 1
        validate_and_collect(chk, pid, [job], job.get('tree'))
        return chk.finish('replay of one recorded case')
    thorough = tier == 'thorough'
    # 1. MC + GEN in one exhaustive run
    # quick: <= 3 segments with 0-2 leading slashes, 4 segments with one; thorough: <= 5 segments, all of them with 0-2
    tree, cases = generate(chk, 'gen', 5 if thorough else 4, 5 if thorough else 3)
    if thorough:
        # the design-level defect of the pinned _static shows in the model without running any code
        res = chk.mc('mc_pinned', 'FrontEnd_MC.tla', dict(spec='Spec', constants=consts(2, pinned=True), invariants=['C19_Jail']), workers=4, expect_ok=False)
        chk.extra['pinned_model'] = {'violates': res.violated or 'nothing', 'note': 'transcription of _static as in the pinned commit; a counterexample of the model is not a verdict'}
    tags = count_tags(cases)
    for need in ('cases_static', 'cases_access', 'escapes', 'names_outside_file', 'plain_hit', 'stranger_command', 'hook_fails', 'expected_to_run',
                 'hook_says_no', 'hook_no_not_False', 'hook_yes_not_True'):
        if not tags[need]:
            raise core.Machinery(f'vacuous run: no case with "{need}"')
    # 2+3
    jobs = to_jobs(tree, cases)
    chk.samples = [{k: v for k, v in c.items() if k != 'tags'} for c in rnd.sample(cases, min(4, len(cases)))]
    validate_and_collect(chk, pid, jobs, tree)
    chk.counters.update(tags)
    chk.counters['endpoints'] = len(routes['endpoints'])
    chk.counters['commands'] = sum(1 for e in routes['endpoints'] if e[-1] in ('run', 'reset', 'submit', 'snapshot'))  # informative only
    chk.counters['distinct_nontrivial'] = tags['escapes'] + tags['stranger_command'] + tags['hook_fails'] - sum(
        1 for c in cases if c['k'] == 'access' and 'stranger_command' in c['tags'] and 'hook_fails' in c['tags']
    )
    if not chk.violations and not (chk.counters['records_handler_ran'] and chk.counters['records_file_served']):
        raise core.Machinery('vacuous run: no handler ever ran or no file was ever served (stubs or tree broken)')
    chk.assumptions = [
        'bounded domain: the file tree of FrontEnd.tla (2 roots, 3 outside files, 6 links), request paths of <= MaxSegs segments '
        'over 9 segment values, 0-2 leading slashes, optional query; every registered endpoint x 6 methods x 2 x 3 x (5 + site hooks) situations',
        'request.uri reaches _static undecoded (checked through twisted.web.server.Site on an in-memory transport)',
        'endpoint handlers are recording stubs; "certificates configured" = dawgie.security._certs non-empty (a real self-signed certificate)',
        'an access-hook override that itself grants commands to strangers is outside the property: enumerated are the built-in hook, failing hooks '
        'and site hooks of the most liberal policy inside the property (everything but commands for strangers) that say yes with True / 1 / "yes" '
        'and no with False / None / 0 / "" / [] (the value returned in each situation is chosen by TLC, FrontEnd!Answer); not truthy means no',
    ]
    return chk.finish(
        'cases = every initial state of FrontEnd_Gen (all static requests of the bound and all access situations over the endpoints '
        'read from the running routing tree); each is executed on the real code three (static) / two (access) ways and the record validated by TLC. '
        'non-trivial = requests whose named path leaves a root + situations in which the property forbids the handler',
        exhaustive=True,
    )


if __name__ == '__main__':
    core.main(run)
