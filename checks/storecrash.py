'''C07: content-addressed store -- novelty signal, single copy, no dangling
reference, at every step and across process crashes (spec/StoreCrash.tla).

 1. MC      exhaustive TLC run of the implementation-shaped model (six steps of an
            update, Crash between any two, Reopen, clean Close, Purge) with the four
            property-level clauses; plus the wrong design (RecordFirst) which must be
            caught by the crash enumeration in the model
 2. GEN     every Crash / Answer / Close / Purge transition of a bounded instance as
            the input history reaching it (+ all histories of 4 answered updates in thorough)
 3. REPLAY  each history runs on the real _update / Worker.do / db.util code on real
            files, every process life a forked child killed where TLC chose
            (harness/storecrash_h.py); one trace line per intercepted step
 4. TRACE   TLC evaluates the clauses on every recorded state (StoreCrash_Trace.tla);
            Python only counts and reports
'''

import collections
import concurrent.futures
import json
import os
import random
import time

from vlib import core, tlc

INVARIANTS = ['TypeOK', 'NamedByDigest', 'NoDangling', 'SingleCopy']
PROPERTIES = ['NoveltyExact', 'Kept']
# measured: the replay is bound by page faults after fork and start-up of the interpreters, which do not
# scale with the number of processes on this kind of machine (3, 6 and 16 shards: same throughput)
SHARDS = int(os.environ.get('VERIF_C07_SHARDS', '4'))
SITES = ['mkstemp', 'dump', 'chmod', 'md5', 'sha1', 'encoded', 'exists', 'midcopy', 'moved', 'setitem', 'presend', 'sent', 'idle']


def consts(keys, contents, maxupd, maxev, record_first=False):
    return {
        'Contents': '<- ' + contents,
        'Keys': '<- ' + keys,
        'MaxUpd': str(maxupd),
        'MaxEv': str(maxev),
        'RecordFirst': 'TRUE' if record_first else 'FALSE',
    }


def gen(chk, name, spec, emit, keys, contents, maxupd, maxev, view=True, timeout=1800):
    cfg = os.path.join(chk.work, f'{name}.cfg')
    extra = ['ACTION_CONSTRAINT ' + emit]
    if view:
        extra.insert(0, 'VIEW View')
    tlc.write_cfg(cfg, spec=spec, constants=consts(keys, contents, maxupd, maxev), extra=extra)
    res = tlc.run('StoreCrash_Gen.tla', cfg, workers=1, timeout=timeout, out_file=os.path.join(chk.work, f'{name}.out'))
    if not res.ok:
        raise core.Machinery(f'generation {name} failed: {res.error or res.violated}')
    chk.mc_runs.append(dict(res.summary(), name=name, module='StoreCrash_Gen.tla'))
    seen = set()
    out = []
    for row in tlc.printed(res, 'CASE'):
        h = json.loads(row[1])
        key = json.dumps(h, sort_keys=True)  # TLC evaluates the constraint more than once per transition
        if key in seen:
            continue
        seen.add(key)
        out.append(h)
    chk.note(f'gen {name}: {len(out)} histories from {res.distinct} distinct states in {res.wall:.1f}s')
    return out


def summary(h):
    out = []
    for op in h:
        if op['op'] == 'upd':
            out.append(f'{op["k"]}={op["c"]}' + ('' if op['reach'] else '~') + ('' if op['site'] == 'none' else '@' + op['site']))
        else:
            out.append(op['op'])
    return ','.join(out)


def shape(h, line_ev):
    '''canonical class of a failing history: operations without keys/contents'''
    out = []
    for op in h:
        if op['op'] == 'upd':
            out.append('upd' + ('' if op['site'] == 'none' else '@' + op['site']))
        elif op['op'] != 'open':
            out.append(op['op'])
    return line_ev + ':' + ','.join(out)


def last_site(h):
    return next((op['site'] for op in reversed(h) if op['site'] != 'none'), 'none')


WITNESSES = [
    ('purge', lambda h: any(op['op'] == 'purge' for op in h[1:])),
    ('close', lambda h: any(op['op'] == 'close' for op in h)),
    ('held record lost', lambda h: any(op['op'] == 'upd' and not op['reach'] and op['site'] in ('none', 'setitem', 'presend', 'sent') and last_site(h[i:]) != 'none' for i, op in enumerate(h))),
    ('repeated content', lambda h: len([op for op in h if op['op'] == 'upd' and op['site'] == 'none']) > len({op['c'] for op in h if op['op'] == 'upd' and op['site'] == 'none'})),
    ('repeated key', lambda h: len([op for op in h if op['op'] == 'upd' and op['site'] in ('none', 'presend', 'sent', 'setitem')]) > len({op['k'] for op in h if op['op'] == 'upd' and op['site'] in ('none', 'presend', 'sent', 'setitem')})),
    ('same content offered again after a failed move', lambda h: any(op['op'] == 'upd' and op['site'] == 'movefail' and any(o2['op'] == 'upd' and o2['site'] == 'none' and o2['c'] == op['c'] for o2 in h[i + 1 :]) and not any(o2['op'] in ('open', 'close', 'crash') for o2 in h[i + 1 :]) for i, op in enumerate(h))),
    ('same content offered again after a kill inside its transfer into the store', lambda h: any(op['op'] == 'upd' and op['site'] == 'midcopy' and any(o2['op'] == 'upd' and o2['site'] == 'none' and o2['c'] == op['c'] for o2 in h[i + 1 :]) for i, op in enumerate(h))),
    ('staged file of a content that is not in the store is lost', lambda h: any(op['op'] == 'upd' and op['site'] == 'stagedlost' and not any(o2['op'] == 'upd' and o2['c'] == op['c'] and o2['site'] in ('none', 'moved', 'setitem', 'presend', 'sent') for o2 in h[:i]) for i, op in enumerate(h))),
    ('staged file of a content that is in the store is lost', lambda h: any(op['op'] == 'upd' and op['site'] == 'stagedlost' and any(o2['op'] == 'upd' and o2['c'] == op['c'] and o2['site'] == 'none' for o2 in h[:i]) and not any(o2['op'] == 'purge' for o2 in h[:i]) for i, op in enumerate(h))),
    ('file moved then crash', lambda h: h[-1]['op'] == 'upd' and h[-1]['site'] == 'moved' and h[-1]['c'] not in {op['c'] for op in h[:-1]}),
]


def select(cases, hist):
    '''(must, rest): must = one history per kill site and per witness class, two crash-free ones'''
    by = collections.defaultdict(list)
    for h in cases:
        by[last_site(h)].append(h)
    must, taken = [], set()

    def take(h):
        key = json.dumps(h, sort_keys=True)
        if key not in taken:
            taken.add(key)
            must.append(h)

    # witnesses first; a class that a history already taken belongs to needs no history of its own
    for _name, pred in WITNESSES:
        if not any(pred(h) for h in must):
            for h in [h for h in cases if pred(h)][:1]:
                take(h)
    for site in sorted(by):
        if not any(last_site(h) == site for h in must):
            for h in by[site][:1]:
                take(h)
    for h in (hist if len(hist) <= 80 else hist[:2]):
        take(h)
    rest = []
    queues = [by[k] for k in sorted(by)] + ([hist] if hist else [])
    i = 0
    while any(queues):
        q = queues[i % len(queues)]
        if q:
            h = q.pop()
            key = json.dumps(h, sort_keys=True)
            if key not in taken:
                taken.add(key)
                rest.append(h)
        i += 1
    return must, rest


def xdev_jobs(cases, start, n=6):
    '''opt-in scenario (VERIF_C07_XDEV=1), NOT part of the registered check: staging and store on different
    file systems, so that shutil.move is copy + unlink and the process can die in the middle of the copy.
    Derived from TLC's histories that end with a kill after the move of a new content: the kill is moved
    into the copy, then the same content is stored again under another key.'''
    out = []
    for h in cases:
        if h and h[-1]['op'] == 'upd' and h[-1]['site'] == 'moved' and h[-1]['c'] not in {op['c'] for op in h[:-1]}:
            last = dict(h[-1], site='midcopy')
            other = 'T2.A.1' if last['k'] != 'T2.A.1' else 'T1.A.1'
            h2 = h[:-1] + [last, dict(h[0]), dict(last, k=other, site='none', reach=True), dict(h[0], op='close')]
            out.append({'id': start + len(out) + 1, 'must': True, 'xdev': True, 'h': h2})
            if len(out) >= n:
                break
    return out


def count(files, counters):
    '''vacuity counters, measured on the recorded traces'''
    for fn in files:
        with open(fn, 'rt', encoding='utf-8') as f:
            for ln in f:
                t = json.loads(ln)
                prev = None
                torn = set()
                for s in t['steps']:
                    ev, st = s['ev'], s['st']
                    if ev == 'Crash' and s['obs']['site'] == 'midcopy' and prev:
                        torn.add(prev['st']['uc'])
                    if ev == 'Answer' and prev and prev['st']['uc'] in torn:
                        counters['answered_again_after_kill_inside_transfer'] += 1
                    counters['steps_' + ev] += 1
                    if ev == 'Answer':
                        counters['answers_new' if s['obs']['isnew'] else 'answers_old'] += 1
                    if ev == 'Move':
                        counters['move_discarded' if st['uex'] else 'move_renamed'] += 1
                    if ev == 'Record' and not s['obs']['reach']:
                        counters['record_held_back'] += 1
                    if ev == 'Record' and prev and any(p[0] == st['uk'] for p in prev['st']['prime']):
                        counters['record_overwrites_entry'] += 1
                    if ev == 'MoveFails':
                        counters['failed_moves_survived'] += 1
                    if ev == 'StagedLost':
                        counters['staged_files_lost'] += 1
                        if prev and not prev['st']['uname'] in {b['n'] for b in st['blobs']}:
                            counters['staged_file_lost_content_not_stored'] += 1
                    if ev == 'Crash':
                        counters['crash_at_' + s['obs']['site']] += 1
                        names = {p[1] for p in st['prime']}
                        if any(b['n'] not in names for b in st['blobs']):
                            counters['crash_leaves_unreferenced_file'] += 1
                        if prev and len(prev['st']['prime']) > len(st['prime']):
                            counters['crash_loses_catalogue_entry'] += 1
                        if st['orph']:
                            counters['crash_leaves_staging_file'] += 1
                    if ev == 'Purge' and prev and len(prev['st']['blobs']) > len(st['blobs']):
                        counters['purge_deleted_files'] += 1
                    if ev in ('Crash', 'Close', 'Purge'):
                        counters['states_read_from_files'] += 1
                    prev = s


def replay_and_validate(chk, pid, jobs, trace_consts):
    files = chk.run_harness('storecrash_h', jobs, shards=SHARDS)
    done = set()
    for fn in files:
        with open(fn, 'rt', encoding='utf-8') as f:
            for ln in f:
                done.add(int(ln[ln.index('"tid": ') + 7 : ln.index(',')]))
    chk.traces += len(done)
    chk.note(f'{len(done)} of {len(jobs)} histories executed within the time budget')
    rows = chk.validate('StoreCrash_Trace.tla', dict(spec='TraceSpec', constants=trace_consts, extra=['POSTCONDITION AllConsumed']), files)
    byid = {j['id']: j for j in jobs}
    for r in rows['DRIFT']:
        chk.drift += 1
        if len(chk.drift_samples) < 5:
            chk.drift_samples.append({'trace': r[1], 'line': r[2], 'ev': r[3], 'history': summary(byid[r[1]]['h'])})
    for r in rows['CLAUSE']:
        _tag, tid, line, ev, bad = r
        for clause in sorted(bad['set']):
            if clause.startswith(pid + '.'):
                job = byid[tid]
                chk.add_violation(clause, shape(job['h'], ev), {'trace': tid, 'line': line, 'event': ev, 'history': summary(job['h'])}, {'job': job, 'line': line})
    return files, done


TRACE_CONSTS = {
    'Contents': tlc.tla_set(['c1', 'c2', 'c3']),
    'Keys': tlc.tla_set(['T1.A.1', 'T2.A.1', 'T1.B.1', 'T1.A.2']),
    'MaxUpd': '1000000',
    'MaxEv': '1000000',
    'RecordFirst': 'FALSE',
}


def run(pid, tier, seed, replay=None):
    chk = core.Check(pid, tier, seed)
    rnd = random.Random(seed)
    counters = collections.Counter()
    if replay:
        with open(replay, 'rt', encoding='utf-8') as f:
            rp = json.load(f)['replay']
        rp['job']['must'] = True
        files, _done = replay_and_validate(chk, pid, [rp['job']], TRACE_CONSTS)
        count(files, counters)
        chk.counters.update(counters)
        return chk.finish('replay of one recorded history')
    thorough = tier == 'thorough'

    # 1. MC runs in the background while 2. GEN and 3. REPLAY proceed (independent TLC runs; the
    # replay is bound by the cost of page faults after fork, not by CPU)
    mc_consts = consts('K4', 'C3', 4, 4) if thorough else consts('K3', 'C3', 3, 3)
    with concurrent.futures.ThreadPoolExecutor(4) as ex:
        f_mc = ex.submit(chk.mc, 'mc', 'StoreCrash_MC.tla', dict(spec='Spec', constants=mc_consts, invariants=INVARIANTS, properties=PROPERTIES), workers=max(2, core.NPROC // 2))
        # the wrong design must be caught by the crash enumeration: the only way to violate the
        # persistent part of NoDangling is a Crash between Record and Move
        f_rf = ex.submit(chk.mc, 'mc_record_first', 'StoreCrash_MC.tla', dict(spec='Spec', constants=consts('K2', 'C2', 2, 2, record_first=True), invariants=['NoDanglingDown']), workers=2, expect_ok=False)
        if thorough:
            f_gen = ex.submit(gen, chk, 'gen_trans', 'GenSpec', 'EmitTrans', 'K3', 'C3', 3, 2)
            f_hist = ex.submit(gen, chk, 'gen_hist', 'HistSpec', 'EmitHist', 'K4', 'C3', 4, 1, False)
        else:
            f_gen = ex.submit(gen, chk, 'gen_trans', 'GenSpec', 'EmitTrans', 'K3', 'C3', 2, 2)
            # every uninterrupted history of three updates over two keys and two contents (shared content, overwrites)
            f_hist = ex.submit(gen, chk, 'gen_hist', 'HistSpec', 'EmitHist', 'K2', 'C2', 3, 1, False)
        cases = f_gen.result()
        hist = f_hist.result() if f_hist else []
        total, nhist = len(cases), len(hist)

        # order: first a small set that makes every antecedent true (always executed), then the rest
        # round-robin over the kill sites; the harness works down the list until the time budget is spent
        rnd.shuffle(cases)
        rnd.shuffle(hist)
        must, rest = select(cases, hist)
        limit = int(os.environ.get('VERIF_C07_CASES', '30000' if thorough else '800'))
        jobs = [{'id': i + 1, 'must': i < len(must), 'h': h} for i, h in enumerate((must + rest)[:limit])]
        if os.environ.get('VERIF_C07_XDEV'):
            jobs += xdev_jobs(cases, len(jobs))
        seconds = float(os.environ.get('VERIF_C07_SECONDS', '450' if thorough else '25'))
        os.environ['VERIF_C07_DEADLINE'] = str(time.time() + seconds)

        # 3 + 4
        files, done = replay_and_validate(chk, pid, jobs, TRACE_CONSTS)
        f_mc.result()
        res = f_rf.result()
    if res.violated != 'NoDanglingDown':
        raise core.Machinery('the model does not catch the record-before-move design through a crash (NoDanglingDown not violated)')
    chk.extra['model_catches_record_first'] = True
    count(files, counters)
    jobs = [j for j in jobs if j['id'] in done]
    chk.samples = [summary(j['h']) for j in rnd.sample(jobs, min(5, len(jobs)))]
    nontrivial = sum(1 for j in jobs if any(op['site'] != 'none' for op in j['h']) or len({op['c'] for op in j['h'] if op['op'] == 'upd'}) < sum(1 for op in j['h'] if op['op'] == 'upd'))
    chk.counters.update(counters)
    chk.counters.update(transitions_of_gen_instance=total, crash_free_histories_of_gen_instance=nhist, histories_replayed=len(jobs), replay_seconds_budget=seconds, distinct_nontrivial=nontrivial)
    # vacuity: every antecedent must have been true on the real code
    if not chk.violations and not os.environ.get('VERIF_MUTANT') and not os.environ.get('VERIF_CORRUPT'):
        need = ['answers_new', 'answers_old', 'move_discarded', 'move_renamed', 'record_held_back', 'record_overwrites_entry', 'crash_leaves_unreferenced_file', 'crash_leaves_staging_file', 'crash_loses_catalogue_entry', 'steps_Purge', 'steps_Close', 'failed_moves_survived', 'staged_file_lost_content_not_stored', 'answered_again_after_kill_inside_transfer']  # fmt: skip
        need += ['crash_at_' + s for s in SITES]
        missing = [n for n in need if counters[n] == 0]
        if missing:
            raise core.Machinery(f'vacuous run: never observed {missing}')
    chk.assumptions = [
        'bounded model: 3 contents, 3-4 keys (base key + one differing in target / algorithm / run), <=4 updates, <=4 environment events (crash, clean shutdown, purge)',
        'updates are serial (Interface._update holds the database lock, Worker.do runs in one reactor callback): the only interleaving is a process death',
        'a crash is the death of the process that has the database open (client code runs in the same forked child through the in-memory bridge); file-system calls that returned are durable (no power loss), shutil.move is a rename (staging and store on one file system)',
        'whether tables.prime[key]=name reaches the disk before a crash is left to the environment: written through to the real dbm.dumb backend, or held in a write-behind layer around the table until close',
        'equal content <=> equal pickle bytes; digests in the traces are recomputed from the file bytes with hashlib',
        'NoveltyExact is taken literally: "in the store" means a stored FILE with that content, referenced or not (an unreferenced file left by a crash makes the next update of that content report old)',
    ]
    return chk.finish(
        'histories = every Crash (12 kill sites) / Answer / Close / Purge transition of the bounded instance as the input history reaching it '
        'plus every history of 4 answered updates (ended by close or kill) in thorough; a small witness set (one history per kill site and per antecedent) always runs, the rest round-robin '
        'over the kill sites until the replay time budget of the tier is spent (counts are of executed histories); each runs on the real code in forked children '
        'and every recorded state is validated by TLC. non-trivial = history with a crash or a repeated content; distinct by input history'
    )


if __name__ == '__main__':
    core.main(run)
