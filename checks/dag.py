'''C09: the derived task graph is faithful to the declared dependencies
(spec/Dag.tla, dawgie/pl/dag.py).

 1. MC      TLC runs the transcription of dag.Construct (value-level build over
            as_vref expansion, _feedback, _parents with its `known` cut in EVERY
            iteration order, the iterative _ancestry, Node.trim at lengths 1-3,
            Node.iter) on every program of the bounded domain and checks every
            clause of C09 against the DECLARATIVE graph (Dag!Clauses), that the
            functional form ConstructOp agrees with the action system, and that
            the recursion visits every node (spec/Dag_MC.tla)
 2. GEN     the same domain is exported, one CASE per program (spec/Dag_Gen.tla);
            four-algorithm programs (diamonds, shared inputs, up to two feedback
            references) are drawn by `tlc -simulate` on spec/Dag_Sim.tla, which
            also checks the clauses on the model along every drawn behaviour
 3. HARNESS every program is materialised as an in-memory engine (vlib/engine.py)
            and the REAL dag.Construct runs on it twice, with the factory lists
            in package order and reversed (harness/dag_h.py); the
            algorithm tree (per node object: tag, children, ancestry, parents,
            feedback, level), Node.iter / Node.locate, the tags of svt / tt / vt
            and Construct.feedbacks are logged
 4. TRACE   TLC rebuilds the graph record from the log and judges it with the
            same Dag!Clauses against the declarative graph computed from the
            program (spec/Dag_Trace.tla); Python only counts and reports

Interpretation choices
 * "edge" = child link of the algorithm tree (Construct.at); the `parents`
   attribute is the same relation reversed and is held to the same standard.
 * "feedback never creates an ordering edge": for every pair (consumer, fed-back
   algorithm) no child / parent / ancestry entry exists in either direction
   unless an input reference declares it.
 * "every fed-back value is mapped to a consumer": Construct.feedbacks has the
   value's full name as key and the entry names a node of an algorithm that
   declares feedback on that value (which of several consumers survives is not
   prescribed).  An entry for a value nobody asks for is a failure of the
   separate clause C09.FeedbackOnlyDeclared.
 * `level` is logged but not part of C09 (the scheduler orders by `ancestry`);
   nodes whose level does not exceed their parent's are counted in the evidence
   (`observed_level_not_increasing`) and claimed nowhere.
 * a Construct that raises on a well-formed acyclic engine fails C09.Constructs.
'''

import collections
import concurrent.futures
import json
import os
import random
import re

from vlib import core, tlc

SIM_WORKERS = 8
SIM_PER_WORKER = {'quick': 12, 'thorough': 500}
NEED = ['edge', 'indirect-ancestor', 'feedback', 'feedback-unrelated', 'feedback-shared', 'ref-alg', 'ref-sv', 'ref-val',
        'shared-consumer', 'shared-input', 'shared-package', 'diamond', 'deep-join', 'join-with-descendant', 'same-named-producers']


def _tlc(chk, name, module, cfg_kwargs, workers, **kw):
    cfg = os.path.join(chk.work, f'{name}.cfg')
    tlc.write_cfg(cfg, **cfg_kwargs)
    return tlc.run(module, cfg, workers=workers, timeout=3000, out_file=os.path.join(chk.work, f'{name}.out'), **kw)


def _book(chk, name, module, cfg_kwargs, res, mode=None):
    chk.note(f'{name}: {res.distinct} distinct / {res.generated} generated, depth {res.depth}, ok={res.ok}, {res.wall:.1f}s')
    rec = res.summary()
    rec.update(name=name, module=module, invariants=list(cfg_kwargs.get('invariants', ())))
    if mode:
        rec['mode'] = mode
    chk.mc_runs.append(rec)
    chk.states += res.distinct
    chk.transitions += res.generated
    if res.timed_out:
        raise core.Machinery(f'TLC timed out on {name}')
    if res.error and not res.violated:
        raise core.Machinery(f'TLC error in {name}: {res.error}')
    if not res.ok:
        # a counterexample of the MODEL is a wrong specification, never an alarm
        raise core.Machinery(f'model {name} violates {res.violated}; see {chk.work}/{name}.out')


def model_runs(chk, tier, seed):
    '''MC, GEN and SIM are independent TLC runs: side by side'''
    fam = {'Programs': '<- ProgramsOfTier', 'Tier': '"thorough"' if tier == 'thorough' else '"quick"'}
    per = SIM_PER_WORKER.get(tier, SIM_PER_WORKER['quick'])
    runs = {
        'mc': ('Dag_MC.tla', dict(spec='Spec', constants=fam, invariants=['TypeOK', 'Faithful', 'OpAgrees', 'AllVisited']), 8, dict(coverage=True)),
        'gen': ('Dag_Gen.tla', dict(spec='GenSpec', constants=fam, invariants=['GenOK', 'Emit']), 1, {}),
        'sim': (
            'Dag_Sim.tla',
            dict(spec='SimSpec', constants={'Programs': '{}', 'Tier': '"sim"', 'NAlg': '4', 'MaxFb': '2'}, invariants=['SimFaithful', 'SimEmit']),
            SIM_WORKERS,
            dict(simulate=f'num={per}', depth=400, seed=seed + 1),
        ),
    }
    with concurrent.futures.ThreadPoolExecutor(3) as ex:
        futs = {n: ex.submit(_tlc, chk, n, m, c, w, **kw) for n, (m, c, w, kw) in runs.items()}
        res = {n: f.result() for n, f in futs.items()}
    for n, (m, c, w, kw) in runs.items():
        if n == 'sim':
            # simulation prints no "No error" line; a violated invariant or an error does show
            r = res[n]
            r.ok = r.ok or (r.rc == 0 and not r.violated and 'Error:' not in r.out)
            mt = re.search(r'The number of states generated: (\d+)', r.out)
            r.generated = int(mt.group(1)) if mt else 0
        _book(chk, n, m, c, res[n], mode='simulate' if n == 'sim' else None)
    cases = []
    seen = set()
    for n in ('gen', 'sim'):
        k = 0
        for row in tlc.printed(res[n], 'CASE'):
            key = row[1]
            if key in seen:
                continue
            seen.add(key)
            c = json.loads(key)
            c['src'] = n
            cases.append(c)
            k += 1
        if not k:
            raise core.Machinery(f'{n} produced no cases')
        chk.counters[f'programs_{n}'] = k
    # vacuity: every phase of the transcription was taken, and every program was carried to the end
    cov = res['mc'].coverage
    for act in ('Pick', 'Build', 'Feedback', 'Parents', 'Finish'):
        if not cov.get(act, (0, 0))[0]:
            raise core.Machinery(f'vacuous model run: action {act} never taken ({cov})')
    if cov['Pick'][0] != chk.counters['programs_gen'] or cov['Finish'][0] < cov['Pick'][0]:
        raise core.Machinery(f'model run incomplete: {cov["Pick"][0]} programs picked, {chk.counters["programs_gen"]} exported, {cov["Finish"][0]} finished')
    chk.counters.update(model_programs=cov['Pick'][0], model_parents_steps=cov['Parents'][1], model_final_states=cov['Finish'][0])
    return cases


def signature(prog, clause):
    '''canonical description of the failing input class: reference structure and feedback of the program'''
    parts = []
    for a in sorted(prog['kind']):
        rs = sorted(f'{r["src"]}@{r["gran"]}' for r in prog['refs'][a])
        fb = sorted(f'{r["src"]}@{r["gran"]}' for r in prog['fb'][a])
        parts.append(f'{a}[{prog["kind"][a]}]<-{"+".join(rs) or "-"}' + (f'<={"+".join(fb)}' if fb else ''))
    return ' '.join(parts)


def execute(chk, pid, jobs):
    files = chk.run_harness('dag_h', jobs)
    chk.traces += len(jobs)
    rows = chk.validate(
        'Dag_Trace.tla',
        dict(spec='TraceSpec', constants={'Programs': '{}'}, extra=['POSTCONDITION AllConsumed']),
        files,
        tags=('CLAUSE', 'DRIFT', 'OBSERVE', 'CONSUMED'),
    )
    recs = {}
    for fn in files:
        with open(fn) as f:
            for ln in f:
                t = json.loads(ln)
                recs[t['tid']] = t
    byid = {j['id']: j for j in jobs}
    for r in rows['DRIFT']:
        chk.drift += 1
        if len(chk.drift_samples) < 5:
            chk.drift_samples.append({'trace': r[1], 'prog': recs[r[1]]['prog']})
    for _tag, tid, line, ev, bad in rows['CLAUSE']:
        t = recs[tid]
        obs = t['steps'][line - 1]['obs']
        for clause in sorted(bad['set']):
            if clause == 'C09.NotACase':
                raise core.Machinery(f'record {tid} is not a program of the domain (not well formed / cyclic)')
            if clause.startswith(pid + '.'):
                detail = {
                    'trace': tid,
                    'step': ev,
                    'err': obs['err'],
                    'nodes': [{k: n[k] for k in ('tag', 'children', 'parents', 'ancestry', 'feedback')} for n in obs['nodes']],
                    'feedbacks': obs['fed'],
                    'trees': {k: obs[k] for k in ('svt', 'tt', 'vt')},
                }
                chk.add_violation(clause, signature(t['prog'], clause), detail, {'job': byid[tid]})
    return rows, recs


def run(pid, tier, seed, replay=None):
    chk = core.Check(pid, tier, seed)
    rnd = random.Random(seed)
    if replay:
        with open(replay) as f:
            job = json.load(f)['replay']['job']
        execute(chk, pid, [job])
        return chk.finish('replay of one recorded program')
    # 1 + 2
    cases = model_runs(chk, tier, seed)
    feats = collections.Counter(f for c in cases for f in c['feat'])
    missing = [f for f in NEED if not feats[f]]
    if missing:
        raise core.Machinery(f'vacuous: no program with {missing}')
    # 3 + 4
    jobs = [{'id': i + 1, 'prog': c['prog'], 'feat': c['feat'], 'src': c['src']} for i, c in enumerate(cases)]
    rows, recs = execute(chk, pid, jobs)
    # counts, measured on the records
    allobs = [st['obs'] for t in recs.values() for st in t['steps']]
    n_ok = sum(1 for o in allobs if o['ok'])
    n_nodes = sum(len(o['nodes']) for o in allobs)
    n_edges = sum(len(n['children']) for o in allobs for n in o['nodes'])
    n_fed = sum(len(o['fed']) for o in allobs)
    if not (n_ok and n_edges and n_fed):
        raise core.Machinery(f'vacuous run: constructs={n_ok} edges={n_edges} feedbacks={n_fed}')
    nontrivial = {json.dumps(c['prog'], sort_keys=True) for c in cases if 'edge' in c['feat']}
    chk.counters.update(
        programs=len(cases),
        constructs_returned=n_ok,
        nodes_compared=n_nodes,
        edges_compared=n_edges,
        feedback_entries_compared=n_fed,
        observed_level_not_increasing=len(rows['OBSERVE']),
        distinct_nontrivial=len(nontrivial),
        **{'with_' + k.replace('-', '_'): v for k, v in sorted(feats.items())},
    )
    some = rnd.sample(sorted(recs), min(3, len(recs)))
    chk.samples = [
        {
            'prog': {k: recs[i]['prog'][k] for k in ('kind', 'vals', 'refs', 'fb')},
            'at': [{k: n[k] for k in ('tag', 'children', 'ancestry', 'feedback')} for n in recs[i]['steps'][0]['obs']['nodes']],
            'feedbacks': recs[i]['steps'][0]['obs']['fed'],
        }
        for i in some
    ]
    chk.assumptions = [
        'bounded domain: 3 algorithms exhaustively (two profiles of kinds / packages / state vectors x values; every subset of '
        '{ALG_REF, SV_REF, V_REF} between every ordered pair; 5 feedback options; all 27 kind assignments x 5 packagings on 4 shapes), '
        '43 four-algorithm chains / diamonds and 108 five- to seven-algorithm joins of deep distinct branches (3 granularities x 3 kinds at the join x 2-4 namings), '
        '160 three-algorithm programs whose two producers (or all three algorithms) share short name, state-vector and value names across packages, '
        '4 algorithms with 1-2 state vectors x 1-2 values and up to 2 feedback references by simulation',
        'engines are acyclic by construction (references point backwards in a fixed topological order, feedback forwards) and well formed '
        '(every reference names an existing state vector / value)',
        'generated engines use the factory/bot pattern; environment stubs: virtual reactor, svg writer (graphviz); PYTHONHASHSEED=0',
        'the model explores every iteration order of _parents; Node.trim is transcribed as the union over the value nodes its walk reaches; '
        '`level` (Node.graph) is outside C09 and only observed',
    ]
    return chk.finish(
        'cases = the programs TLC enumerates (Dag_Gen: the whole 3-algorithm domain of the tier) and draws (Dag_Sim: 4-algorithm programs); each is '
        'materialised as an engine, the real dag.Construct runs on it and TLC compares the record with the declarative graph of the same program. '
        'non-trivial = distinct programs with at least one declared edge',
        exhaustive=True,
    )


if __name__ == '__main__':
    core.main(run)
