'''C15: version order is total; a version change reschedules exactly its owner
(spec/Version.tla).

 1. MC      Version_MC: (a) all pairs over (0..2)^3, the operators as written
            against Lex; (b) every build case of the tier's plans, the
            transcription of _diff/build/organize against the reference
 2. GEN     Version_Gen prints the very same inputs as JSON (same TLC run as 1:
            Emit is evaluated once per seed state next to the invariants)
 3. CODE    harness/version_h.py evaluates the real dawgie.Version operators
            and runs the real version.current + schedule.build (persisted tables
            supplied directly, and in thorough also through a real shelve
            database) for every input
 4. TRACE   Version_Trace: TLC evaluates every clause on every record

 --tier selftest applies in-memory mutants of the real functions inside the
 harness process and requires a VIOLATION from this ordinary pipeline for each.
'''

import json
import os
import random

from vlib import core, tlc

MAXV = 2
BATCHES = {
    # (name, plan operator of Version_MC, class pairs operator, build cases per harness job)
    'quick': [('quick', 'PlanQuick', 'ClassPairsQuick', 100)],
    'thorough': [
        ('pairs', None, 'ClassPairsAll', 0),
        ('T1', 'PlanT1', None, 400),
        ('T2', 'PlanT2', None, 400),
        ('T3', 'PlanT3', None, 400),
        ('H1', 'PlanH1', None, 25),
        ('H2', 'PlanH2', None, 25),
    ],
}


def unprint(res, tag):
    '''PrintT(<<"TAG", ToJson(x)>>) lines -> python objects (fast path for long lines)'''
    pre = '<<"' + tag + '", '
    out = []
    for ln in res.prints:
        if ln.startswith(pre) and ln.endswith('>>'):
            out.append(json.loads(json.loads(ln[len(pre) : -2])))
    return out


def mcgen(chk, name, plan, classpairs):
    '''one TLC run: exhaustive check of transcription = reference on the inputs of
    (plan, classpairs) and export of the same inputs (Emit) for the harness'''
    consts = {'MaxV': str(MAXV), 'Plan': '<- ' + plan if plan else '{}', 'ClassPairs': '<- ' + classpairs if classpairs else '{}'}
    res = chk.mc(
        name,
        'Version_Gen.tla',
        dict(spec='Spec', constants=consts, invariants=['InvPairs', 'InvBuild', 'Emit']),
        out_file=os.path.join(chk.work, f'{name}.out'),
    )
    pairs, groups = unprint(res, 'PAIRS'), unprint(res, 'GROUP')
    if res.out.count('<<"PAIRS", ') != len(pairs) or res.out.count('<<"GROUP", ') != len(groups):
        raise core.Machinery(f'{name}: exported lines are damaged (interleaved output)')
    res.out = ''
    res.prints = []
    # the worker threads print in any order; job numbering must not depend on it
    pairs.sort(key=lambda g: (g['ca'], g['cb'], g['a']))
    groups.sort(key=lambda g: json.dumps([g['eng'], len(g['cases']), g['cases'][0]], sort_keys=True))
    return pairs, groups


def pair_jobs(groups, start):
    return [{'id': start + i, 'part': 'a', 'ca': g['ca'], 'cb': g['cb'], 'a': g['a'], 'bs': g['bs']} for i, g in enumerate(groups)]


def build_jobs(groups, start, per_job):
    jobs = []
    for g in groups:
        cases = g['cases']
        # a real database per shelve case: ~0.1 s each
        n = min(per_job, 20) if cases and cases[0]['mode'] == 'shelve' else per_job
        for k in range(0, len(cases), n):
            jobs.append({'id': start + len(jobs), 'part': 'b', 'eng': g['eng'], 'elems': g['elems'], 'decl': g['decl'], 'cases': cases[k : k + n]})
    return jobs


def describe(job, line):
    '''signature (class of the failing input) and detail of step `line` of a job'''
    if job['part'] == 'a':
        a, b = job['a'], job['bs'][line - 1]
        k = next((i for i in range(3) if a[i] != b[i]), 3)
        rel = 'equal' if k == 3 else ('lower' if a[k] < b[k] else 'higher') + ' in ' + ['design', 'implementation', 'bugfix'][k]
        return f'compare {job["ca"]} with {job["cb"]}: a {rel}', {'a': a, 'b': b, 'classes': [job['ca'], job['cb']]}
    case = job['cases'][line - 1]
    stale = []
    for path, decl, p in zip(job['elems'], job['decl'], case['pers']):
        if not p['present'] or list(decl) not in [list(v) for v in p['vers']]:
            stale.append(('alg', 'sv', 'val')[len(path) - 2])
    kinds = ','.join(a['kind'] for a in job['eng']['algs'])
    sig = f'build {case["mode"]}: kinds={kinds} targets={len(case["targets"])} changed-levels={"+".join(sorted(set(stale))) or "none"}'
    return sig, {'engine': [a['pkg'] + '.' + a['name'] + ':' + a['kind'] for a in job['eng']['algs']], 'targets': case['targets'], 'changed_elements': len(stale), 'mode': case['mode']}


def single(job, line):
    '''the job reduced to the failing step (replay file)'''
    j = dict(job)
    if job['part'] == 'a':
        j['bs'] = [job['bs'][line - 1]]
    else:
        j['cases'] = [job['cases'][line - 1]]
    return j


def run_and_validate(chk, pid, jobs, name, stats):
    '''harness + TLC trace validation of one batch of jobs; collects violations and drift'''
    if not jobs:
        raise core.Machinery(f'{name}: no inputs were generated')
    files = chk.run_harness('version_h', jobs)
    chk.traces += len(jobs)
    rows = chk.validate(
        'Version_Trace.tla',
        dict(spec='TraceSpec', constants={'MaxV': str(MAXV)}, extra=['POSTCONDITION AllConsumed']),
        files,
        tags=('CLAUSE', 'DRIFT', 'CONSUMED', 'STAT'),
        workers=8,
        name='Version_Trace_' + name,
    )
    byid = {j['id']: j for j in jobs}
    seen = set()
    for r in rows['DRIFT']:
        if (r[1], r[2]) in seen:
            continue
        seen.add((r[1], r[2]))
        chk.drift += 1
        if len(chk.drift_samples) < 5:
            chk.drift_samples.append({'trace': r[1], 'line': r[2], 'ev': r[3], 'input': describe(byid[r[1]], r[2])[0]})
    seen = set()
    for _tag, tid, line, ev, bad in rows['CLAUSE']:
        for clause in bad['set']:
            if (tid, line, clause) in seen:
                continue
            seen.add((tid, line, clause))
            if clause.startswith(pid + '.'):
                sig, detail = describe(byid[tid], line)
                chk.add_violation(clause, sig, dict(detail, trace=tid, line=line, event=ev), {'job': single(byid[tid], line), 'line': 1})
    nrows = len(seen)
    seen = set()
    nfail = 0
    for _tag, tid, part, s in rows['STAT']:
        if tid in seen:
            continue
        seen.add(tid)
        acc = stats.setdefault(part, [0, 0, 0, 0, 0])
        for i, v in enumerate(s[:5]):
            acc[i] += v
        nfail += s[5]
    if len(seen) != len(jobs):
        raise core.Machinery(f'{name}: {len(seen)} trace summaries for {len(jobs)} traces')
    if nfail != nrows:
        raise core.Machinery(f'{name}: TLC counted {nfail} failing clauses but {nrows} were reported (lost output rows)')
    return rows


def require_nonvacuous(stats, parts):
    a, b = stats.get('a'), stats.get('b')
    if 'a' in parts and (not a or min(a[:4]) == 0):
        raise core.Machinery(f'vacuous run of part (a): steps / a<b / a=b / a>b = {a}')
    if 'b' in parts and (not b or min(b) == 0):
        raise core.Machinery(f'vacuous run of part (b): steps / must be queued / must stay out / analyses queued / no known target = {b}')


MUTANTS = {
    'a': ['ge_ignores_impl', 'newer_or_equal', 'lt_is_le'],
    'b': ['diff_substring', 'diff_absent_ok', 'diff_latest_only', 'diff_first_only', 'values_ignored', 'asp_gets_targets', 'owner_by_task', 'current_skips_values', 'current_reports_empty_sv'],
    'h': ['versions_forget_first', 'versions_sv_gets_value'],
}


def run(pid, tier, seed, replay=None):
    chk = core.Check(pid, tier, seed)
    rnd = random.Random(seed)
    stats = {}
    if replay:
        with open(replay) as f:
            rp = json.load(f)['replay']
        run_and_validate(chk, pid, [rp['job']], 'replay', stats)
        return chk.finish('replay of one recorded input')

    if tier == 'selftest':
        return run_selftest(chk, pid)

    thorough = tier == 'thorough'
    npairs = ncases = nid = 0
    dpairs, nontrivial = set(), set()
    for name, plan, classpairs, per_job in BATCHES['thorough' if thorough else 'quick']:
        # 1+2. MC and GEN in one TLC run
        pairs, groups = mcgen(chk, name, plan, classpairs)
        pjobs = pair_jobs(pairs, nid)
        bjobs = build_jobs(groups, nid + len(pjobs), per_job)
        del pairs, groups
        nid += len(pjobs) + len(bjobs)
        n = sum(len(j['cases']) for j in bjobs)
        ncases += n
        npairs += sum(len(j['bs']) for j in pjobs)
        chk.counters['inputs_' + name] = n + sum(len(j['bs']) for j in pjobs)
        dpairs.update((tuple(j['a']), tuple(b)) for j in pjobs for b in j['bs'])
        for j in bjobs:
            e = json.dumps(j['eng'], sort_keys=True)
            for c in j['cases']:
                if c['nstale'] > 0:
                    nontrivial.add(hash((e, json.dumps(c, sort_keys=True))))
        if pjobs and len(chk.samples) < 6:
            j = rnd.choice(pjobs)
            chk.samples.append({'part': 'a', 'classes': [j['ca'], j['cb']], 'a': j['a'], 'b': rnd.choice(j['bs'])})
        if bjobs and len(chk.samples) < 6:
            j = rnd.choice(bjobs)
            k = rnd.randrange(len(j['cases']))
            chk.samples.append({'part': 'b', 'batch': name, 'input': describe(j, k + 1)[1], 'persisted': [[p['present'], p['vers']] for p in j['cases'][k]['pers']]})
        # 3+4. real code, TLC trace validation
        run_and_validate(chk, pid, pjobs + bjobs, name, stats)
        del pjobs, bjobs
    distinct_pairs = len(dpairs)
    require_nonvacuous(stats, 'ab')
    chk.counters.update(
        pairs_evaluated=npairs,
        distinct_version_pairs=distinct_pairs,
        build_cases=ncases,
        stat_pairs_steps_lt_eq_gt=stats['a'][:4],
        stat_build_steps_queued_stayout_analyses_notargets=stats['b'],
        distinct_nontrivial=len(nontrivial) + distinct_pairs - (MAXV + 1) ** 3,
    )
    chk.assumptions = [
        'version fields 0..2 for the order; engines of <= 3 algorithms (task / analysis), 1-2 state vectors, 1-2 values; 0-2 known targets',
        'an analysis whose version changed carries the all-targets marker whatever the target list is (statement: "the all-targets marker for analyses"); with no known target no task may be queued',
        'persisted tables are supplied directly and through a real shelve database opened without its socket server (a small part in quick, the full histories in thorough); db.targets() is an environment stub in direct mode',
        'a state vector that declares no values is not a versioned element (version.current must not report it, nothing can persist it); algorithms without state vectors are outside the enumerated domain',
    ]
    return chk.finish(
        'inputs are enumerated by TLC (Version_Gen): every pair of versions over (0..2)^3 for a set of pairs of dawgie.Version subclasses; every build case of the plans '
        '(engine x bump set x style of persisted lists x known targets; shelve plans: history of recorded older engines). Each is executed on the real code and the record '
        'validated by TLC. non-trivial = pair of different versions / build case in which at least one element version is not among the persisted ones; distinct by input'
    )


def run_selftest(chk, pid):
    '''in-memory mutants of the real functions (harness, VERIF_MUTANT) must each be rejected'''
    chk.replays = os.path.join(chk.work, 'mutant_replays')  # nothing of a self test is a finding
    pairs, groups = mcgen(chk, 'quick', 'PlanQuick', 'ClassPairsQuick')
    pjobs = pair_jobs(pairs, 0)
    bjobs = build_jobs(groups, len(pjobs), 100)
    _p, groups = mcgen(chk, 'H1', 'PlanH1', None)
    hjobs = build_jobs(groups, len(pjobs) + len(bjobs), 25)[::6]
    survivors = []
    killed = {}
    for part, jobs in (('a', pjobs), ('b', bjobs), ('h', hjobs)):
        for m in MUTANTS[part]:
            os.environ['VERIF_MUTANT'] = m
            before = len(chk.violations)
            drift = (chk.drift, list(chk.drift_samples))
            try:
                run_and_validate(chk, pid, jobs, 'mutant_' + m, {})
            finally:
                os.environ.pop('VERIF_MUTANT', None)
            got = chk.violations[before:]
            killed[m] = sorted({v['clause'] for v in got})
            chk.note(f'mutant {m}: {len(got)} violating steps, clauses {killed[m]}')
            if not got:
                survivors.append(m)
            del chk.violations[before:]
            chk.drift, chk.drift_samples = drift  # drift of a mutant is expected, not a property of the tree
    # and the unchanged code passes on the same inputs
    run_and_validate(chk, pid, pjobs + bjobs + hjobs, 'unmutated', {})
    chk.counters['mutants'] = killed
    chk.counters['distinct_nontrivial'] = len(killed)
    chk.pid = pid + '.selftest'  # separate evidence file
    if survivors:
        raise core.Machinery(f'self test: mutants not detected: {survivors}')
    return chk.finish('self test: each in-memory mutant of the real functions must produce a VIOLATION through the ordinary pipeline; the unmutated code must pass on the same inputs')


if __name__ == '__main__':
    core.main(run)
