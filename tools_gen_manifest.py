#!/usr/bin/env python3
'''(re)generate MANIFEST.json from the table below; validates against the schema when jsonschema is available'''
import json
import os

ROOT = os.path.dirname(os.path.abspath(__file__))

CHECKS = {
    'C01': ('Sched', 'TLC exhaustive on Sched.tla (3 algorithms, 64 programs, every interleaving of requests/dispatch/replies/reload) with the action property C01_Release (judged at the release decision and at the hand-out, also when a dispatch pass is cut short by an exception and the leftover jobs are served later); every transition of a smaller instance and simulated behaviours of larger ones replayed on the real schedule/farm/dag code; TLC validates each recorded step against Blocked() computed from the declared inputs and the ground-truth in-flight set decoded from worker transports', '5.C01'),
    'C02': ('Sched', 'TLC exhaustive on Sched.tla with C02_Step (complete + minimal re-scheduling after each success reply, value-level declarations); real-code replays validated step by step by TLC (consumers = declared value-level inputs); the end state (store at quiescence = from-scratch run, every execution justified, nobody owed a run; spec/Sched_Data.tla) is checked with an abstract worker, with the real worker.Context.run + real shelve store (half of the histories with algorithms that save twice per run) and with the real worker entry point over in-memory sockets (bots alternately deprecated dawgie.Task subclasses and dawgie.base objects)', '5.C02'),
    'C03': ('Sched', 'TLC exhaustive with OneAtATime / NoDrop / ReplyRecorded / ReleasedWasPending, including dispatch passes that raise mid-batch (TickFault, jobs held in farm._jobs) and reloads with late replies; on real-code traces TLC checks one-at-a-time on the wire, hand-out at most once, messages stay queued, every live reply recorded exactly once and propagated, crew view = in-flight bag', '5.C03'),
    'C04': ('Sched', 'TLC exhaustive with IdleEmpty / Progress / NoStuck / HeldFlushed (+ liveness Quiesce under FairSpec in thorough); on real-code traces TLC checks IdleEmpty after every event and Progress on every dispatch, and every schedule is drained to quiescence; the timer path (periodics / defer / complete) is covered by replaying the MomentFire firing histories with clause C04.IdleEmpty; program families include feedback declarations, self-reading algorithms (accumulators), explicit cloud/cluster placement wishes without a provider, same short names across tasks', '5.C04'),
    'C05': ('Sched', 'TLC exhaustive with C05_Contained over every state in which a non-success reply can arrive; on real-code traces TLC checks withdrawal from all transitive dependents, the frame condition on all other work, nothing triggered, outcome recorded (chronicle file read back)', '5.C05'),
    'C10': ('Lifecycle', 'TLC exhaustive on Lifecycle.tla (every order of background-step completions vs. triggers from their real sources, <=3 submissions, environment toggles, reset/archive cycles) with Edges/Rest/Active/Rejected/ArchiveReturns and the liveness property Return under FairSpec; every transition of a smaller instance + simulated behaviours executed on the real FSM (real transitions machine, real submit Process steps, real cmd_reset, real farm.dispatch) with held background steps; TLC validates every recorded step incl. the path of states passed through, out-of-turn triggers where the documented machine forbids them and running_trigger where it allows it while a background step is outstanding (RawRun), and rest after draining', '5.C10'),
    'C11': ('Farm', 'TLC exhaustive on Farm.tla (registrations with matching/stale revision, disconnects, status polls, dispatch ticks, replies, reload and archive cycles; 3-4 worker connections) with Eligible/Silent/Leave/Stay/Fields/FreshLarger/DrawnIff/RunIdFromEventOnly; transitions + simulated behaviours replayed on the real Hand protocol objects, dispatch, notify_all; TLC validates the messages decoded from each fake worker transport against the ground-truth worker table it maintains itself', '5.C11'),
    'C12': ('Lifecycle', 'TLC exhaustive on Lifecycle.tla with the poller split into observe / callback (OnlyWhenAllowed, ExactlyOnce, NotLost, Refused) and the liveness property EventuallyIfIdle; the strongest priority REQUESTED so far is accumulated by the trace specification from the submissions themselves (StrongestRequested, StrongestWaits), unrecognised priority strings included; a focus instance explores two submissions against a loaded pipeline draining in every order; System.tla composes the real FSM with the real scheduler and judges the fire against ground truth; replays on the real FSM with the real poller functions running in gated threads and their deferred callback delivered as a separate event; update_trigger is wrapped to log the farm/scheduler state at the instant it is called; TLC validates each step and the quiescent end state', '5.C12'),
    'C13': ('DbLock', 'TLC exhaustive on DbLock.tla (3-4 clients; request / poll / release / disconnect by any client at every step) (and the holder reopening the database under the lock) with Mutex, ToldTruth, CrashFree, GrantNext and the liveness properties NoStarve / LockFreed under fairness; EVERY transition of the 3-client instance + simulated 4-client behaviours executed on real comms.Worker protocol objects with one virtual clock per connection and real pickled commands in 1/7-byte chunks, partly through the real blocking client functions; TLC validates lock bit, ownership flags and every status message decoded from the client transports', '5.C13'),
    'C14': ('Frame', 'TLC exhaustive on Frame.tla (labelled byte streams, transcribed reassembly loop and TwistedWrapper.process, all 32 handshake validity assignments, every chunking as a path); every chunking of short streams on the three real protocol classes and on the real blocking reader message.receive (socket with short reads at every segment boundary), simulated chunkings of handshake streams, two connections of one protocol class served interleaved, and real-length streams at every single / pair of split positions; what reached the application is recorded after every chunk and validated by TLC (prefix, reassembly, gate, fail-closed, coalesced delivery)', '5.C14'),
    'C16': ('Gate', 'TLC enumerates ~9.8k package descriptors (15 factory-kind subsets x 8 dependency shapes x 57 rule clauses at every applicable position, event layouts with falsy-but-defined moment fields) and checks the transcribed _walk/_verify traversal against Accept(d) = no violation; every descriptor (stratified sample in quick) is materialised on disk and judged by the real tools.compliant._verify (and the CLI for a sample); accepted packages must pass dag.Construct, schedule.build, organize, next_job_batch; TLC validates verdict = Accept(d) on the records', '5.C16'),
    'C19': ('FrontEnd', 'TLC enumerates 18k (quick) / 400k (thorough) request paths over a tree with two roots, outside files and in/out symlinks, checks the transcribed _static against the declarative jail, and 9.7k endpoint x method x certificate x hook situations read from the real routing table; each is executed on the real fe._static, StaticContent.render_GET, a real twisted Site, DynamicContent.render with recording handlers; TLC validates which marker bytes came back / whether the handler ran', '5.C19'),
    'C20': ('Moment', 'TLC checks the transcribed _delay against Occ(spec) (Computable, Lands, NotFurther) on 126 specifications x 4384 instants of a 3-year calendar (the domain of accepted specifications is taken from the real compliance rule_10 over 162 MOMENT shapes), and the firing model MomentFire (FireTargets, BootFires, BootOnce, Armed, Recurs); the real _delay under an injected clock for every/sampled (spec, instant) pair and the real defer/periodics/complete with the virtual reactor clock for every transition of the firing model are validated by TLC; the fires-once defect of defer/complete was repaired (commit 37363f0) after the repair had been model-checked as the rearm variant of MomentFire', '5.C20'),
    'C15': ('Version', 'TLC checks the transcribed comparison operators / newer() against the lexicographic order on all 729 version pairs, and the transcribed _diff/build against the declarative Scheduled(a) over engines x persisted version lists x bump choices at the three levels; the real operators on 8 real Version subclasses for every pair and the real version.current + schedule.build (+ db.versions() on a real shelve DB, a part of it in quick; engines with value-less state vectors) for every enumerated case are validated by TLC', '5.C15'),
    'C17': ('Search', 'TLC checks Denote(Scrub(e)) = Denote(e) on all 65,641 run-id expressions and the transcribed shelve find/facet against the declarative Match/FindOK/Pages/FacetOK over small databases (run ids shifted so that digit counts differ) x constraint combinations x pages; the real _scrub (3 input forms) and the real shelve search + fe.api wrappers on real shelve files are executed for the TLC-generated cases and validated by TLC', '5.C17'),
    'C06': ('Store', 'TLC exhaustive on Store.tla (catalogue tables, prime keys, blobs and a reference dictionary; updates, loads at exact/absent/future runs, removes, version bumps at three levels, target additions, close/reopen over prefix-related names) with LoadOK; every transition of the small instance + pseudo-random depth-25 histories executed on real shelve files through the in-memory client/server bridge (real Interface._update/_load, Connector, comms.Worker); TLC validates every load result against the reference dictionary; loaded objects are edited in place by the harness (the copy of the caller), some histories store 70 KiB values that differ only in the tail', '5.C06'),
    'C07': ('StoreCrash', 'TLC exhaustive on StoreCrash.tla (an update as six separately enabled steps, Crash enabled between any two, reopen, purge; 12 kill sites; MoveFails: the rename into the store fails and the process lives on; StagedLost: the staged file vanishes before the server handles it; a kill inside the transfer of the bytes) with NamedByDigest, NoDangling, NoveltyExact, SingleCopy, and the wrong design (record before move) required to fail; histories ending in every kill site are executed in forked child processes on real files (os._exit injected at the chosen step), the parent reopens the database from the files; TLC validates the directory listing with recomputed digests, the prime table and the reported novelty flags', '5.C07'),
    'C08': ('Store', 'same module as C06 with the clauses Bijective, Survives, Resolves, NextRun, ExactNames (remove / reset / trace over several tasks / the worm removal tool incl. run 0 touch exactly the entries with those exact names) on real shelve files, tables and indices logged after each operation and after reopen', '5.C08'),
    'C09': ('Dag', 'TLC runs the transcription of dag.Construct (every _parents iteration order) on the bounded program domain and checks every clause against the declarative graph; every program (incl. same-named producers in different packages and names that are prefixes of one another) is materialised as an engine, the real Construct runs on it twice (factory order reversed) and TLC validates the record with the same clauses', '5.C09'),
    'C18': ('Chronicle', 'TLC checks the transcribed day-walk of chronicle.find (and of the two front-end callers) against the declarative window on three calendars straddling year end, leap day and month ends, and AppendOnce on the journal files; the real append/find and fe.api.schedule.failed/succeeded run on real files under an injected clock for TLC-generated histories and queries; another reader of the history (fe.api.df_model_statistics) and in-place edits of returned entries between queries; TLC validates every answer; the first sentence (every completed unit recorded once) is also validated on scheduler histories through the real Hand._res -> schedule.complete -> chronicle.append path (clause C18.CompletedOnce of Sched_Trace.tla)', '5.C18'),
}

NOT_YET = {}


def main():
    checks = []
    for pid, (engine, text, ref) in sorted(CHECKS.items()):
        checks.append(
            {
                'property_id': pid,
                'quick_cmd': f'./check {pid} --tier quick',
                'thorough_cmd': f'./check {pid} --tier thorough',
                'evidence_file': f'/verif/evidence/{pid}.json',
                'replay_cmd_template': f'./check {pid} --replay {{path}}',
                'engine': engine,
                'level_claimed': {'category': 'model_checking', 'text': text, 'design_ref': ref},
                'level_note': 'bounded TLC model (constants in the evidence file); conformance by observation of the replayed/simulated schedules; environment stubs: virtual reactor, in-memory transports, stub database for targets/run ids, no gpg/graphviz; TLC 1.8 + CommunityModules trusted',
                'technique': 'explicit TLA+ specification checked by TLC + TLC validation of traces recorded from the real code on TLC-generated schedules',
            }
        )
    claimed = {c['property_id'] for c in checks}
    props = [json.loads(l)['id'] for l in open(os.path.join(ROOT, 'properties.jsonl'))]
    na = [{'property_id': p, 'reason': NOT_YET.get(p, 'check not built yet in this round (specification planned in DESIGN.md section 5); no claim is made')} for p in props if p not in claimed]
    man = {
        'version': 1,
        'setup_cmd': './setup.sh',
        'hooks': {
            'guard': 'DAWGIE_VERIF',
            'enable': 'no source hooks: the tracer wraps module-level functions from outside (DESIGN 2.2); checks run PYTHONPATH=/repo/Python /venv/bin/python',
            'baseline_off_cmd': 'cd /repo && PYTHONPATH=/repo/Python /venv/bin/python -m pytest -ra -q -p no:cacheprovider --timeout=900 --continue-on-collection-errors',
            'source_commits': [],
            'add_only': True,
        },
        'engines': [
            {'name': 'Sched', 'path': 'spec/Sched.tla', 'serves_properties': ['C01', 'C02', 'C03', 'C04', 'C05'], 'kind_free_text': 'TLA+ spec of scheduler+farm core; Sched_MC (exhaustive), Sched_Gen (transition/behaviour export), Sched_Trace (trace validation); harness/sched_h.py drives the real code'},
            {'name': 'Farm', 'path': 'spec/Farm.tla', 'serves_properties': ['C11'], 'kind_free_text': 'TLA+ spec of worker registration/placement/notification; Farm_Gen, Farm_Trace; harness/farm_h.py'},
            {'name': 'DbLock', 'path': 'spec/DbLock.tla', 'serves_properties': ['C13'], 'kind_free_text': 'TLA+ spec of the shelve database lock protocol (safety + liveness); DbLock_Gen, DbLock_Trace; harness/dblock_h.py over vlib/bridge.py'},
            {'name': 'Frame', 'path': 'spec/Frame.tla', 'serves_properties': ['C14'], 'kind_free_text': 'TLA+ spec of length-prefixed framing and the legacy handshake wrapper; Frame_MC, Frame_Gen, Frame_Cuts, Frame_Trace; harness/frame_h.py'},
            {'name': 'Gate', 'path': 'spec/Gate.tla', 'serves_properties': ['C16'], 'kind_free_text': 'TLA+ spec of the compliance gate as a decision procedure over package descriptors; harness/gate_h.py materialises packages on disk'},
            {'name': 'FrontEnd', 'path': 'spec/FrontEnd.tla', 'serves_properties': ['C19'], 'kind_free_text': 'TLA+ spec of the static file jail and the endpoint access table; harness/frontend_h.py'},
            {'name': 'Store', 'path': 'spec/Store.tla', 'serves_properties': ['C06', 'C08'], 'kind_free_text': 'TLA+ catalogue + blob store + reference dictionary; Store_MC, Store_Gen, Store_Sim, Store_Trace; harness/store_h.py on real shelve files via vlib/bridge.py'},
            {'name': 'StoreCrash', 'path': 'spec/StoreCrash.tla', 'serves_properties': ['C07'], 'kind_free_text': 'TLA+ six-step update with crash points; harness/storecrash_h.py kills forked children at the chosen step'},
            {'name': 'Dag', 'path': 'spec/Dag.tla', 'serves_properties': ['C09'], 'kind_free_text': 'TLA+ transcription of dag.Construct vs the declarative graph; Dag_MC, Dag_Gen, Dag_Sim, Dag_Trace; harness/dag_h.py'},
            {'name': 'Chronicle', 'path': 'spec/Chronicle.tla', 'serves_properties': ['C18'], 'kind_free_text': 'TLA+ execution-history journal and window query over a mini calendar; harness/chronicle_h.py on real files with injected clock'},
            {'name': 'Version', 'path': 'spec/Version.tla', 'serves_properties': ['C15'], 'kind_free_text': 'TLA+ version order + version-diff scheduling at (re)load; harness/version_h.py'},
            {'name': 'Search', 'path': 'spec/Search.tla', 'serves_properties': ['C17'], 'kind_free_text': 'TLA+ run-id expression normaliser + find/facet/paging reference and transcription; harness/search_h.py on real shelve files'},
            {'name': 'Moment', 'path': 'spec/Moment.tla', 'serves_properties': ['C20'], 'kind_free_text': 'TLA+ calendar + time-to-event (Moment) and timer firing (MomentFire); harness/moment_h.py'},
            {'name': 'System', 'path': 'spec/System.tla', 'serves_properties': ['C12'], 'kind_free_text': 'TLA+ composition of the life-cycle FSM with the scheduler/farm ground truth; System_Gen, System_Trace; harness/compose_h.py runs the real FSM on top of the real scheduler'},
            {'name': 'SchedData', 'path': 'spec/Sched_Data.tla', 'serves_properties': ['C02'], 'kind_free_text': 'TLA+ data plane on top of Sched (sources, stored values, executions, owed runs); Sched_Data_Gen, Sched_Data_Trace; harness/data_h.py (abstract worker), e2e_h.py (real worker.Context.run + real shelve), proto_h.py (real worker entry point over in-memory sockets)'},
            {'name': 'Lifecycle', 'path': 'spec/Lifecycle.tla', 'serves_properties': ['C10', 'C12'], 'kind_free_text': 'TLA+ spec of the pipeline FSM, submit crossroads and pollers (safety + liveness); Lifecycle_Gen, Lifecycle_Trace; harness/life_h.py (gated poller threads)'},
        ],
        'checks': checks,
        'not_applicable': na,
        'notes': 'fix: commits in /repo and known findings are listed in /verif/known_findings.json; DESIGN.md sections 6 and 10.2 / 10.3 (one open finding: C02-rebump-older-runid)',
    }
    with open(os.path.join(ROOT, 'MANIFEST.json'), 'wt') as f:
        json.dump(man, f, indent=1)
    try:
        import jsonschema

        jsonschema.validate(man, json.load(open('/root/.vp/MANIFEST.schema.json')))
        print('MANIFEST.json valid;', len(checks), 'checks,', len(na), 'not claimed')
    except ImportError:
        print('MANIFEST.json written (jsonschema not available)')


if __name__ == '__main__':
    main()
