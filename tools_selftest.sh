#!/bin/sh
# Binding demonstration: every seeded breaking change under /verif/seeded/<Cxx>_m<i>/ is applied in a scratch
# worktree of /repo (never in /repo) and the corresponding quick check must report a VIOLATION (exit 1) there.
# usage: tools_selftest.sh [<Cxx> ...]      (default: all)      exit 0 = every change detected
cd "$(dirname "$0")" || exit 2
fail=0
for d in seeded/*/; do
  name=$(basename "$d"); id=${name%%_*}
  if [ $# -gt 0 ]; then case " $* " in *" $id "*) ;; *) continue ;; esac; fi
  out=$(./tools_seed_eval.sh "/verif/seeded/$name" "$name" "$id" 2>&1 | tail -1)
  echo "$out"
  case "$out" in *"$id exit=1"*) ;; *) fail=1; echo "NOT DETECTED: $name" ;; esac
done
exit $fail
