'''Search harness (C17): runs the REAL run-id normaliser and the REAL shelve
search implementation on inputs chosen by TLC (spec/Search_Gen.tla) and writes
one ndjson trace per job for spec/Search_Trace.tla.

 kind "a"  a batch of run-id expressions.  For each expression the harness calls
           dawgie.db.basis.SearchFacade._scrub three times: on the rendered
           string ("1:3,2:5,7"), on an alternative rendering (", " separator,
           a start of 0 left out: ":3") and on the list form ([Range(1, 3), 7]).
 kind "b"  one database.  Real shelve files are created in a scratch directory
           (dawgie.db.shelve.state.DBI().open() -- no listenTCP), the tables are
           filled entry by entry with dawgie.db.shelve.util.append exactly as
           dawgie.db.shelve.update()/comms.Worker do, then every step calls
             Find   dawgie.db.search().find(Params, index, limit)      (list form)
                    dawgie.fe.api.database.search(...)                 (URL form)
             Pages  find(Params, (i-1)*L, L) for i = 1..n   (n from TLC)
             Facet  dawgie.db.search().facet(Params)  and  dawgie.fe.api.facet.*
           The trace header carries the database content (names) and the index
           tables as the code built them (for the drift comparison).

 kind "h"  one history in ONE process state (the search engine object, its
           class and every module-level slot live on between the steps): the
           start database is filled as in kind "b", then the steps run in order:
             Find / Pages / Facet   as above; a Find calls the engine, the front
                    end or both (args.via)
             Store  the entries args.xs are appended (util.append + prime key)
             Remove dawgie.db.shelve.remove(run, target, task, alg, sv, value)
             Reopen DBI().close(), a NEW directory, DBI().open(), filled with
                    args.xs -- another database in the same process
           Every step logs st = {db: the real prime table rendered to names,
           tabs: the index tables} as they are after the step.

Python only renders inputs and projects outputs to JSON; every verdict is TLC's.

VERIF_MUTANT=<name> (self-test only, never set by ./check): the source text of
one real function is rewritten IN MEMORY (see MUTANTS) before the jobs run.

usage: python -m harness.search_h <jobs.json> <out.ndjson>
'''

import inspect
import json
import os
import shutil
import sys
import textwrap

from vlib import boot

REACTOR, WORK = boot.boot()

import dawgie  # noqa: E402
import dawgie.context  # noqa: E402
import dawgie.db  # noqa: E402
import dawgie.db.basis as basis  # noqa: E402
import dawgie.db.shelve  # noqa: E402
import dawgie.db.shelve.search  # noqa: E402,F401
import dawgie.db.shelve.util as util  # noqa: E402
import dawgie.fe.api.database as fe_database  # noqa: E402
import dawgie.fe.api.facet as fe_facet  # noqa: E402
from dawgie.db.basis import Params, Range, SearchFacade  # noqa: E402
from dawgie.db.shelve.state import DBI  # noqa: E402

# (the package attribute dawgie.db.shelve.search is the function search(), not the module)
shsearch = sys.modules['dawgie.db.shelve.search']
OPEN = -1
DIMS = ['tg', 'tk', 'al', 'sv']
PARAM = {'tg': 'targets', 'tk': 'tasks', 'al': 'algs', 'sv': 'svs'}

# ------------------------------------------------------------------ mutants
# name -> (module, dotted attribute, [(old text, new text) alternatives])
MUTANTS = {
    'nosort': (shsearch, 'SearchImplementation._prime_keys', [('return sorted(results)', 'return sorted(results, reverse=True)')]),
    'nocollapse': (shsearch, 'SearchImplementation._prime_keys', [('results.add(pk[:keylen])', 'results.add(pk)')]),
    'prefix': (shsearch, '_subset', [('dissect(t[0])[1] == n', 'dissect(t[0])[1].startswith(n)')]),
    'total': (shsearch, 'SearchImplementation._find', [('total=len(pks)', 'total=len(items)')]),
    'slice': (
        shsearch,
        'SearchImplementation._find',
        [('pks[index:stop]', 'pks[index:limit]'), ('pks[index : index + limit]', 'pks[index:limit]'), ('pks[index:limit]', 'pks[index:limit]')],
    ),
    'facet_unsorted': (shsearch, 'SearchImplementation._facet', [('return sorted(', 'return (lambda x: sorted(x, reverse=True))(')]),
    'scrub_stop': (basis, 'SearchFacade._scrub', [('r.start <= i < (i + 1 if r.stop is None else r.stop)', 'r.start <= i <= (i + 1 if r.stop is None else r.stop)')]),
    'scrub_open': (basis, 'SearchFacade._scrub', [('elif r.stop is None or r.stop > merged[-1].stop', 'elif r.stop is not None and r.stop > merged[-1].stop')]),
}


def apply_mutant(name):
    mod, path, alts = MUTANTS[name]
    owner = mod
    parts = path.split('.')
    for p in parts[:-1]:
        owner = getattr(owner, p)
    raw = inspect.getattr_static(owner, parts[-1])
    fn = raw.__func__ if isinstance(raw, (staticmethod, classmethod)) else raw
    src = textwrap.dedent(inspect.getsource(fn))
    for old, new in alts:
        if old in src:
            src = src.replace(old, new)
            break
    else:
        raise RuntimeError(f'mutant {name}: text to replace not found in {path}')
    ns = {}
    exec(compile(src, f'<mutant {name}>', 'exec'), vars(mod), ns)  # pylint: disable=exec-used
    setattr(owner, parts[-1], ns[parts[-1]])


# ------------------------------------------------------------- (a) scrub
def render(e, alt=False):
    out = []
    for it in e:
        if it['k'] == 'i':
            out.append(str(it['a']))
        else:
            start = '' if alt and it['a'] == 0 else str(it['a'])
            stop = '' if it['b'] == OPEN else str(it['b'])
            out.append(f'{start}:{stop}')
    return (', ' if alt else ',').join(out)


def as_list(e):
    return [it['a'] if it['k'] == 'i' else Range(it['a'], None if it['b'] == OPEN else it['b']) for it in e]


def project_runids(runids):
    out = []
    for x in runids:
        if isinstance(x, Range):
            out.append({'k': 'r', 'a': int(x.start), 'b': OPEN if x.stop is None else int(x.stop)})
        elif isinstance(x, int) and not isinstance(x, bool):
            out.append({'k': 'i', 'a': int(x), 'b': 0})
        else:
            raise TypeError(f'unexpected item {x!r} in normalised run ids')
    return out


def err_of(ex):
    return f'{type(ex).__name__}: {ex}'[:200] or 'error'


def run_scrub(job):
    steps = []
    for e in job['exprs']:
        obs = {'err': '', 'str': [], 'alt': [], 'lst': []}
        try:
            obs['str'] = project_runids(SearchFacade._scrub(Params(runids=render(e))).runids)
            obs['alt'] = project_runids(SearchFacade._scrub(Params(runids=render(e, True))).runids)
            obs['lst'] = project_runids(SearchFacade._scrub(Params(runids=as_list(e))).runids)
        except Exception as ex:  # pylint: disable=broad-exception-caught
            obs['err'] = err_of(ex)
        steps.append({'ev': 'Scrub', 'args': {'e': e}, 'obs': obs})
    return {'tid': job['id'], 'kind': 'a', 'db': [], 'bump': False, 'tabs': {'tg': [], 'tk': [], 'al': [], 'sv': [], 'prime': []}, 'steps': steps}


# -------------------------------------------------------- (b) find / facet
V0 = util.LocalVersion('1.0.0')
V1 = util.LocalVersion('1.0.1')


def fill(db, bump, off=0):
    '''off: the stored run ids are the model's run + off (already applied by TLC)'''
    for x in db:
        ver = V1 if bump and x['run'] - off >= 3 else V0
        tabs, idx = DBI().tables, DBI().indices
        ti = util.append(x['t'], tabs.target, idx.target)[1]
        ki = util.append(x['k'], tabs.task, idx.task)[1]
        ai = util.append(x['a'], tabs.alg, idx.alg, ki, ver)[1]
        si = util.append(x['s'], tabs.state, idx.state, ai, ver)[1]
        vi = util.append(x['v'], tabs.value, idx.value, si, ver)[1]
        tabs.prime[str((x['run'], ti, ki, ai, si, vi))] = f'blob{len(tabs.prime)}'


def tables():
    idx = DBI().indices
    return {
        'tg': [util.dissect(n)[1] for n in idx.target],
        'tk': [util.dissect(n)[1] for n in idx.task],
        'al': [util.dissect(n)[1] for n in idx.alg],
        'sv': [util.dissect(n)[1] for n in idx.state],
        'prime': [list(k) for k in util.prime_keys(DBI().tables.prime)],
    }


def engine_params(q, facet=None):
    kw = {'runids': as_list(q['run']) if q['hasrun'] else None}
    for d in DIMS:
        kw[PARAM[d]] = sorted(q[d]) if q[d] else None
    if facet:
        kw[PARAM[facet]] = []
    return Params(**kw)


def url_params(q, skip=None):
    kw = {'runids': [render(q['run'])] if q['hasrun'] else None}
    for d in DIMS:
        if d != skip:
            kw[PARAM[d]] = [','.join(sorted(q[d]))] if q[d] else None
    return kw


def fe_content(raw):
    doc = json.loads(raw.decode())
    if doc.get('status') != 'success':
        raise RuntimeError(f'front end status {doc.get("status")}: {doc.get("message")}')
    return doc['content']


def do_find(args):
    q, index, limit = args['q'], args['index'], args['limit']
    via = args.setdefault('via', 'both')  # which entry points are called (recorded in the trace)
    obs = {'err': '', 'items': [], 'total': -1, 'fe_err': '', 'fe_items': [], 'fe_total': -1}
    if via in ('db', 'both'):
        try:
            res = dawgie.db.search().find(engine_params(q), index, limit if limit else None)
            obs['items'], obs['total'] = [str(s) for s in res.items], int(res.total)
        except Exception as ex:  # pylint: disable=broad-exception-caught
            obs['err'] = err_of(ex)
    if via in ('fe', 'both'):
        try:
            kw = url_params(q)
            kw['index'] = [str(index)]
            kw['limit'] = [str(limit)] if limit else None
            content = fe_content(fe_database.search(**kw))
            obs['fe_items'], obs['fe_total'] = [str(s) for s in content['items']], int(content['total'])
        except Exception as ex:  # pylint: disable=broad-exception-caught
            obs['fe_err'] = err_of(ex)
    return obs


def do_pages(args):
    q, lim, n = args['q'], args['L'], args['n']
    obs = {'err': '', 'pages': [], 'totals': []}
    try:
        params = engine_params(q)
        for i in range(n):
            res = dawgie.db.search().find(params, i * lim, lim)
            obs['pages'].append([str(s) for s in res.items])
            obs['totals'].append(int(res.total))
    except Exception as ex:  # pylint: disable=broad-exception-caught
        obs['err'] = err_of(ex)
    return obs


FE_FACET = {'tg': fe_facet.target, 'tk': fe_facet.task, 'al': fe_facet.alg, 'sv': fe_facet.sv}


def do_facet(args):
    q, d = args['q'], args['d']
    obs = {'err': '', 'names': [], 'fe_err': '', 'fe_names': []}
    try:
        obs['names'] = [str(s) for s in dawgie.db.search().facet(engine_params(q, facet=d))]
    except Exception as ex:  # pylint: disable=broad-exception-caught
        obs['err'] = err_of(ex)
    try:
        obs['fe_names'] = [str(s) for s in fe_content(FE_FACET[d](**url_params(q, skip=d)))]
    except Exception as ex:  # pylint: disable=broad-exception-caught
        obs['fe_err'] = err_of(ex)
    return obs


DO = {'Find': do_find, 'Pages': do_pages, 'Facet': do_facet}


def run_db(job):
    path = os.path.join(WORK, f'db{job["id"]}')
    shutil.rmtree(path, True)
    os.makedirs(path)
    dawgie.context.db_path = path
    DBI().open()
    try:
        db = list(reversed(job['db'])) if job['rev'] else list(job['db'])
        fill(db, job['bump'], job.get('off', 0))
        tabs = tables()
        steps = [{'ev': s['ev'], 'args': s['args'], 'obs': DO[s['ev']](s['args'])} for s in job['steps']]
    finally:
        DBI().close()
        shutil.rmtree(path, True)
    return {'tid': job['id'], 'kind': 'b', 'db': job['db'], 'bump': bool(job['bump']), 'tabs': tabs, 'steps': steps}


# ------------------------------------------------------------ (c) histories
def content():
    '''the real prime table, every key rendered to the names of the index tables'''
    idx = DBI().indices
    name = lambda table, i: util.dissect(table[i])[1]
    return [
        {'run': int(k[0]), 't': name(idx.target, k[1]), 'k': name(idx.task, k[2]), 'a': name(idx.alg, k[3]), 's': name(idx.state, k[4]), 'v': name(idx.value, k[5])}
        for k in util.prime_keys(DBI().tables.prime)
    ]


def run_hist(job):
    root = os.path.join(WORK, f'hist{job["id"]}')
    shutil.rmtree(root, True)
    gen = [0]
    off, bump = job.get('off', 0), job['bump']

    def fresh():
        path = os.path.join(root, f'g{gen[0]}')
        gen[0] += 1
        os.makedirs(path)
        dawgie.context.db_path = path
        DBI().open()

    def change(ev, xs):
        obs = {'err': ''}
        try:
            if ev == 'Store':
                fill(xs, bump, off)
            elif ev == 'Remove':
                for x in xs:
                    dawgie.db.shelve.remove(x['run'], x['t'], x['k'], x['a'], x['s'], x['v'])
            else:  # Reopen: close this database, open another one
                DBI().close()
                fresh()
                fill(xs, bump, off)
        except Exception as ex:  # pylint: disable=broad-exception-caught
            obs['err'] = err_of(ex)
        return obs

    fresh()
    try:
        fill(list(reversed(job['db'])) if job['rev'] else list(job['db']), bump, off)
        tabs = tables()
        steps = []
        for s in job['steps']:
            ev, args = s['ev'], s['args']
            obs = DO[ev](args) if ev in DO else change(ev, args['xs'])
            steps.append({'ev': ev, 'args': args, 'obs': obs, 'st': {'db': content(), 'tabs': tables()}})
    finally:
        DBI().close()
        shutil.rmtree(root, True)
    return {'tid': job['id'], 'kind': 'h', 'db': job['db'], 'bump': bool(bump), 'tabs': tabs, 'steps': steps}


def main():
    with open(sys.argv[1], 'rt', encoding='utf-8') as f:
        jobs = json.load(f)['jobs']
    import logging

    logging.disable(logging.CRITICAL)
    mutant = os.environ.get('VERIF_MUTANT', '')
    if mutant:
        apply_mutant(mutant)
    # environment sanity: the spec's NameOrder must be Python's order for these names
    for row in (['T', 'T1', 'T2'], ['k', 'k1', 'k2'], ['a', 'a1', 'a1b'], ['s1', 's1x', 's2']):
        assert sorted(row) == row
    with open(sys.argv[2], 'wt', encoding='utf-8') as out:
        for job in jobs:
            rec = {'a': run_scrub, 'b': run_db, 'h': run_hist}[job['kind']](job)
            out.write(json.dumps(rec) + '\n')


if __name__ == '__main__':
    main()
