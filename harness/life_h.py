'''Life-cycle harness (C10, C12): the REAL dawgie.pl.state.FSM in its real
(non-doctest) mode, the real submit Process steps (fe/submit.py), the real
reset command and the real farm.dispatch archive trigger.

Environment replaced (never the logic under test):
 * twisted.internet.threads.deferToThread -> background steps are held until
   the schedule says Complete<step>; the three poller functions run in REAL
   threads whose every time.sleep is a scheduling point (a gate), and whose
   deferred callback is delivered by a separate event (PollerDone)
 * bodies that touch the outside world: FSM._pipeline/_security/_gui/_logging,
   farm.plow, RollbackImporter, dawgie.db.*, git helpers of tools.submit

usage: python -m harness.life_h <jobs.json> <out.ndjson>
'''

import json
import os
import sys
import threading
import types

from vlib import boot

REACTOR, WORK = boot.boot()

import twisted.internet.defer  # noqa: E402
import twisted.internet.threads  # noqa: E402
import twisted.python.failure  # noqa: E402

import dawgie  # noqa: E402
import dawgie.context  # noqa: E402
import dawgie.db  # noqa: E402
import dawgie.fe.api  # noqa: E402
import dawgie.fe.api.submit  # noqa: E402
import dawgie.fe.submit  # noqa: E402
import dawgie.pl.dag  # noqa: E402
import dawgie.pl.farm as farm  # noqa: E402
import dawgie.pl.resources  # noqa: E402
import dawgie.pl.schedule as schedule  # noqa: E402
import dawgie.pl.state as state  # noqa: E402
import dawgie.tools.submit  # noqa: E402
from dawgie.pl.jobinfo import State as JState  # noqa: E402

_REAL_DISTRIBUTION = dawgie.pl.resources.distribution
_REAL_LAST_RUNID = dawgie.pl.resources.last_runid

TLS = threading.local()
KS = ('crew', 'doing', 'todo')
PRIO = {None: 'none'}
for _p in dawgie.tools.submit.Priority:
    PRIO[_p] = {'now': 'now', 'crew_idle': 'crew', 'doing_empty': 'doing', 'todo_empty': 'todo'}[_p.value]
PVAL = {'now': 'now', 'crew': 'crew_idle', 'doing': 'doing_empty', 'todo': 'todo_empty', 'junk': 'whenever'}


class Poller:
    def __init__(self, fn, kind):
        self.fn = fn
        self.kind = kind
        self.go = threading.Semaphore(0)
        self.parked = threading.Event()
        self.exited = False
        self.delivered = False
        self.d = twisted.internet.defer.Deferred()
        self.t = threading.Thread(target=self.run, daemon=True)
        self.t.start()
        self.parked.wait(5)

    def run(self):
        TLS.poller = self
        self.park()
        try:
            self.fn()
        finally:
            self.exited = True
            self.parked.set()

    def park(self):
        self.parked.set()
        self.go.acquire()

    def step(self):
        '''let the thread run until its next sleep or its exit'''
        if self.exited:
            return
        self.parked.clear()
        self.go.release()
        if not self.parked.wait(10):
            raise RuntimeError('poller thread did not reach a scheduling point')


def gated_sleep(_seconds):
    p = getattr(TLS, 'poller', None)
    if p is not None:
        p.park()


state.time = types.SimpleNamespace(sleep=gated_sleep)

# parsing state.dot with pyparsing costs ~0.3 s; the file does not change within a run
import copy  # noqa: E402
import pydot  # noqa: E402

_DOT_CACHE = {}
_orig_graph_from_dot_file = pydot.graph_from_dot_file


def _cached_graph_from_dot_file(path, *a, **k):
    if path not in _DOT_CACHE:
        _DOT_CACHE[path] = _orig_graph_from_dot_file(path, *a, **k)
    return copy.deepcopy(_DOT_CACHE[path])


pydot.graph_from_dot_file = _cached_graph_from_dot_file


class Request:
    def __init__(self):
        self.written = []
        self.finished = False

    def write(self, b):
        self.written.append(b)

    def finish(self):
        self.finished = True


class World:
    def __init__(self, variant=0):
        self.pending = []  # background steps: (name, fn, args, deferred)
        self.pollers = {}  # kind -> Poller (latest)
        self.all_pollers = []
        self.path = []
        self.fires = []
        self.rejected = False
        self.src = 'none'
        self.process = None
        twisted.internet.threads.deferToThread = self.defer_to_thread
        # environment stubs
        def _pipeline(_self, *_a, **_k):
            return None

        state.FSM._pipeline = _pipeline
        state.FSM._security = lambda _self: None
        state.FSM._gui = lambda _self: None
        state.FSM._logging = lambda _self: None
        farm.plow = lambda: None
        state.RollbackImporter = lambda: types.SimpleNamespace(reload=lambda: None)
        dawgie.db.reopen = lambda: False
        dawgie.db.close = lambda: None
        dawgie.db.open = lambda: None
        dawgie.db.archive = lambda cb: cb()
        if variant % 3 == 2:
            # the PostgreSQL back end's archive step: the REAL dawgie.db.post.archive / ArchiveHandler with the dump
            # process replaced by its ending -- clean, or (every other time) with a non-zero exit code
            import dawgie.db.post as post
            from twisted.internet import error as _tierr

            os.makedirs(os.path.join(WORK, 'rotate'), exist_ok=True)
            dawgie.context.db_rotate_path = os.path.join(WORK, 'rotate')
            dawgie.context.db_path = 'user:secret'
            bad = (variant // 3) % 2 == 1

            def spawn(handler, *_a, **_k):
                reason = _tierr.ProcessTerminated(exitCode=1) if bad else _tierr.ProcessDone(0)
                handler.processEnded(twisted.python.failure.Failure(reason))

            def archive(cb):
                orig = post.twisted.internet.reactor.spawnProcess if hasattr(post.twisted.internet.reactor, 'spawnProcess') else None
                post.twisted.internet.reactor.spawnProcess = spawn
                try:
                    return post.archive(cb)
                finally:
                    if orig is not None:
                        post.twisted.internet.reactor.spawnProcess = orig

            dawgie.db.archive = archive
        dawgie.db.metrics = lambda *a, **k: []
        dawgie.pl.resources.distribution = lambda m: {}
        dawgie.pl.resources.last_runid = lambda: 0
        self.metrics_kind = 'stub'
        if variant % 4 == 1:
            self.real_introspection(variant // 4)
        dawgie.context._rev = lambda: dawgie.context.git_rev
        dawgie.tools.submit.already_applied = lambda *a, **k: False
        dawgie.tools.submit.mail_out = lambda *a, **k: None
        farm.clear()
        farm.ARCHIVE = False
        farm._agency[0] = None
        schedule.que = []
        schedule.pipeline_paused = False
        schedule.promote.clear()
        self.fsm = state.FSM()
        dawgie.context.fsm = self.fsm
        for _s in state.FSM.states:
            self.fsm.machine.get_state(_s).add_callback('enter', (lambda name=_s: self.path.append(name)))
        orig = self.fsm.update_trigger

        def update_trigger(*a, **k):
            rec = {
                'src': self.src,
                'prio': PRIO[self.fsm.priority],
                'busy': bool(farm._busy),
                'doing': bool(schedule.view_doing()),
                'que': bool(schedule.que),
                'accepted': True,
            }
            if getattr(self, 'fire_extra', None) is not None:
                rec.update(self.fire_extra())
            try:
                return orig(*a, **k)
            except Exception:
                rec['accepted'] = False
                self.rejected = True
                raise
            finally:
                self.fires.append(rec)

        self.fsm.update_trigger = update_trigger
        self.node = dawgie.pl.dag.Node('env.node')
        self.node.set('todo', set())
        self.node.set('do', set())
        self.node.set('doing', set())
        self.node.set('status', JState.waiting)
        self.node.set('level', 0)
        self.node.set('ancestry', set())

    def on_state(self, *_a, **_k):
        self.path.append(self.fsm.state)

    # ---- deferToThread ---------------------------------------------------
    def defer_to_thread(self, fn, *args, **kwds):
        name = getattr(fn, '__name__', str(fn))
        if name in ('is_crew_done', 'is_doing_done', 'is_todo_done'):
            kind = name.split('_')[1]
            p = Poller(fn, kind)
            self.pollers[kind] = p
            self.all_pollers.append(p)
            return p.d
        d = twisted.internet.defer.Deferred()
        self.pending.append((name.strip('_'), fn, args, kwds, d))
        return d

    def real_introspection(self, kind):
        '''the introspection step (FSM._navel_gaze) with the REAL dawgie.pl.resources (regress / distribution / diary file) over a
        generated metric history: ordinary samples, samples reported as unknown (negative, kept as NaN), a mix, an
        algorithm with a single run, and a diary left behind by an earlier life of the process'''
        import shutil
        import warnings

        warnings.simplefilter('ignore')
        kinds = ['ordinary', 'unknown', 'mixed', 'single', 'diary']
        self.metrics_kind = kinds[kind % len(kinds)]
        per = os.path.join(WORK, f'per_{os.getpid()}')
        shutil.rmtree(per, True)
        os.makedirs(per)
        dawgie.context.data_per = per
        keys = ['task_system', 'task_user', 'task_input', 'task_output', 'db_memory', 'task_memory', 'db_pages', 'task_pages']

        class Val:
            def __init__(self, v):
                self.v = v

            def value(self):
                return self.v

        def sample(alg, rid, unknown):
            sv = {k: Val((-5 if k.startswith('db') else -1) if unknown else (3 * 2**20 + rid if 'memory' in k else 2 + rid)) for k in keys}
            return dawgie.db.MetricData(alg_name=alg, alg_ver=None, sv=sv, run_id=rid, target='T1', task='t0')

        k = self.metrics_kind
        hist = {
            'ordinary': [sample('a', 1, False), sample('a', 2, False), sample('b', 1, False)],
            'unknown': [sample('a', 1, True), sample('b', 1, False)],
            'mixed': [sample('a', 1, True), sample('a', 2, False), sample('a', 3, True)],
            'single': [sample('a', 1, False)],
            'diary': [sample('a', 2, True), sample('b', 2, False)],
        }[k]
        if k == 'diary':
            dawgie.pl.resources.regress([sample('a', 1, True)])  # an earlier life of the process wrote the diary
        dawgie.db.metrics = lambda after=-1, *a, **kw: [m for m in hist if m.run_id > after]
        dawgie.pl.resources.distribution = _REAL_DISTRIBUTION
        dawgie.pl.resources.last_runid = _REAL_LAST_RUNID

    def complete(self, name):
        for i, (n, fn, args, kwds, d) in enumerate(self.pending):
            if n == name:
                del self.pending[i]
                try:
                    r = fn(*args, **kwds)
                except Exception:  # pylint: disable=broad-except
                    self.rejected = True  # the step's own trigger was refused (swallowed by the deferred)
                    d.errback(twisted.python.failure.Failure())
                else:
                    d.callback(r)
                return True
        return False

    # ---- projection --------------------------------------------------------
    def slot(self, k):
        attr = getattr(self.fsm, k + '_thread')
        if attr is None:
            return 'none'
        p = self.pollers.get(k)
        if p is None or p.d is not attr:
            return 'stale'
        if not p.exited:
            return 'armed'
        return 'stale' if p.delivered else 'finished'

    def snapshot(self):
        f = self.fsm
        return {
            'st': f.state,
            'tr': f.transitioning.name,
            'prior': getattr(f, '_FSM__prior') or 'none',
            'bg': sorted({'pipeline': 'load', 'navel_gaze': 'navel', 'archive': 'archive', 'reload': 'reload'}[n] for n, *_ in self.pending),
            'arch': bool(farm.ARCHIVE),
            'prio': PRIO[f.priority],
            'wait': {'crew': f.waiting_on_crew(), 'doing': f.waiting_on_doing(), 'todo': f.waiting_on_todo()},
            'slot': {k: self.slot(k) for k in KS},
            'busy': bool(farm._busy),
            'doing': bool(schedule.view_doing()),
            'que': bool(schedule.que),
            'sub': 'gitting' if self.process is not None else 'idle',
            'active': bool(f.is_pipeline_active()),
        }

    # ---- environment bits ----------------------------------------------------
    def set_env(self, bit):
        if bit == 'busy':
            if farm._busy:
                farm._busy.clear()
            else:
                farm._busy.append('env.node[T]')
        elif bit == 'doing':
            if self.node.get('doing'):
                self.node.get('doing').clear()
                self.node.set('status', JState.waiting)
            else:
                self.node.get('doing').add('T')
                self.node.set('status', JState.running)
                self.que_bit = True  # a unit that is executing is in the work queue
            self.sync_que()
        elif bit == 'que':
            self.que_bit = not getattr(self, 'que_bit', False)
            self.sync_que()
        elif bit == 'arch':
            farm.ARCHIVE = True

    def sync_que(self):
        # schedule.que is non-empty iff the `que` bit is set; view_doing() needs the node in the queue,
        # so the `doing` bit implies a queued node as in the real scheduler
        want = getattr(self, 'que_bit', False) or bool(self.node.get('doing'))
        schedule.que = [self.node] if want else []

    def finish(self):
        for e in (self.fsm.wait_on_crew, self.fsm.wait_on_doing, self.fsm.wait_on_todo):
            e.set()
        farm._busy.clear()
        schedule.que = []
        for p in self.all_pollers:
            for _ in range(5):
                if p.exited:
                    break
                p.step()


def do_event(w, e, o):
    '''the subset of events the drain phase needs (same code paths as the main loop)'''
    ev = e['ev']
    if ev == 'Env':
        w.set_env(e['bit'])
    elif ev.startswith('Complete'):
        w.complete({'CompleteLoad': 'pipeline', 'CompleteNavel': 'navel_gaze', 'CompleteReload': 'reload', 'CompleteArchive': 'archive'}[ev])
    elif ev == 'SubmitEnd':
        w.src = 'now'
        proc, w.process = w.process, None
        proc.step_3(None)
    elif ev == 'PollerObserve':
        p = w.pollers[e['k']]
        p.step()
        o['exited'] = p.exited
    elif ev == 'PollerDone':
        p = w.pollers[e['k']]
        w.src = 'poller'
        p.delivered = True
        p.d.callback(None)
    elif ev == 'Boot':
        w.fsm.starting_trigger()


def drain(w, steps, obs):
    '''every background step completes, every poller runs to completion and the environment goes idle -- in the
    order that is hardest on the waiters: each armed poller looks (weakest condition first) at every level of the
    environment, and the environment relaxes one bit at a time, the weak conditions (nothing executing, queue
    empty) before the strong one (no busy worker)'''
    names = {'pipeline': 'CompleteLoad', 'navel_gaze': 'CompleteNavel', 'reload': 'CompleteReload', 'archive': 'CompleteArchive'}
    looked = set()
    for _ in range(90):
        st = w.snapshot()
        e = None
        level = (st['st'], st['tr'], st['busy'], st['doing'], st['que'], json.dumps(st['wait'], sort_keys=True))
        if st['st'] == 'starting':
            e = {'ev': 'Boot'}
        elif w.pending:
            e = {'ev': names[w.pending[0][0]]}
        elif w.process is not None:
            e = {'ev': 'SubmitEnd'}
        else:
            for k in reversed(KS):
                p = w.pollers.get(k)
                if p is not None and p.exited and not p.delivered:
                    e = {'ev': 'PollerDone', 'k': k}
                    break
            if e is None:
                for k in reversed(KS):
                    p = w.pollers.get(k)
                    if p is not None and not p.exited and w.slot(k) == 'armed' and (k, level) not in looked:
                        looked.add((k, level))
                        e = {'ev': 'PollerObserve', 'k': k}
                        break
            if e is None:
                if st['doing']:
                    e = {'ev': 'Env', 'bit': 'doing'}
                elif st['que']:
                    e = {'ev': 'Env', 'bit': 'que'}
                elif st['busy']:
                    e = {'ev': 'Env', 'bit': 'busy'}
        if e is None:
            break
        w.path = [w.fsm.state]
        w.fires = []
        w.rejected = False
        w.src = 'none'
        o = obs()
        try:
            do_event(w, e, o)
        except Exception as ex:  # pylint: disable=broad-except
            o['exc'] = type(ex).__name__
        o['path'] = list(w.path)
        o['fires'] = list(w.fires)
        o['rejected'] = bool(w.rejected or o['exc'] != '')
        o.setdefault('exited', False)
        args = {k: v for k, v in e.items() if k != 'ev'} or {'x': 0}
        steps.append({'ev': e['ev'], 'args': args, 'st': w.snapshot(), 'obs': o})
    o = obs()
    o['path'] = [w.fsm.state]
    o['exited'] = False
    steps.append({'ev': 'Quiesce', 'args': {'x': 0}, 'st': w.snapshot(), 'obs': o})


SRC_OF = {
    'starting_trigger': {'starting'},
    'contemplation_trigger': {'loading'},
    'running_trigger': {'contemplation', 'gitting', 'archiving'},
    'gitting_trigger': {'running'},
    'archiving_trigger': {'running', 'updating'},
    'update_trigger': {'running'},
    'loading_trigger': {'updating'},
    'updating_trigger': {'archiving'},
}
GUARDED = {'starting_trigger', 'archiving_trigger', 'loading_trigger'}


def not_allowed(name, st, tr):
    return st not in SRC_OF[name] or (name in GUARDED and tr != 'active')


def run_job(job):
    w = World(int(job['id']))
    steps = []

    def obs():
        return {'path': [], 'fires': [], 'rejected': False, 'refused': False, 'exc': ''}

    try:
        steps.append({'ev': 'Init', 'args': {'x': 0}, 'st': w.snapshot(), 'obs': obs()})
        skipped = 0
        for e in job['events']:
            ev = e['ev']
            w.path = [w.fsm.state]
            w.fires = []
            w.rejected = False
            w.src = 'none'
            o = obs()
            ok = True
            try:
                if ev == 'Boot':
                    w.fsm.starting_trigger()
                elif ev in ('CompleteLoad', 'CompleteNavel', 'CompleteReload', 'CompleteArchive'):
                    name = {'CompleteLoad': 'pipeline', 'CompleteNavel': 'navel_gaze', 'CompleteReload': 'reload', 'CompleteArchive': 'archive'}[ev]
                    ok = w.complete(name)
                elif ev == 'DispatchArchive':
                    farm.dispatch()
                elif ev == 'CmdReset':
                    w.src = 'reset'
                    r = dawgie.fe.api.cmd_reset(['true' if e['a'] else 'false'])
                    o['refused'] = b'failure' in r.lower() if isinstance(r, bytes) else 'failure' in str(r).lower()
                elif ev == 'SubmitBegin':
                    if w.process is not None:
                        ok = False
                    else:
                        req = Request()
                        # the legacy /app/submit flow and the /api one have their own Process classes: alternate
                        impl = dawgie.fe.api.submit if int(job['id']) % 2 else dawgie.fe.submit
                        proc = impl.Process('changeset-x', lambda: None, req, PVAL[e['p']])
                        r = proc.step_1(None)
                        if isinstance(r, twisted.python.failure.Failure):
                            o['refused'] = True
                            proc.failure(r)
                        else:
                            w.process = proc
                elif ev == 'SubmitEnd':
                    if w.process is None:
                        ok = False
                    else:
                        w.src = 'now'
                        proc, w.process = w.process, None
                        proc.step_3(None)
                elif ev == 'SubmitFail':
                    if w.process is None:
                        ok = False
                    else:
                        proc, w.process = w.process, None
                        proc.failure(None)
                elif ev == 'PollerObserve':
                    p = w.pollers.get(e['k'])
                    if p is None or p.exited:
                        ok = False
                    else:
                        p.step()
                        o['exited'] = p.exited
                elif ev == 'PollerDone':
                    p = w.pollers.get(e['k'])
                    if p is None or not p.exited or p.delivered:
                        ok = False
                    else:
                        w.src = 'poller'
                        p.delivered = True
                        p.d.callback(None)
                elif ev == 'Env':
                    w.set_env(e['bit'])
                elif ev == 'RawTrigger':
                    # out-of-turn triggers are inputs only where the DOCUMENTED machine forbids them in the
                    # real current state; otherwise the event is not applicable here and is skipped
                    if not_allowed(e['name'], w.fsm.state, w.fsm.transitioning.name):
                        w.src = 'raw'
                        getattr(w.fsm, e['name'])()
                    else:
                        ok = False
                elif ev == 'RawRun':
                    # running_trigger from another holder of the FSM while this state's own step is outstanding
                    names = [n for n, *_ in w.pending]
                    if (w.fsm.state == 'contemplation' and 'navel_gaze' in names) or (w.fsm.state == 'archiving' and 'archive' in names):
                        w.src = 'raw'
                        w.fsm.running_trigger()
                    else:
                        ok = False
                else:
                    raise ValueError(ev)
            except Exception as ex:  # pylint: disable=broad-except
                o['exc'] = type(ex).__name__
            if not ok:
                skipped += 1
                continue
            o['path'] = list(w.path)
            o['fires'] = list(w.fires)
            o['rejected'] = bool(w.rejected or o['exc'] != '')
            o.setdefault('exited', False)
            args = {k: v for k, v in e.items() if k != 'ev'} or {'x': 0}
            steps.append({'ev': ev, 'args': args, 'st': w.snapshot(), 'obs': o})
        if job.get('drain', True):
            drain(w, steps, obs)
        final = {'skipped': skipped}
    finally:
        w.finish()
    return {'tid': job['id'], 'steps': steps, 'final': final}


def main():
    with open(sys.argv[1], 'rt', encoding='utf-8') as f:
        jobs = json.load(f)['jobs']
    import logging

    logging.disable(logging.CRITICAL)
    with open(sys.argv[2], 'wt', encoding='utf-8') as out:
        for job in jobs:
            out.write(json.dumps(run_job(job)) + '\n')


if __name__ == '__main__':
    main()
