'''Worker-protocol harness: like harness/e2e_h.py, but every unit is executed by
the REAL worker entry point dawgie.pl.worker.cluster.execute() -- connect,
register, wait*, task, close, load context, reopen db, run, status poll,
response -- over in-memory sockets: the farm side of each connection is a real
farm.Hand, the database side a real comms.Worker (vlib/bridge.py).  When the
blocking client starves in recv() the harness lets the pipeline's reactor turn
(farm.dispatch()), which is what places the task.

An `ExecReply` input therefore means "a worker process arrives and serves
whatever the farm hands it"; the unit actually served is what is logged.

usage: python -m harness.proto_h <jobs.json> <out.ndjson>
'''

import json
import os
import sys
import types

from harness import e2e_h, sched_h
from harness.e2e_h import E2EWorld, obs0
from harness.sched_h import farm
from vlib import bridge

import dawgie.context
import dawgie.db
import dawgie.pl.worker
import dawgie.pl.worker.cluster as cluster
import dawgie.security
from dawgie.db.shelve.state import DBI

FARM = ('farmhost', 8081)


class Starved(Exception):
    pass


class FarmSocket:
    '''client end of a connection whose server end is a real farm.Hand'''

    def __init__(self, world):
        self.world = world
        self.wid = world.new_worker('')
        self.w = world.workers[self.wid]
        self.pos = 0
        self.spins = 0

    def sendall(self, b):
        tr = self.w['transport']
        if tr.closed or not self.w['connected']:
            return
        self.w['hand'].dataReceived(b)
        self.w['registered'] = any(h is self.w['hand'] for h in farm._workers)
        self.world.settle()

    def recv(self, n):
        tr = self.w['transport']
        while len(tr.raw) - self.pos <= 0:
            if tr.closed or not self.w['connected']:
                return b''
            self.spins += 1
            if self.spins > 6:
                raise Starved()
            # the blocking client waits; meanwhile the pipeline's reactor turns
            farm.dispatch()
            self.world.settle()
        out = tr.raw[self.pos : self.pos + n]
        self.pos += len(out)
        return out

    def close(self):
        self.world.ev_lost(self.wid)


class ProtoWorld(E2EWorld):
    def __init__(self, desc, targets, dbdir):
        super().__init__(desc, targets, dbdir)
        dawgie.context.farm_port = FARM[1]
        dawgie.pl.worker.LOGGING = types.SimpleNamespace(reassign=lambda host: None)
        self.dbconnect = bridge.connect

        def connect(address):
            if int(address[1]) == FARM[1]:
                return FarmSocket(self)
            return self.dbconnect(address)

        dawgie.security.connect = connect

    def ev_tick(self, auto_workers=0):
        # no stand-in workers: task messages wait in farm._cluster until a real worker process arrives
        super().ev_tick(0)

    def ev_exec(self, _a, _t):
        before = {u['msgid'] for u in self.inflight}
        nchron = len(self.chron)
        fsm = self.fsm
        try:
            cluster.execute(FARM, 1, 0, dawgie.context.git_rev)
            served = True
        except Starved:
            served = False
        except ValueError:
            served = False  # told to leave (abort) -- a verdict of the farm, not of this harness
        finally:
            dawgie.context.fsm = fsm  # the worker loaded the pipeline's pickled context into this very process
            if not DBI().is_open or DBI().is_reopened:
                DBI().close()
                DBI().open()
            for wid, w in self.workers.items():
                if w['connected'] and not w['registered']:
                    self.ev_lost(wid)
        new_units = [u for u in self.inflight if u['msgid'] not in before]
        if not served or not new_units:
            # a worker that was never handed anything leaves again
            for wid, w in list(self.workers.items()):
                if w['connected']:
                    self.ev_lost(wid)
            return False
        u = new_units[0]
        self.inflight.remove(u)
        if getattr(self, 'dirty', None) is not None:
            self.dirty.add((u['alg'], u['t']))
        if u['run'] > self.stored_max:
            self.stored_max = u['run']
        self.obs['served'] = [{'alg': u['alg'], 't': u['t'], 'run': u['run']}]
        self.obs['reply'] = [{'alg': u['alg'], 't': u['t'], 'run': u['run'], 'msgid': u['msgid'], 'stale': False, 'out': 'success'}]
        c = self.chron[nchron:]
        self.obs['new'] = sorted(self.last_new)
        return True

    def chron_append(self, entry):
        super().chron_append(entry)


def run_job(job, dbdir):
    import dawgie.db.util

    dawgie.db.util.subprocess = e2e_h._STUB_SUBPROCESS
    e2e_h.E2EWorld.save_twice = int(job['id']) % 2 == 1
    e2e_h.E2EWorld.new_style = (int(job['id']) // 2) % 2 == 1
    w = ProtoWorld(job['desc'], job['targets'], dbdir)
    # novelty flags as the pipeline received them: wrap schedule.update's input
    import dawgie.pl.schedule as schedule

    w.last_new = []
    orig_update = schedule.update

    def update(values, original, rid):
        w.last_new = ['.'.join(n.split('.')[-2:]) for n, isnew in values if isnew and '__metric__' not in n]
        return orig_update(values, original, rid)

    schedule.update = update
    steps = []
    skipped = 0
    try:
        w.obs = obs0()
        steps.append({'ev': 'Init', 'args': {'x': 0}, 'st': w.snapshot(), 'obs': obs0()})
        events = list(job['events'])
        i = 0
        idle_rounds = 0
        while True:
            if i >= len(events):
                before = json.dumps({k: v for k, v in w.snapshot().items() if k != 'stored'}, sort_keys=True, default=str)
                w.obs = obs0()
                w.ev_tick()
                st = w.snapshot()
                steps.append({'ev': 'Tick', 'args': {'x': 0}, 'st': st, 'obs': w.obs})
                if json.dumps({k: v for k, v in st.items() if k != 'stored'}, sort_keys=True, default=str) != before and len(steps) < 200:
                    continue
                if (st['cluster'] or w.inflight) and len(steps) < 200 and idle_rounds < 3:
                    events.append({'ev': 'ExecReply', 'alg': '', 't': ''})
                else:
                    break
            e = events[i]
            i += 1
            w.obs = obs0()
            w.last_new = []
            ok = True
            if e['ev'] == 'Bump':
                w.ev_bump(e['alg'], e['t'], sorted(e['N']))
            elif e['ev'] == 'Tick':
                w.ev_tick()
            elif e['ev'] == 'ExecReply':
                ok = w.ev_exec(e['alg'], e['t'])
                if ok:
                    e = dict(e, alg=w.obs['served'][0]['alg'], t=w.obs['served'][0]['t'])
                    idle_rounds = 0
                else:
                    idle_rounds += 1
            if not ok:
                skipped += 1
                continue
            args = {k: (sorted(v) if isinstance(v, list) else v) for k, v in e.items() if k != 'ev'} or {'x': 0}
            o = w.obs
            o.pop('served', None)
            steps.append({'ev': e['ev'], 'args': args, 'st': w.snapshot(), 'obs': o})
        steps.append({'ev': 'Quiesce', 'args': {'x': 0}, 'st': w.snapshot(), 'obs': obs0()})
    finally:
        schedule.update = orig_update
        dawgie.security.connect = w.dbconnect
        w.close()
        DBI().close()
    return {'tid': job['id'], 'prog': w.prog, 'targets': job['targets'], 'steps': steps, 'final': {'skipped': skipped}}


def main():
    with open(sys.argv[1], 'rt', encoding='utf-8') as f:
        jobs = json.load(f)['jobs']
    import logging

    logging.disable(logging.CRITICAL)
    dbdir = os.path.join(sched_h.WORK, 'proto')
    os.makedirs(dbdir, exist_ok=True)
    with open(sys.argv[2], 'wt', encoding='utf-8') as out:
        for job in jobs:
            out.write(json.dumps(run_job(job, dbdir)) + '\n')


if __name__ == '__main__':
    main()
