'''Compliance-gate harness (C16): materialises TLC's descriptors as real
algorithm-engine package trees ON DISK and runs the REAL gate on them.

For every job (= one descriptor chosen by TLC, spec/Gate.tla):
  write    the engine is generated from vlib.engine (conforming source text),
           then the ONE violation of the descriptor is injected by editing
           the generated text at the named position (value layout "shared":
           all values of the package are instances of one Value class and
           the violation is put on the instance); files go to
           <harness work dir>/ae/<base>/...  with a base package name unique to
           the descriptor (sys.modules never serves a stale package); the tree
           is removed after the job unless VERIF_GATE_KEEP=1
  verify   dawgie.tools.compliant._scan() and ._verify() in-process:
             v_scan = _verify(_scan(), ..)      the path of `verify`/submit
             v_list = _verify([<base>.t0], ..)  the path of `-t <task>`
           the rule functions are wrapped from outside to record which of
           them failed (returned False or raised)
  cli      (sample) `python -m dawgie.tools.compliant --ae-dir --ae-pkg` as a
           process, exit status recorded
  cli_env  (sample, job["env"] = {dec, at}) the same command in the environment
           of a pipeline: a DECOY copy of the same base package (descriptor
           dec: same layout, opposite compliance) is written to a second
           directory that is listed at the front / back of PYTHONPATH of the
           process; --ae-dir points at the submitted tree
  sched    for every package the gate accepted (and every conforming one):
           scan.for_factories -> version.current -> schedule.build (which is
           dag.Construct) -> schedule.periodics -> schedule.organize ->
           schedule.next_job_batch must complete without an exception

Nothing is decided here: the records go to TLC (spec/Gate_Trace.tla).

usage: python -m harness.gate_h <jobs.json> <out.ndjson>
 jobs.json = {"jobs": [ {"id": n, "d": {kinds, shape, vals, evs, viol, pos:{k,e}}, "cli": bool, "env": {"dec": {..}, "at": "front"|"back"} (optional)} ], }
 environment: VERIF_GATE_MUTANT=<name> applies an in-memory mutant of the real
 gate (self-test of the binding; never written to /repo)
'''

import io
import json
import logging
import os
import re
import shutil
import subprocess
import sys
import traceback
import contextlib

from vlib import boot, engine

REACTOR, WORK = boot.boot()

import dawgie  # noqa: E402
import dawgie.context  # noqa: E402
import dawgie.db  # noqa: E402
import dawgie.pl.dag  # noqa: E402
import dawgie.pl.scan  # noqa: E402
import dawgie.pl.schedule as schedule  # noqa: E402
import dawgie.pl.version  # noqa: E402
import dawgie.tools.compliant as compliant  # noqa: E402

ALGK = ('task', 'analysis', 'regress')
A1 = {'task': 'xt', 'analysis': 'xa', 'regress': 'xr'}
A2 = {'task': 'yt', 'analysis': 'ya', 'regress': 'yr'}
DEPM = {'task': 'previous', 'analysis': 'traits', 'regress': 'variables'}
PARAMS = {
    'task': ['prefix: str', 'ps_hint: int = 0', 'runid: int = -1', "target: str = '__none__'"],
    'analysis': ['prefix: str', 'ps_hint: int = 0', 'runid: int = -1'],
    'regress': ['prefix: str', 'ps_hint: int = 0', "target: str = '__none__'"],
}
BAD_DEFAULT = {'prefix': "prefix: str = 'p'", 'ps_hint': 'ps_hint: int = 1', 'runid': 'runid: int = 0', 'target': "target: str = 'T'"}
BAD_ANNOT = {'prefix': 'prefix: bytes', 'ps_hint': 'ps_hint: float = 0', 'runid': 'runid: float = -1', 'target': "target: bytes = '__none__'"}
WRONG_BASE = {'task': 'dawgie.Regression', 'analysis': 'dawgie.Algorithm', 'regress': 'dawgie.Analyzer'}
RIGHT_BASE = {'task': 'dawgie.Algorithm', 'analysis': 'dawgie.Analyzer', 'regress': 'dawgie.Regression'}
BOT_BASE = {'task': 'dawgie.Task', 'analysis': 'dawgie.Analysis', 'regress': 'dawgie.Regress'}

HELPERS = '''
class _PlainVersion:
    def _get_ver(self):
        return self._version_
    def _set_ver(self, ver):
        self._version_ = ver
    def design(self):
        return self._version_.design
    def implementation(self):
        return self._version_.impl
    def bugfix(self):
        return self._version_.bugfix

class _PlainBot:
    def __init__(self, *args):
        self.args = args
    def routines(self):
        return self.list()

class _PlainSV(_PlainVersion, dict):
    def __init__(self):
        dict.__init__(self)

class _PlainVal(_PlainVersion):
    def __init__(self, content=None, ver=(1, 0, 0)):
        self.content = content
        self._version_ = dawgie.VERSION(*ver)
    def features(self):
        return []

class _ValNoFeatures(dawgie.Value):
    def __init__(self, content=None, ver=(1, 0, 0)):
        dawgie.Value.__init__(self)
        self.content = content
        self._version_ = dawgie.VERSION(*ver)

class SV_ghost(dawgie.StateVector):
    def __init__(self):
        dawgie.StateVector.__init__(self)
        self._version_ = dawgie.VERSION(1, 0, 0)
        self['v'] = Val()
    def name(self):
        return 'zz'
    def view(self, caller, visitor):
        return
'''

GHOST_ALG = '''
class SV_ghost_s(dawgie.StateVector):
    def __init__(self):
        dawgie.StateVector.__init__(self)
        self._version_ = dawgie.VERSION(1, 0, 0)
        self['v'] = Val()
        self['w'] = Val()
    def name(self):
        return 's'
    def view(self, caller, visitor):
        return

class Alg_ghost(dawgie.Algorithm):
    def __init__(self):
        dawgie.Algorithm.__init__(self)
        self._version_ = dawgie.VERSION(1, 0, 0)
        self._svs = [SV_ghost_s()]
    def name(self):
        return 'ghost'
    def state_vectors(self):
        return self._svs
    def previous(self):
        return []
    def run(self, ds, ps):
        return None
'''


class InjectError(Exception):
    pass


# --------------------------------------------------------------------------
# descriptor -> engine descriptor (vlib.engine) -> source text


def by_kind(k):
    return {'task': 'alg', 'analysis': 'sv', 'regress': 'val'}[k]


def dep_gran(shape, k, a):
    if shape == 'root':
        return 'none'
    if shape == 'dep_alg':
        return 'alg' if k == 'task' else 'sv'
    if shape == 'dep_sv':
        return 'sv'
    if shape == 'dep_val':
        return 'val'
    if shape == 'intra':
        return by_kind(k)
    if shape == 'chain2':
        return 'none' if a == 'a1' else by_kind(k)
    return 'sv'


def fb_gran(shape):
    return {'fb_sv': 'sv', 'fb_val': 'val'}.get(shape, 'none')


def mkref(pkg, alg, gran):
    r = {'pkg': pkg, 'alg': alg, 'gran': gran}
    if gran in ('sv', 'val'):
        r['sv'] = 's'
    if gran == 'val':
        r['val'] = 'v'
    return r


def engine_desc(d, base):
    kinds = set(d['kinds'])
    shape = d['shape']
    algk = [k for k in ALGK if k in kinds]
    svs = lambda: [{'name': 's', 'ver': [1, 0, 0], 'vals': [{'name': 'v', 'ver': [1, 0, 0]}, {'name': 'w', 'ver': [1, 0, 0]}]}]  # noqa: E731
    if d.get('vals', 'own') == 'shared':  # second state vector (its values are typed by rewrite_shared below)
        one = svs
        svs = lambda: one() + [{'name': 's2', 'ver': [1, 0, 0], 'vals': [{'name': 'v', 'ver': [1, 0, 0]}]}]  # noqa: E731
    put_svs = svs
    algs = []
    need_up = shape != 'root' or (not algk and 'events' in kinds)
    need_down = shape in ('fb_sv', 'fb_val')
    evs = EV_LAYOUTS[d.get('evs', 'boot_dow')]
    for i, k in enumerate(algk):
        g = dep_gran(shape, k, 'a1')
        refs = []
        if g != 'none':
            if shape == 'intra' and k != 'task':
                refs.append(mkref('t0', A1['task'], g))
            else:
                refs.append(mkref('up', 'u', g))
        fb = [mkref('down', 'd', fb_gran(shape))] if need_down else []
        algs.append({'name': A1[k], 'kind': k, 'ver': [1, 0, 0], 'svs': svs(), 'refs': refs, 'feedback': fb, 'events': evs if ('events' in kinds and i == 0) else []})
        if shape == 'chain2':
            algs.append({'name': A2[k], 'kind': k, 'ver': [1, 0, 0], 'svs': svs(), 'refs': [mkref('t0', A1[k], dep_gran(shape, k, 'a2'))], 'feedback': []})
    put = {'name': 't0', 'algs': algs}
    svs = (lambda: put_svs()[:1])  # noqa: E731  the neighbours keep one state vector
    if 'events' in kinds and not algk:
        put['events_factory'] = True
    pkgs = [put]
    if need_up:
        pkgs.append({'name': 'up', 'algs': [{'name': 'u', 'kind': 'task', 'ver': [1, 0, 0], 'svs': svs(), 'refs': [], 'feedback': []}]})
    if need_down:
        pkgs.append({'name': 'down', 'algs': [{'name': 'd', 'kind': 'task', 'ver': [1, 0, 0], 'svs': svs(), 'refs': [mkref('t0', A1[k], 'alg') for k in algk], 'feedback': []}]})
    return {'base': base, 'pkgs': pkgs}


# --------------------------------------------------------------------------
# text edits


def sub1(text, old, new, what):
    n = text.count(old)
    if n != 1:
        raise InjectError(f'{what}: {old!r} occurs {n} times')
    return text.replace(old, new)


def class_span(text, cname):
    m = re.search(r'^class %s\b.*$' % re.escape(cname), text, re.M)
    if not m:
        raise InjectError(f'class {cname} not found')
    n = re.compile(r'^class ', re.M).search(text, m.end())
    return m.start(), (n.start() if n else len(text))


def in_class(text, cname, fn):
    a, b = class_span(text, cname)
    return text[:a] + fn(text[a:b]) + text[b:]


def method_span(block, meth):
    m = re.search(r'^    def %s\(.*$' % re.escape(meth), block, re.M)
    if not m:
        raise InjectError(f'method {meth} not found')
    n = re.compile(r'^    def ', re.M).search(block, m.end())
    return m.start(), (n.start() if n else len(block))


def in_method(text, cname, meth, fn):
    def f(block):
        a, b = method_span(block, meth)
        return block[:a] + fn(block[a:b]) + block[b:]

    return in_class(text, cname, f)


def add_helpers(text):
    if '_PlainVersion' in text:
        return text
    i = text.index('\nclass ')
    return text[:i] + '\n' + HELPERS + text[i:]


def ref_expr_edit(body, viol, base, kind):
    '''body: text of a method returning a one-element list of references'''
    m = re.search(r'^        return \[(.*)\]$', body, re.M)
    if not m or not m.group(1):
        raise InjectError('no reference in ' + body)
    ex = m.group(1)
    fm = re.search(r'factory=([\w.]+)', ex)
    im = re.search(r'([\w.]+\.bot\.Alg_\w+)\(\)', ex)
    fac, impl = fm.group(1), im.group(1)
    extra_imports = ''
    if viol == 'ref_base':
        new = re.sub(r'dawgie\.(ALG_REF|SV_REF|V_REF)\(', 'dict(', ex, count=1)
    elif viol == 'ref_factory_type':
        new = ex.replace('factory=' + fac, 'factory=' + repr(fac))
    elif viol == 'ref_impl_type':
        new = ex.replace('impl=i,', 'impl=type(i),') if 'impl=i,' in ex else ex.replace('impl=' + impl + '()', 'impl=' + impl)
    elif viol == 'ref_item_type':
        new = ex.replace("item=i.sv_as_dict()['s']", "item='s'")
    elif viol == 'ref_feat_type':
        new = ex.replace("feat='v'", 'feat=0')
    elif viol == 'ref_unres_alg':
        new = ex.replace(impl + '()', impl.rsplit('.', 1)[0] + '.Alg_ghost()')
    elif viol == 'ref_unres_sv':
        new = ex.replace("item=i.sv_as_dict()['s']", 'item=SV_ghost()')
    elif viol == 'ref_unres_val':
        new = ex.replace("feat='v'", "feat='nope'")
    elif viol == 'dep_algref':
        new = f'dawgie.ALG_REF(factory={fac}, impl={impl}())'
    elif viol == 'prev_mismatch':
        other = f'{base}.t0.task' if fac != f'{base}.t0.task' else f'{base}.up.task'
        if other.endswith('.up.task'):
            extra_imports = f'        import {base}.up\n'
        new = ex.replace('factory=' + fac, 'factory=' + other)
    else:
        raise InjectError(viol)
    if new == ex:
        raise InjectError(f'{viol}: no change in {ex}')
    body = body[: m.start()] + extra_imports + '        return [' + new + ']' + body[m.end() :]
    return body, impl


# the moments of the two conforming events per event layout (spec: EvLayouts); dow=0 is
# calendar.MONDAY: a defined value that happens to be falsy
EV_LAYOUTS = {
    'boot_dow': [{'boot': True}, {'dow': 1, 'time': [1, 2, 3]}],
    'dow0_dom': [{'dow': 0, 'time': [1, 2, 3]}, {'dom': 15, 'time': [1, 2, 3]}],
    'day_dow0': [{'day': [2031, 5, 6], 'time': [1, 2, 3]}, {'dow': 0, 'time': [1, 2, 3]}],
}
_T = 'datetime.time(1, 2, 3)'
_D = 'datetime.date(2031, 5, 6)'

MOMENTS = {
    'mom_two_bf_day': f'dawgie.MOMENT(False, {_D}, None, None, {_T})',
    'mom_two_bf_dom': f'dawgie.MOMENT(False, None, 15, None, {_T})',
    'mom_two_bf_dow': f'dawgie.MOMENT(False, None, None, 1, {_T})',
    'mom_two_dow0_dom': f'dawgie.MOMENT(None, None, 15, 0, {_T})',
    'mom_two_dow0_day': f'dawgie.MOMENT(None, {_D}, None, 0, {_T})',
    'mom_notime_dow0': 'dawgie.MOMENT(None, None, None, 0, None)',
    'mom_notime_dom': 'dawgie.MOMENT(None, None, 15, None, None)',
    'mom_notime_day': f'dawgie.MOMENT(None, {_D}, None, None, None)',
    'mom_two': 'dawgie.MOMENT(True, None, None, 1, datetime.time(1, 2, 3))',
    'mom_none': 'dawgie.MOMENT(None, None, None, None, datetime.time(1, 2, 3))',
    'mom_day_type': "dawgie.MOMENT(None, '2024-01-01', None, None, datetime.time(1, 2, 3))",
    'mom_dom_type': "dawgie.MOMENT(None, None, '3', None, datetime.time(1, 2, 3))",
    'mom_dow_type': "dawgie.MOMENT(None, None, None, '1', datetime.time(1, 2, 3))",
    'mom_notime': 'dawgie.MOMENT(None, None, None, 1, None)',
    'mom_time_type': "dawgie.MOMENT(None, None, None, 1, '01:02:03')",
}


def rewrite_shared(text):
    '''value layout "shared": every value of the package is an instance of the ONE class Val;
    the per-value subclasses disappear'''
    names = re.findall(r'^class (Val_\w+)\(Val\):$', text, re.M)
    if not names:
        raise InjectError('no value classes to share')
    for n in names:
        a, b = class_span(text, n)
        text = text[:a] + text[b:]
        text = text.replace(n + '()', 'Val()')
    if re.search(r'\bVal_\w+', text):
        raise InjectError('value subclass left after sharing')
    return text


def materialise(d, base):
    '''returns {relative path: text} with the violation of d injected'''
    desc = engine_desc(d, base)
    srcs = engine.sources(desc)
    ini = f'{base}/t0/__init__.py'
    bot = f'{base}/t0/bot.py'
    kinds = set(d['kinds'])
    algk = [k for k in ALGK if k in kinds]
    # events of a package that offers only events refer to the upstream algorithm
    if 'events' in kinds and not algk:
        srcs[ini] = sub1(
            srcs[ini],
            f'    import {base}.t0.bot\n    return [\n    ]',
            f'    import {base}.up.bot\n    return [\n'
            + ''.join(f'        dawgie.schedule({base}.up.task, {base}.up.bot.Alg_u(), {engine._moment_expr(e)}),\n' for e in EV_LAYOUTS[d.get('evs', 'boot_dow')])
            + '    ]',
            'events-only',
        )
    shared = d.get('vals', 'own') == 'shared'
    if shared:
        srcs[bot] = rewrite_shared(srcs[bot])
    viol = d['viol']
    if viol == 'none' or viol == 'no_factory':
        return desc, srcs
    k, e = d['pos']['k'], d['pos']['e']
    parts = e.split('.')
    an = (A1 if parts[0] == 'a1' else A2).get(k) if parts[0] in ('a1', 'a2') else None
    t_ini, t_bot = srcs[ini], srcs[bot]
    svn = parts[1] if len(parts) > 2 else 's'

    # ---- factory level (rule_01)
    if viol == 'fac_arity':
        if k == 'events':
            t_ini = sub1(t_ini, 'def events():', 'def events(extra: int = 0):', viol)
        else:
            line = f'def {k}(' + ', '.join(PARAMS[k]) + '):'
            t_ini = sub1(t_ini, line, line[:-2] + ', extra: int = 0):', viol)
    elif viol == 'fac_notroutine':
        t_ini = t_ini + f'\n{k} = [{k}]\n'
    elif viol in ('fac_default', 'fac_annot'):
        i = int(e[1]) - 1
        ps = list(PARAMS[k])
        pname = ps[i].split(':')[0]
        ps[i] = (BAD_DEFAULT if viol == 'fac_default' else BAD_ANNOT)[pname]
        t_ini = sub1(t_ini, f'def {k}(' + ', '.join(PARAMS[k]) + '):', f'def {k}(' + ', '.join(ps) + '):', viol)
    # ---- bot level
    elif viol == 'bot_base':
        t_bot = add_helpers(t_bot)
        t_bot = sub1(t_bot, f'class Bot_{k}({BOT_BASE[k]}):', f'class Bot_{k}(_PlainBot):', viol)
    elif viol == 'bot_nolist':
        t_bot = in_class(t_bot, f'Bot_{k}', lambda b: sub1(b, 'def list(self):', 'def list_(self):', viol))
    elif viol == 'bot_empty':
        t_bot = in_class(t_bot, f'Bot_{k}', lambda b: re.sub(r'return \[.*\]', 'return []', b))
    # ---- algorithm level
    elif viol == 'alg_base':
        t_bot = in_class(t_bot, f'Alg_{an}', lambda b: b.replace(RIGHT_BASE[k], WRONG_BASE[k]))
    elif viol == 'alg_noname':
        t_bot = in_class(t_bot, f'Alg_{an}', lambda b: sub1(b, 'def name(self):', 'def name_(self):', viol))
    elif viol == 'alg_name_type':
        t_bot = in_class(t_bot, f'Alg_{an}', lambda b: sub1(b, f'return {an!r}', 'return 7', viol))
    elif viol == 'alg_dot':
        t_bot = in_class(t_bot, f'Alg_{an}', lambda b: sub1(b, f'return {an!r}', f'return {an[0] + "." + an[1]!r}', viol))
    elif viol == 'alg_nodep':
        t_bot = in_class(t_bot, f'Alg_{an}', lambda b: sub1(b, f'def {DEPM[k]}(self):', f'def {DEPM[k]}_(self):', viol))
    elif viol == 'alg_dep_type':
        t_bot = in_method(t_bot, f'Alg_{an}', DEPM[k], lambda b: re.sub(r'^        return \[(.*)\]$', r'        return tuple([\1])', b, flags=re.M))
    elif viol == 'alg_nosvs':
        t_bot = in_class(t_bot, f'Alg_{an}', lambda b: sub1(b, 'def state_vectors(self):', 'def state_vectors_(self):', viol))
    elif viol == 'alg_svs_type':
        t_bot = in_class(t_bot, f'Alg_{an}', lambda b: sub1(b, 'return self._svs', 'return tuple(self._svs)', viol))
    elif viol == 'alg_ver':
        t_bot = in_class(t_bot, f'Alg_{an}', lambda b: sub1(b, 'self._version_ = dawgie.VERSION(*(1, 0, 0))', 'self._version_ = (1, 0, 0)', viol))
    elif viol == 'alg_zero_svs':
        t_bot = in_class(t_bot, f'Alg_{an}', lambda b: sub1(b, f'self._svs = [SV_{an}_s()]', 'self._svs = []', viol))
    elif viol == 'alg_norun':
        t_bot = in_class(t_bot, f'Alg_{an}', lambda b: sub1(b, '    def run(self', '    def run_(self', viol))
    # ---- state vector level
    elif viol == 'sv_base':
        t_bot = add_helpers(t_bot)
        t_bot = in_class(t_bot, f'SV_{an}_s', lambda b: b.replace('dawgie.StateVector', '_PlainSV'))
    elif viol == 'sv_ver':
        t_bot = in_class(t_bot, f'SV_{an}_s', lambda b: sub1(b, 'self._version_ = dawgie.VERSION(*(1, 0, 0))', 'self._version_ = (1, 0, 0)', viol))
    elif viol == 'sv_noname':
        t_bot = in_class(t_bot, f'SV_{an}_s', lambda b: sub1(b, 'def name(self):', 'def name_(self):', viol))
    elif viol == 'sv_noview':
        t_bot = in_class(t_bot, f'SV_{an}_s', lambda b: sub1(b, 'def view(self', 'def view_(self', viol))
    elif viol == 'sv_dot':
        t_bot = in_class(t_bot, f'SV_{an}_s', lambda b: sub1(b, "return 's'", "return 's.x'", viol))
    elif viol == 'sv_empty':
        t_bot = in_class(t_bot, f'SV_{an}_s', lambda b: re.sub(r"^        self\['\w+'\] = .*\n", '', b, flags=re.M))
    # ---- value level, one shared class: the violation is a property of the INSTANCE
    elif shared and viol in ('val_unpicklable', 'val_ver'):
        vn = parts[2]
        extra = 'fn = lambda: None' if viol == 'val_unpicklable' else '_version_ = (1, 0, 0)'
        line = f"        self[{vn!r}] = Val()\n"
        t_bot = in_class(t_bot, f'SV_{an}_{svn}', lambda b: sub1(b, line, line + f"        self[{vn!r}].{extra}\n", viol))
    # ---- value level
    elif viol == 'val_base':
        vn = parts[2]
        t_bot = add_helpers(t_bot)
        t_bot = in_class(t_bot, f'Val_{an}_{svn}_{vn}', lambda b: b.replace('(Val)', '(_PlainVal)').replace('Val.__init__', '_PlainVal.__init__'))
    elif viol == 'val_nofeatures':
        vn = parts[2]
        t_bot = add_helpers(t_bot)
        t_bot = in_class(t_bot, f'Val_{an}_{svn}_{vn}', lambda b: b.replace('(Val)', '(_ValNoFeatures)').replace('Val.__init__', '_ValNoFeatures.__init__'))
    elif viol == 'val_ver':
        vn = parts[2]
        t_bot = in_class(t_bot, f'Val_{an}_{svn}_{vn}', lambda b: b.rstrip('\n') + '\n        self._version_ = (1, 0, 0)\n\n')
    elif viol == 'val_unpicklable':
        vn = parts[2]
        t_bot = in_class(t_bot, f'Val_{an}_{svn}_{vn}', lambda b: b.rstrip('\n') + '\n        self.fn = lambda: None\n\n')
    elif viol == 'val_nodefault':
        vn = parts[2]
        t_bot = in_class(t_bot, f'Val_{an}_{svn}_{vn}', lambda b: sub1(b, 'def __init__(self, content=None):', 'def __init__(self, content):', viol))
        t_bot = in_class(t_bot, f'SV_{an}_{svn}', lambda b: sub1(b, f'Val_{an}_{svn}_{vn}()', f'Val_{an}_{svn}_{vn}(None)', viol))
    elif viol == 'val_dot':
        vn = parts[2]
        t_bot = in_class(t_bot, f'SV_{an}_{svn}', lambda b: sub1(b, f"self[{vn!r}]", f"self[{vn + '.x'!r}]", viol))
    # ---- reference level
    elif VCLASS.get(viol) == 'ref':
        meth = DEPM[k] if parts[1] == 'dep' else 'feedback'
        box = {}

        def f(body):
            nb, impl = ref_expr_edit(body, viol, base, k)
            box['impl'] = impl
            return nb

        t_bot = in_method(t_bot, f'Alg_{an}', meth, f)
        if viol == 'ref_unres_sv':
            t_bot = add_helpers(t_bot)
        if viol == 'ref_unres_alg':
            # the ghost algorithm lives in the package the reference points to but is not listed by its bot
            tpkg = box['impl'].split('.')[1]
            tb = f'{base}/{tpkg}/bot.py'
            if tpkg == 't0':
                t_bot = t_bot + GHOST_ALG
            else:
                srcs[tb] = srcs[tb] + GHOST_ALG
    # ---- events
    elif VCLASS.get(viol) == 'event':
        lines = t_ini.split('\n')
        idx = [i for i, ln in enumerate(lines) if ln.startswith('        dawgie.schedule(')]
        i = idx[int(e[1]) - 1]
        m = re.match(r'        dawgie\.schedule\(([\w.]+), ([\w.]+\(\)), (.*)\),$', lines[i])
        if not m:
            raise InjectError('event line ' + lines[i])
        ref = f'dawgie.ALG_REF({m.group(1)}, {m.group(2)})'
        if viol == 'event_base':
            lines[i] = f'        ({ref}, dawgie.MOMENT(True, None, None, None, None)),'
        else:
            lines[i] = f'        dawgie.EVENT({ref}, {MOMENTS[viol]}),'
        t_ini = '\n'.join(lines)
    else:
        raise InjectError('unknown violation ' + viol)
    if t_ini == srcs[ini] and t_bot == srcs[bot] and viol != 'ref_unres_alg':
        raise InjectError(f'{viol} at {k}/{e}: nothing changed')
    srcs[ini], srcs[bot] = t_ini, t_bot
    return desc, srcs


VCLASS = {}
for _v in ('ref_base', 'ref_factory_type', 'ref_impl_type', 'ref_item_type', 'ref_feat_type', 'ref_unres_alg', 'ref_unres_sv', 'ref_unres_val', 'dep_algref', 'prev_mismatch'):
    VCLASS[_v] = 'ref'
for _v in ('event_base',) + tuple(MOMENTS):
    VCLASS[_v] = 'event'


def write_tree(srcs, root):
    for rel, text in srcs.items():
        fn = os.path.join(root, rel)
        os.makedirs(os.path.dirname(fn), exist_ok=True)
        with open(fn, 'wt', encoding='utf-8') as f:
            f.write(text)


# --------------------------------------------------------------------------
# the real gate, observed from outside

FIRED = []


def wrap_rules():
    for name in list(compliant._get_rules()):
        orig = getattr(compliant, name)

        def w(task, _orig=orig, _name=name):
            ok = False
            try:
                ok = _orig(task)
                return ok
            finally:
                if not ok:
                    FIRED.append(_name)

        w.__doc__ = orig.__doc__
        w.__wrapped__ = orig
        setattr(compliant, name, w)


def apply_mutant(name):
    '''in-memory mutants of the real gate for the self-test of the binding'''
    if not name:
        return
    if name.startswith('rule_'):  # the rule's clauses removed
        setattr(compliant, name, lambda task: True)
    elif name == 'walk_skips_values':  # _walk no longer hands values to the callbacks
        orig = compliant._walk

        def walk(task, **kw):
            kw['ifv'] = compliant._t
            return orig(task, **kw)

        compliant._walk = walk
    elif name == 'verify_ignores_exceptions':  # an exception in a rule no longer counts as failure
        orig_get = compliant._get_rules

        def shield(rn):
            o = getattr(compliant, rn)

            def f(task):
                try:
                    return o(task)
                except Exception:  # noqa: BLE001
                    return True

            return f

        for rn in list(orig_get()):
            setattr(compliant, rn, shield(rn))
    else:
        raise SystemExit('unknown mutant ' + name)


def quiet(fn, *a):
    buf = io.StringIO()
    with contextlib.redirect_stdout(buf):
        return fn(*a)


def gate(base, aedir, put):
    dawgie.context.ae_base_path = aedir
    dawgie.context.ae_base_package = base
    dawgie.pl.scan.reset(base)
    obs = {'scan': [], 'v_scan': False, 'v_list': False, 'fired': [], 'err': ''}
    try:
        tasks = quiet(compliant._scan)
        obs['scan'] = list(tasks)
        obs['v_scan'] = bool(quiet(compliant._verify, tasks, True, False)) if tasks else False
    except BaseException as ex:  # noqa: BLE001  the gate crashing is a rejection by the process exit status
        obs['err'] = 'scan: ' + repr(ex)[:200]
    del FIRED[:]
    obs['v_list'] = bool(quiet(compliant._verify, [put], True, False))
    obs['fired'] = sorted(set(FIRED))
    return obs


def cli(base, aedir, put, explicit, decoy_root=None, at='-'):
    env = dict(os.environ)
    if decoy_root:  # the environment already offers a copy of the base package
        pp = [p for p in env.get('PYTHONPATH', '').split(os.pathsep) if p]
        pp = [decoy_root] + pp if at == 'front' else pp + [decoy_root]
        env['PYTHONPATH'] = os.pathsep.join(pp)
    cmd = [sys.executable, '-m', 'dawgie.tools.compliant', f'--ae-dir={aedir}', f'--ae-pkg={base}', '--verbose']
    if explicit:
        cmd += ['-t', put]
    p = subprocess.run(cmd, env=env, stdout=subprocess.PIPE, stderr=subprocess.STDOUT, timeout=300, check=False, cwd=WORK)
    out = p.stdout.decode('utf-8', 'replace')
    return p.returncode, out


def sched(base, aedir):
    '''turn the accepted engine into a task graph and schedule it'''
    res = {'ok': False, 'err': '', 'nodes': 0, 'jobs': 0}
    try:
        dawgie.db.targets = lambda: ['T1', 'T2']
        schedule.que = []
        schedule.per = []
        schedule.booted.clear()
        schedule.pipeline_paused = False
        facs = quiet(dawgie.pl.scan.for_factories, aedir, base)
        latest = dawgie.pl.version.current(facs[dawgie.Factories.analysis] + facs[dawgie.Factories.regress] + facs[dawgie.Factories.task])
        prev = (None, {k: ['0.0.1'] for k in latest[0]}, {k: [v] for k, v in latest[1].items()}, {k: [v] for k, v in latest[2].items()})
        schedule.build(facs, latest, prev)  # dag.Construct + version diff + organize
        assert isinstance(schedule.ae, dawgie.pl.dag.Construct)
        schedule.periodics(facs[dawgie.Factories.events])
        names = schedule.tasks()
        schedule.organize(sorted(names), targets={'T1'}, event='gate harness')
        jobs = schedule.next_job_batch()
        res.update(ok=True, nodes=len(names), jobs=len(jobs))
    except BaseException as ex:  # noqa: BLE001
        res['err'] = (repr(ex) + ' @ ' + traceback.format_exc().strip().splitlines()[-3].strip())[:300]
    finally:
        for c in list(REACTOR.getDelayedCalls()):
            c.cancel()
    return res


def norm(d):
    d.setdefault('vals', 'own')
    d.setdefault('evs', 'boot_dow')
    return d


def run_job(job, root):
    d = norm(job['d'])
    base = f'g{job["id"]}'
    put = base + '.t0'
    aedir = os.path.join(root, base)
    desc, srcs = materialise(d, base)
    write_tree(srcs, root)
    blank = {'scan': [], 'v_scan': False, 'v_list': False, 'fired': [], 'err': '', 'cli_run': False, 'cli_rc': 0, 'sched_run': False, 'sched_ok': False, 'nodes': 0, 'jobs': 0, 'files': 0}
    steps = [{'ev': 'write', 'obs': dict(blank, files=len(srcs))}]
    g = gate(base, aedir, put)
    o = dict(blank, **g)
    steps.append({'ev': 'verify', 'obs': o})
    if job.get('cli'):
        rc, out = cli(base, aedir, put, explicit=not d['kinds'])
        o2 = dict(o, cli_run=True, cli_rc=rc, err=('' if 'returning' in out else out[-200:]))
        steps.append({'ev': 'cli', 'obs': o2})
    envj = job.get('env')
    if envj:
        # the decoy: same base package name, other directory; importable through PYTHONPATH of the command only
        droot = os.path.join(WORK, 'decoy', base)
        _desc, dsrcs = materialise(norm(envj['dec']), base)
        write_tree(dsrcs, droot)
        rc, out = cli(base, aedir, put, explicit=False, decoy_root=droot, at=envj['at'])
        steps.append({'ev': 'cli_env', 'obs': dict(o, cli_run=True, cli_rc=rc, err=('' if 'returning' in out else out[-200:]))})
        if not os.environ.get('VERIF_GATE_KEEP'):
            shutil.rmtree(droot, True)
    if g['v_list'] or d['viol'] == 'none':
        s = sched(base, aedir)
        steps.append({'ev': 'sched', 'obs': dict(o, sched_run=True, sched_ok=s['ok'], err=s['err'], nodes=s['nodes'], jobs=s['jobs'])})
    engine.unload(base)
    dawgie.pl.scan.reset(base)
    if not os.environ.get('VERIF_GATE_KEEP'):
        shutil.rmtree(aedir, True)  # tens of thousands of files otherwise; VERIF_GATE_KEEP=1 keeps the trees
    # no nulls for TLC: without an environment case the decoy is a placeholder (the descriptor itself) and at = "-"
    return {'tid': job['id'], 'put': put, 'd': d, 'dec': (envj['dec'] if envj else d), 'at': (envj['at'] if envj else '-'), 'steps': steps}


def main(argv):
    inp, outp = argv[1], argv[2]
    with open(inp) as f:
        jobs = json.load(f)['jobs']
    logging.disable(logging.CRITICAL)  # the rules log every finding; the verdict is the return value
    import warnings

    warnings.simplefilter('ignore')
    wrap_rules()
    apply_mutant(os.environ.get('VERIF_GATE_MUTANT', ''))
    root = os.path.join(WORK, 'ae')
    os.makedirs(root, exist_ok=True)
    sys.path.insert(0, root)
    with open(outp, 'wt') as out:
        for job in jobs:
            rec = run_job(job, root)
            out.write(json.dumps(rec, sort_keys=True) + '\n')
    return 0


if __name__ == '__main__':
    sys.exit(main(sys.argv))
