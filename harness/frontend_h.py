'''Front-end harness (C19): drives the REAL dawgie.fe._static,
dawgie.fe.StaticContent.render_GET, dawgie.fe.basis.DynamicContent.render and
the whole routing tree (dawgie.fe.root() behind a twisted.web.server.Site fed
with raw request bytes over an in-memory transport) on cases chosen by TLC
(spec/FrontEnd_Gen.tla) and records one trace line per case.

usage: python -m harness.frontend_h <jobs.json> <out.ndjson>
 jobs.json = {"jobs": [ {"id": n, "kind": "routes"} |
                        {"id": n, "kind": "static", "tree": <FrontEnd_Gen!Tree>, "cases": [...]} |
                        {"id": n, "kind": "access", "cases": [...]} ]}

Environment, never logic, is replaced:
 * static: the file tree of the specification is built for real (unique marker
   bytes in every file, real symbolic links) four empty directories below the
   scratch directory; dawgie.context.fe_path / site_path point into it.  What
   is logged is *which files' markers occur in the bytes that came back*.
 * access: every registered endpoint handler is replaced by a recording stub
   (the handlers need a database, a scheduler ...); dawgie.security._certs
   holds a real self-signed certificate or nothing; the transport offers
   getPeerCertificate or not; dawgie.context.sanction_override names the
   built-in hook, a hook that raises, something that cannot be resolved, or a
   site hook that returns the Python value TLC chose for the situation
   (case["ans"]: True, 1, "yes" / False, None, 0, "", [] -- a hook is any
   callable, nothing makes it answer with a bool).

VERIF_C19_MUTANT=<name> applies an in-memory mutant of the code under test
(selftest of the binding; nothing is written to the repository).
'''

import hashlib
import json
import logging
import os
import sys
import types

from vlib import boot

REACTOR, WORK = boot.boot()

import pathlib  # noqa: E402

import dawgie.context  # noqa: E402
import dawgie.fe  # noqa: E402
import dawgie.fe.basis  # noqa: E402
import dawgie.security  # noqa: E402
import twisted.internet.ssl  # noqa: E402
from twisted.internet.testing import StringTransport  # noqa: E402
from twisted.web.server import Site  # noqa: E402

DEFAULT_HOOK = dawgie.context.sanction_override  # what the code ships with
NOT_FOUND = b'Error: could not find static files'


# ------------------------------------------------------------------ mutants
def apply_mutant(name):
    '''clause-level mutants of the real code, in memory only'''
    if not name:
        return
    if name == 'jail_string_prefix':  # containment by string prefix instead of by component

        def is_relative_to(self, other, *a):
            return str(self).startswith(str(other))

        pathlib.PurePath.is_relative_to = is_relative_to
    elif name == 'jail_off':  # containment test always passes
        pathlib.PurePath.is_relative_to = lambda self, other, *a: True
    elif name == 'serve_nothing':  # nothing is ever a file: breaks normal serving
        pathlib.Path.is_file = lambda self, **k: False
    elif name == 'allow_run':  # a command on the allow-list of anonymous callers
        orig = dawgie.security.is_sanctioned
        dawgie.security.is_sanctioned = lambda endpoint, cert: True if endpoint == '/api/cmd/run' else orig(endpoint, cert)
    elif name == 'fail_open':  # an error inside the hook grants access

        def sanctioned(endpoint, cert):
            try:
                return dawgie.security._lookup(dawgie.context.sanction_override)(endpoint, cert)
            except:  # noqa: E722
                return True

        dawgie.security.sanctioned = sanctioned
    elif name == 'no_is_only_false':  # the value of the hook is forwarded as "granted unless literally False"
        orig_s = dawgie.security.sanctioned
        dawgie.security.sanctioned = lambda endpoint, cert: orig_s(endpoint, cert) is not False
    else:
        raise ValueError('unknown mutant ' + name)


# -------------------------------------------------------------- environment
class Request:
    '''the attributes of twisted.web.server.Request that the front end reads'''

    def __init__(self, method, uri, transport=None):
        self.method = method.encode()
        self.uri = uri.encode()
        self.path = uri.split('?', 1)[0].encode()
        self.args = {}
        self.transport = transport
        self.code = 200
        self.headers = {}
        self.prepath = []
        self.postpath = []

    def setHeader(self, k, v):  # noqa: N802
        self.headers[k] = v

    def setResponseCode(self, code, message=None):  # noqa: N802
        self.code = code


class PlainTcp(StringTransport):
    pass


class TlsAnon(StringTransport):
    def getPeerCertificate(self):  # noqa: N802
        return None


class TlsCert(StringTransport):
    cert = None

    def getPeerCertificate(self):  # noqa: N802
        return TlsCert.cert


TRANSPORTS = {'tcp': PlainTcp, 'tls_anon': TlsAnon, 'tls_cert': TlsCert}


def http(site, method, target, transport_cls=PlainTcp):
    '''one HTTP/1.0 exchange with the real Site; returns (status, raw response bytes)'''
    ch = site.buildProtocol(None)
    tr = transport_cls()
    ch.makeConnection(tr)
    ch.dataReceived(f'{method} {target} HTTP/1.0\r\nHost: fe\r\nContent-Length: 0\r\n\r\n'.encode())
    raw = tr.value()
    try:
        ch.connectionLost(None)
    except Exception:  # pylint: disable=broad-exception-caught
        pass
    try:
        status = int(raw.split(b' ', 2)[1])
    except (IndexError, ValueError):
        status = 0
    return status, raw


# ------------------------------------------------------------------- static
class StaticWorld:
    def __init__(self, tree):
        self.base = pathlib.Path(WORK).resolve() / 'w1' / 'w2' / 'w3' / 'w4'
        self.markers = {}
        for d in sorted(tree['dirs'], key=len):
            self.p(d).mkdir(parents=True, exist_ok=True)
        for f in tree['files']:
            m = ('<<VERIF-MARK-' + hashlib.sha1(('/'.join(f) + str(os.getpid())).encode()).hexdigest() + '>>').encode()
            self.markers[m] = f
            self.p(f).write_bytes(b'head\n' + m + b'\ntail\n')
        for src, dst in tree['links']:
            os.symlink(str(self.p(dst)), str(self.p(src)))
        roots = tree['roots']
        dawgie.context.fe_path = str(self.p(roots[0]))
        dawgie.context.site_path = str(self.p(roots[1]))
        self.root = dawgie.fe.root()  # the real routing tree with the static pages attached
        self.pages = self.root.static_pages
        self.bdir, self.isdep = dawgie.fe.resolve_site()
        assert not self.isdep and str(self.bdir) == dawgie.context.site_path, (self.bdir, self.isdep)
        self.site = Site(self.root)

    def p(self, path):
        return self.base.joinpath(*path)

    def classify(self, body):
        if not isinstance(body, (bytes, bytearray)):
            return {'kind': 'other', 'found': []}
        found = sorted(p for m, p in self.markers.items() if m in body)
        kind = 'file' if found else ('none' if NOT_FOUND in body else 'other')
        return {'kind': kind, 'found': found}

    def call(self, fn):
        try:
            return self.classify(fn())
        except Exception as ex:  # pylint: disable=broad-exception-caught
            return {'kind': 'raised:' + type(ex).__name__, 'found': []}

    def run_case(self, case):
        uri = case['uri']
        obs = {
            'static': self.call(lambda: dawgie.fe._static(uri, self.bdir, self.isdep)),
            'render': self.call(lambda: self.pages.render_GET(Request('GET', uri))),
            'http': self.call(lambda: http(self.site, 'GET', uri)[1]) if uri.startswith('/') else {'kind': 'skip', 'found': []},
        }
        return {'ev': 'Static', 'args': case, 'st': {'clients': 0}, 'obs': obs}


# ------------------------------------------------------------------- access
def endpoints(point=None, pre=()):
    '''the DynamicContent leaves of the real routing tree, keyed by their path'''
    point = dawgie.fe.basis._root if point is None else point
    out = {}
    for name, child in sorted(point.children.items()):
        path = pre + (name.decode(),)
        if isinstance(child, dawgie.fe.basis.DynamicContent):
            out[path] = child
        elif hasattr(child, 'children'):
            out.update(endpoints(child, path))
    return out


def routes():
    table = {'endpoints': [], 'GET': [], 'POST': [], 'PUT': [], 'DEL': [], 'uris': []}
    for path, dc in endpoints().items():
        table['endpoints'].append(list(path))
        table['uris'].append(getattr(dc, '_DynamicContent__uri'))
        for m in getattr(dc, '_DynamicContent__methods'):
            table[m.name].append(list(path))
    return table


def self_signed_pem():
    '''a real client certificate (what dawgie.security keeps in _certs)'''
    import datetime

    from cryptography import x509
    from cryptography.hazmat.primitives import hashes, serialization
    from cryptography.hazmat.primitives.asymmetric import ec
    from cryptography.x509.oid import NameOID

    key = ec.generate_private_key(ec.SECP256R1())
    name = x509.Name([x509.NameAttribute(NameOID.COMMON_NAME, 'verif client')])
    t0 = datetime.datetime(2026, 1, 1)
    cert = (
        x509.CertificateBuilder()
        .subject_name(name)
        .issuer_name(name)
        .public_key(key.public_key())
        .serial_number(4242)
        .not_valid_before(t0)
        .not_valid_after(t0 + datetime.timedelta(days=3650))
        .sign(key, hashes.SHA256())
    )
    return cert.public_bytes(serialization.Encoding.PEM)


class AccessWorld:
    HOOKS = {
        'default': DEFAULT_HOOK,
        'raises': 'verif_c19_hooks.raises',
        'nomodule': 'verif_c19_no_such_module.hook',
        'noattr': 'dawgie.security.verif_c19_no_such_hook',
        'empty': '',
    }
    # what a site hook may hand back (FrontEnd!Truthy / FrontEnd!Falsy); fresh objects per call
    ANSWERS = {
        'True': lambda: True,
        'one': lambda: 1,
        'str': lambda: 'yes',
        'False': lambda: False,
        'None': lambda: None,
        'zero': lambda: 0,
        'estr': lambda: '',
        'elist': lambda: [],
    }

    def __init__(self):
        self.calls = []
        self.eps = endpoints()
        for path, dc in self.eps.items():
            setattr(dc, '_DynamicContent__fnc', self.stub(getattr(dc, '_DynamicContent__fnc'), '/'.join(path)))
        mod = types.ModuleType('verif_c19_hooks')

        def raises(endpoint, cert):
            raise RuntimeError('access hook failed')

        self.answer = 'n/a'  # what the site hook has to say in the case at hand (chosen by TLC)
        self.answers = []  # what it did say, per consultation

        def site(endpoint, cert):
            value = self.ANSWERS[self.answer]()
            self.answers.append(self.answer)
            return value

        mod.raises = raises
        mod.site = site
        sys.modules['verif_c19_hooks'] = mod
        self.client = twisted.internet.ssl.Certificate.loadPEM(self_signed_pem())
        TlsCert.cert = self.client.original  # what a TLS transport returns: the X509 object
        self.site = Site(dawgie.fe.root())

    def stub(self, orig, name):
        calls = self.calls
        if isinstance(orig, dawgie.fe.basis.DeferContainer):

            class Stub(dawgie.fe.basis.DeferContainer):
                def __call__(self):
                    calls.append(name)
                    return b'{"stub": "' + name.encode() + b'"}'

            return Stub()

        def handler():
            calls.append(name)
            return b'{"stub": "' + name.encode() + b'"}'

        return handler

    def run_case(self, case):
        dawgie.security._certs[:] = [self.client] if case['certs'] else []
        if case['hook'].startswith('site_'):
            dawgie.context.sanction_override = 'verif_c19_hooks.site'
            self.answer = case['ans']
        else:
            dawgie.context.sanction_override = self.HOOKS[case['hook']]
            self.answer = 'n/a'
        tcls = TRANSPORTS[case['tr']]
        path = tuple(case['e'])
        target = '/' + '/'.join(path)
        obs = {}
        del self.calls[:]
        del self.answers[:]
        req = Request(case['m'], target, tcls())
        try:
            self.eps[path].render(req)
        except Exception:  # pylint: disable=broad-exception-caught
            req.code = -1
        obs['render'] = {'ran': bool(self.calls), 'code': req.code, 'who': sorted(set(self.calls)), 'answers': sorted(set(self.answers))}
        del self.calls[:]
        del self.answers[:]
        status, _raw = http(self.site, case['m'], target, tcls)
        obs['http'] = {'ran': bool(self.calls), 'code': status, 'who': sorted(set(self.calls)), 'answers': sorted(set(self.answers))}
        st = {'clients': len(dawgie.security.clients())}
        assert (st['clients'] > 0) == case['certs']
        return {'ev': 'Access', 'args': case, 'st': st, 'obs': obs}


# --------------------------------------------------------------------- main
def main():
    with open(sys.argv[1], 'rt', encoding='utf-8') as f:
        jobs = json.load(f)['jobs']
    logging.disable(logging.CRITICAL)
    apply_mutant(os.environ.get('VERIF_C19_MUTANT', ''))
    static = access = None
    with open(sys.argv[2], 'wt', encoding='utf-8') as out:
        for job in jobs:
            if job['kind'] == 'routes':
                out.write(json.dumps({'tid': job['id'], 'kind': 'routes', 'routes': routes(), 'default_hook': DEFAULT_HOOK}) + '\n')
                continue
            if job['kind'] == 'static':
                static = static or StaticWorld(job['tree'])
                steps = [static.run_case(c) for c in job['cases']]
            else:
                access = access or AccessWorld()
                steps = [access.run_case(c) for c in job['cases']]
            out.write(json.dumps({'tid': job['id'], 'kind': job['kind'], 'steps': steps}) + '\n')


if __name__ == '__main__':
    main()
