'''Farm harness (C11): the real pl/farm.py Hand protocol objects, dispatch,
notify_all, clear and the real scheduler on the fixed program of spec/Farm.tla
(a -> b, a -> r(regress)), driven by TLC-generated event sequences.

Worker connections are numbered in the order of the Register/Poll events
(model id); everything written to a connection is decoded from its fake
transport and logged with that id.

usage: python -m harness.farm_h <jobs.json> <out.ndjson>
'''

import json
import os
import subprocess
import sys
import types

from harness import sched_h
from harness.sched_h import ALL, World, farm, message, new_obs, schedule
from vlib import engine

import dawgie.context
import dawgie.db

os.environ.pop('DAWGIE_DOCKERIZED_AE_GIT_REVISION', None)

DESC = engine.simple([('a', 'task', []), ('b', 'task', ['a']), ('r', 'regress', ['a'])])
ALGS = ['t0.a', 't1.b', 't2.r']


class Checkout:
    '''a real scratch git repository (the engine checkout) with one commit per model revision; the harness moves it
    (detached HEAD) and reads HEAD back from the repository itself (ground truth) -- the pipeline learns the revision only
    through the real code (dawgie.context._rev at start-up, FSM._reload at an update)'''

    def __init__(self, root, names):
        self.root = root
        self.env = dict(os.environ, GIT_AUTHOR_NAME='v', GIT_AUTHOR_EMAIL='v@v', GIT_COMMITTER_NAME='v', GIT_COMMITTER_EMAIL='v@v', GIT_CONFIG_NOSYSTEM='1', HOME=root)
        os.makedirs(os.path.join(root, 'ae'))
        self.git('init', '-q')
        self.sha, self.name = {}, {}
        for n in names:
            with open(os.path.join(root, 'ae', '__init__.py'), 'wt', encoding='utf-8') as f:
                f.write(f'# software revision {n}\n')
            self.git('add', '-A')
            self.git('commit', '-q', '-m', n)
            self.sha[n] = self.git('rev-parse', 'HEAD')
            self.name[self.sha[n]] = n
        self.git('checkout', '-q', '--detach', self.sha[names[0]])
        self.head = self.read_head()
        self.boot_rev = ''

    def git(self, *args):
        return subprocess.check_output(['git', '-C', self.root] + list(args), env=self.env, stderr=subprocess.STDOUT).decode().strip()

    def read_head(self):
        # spawning a process is very expensive here: HEAD of a detached checkout is the commit id in .git/HEAD
        with open(os.path.join(self.root, '.git', 'HEAD'), 'rt', encoding='utf-8') as f:
            return self.name[f.read().strip()]

    def move(self, n):
        '''detached checkout of the commit of revision n: working tree and HEAD (what `git checkout --detach` leaves
        behind, written directly -- no process is spawned)'''
        if self.head != n:
            with open(os.path.join(self.root, 'ae', '__init__.py'), 'wt', encoding='utf-8') as f:
                f.write(f'# software revision {n}\n')
            with open(os.path.join(self.root, '.git', 'HEAD'), 'wt', encoding='utf-8') as f:
                f.write(self.sha[n] + '\n')
            self.head = self.read_head()


CO = [None]


def checkout():
    if CO[0] is None:
        CO[0] = Checkout(os.path.join(sched_h.WORK, 'checkout'), ['rev0', 'rev1'])
    return CO[0]


def real_reload():
    '''pl/state.py FSM._reload on a bare object: db.close(); context.git_rev = context._rev(); time_machine.reload()'''
    fsm = types.SimpleNamespace(_FSM__doctest=False, time_machine=types.SimpleNamespace(reload=lambda: None))
    import dawgie.pl.state  # pylint: disable=import-outside-toplevel

    orig = dawgie.db.close
    dawgie.db.close = lambda: None
    try:
        dawgie.pl.state.FSM._reload(fsm)
    finally:
        dawgie.db.close = orig


class FarmFsm(sched_h.Fsm):
    def __init__(self):
        super().__init__()
        self.phase = 'running'

    def archiving_trigger(self):
        # the real FSM leaves `running` here: the pipeline is no longer active
        self.archived += 1
        self.phase = 'archiving'
        self.active = False


class FarmWorld(World):
    def __init__(self, targets):
        super().__init__(DESC, targets)
        self.fsm = FarmFsm()
        dawgie.context.fsm = self.fsm
        self.mids = {}  # harness wid -> model id
        self.mseq = 0
        self.tried = set()
        # pipeline start-up on the engine checkout at its first commit: what dawgie.context.override() does
        self.co = checkout()
        self.co.move('rev0')
        self.ae_base_path = dawgie.context.ae_base_path
        dawgie.context.ae_base_path = os.path.join(self.co.root, 'ae')
        if not self.co.boot_rev:
            # once per harness process (a process spawn each): every job starts like this one
            self.co.boot_rev = dawgie.context._rev()
        dawgie.context.git_rev = self.co.boot_rev

    def close(self):
        super().close()
        dawgie.context.ae_base_path = self.ae_base_path
        dawgie.context.git_rev = 'rev0'

    def sha(self, rev):
        return self.co.sha[rev]

    def mid(self, wid):
        return self.mids.get(wid, 0)

    def model_worker(self, rev):
        wid = self.new_worker(rev)
        self.mseq += 1
        self.mids[wid] = self.mseq
        return wid

    def wid_of(self, mid):
        for wid, m in self.mids.items():
            if m == mid:
                return wid
        return None

    def snapshot(self):
        st = super().snapshot()
        idle = []
        for h in farm._workers:
            for wid, w in self.workers.items():
                if w['hand'] is h:
                    idle.append(self.mid(wid))
        st['idle_ids'] = idle
        st['phase'] = self.fsm.phase
        st['rev'] = self.co.name.get(dawgie.context.git_rev, str(dawgie.context.git_rev))  # what the farm compares with
        st['head'] = self.co.head  # where the checkout really is
        for u in st['inflight']:
            u['w'] = self.mid(u['w'])
        return st


def run_job(job):
    w = FarmWorld(job['targets'])
    steps = []
    try:
        steps.append({'ev': 'Init', 'args': {'x': 0}, 'st': w.snapshot(), 'obs': new_obs()})
        skipped = 0
        for e in job['events']:
            w.obs = new_obs()
            ev = e['ev']
            ok = True
            if ev == 'Connect':
                wid = w.model_worker(None)
                w.obs['wid'] = w.mid(wid)
            elif ev == 'Register':
                wid = w.wid_of(e['w'])
                ok = wid is not None and w.workers[wid]['connected'] and not w.workers[wid]['registered'] and wid not in w.tried
                if ok:
                    w.tried.add(wid)
                    w.ev_register(w.sha(e['rev']), wid)
                    w.obs['wid'] = w.mid(wid)
            elif ev == 'Poll':
                wid = w.model_worker(w.sha(e['rev']))
                w.feed(wid, message.make(typ=message.Type.status, rev=w.sha(e['rev'])))
                w.settle()
                w.obs['wid'] = w.mid(wid)
            elif ev == 'Lost':
                wid = w.wid_of(e['w'])
                ok = wid is not None and w.workers[wid]['connected']
                if ok:
                    w.ev_lost(wid)
            elif ev == 'Run':
                w.ev_run(e['S'], e['T'])
            elif ev == 'Tick':
                w.ev_tick(0)
            elif ev == 'Reply':
                a = engine.alg_of(DESC, e['alg'])
                new = [f'{sv["name"]}.{v["name"]}' for sv in a['svs'] for v in sv['vals']] if e['new'] else []
                ok = w.ev_reply(e['alg'], e['t'], e['out'], new, False)
            elif ev == 'Update':
                w.fsm.active = False
                w.fsm.phase = 'updating'
            elif ev == 'RevChange':
                # the update: gitting moves the engine checkout, then the REAL reload re-reads the revision from it
                w.co.move(e['rev'])
                real_reload()
            elif ev == 'Load':
                w.fsm.phase = 'loading'
                w.ev_reload([])
            elif ev == 'Resume':
                if w.fsm.phase == 'archiving':
                    farm.ARCHIVE = False
                w.fsm.phase = 'running'
                w.fsm.active = True
            elif ev == 'Notify':
                w.ev_notify()
            else:
                raise ValueError(ev)
            if not ok:
                skipped += 1
                continue
            for m in w.obs['written']:
                m['w'] = w.mid(m['w'])
            for m in w.obs['told']:
                m['w'] = w.mid(m['w'])
            args = {k: v for k, v in e.items() if k != 'ev'} or {'x': 0}
            steps.append({'ev': ev, 'args': args, 'st': w.snapshot(), 'obs': w.obs})
        final = {'skipped': skipped}
    finally:
        w.close()
    return {'tid': job['id'], 'targets': job['targets'], 'steps': steps, 'final': final}


def main():
    with open(sys.argv[1], 'rt', encoding='utf-8') as f:
        jobs = json.load(f)['jobs']
    import logging

    logging.disable(logging.CRITICAL)
    with open(sys.argv[2], 'wt', encoding='utf-8') as out:
        for job in jobs:
            out.write(json.dumps(run_job(job)) + '\n')


if __name__ == '__main__':
    main()
