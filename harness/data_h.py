'''Data-plane harness (C02 end state): the REAL scheduler / farm / dag decide
what runs and when; an abstract worker computes every output value as a pure
function of the latest stored inputs (exactly the function written in
spec/Sched_Data.tla), stores it, reports novelty by content, and answers
through the real Hand protocol object.

usage: python -m harness.data_h <jobs.json> <out.ndjson>
'''

import json
import sys

from harness import sched_h
from harness.sched_h import ALL, World, new_obs
from vlib import engine

ORDER = ['t0.a', 't1.b', 't2.c', 't3.d']


class DataWorld(World):
    def __init__(self, desc, targets):
        super().__init__(desc, targets)
        self.prog = sched_h.prog_view(desc)
        self.algs = [a for a in ORDER if a in self.prog['kind']]
        self.src = {}
        self.stored = {}
        for a in self.algs:
            for t in self.tg_of(a):
                for v in self.prog['vals'][a]:
                    if not self.prog['ins'][a]:
                        self.src[(a, t, v)] = 0
        # the store starts as a completed from-scratch run (revision 0)
        for a in self.algs:
            for t in self.tg_of(a):
                for v in self.prog['vals'][a]:
                    self.stored[(a, t, v)] = self.compute(a, t, v)
        self.seen = {json.dumps(c) for c in self.stored.values()}

    def tg_of(self, a):
        return [ALL] if self.prog['kind'][a] == 'analysis' else list(self.targets)

    def inseq(self, a):
        ins = {(b, v) for b, v in self.prog['ins'][a]}
        order = [('t0.a', 's.v'), ('t0.a', 's.w'), ('t1.b', 's.v'), ('t2.c', 's.v'), ('t3.d', 's.v')]
        return [p for p in order if p in ins]

    def input_for(self, b, v, t):
        if self.prog['kind'][b] == 'analysis':
            return self.stored.get((b, ALL, v), [])
        return self.stored.get((b, t, v), [])

    def inputs_at(self, a, t):
        return [self.input_for(b, v, t) for b, v in self.inseq(a)]

    def compute(self, a, t, v):
        if not self.prog['ins'][a]:
            return [a, v, t, self.src[(a, t, v)]]
        if self.prog['kind'][a] == 'analysis':
            return [a, v, ALL, [self.inputs_at(a, tt) for tt in sorted(self.targets)]]
        return [a, v, t, self.inputs_at(a, t)]

    def ev_bump(self, a, t, N):
        for v in N:
            self.src[(a, t, v)] += 1
        self.ev_run([a], [] if t == ALL else [t])

    def ev_exec(self, a, t):
        if not any(u['alg'] == a and u['t'] == t for u in self.inflight):
            return False
        new = []
        for v in self.prog['vals'][a]:
            c = self.compute(a, t, v)
            k = json.dumps(c)
            if k not in self.seen:
                new.append(v)
                self.seen.add(k)
            self.stored[(a, t, v)] = c
        self.obs['new'] = new
        return self.ev_reply(a, t, 'success', new, False)

    def snapshot(self):
        st = super().snapshot()
        full = {}
        for a in self.algs:
            for t in list(self.targets) + [ALL]:
                for v in ('s.v', 's.w'):
                    full[f'{a}|{t}|{v}'] = self.stored.get((a, t, v), [])
        st['stored'] = full
        st['src'] = {f'{a}|{t}|{v}': r for (a, t, v), r in self.src.items()}
        return st


def obs0():
    o = new_obs()
    o['new'] = []
    return o


def run_job(job):
    w = DataWorld(job['desc'], job['targets'])
    steps = []
    try:
        w.obs = obs0()
        steps.append({'ev': 'Init', 'args': {'x': 0}, 'st': w.snapshot(), 'obs': obs0()})
        events = list(job['events'])
        i = 0
        skipped = 0
        while True:
            if i >= len(events):
                # drain: answer everything in flight, dispatch until nothing changes
                if w.inflight:
                    u = w.inflight[0]
                    events.append({'ev': 'ExecReply', 'alg': u['alg'], 't': u['t']})
                else:
                    before = json.dumps(w.snapshot(), sort_keys=True)
                    w.obs = obs0()
                    w.ev_tick()
                    st = w.snapshot()
                    steps.append({'ev': 'Tick', 'args': {'x': 0}, 'st': st, 'obs': w.obs})
                    if json.dumps(st, sort_keys=True) == before or len(steps) > 300:
                        break
                    continue
            e = events[i]
            i += 1
            w.obs = obs0()
            ok = True
            if e['ev'] == 'Bump':
                w.ev_bump(e['alg'], e['t'], sorted(e['N']))
            elif e['ev'] == 'Tick':
                w.ev_tick()
            elif e['ev'] == 'ExecReply':
                ok = w.ev_exec(e['alg'], e['t'])
            else:
                raise ValueError(e['ev'])
            if not ok:
                skipped += 1
                continue
            args = {k: (sorted(v) if isinstance(v, list) else v) for k, v in e.items() if k != 'ev'} or {'x': 0}
            steps.append({'ev': e['ev'], 'args': args, 'st': w.snapshot(), 'obs': w.obs})
        steps.append({'ev': 'Quiesce', 'args': {'x': 0}, 'st': w.snapshot(), 'obs': obs0()})
        final = {'skipped': skipped}
    finally:
        w.close()
    return {'tid': job['id'], 'prog': w.prog, 'targets': job['targets'], 'steps': steps, 'final': final}


def main():
    with open(sys.argv[1], 'rt', encoding='utf-8') as f:
        jobs = json.load(f)['jobs']
    import logging

    logging.disable(logging.CRITICAL)
    with open(sys.argv[2], 'wt', encoding='utf-8') as out:
        for job in jobs:
            out.write(json.dumps(run_job(job)) + '\n')


if __name__ == '__main__':
    main()
