'''Store/crash harness (C07): runs TLC-chosen update histories on the REAL
dawgie.db.shelve.model.Interface._update -> comms.Connector -> (in-memory bridge)
-> comms.Worker.do(Func.set) -> dawgie.db.util.encode/move code on real files
(shelve tables, store directory, staging directory) in a scratch directory.

Every life of the database process is a FORKED CHILD (os.fork) of this harness,
forked immediately after DBI().open() read the files: it runs its updates and
either shuts down cleanly (DBI().close()) or is killed with os._exit at the place
TLC chose:

   mkstemp  after tempfile.mkstemp            dump     after pickle.dump (file not flushed)
   chmod    after the file is closed+chmod    md5/sha1 after each digest subprocess
   encoded  after encode() returned           exists   after os.path.exists in move()
   moved    after os.unlink / shutil.move     setitem  after tables.prime[key] = name
   presend  before the reply is sent          sent     after the reply was written
   idle     between two updates
   midcopy  inside the transfer of a new content into the store: every way dawgie.db.util can write bytes
            under a name in the store directory (shutil.copyfile/copy/copy2/copyfileobj, open(.., 'w')) is a
            shim that writes half of the bytes, flushes, and dies there; a publication by one rename
            (shutil.move on one file system, os.rename/replace/link) has no inside, the process then dies
            immediately before it -- which is what the unchanged code does
 and the update can be made to FAIL without killing the process:
   movefail    the move into the store raises ENOSPC
   stagedlost  the staged file is deleted after encode() returned, before the request reaches the server
   jobs with "xdev": true (opt-in scenario outside the registered check): staging and store are on
            different file systems (os.rename fails with EXDEV, so shutil.move copies and unlinks) and
            midcopy is the middle of that copy

The calls are intercepted from outside (shim modules bound to the names `os`,
`tempfile`, `pickle`, `subprocess`, `shutil` inside dawgie.db.util only; a wrapper
around the prime table object; a wrapper around Worker._send).  After every
intercepted step the child appends one trace line with the projected state:
staging listing, store listing with digests RECOMPUTED from the bytes and the
content decoded from the bytes, the catalogue as the process sees it and as a
fresh read-only open of the files sees it.  After the child is gone the parent
re-opens the database FROM THE FILES and logs that state (events Crash / Close /
Purge).  `reach`: whether the catalogue assignment reaches the disk before the
process can die is a property of the dbm backend, not of DAWGIE; reach=false is
produced by holding the assignment in a write-behind layer around the table
(flushed by close), reach=true writes through to the real backend (dbm.dumb here).

Nothing here decides anything; TLC evaluates the clauses (spec/StoreCrash_Trace.tla).

usage: python -m harness.storecrash_h <jobs.json> <out.ndjson>
  jobs.json = {"jobs": [{"id": n, "must": bool, "xdev": bool (optional), "h": [{"op","k","c","site","reach"}, ..]}, ..]}
  VERIF_C07_DEADLINE=<unix time>: jobs that are not "must" are skipped once the deadline has
  passed (a fork costs 50 ms on an idle machine and seconds on a loaded one); only executed
  histories are written, so every reported count is measured.

  VERIF_MUTANT=<name>   in-memory mutant of the real code, installed in the children only
                        (binding demonstration, never written to /repo):
                        record_first no_exists_check keep_both md5_only
  VERIF_CORRUPT=<name>  corrupt one recorded field: isnew_flip blob_drop digest_swap
'''

import collections.abc
import dbm
import errno
import gc
import hashlib
import inspect
import json
import os
import pickle
import runpy
import shelve
import shutil
import subprocess
import sys
import tempfile
import textwrap
import time
import traceback
import warnings

from vlib import boot, bridge

REACTOR, WORK = boot.boot()
warnings.simplefilter('ignore')

import dawgie  # noqa: E402
import dawgie.context  # noqa: E402
import dawgie.db.shelve.comms as comms  # noqa: E402
import dawgie.db.shelve.model as model  # noqa: E402
import dawgie.db.shelve.util as sutil  # noqa: E402
import dawgie.db.util as dbutil  # noqa: E402
from dawgie.db.shelve.enums import Func, Table  # noqa: E402
from dawgie.db.shelve.state import DBI  # noqa: E402

bridge.install()

MUTANT = os.environ.get('VERIF_MUTANT', '')
CORRUPT = os.environ.get('VERIF_CORRUPT', '')
CONTENTS = ['c1', 'c2', 'c3']
EXIT_CRASH = 77


# ----------------------------------------------------------------- engine
class Val(dawgie.Value):
    def __init__(self, cid=''):
        self._version_ = dawgie.VERSION(1, 0, 0)
        self.cid = cid

    def features(self):
        return []


class SV(dawgie.StateVector):
    def __init__(self, value=None):
        self._version_ = dawgie.VERSION(1, 0, 0)
        if value is not None:
            dict.__setitem__(self, 'v', value)

    def name(self):
        return 'sv'

    def view(self, caller, visitor):
        return


class Alg(dawgie.Algorithm):
    def __init__(self, name, sv):
        self._version_ = dawgie.VERSION(1, 0, 0)
        self._name = name
        self._sv = sv

    def name(self):
        return self._name

    def previous(self):
        return []

    def run(self, ds, ps):
        return

    def state_vectors(self):
        return [self._sv]


def digest_of(data):
    return hashlib.md5(data).hexdigest() + '_' + hashlib.sha1(data).hexdigest()


def digest_table():
    '''content id -> store name, computed without any DAWGIE code'''
    return {c: digest_of(pickle.dumps(Val(c), pickle.HIGHEST_PROTOCOL)) for c in CONTENTS}


# ------------------------------------------------------------- projection
def kind_of(path):
    '''content id of a pickle file; "partial" when the bytes are not a complete pickle of a value'''
    try:
        with open(path, 'rb') as f:
            v = pickle.load(f)
        return v.cid if isinstance(v, Val) else 'partial'
    except Exception:  # pylint: disable=broad-except
        return 'partial'


def list_store():
    out = []
    d = dawgie.context.data_dbs
    for n in sorted(os.listdir(d)):
        p = os.path.join(d, n)
        with open(p, 'rb') as f:
            data = f.read()
        h = digest_of(data)
        c = kind_of(p)
        out.append({'n': n, 'c': c if c != 'partial' else 'corrupt:' + h, 'h': h})
    return out


def list_staging(cur):
    kinds = set()
    curkind = ''
    d = dawgie.context.data_stg
    for n in sorted(os.listdir(d)):
        p = os.path.join(d, n)
        if not os.path.isfile(p):
            continue
        if cur is not None and os.path.abspath(p) == os.path.abspath(cur):
            curkind = kind_of(p)
        else:
            kinds.add(kind_of(p))
    return sorted(kinds), curkind


def model_key(raw, indices):
    try:
        k = eval(raw)  # the code's own key syntax: str(tuple of 6 ints)  # pylint: disable=eval-used
        tn = sutil.dissect(indices.target[k[1]])[1]
        an = sutil.dissect(indices.alg[k[3]])[1]
        return f'{tn}.{an}.{k[0]}'
    except Exception:  # pylint: disable=broad-except
        return 'raw:' + str(raw)


def prime_path():
    return '.'.join([os.path.join(dawgie.context.db_path, dawgie.context.db_name), Table.prime.name])


def disk_prime(indices):
    '''the prime table as a fresh read-only open of the files sees it now'''
    path = prime_path()
    if not dbm.whichdb(path):
        return []
    with shelve.open(path, 'r') as tab:
        return sorted([model_key(k, indices), v] for k, v in tab.items())


def state_from_files():
    '''parent side: drop whatever handle this process holds (it never wrote anything) and read
    the database FROM THE FILES; the fresh handle stays open for the next life to inherit'''
    DBI().close()
    DBI().open()
    prime = sorted([model_key(k, DBI().indices), v] for k, v in DBI().tables.prime.items())
    orph, _cur = list_staging(None)
    return {
        'up': False,
        'pc': 'idle',
        'uk': '-',
        'uc': '-',
        'uname': '-',
        'uex': False,
        'orph': orph,
        'cur': '',
        'blobs': list_store(),
        'prime': prime,
        'dprime': prime,
    }


# -------------------------------------------------- the child's instrumentation
class H:
    '''state of the instrumentation; live only inside a child'''

    active = False
    log = None
    plan = None  # crash site of the update in progress ('none' = let it answer)
    reach = True
    pc = 'idle'
    uk = '-'
    uc = '-'
    uname = '-'
    uex = False
    cur = None
    ndigest = 0
    in_set = False
    lost = False  # the staged file of the update in progress was taken away (plan 'stagedlost')
    xdev = False


def snapshot():
    orph, cur = list_staging(H.cur)
    tables = DBI().tables
    return {
        'up': True,
        'pc': H.pc,
        'uk': H.uk,
        'uc': H.uc,
        'uname': H.uname,
        'uex': H.uex,
        'orph': orph,
        'cur': cur,
        'blobs': list_store(),
        'prime': sorted([model_key(k, DBI().indices), v] for k, v in tables.prime.items()),
        'dprime': disk_prime(DBI().indices),
    }


def emit(ev, st, site='none', isnew=False, reach=True):
    H.log.write((json.dumps({'ev': ev, 'st': st, 'obs': {'site': site, 'isnew': bool(isnew), 'reach': bool(reach)}}) + '\n').encode())


def step(ev, **obs):
    emit(ev, snapshot(), **obs)


def site(name):
    '''a place where the process can be killed'''
    if H.active and H.plan == name:
        os._exit(EXIT_CRASH)


class Shim:
    '''stands for a module name inside dawgie.db.util: same module, some calls observed'''

    def __init__(self, real, **over):
        self.__dict__['_real'] = real
        self.__dict__.update(over)

    def __getattr__(self, name):
        return getattr(self._real, name)


def _mkstemp(*a, **k):
    r = tempfile.mkstemp(*a, **k)
    if H.active:
        H.cur = r[1]
        H.pc = 'made'
        step('StageMk')
        site('mkstemp')
    return r


def _dump(*a, **k):
    r = pickle.dump(*a, **k)
    site('dump')
    return r


def _chmod(*a, **k):
    r = os.chmod(*a, **k)
    if H.active and H.pc == 'made':  # the chmod of encode(); any other chmod is not a step of the model
        H.pc = 'staged'
        step('StageWrite')
        site('chmod')
    return r


def _check_output(*a, **k):
    r = subprocess.check_output(*a, **k)
    if H.active:
        H.ndigest += 1
        site('md5' if H.ndigest == 1 else 'sha1')
    return r


def _exists(p):
    r = os.path.exists(p)
    if H.active and not H.lost:  # (after StagedLost the whole failing request is one step of the model)
        H.uex = bool(r)
        H.pc = 'checked'
        step('ExistsCheck')
        site('exists')
    return r


def _moved():
    if H.active:
        H.cur = None
        H.pc = 'moved'
        step('Move')
        site('moved')


def _unlink(*a, **k):
    r = os.unlink(*a, **k)
    _moved()
    return r


def _before_publish():
    '''plan 'midcopy': a kill inside the transfer of the content into the store.  A publication by one
    rename / link has no inside: the process dies with the staged file in place and nothing in the store.'''
    if H.active and not H.xdev:
        site('midcopy')


def _move(*a, **k):
    if H.active and H.plan == 'movefail':
        # the rename into the store fails without killing the process (disk full, permission denied)
        H.plan = 'none'
        raise OSError(errno.ENOSPC, 'No space left on device', a[1] if len(a) > 1 else None)
    _before_publish()
    r = shutil.move(*a, **k)
    _moved()
    return r


def _atomic(fn):
    def wrapper(*a, **k):
        _before_publish()
        r = fn(*a, **k)
        _moved()
        return r

    return wrapper


def _halves(data, fdst):
    '''a byte transfer as the kernel may perform it: some bytes, then the rest; the process can die between'''
    fdst.write(data[: len(data) // 2])
    fdst.flush()
    site('midcopy')
    fdst.write(data[len(data) // 2 :])


def _copyfile(src, dst, *a, **k):
    with open(src, 'rb') as f:
        data = f.read()
    with open(dst, 'wb') as f:
        _halves(data, f)
    return dst


def _copy(src, dst, *a, **k):
    if os.path.isdir(dst):
        dst = os.path.join(dst, os.path.basename(src))
    _copyfile(src, dst)
    shutil.copymode(src, dst)
    return dst


def _copy2(src, dst, *a, **k):
    if os.path.isdir(dst):
        dst = os.path.join(dst, os.path.basename(src))
    _copyfile(src, dst)
    shutil.copystat(src, dst)
    return dst


def _copyfileobj(fsrc, fdst, *a, **k):
    _halves(fsrc.read(), fdst)


class _HalfWriter:
    '''a file opened for writing inside the store directory by dawgie.db.util itself'''

    def __init__(self, real):
        self._real = real

    def write(self, data):
        if H.active and len(data) > 1:
            _halves(data, self._real)
            return len(data)
        return self._real.write(data)

    def __getattr__(self, name):
        return getattr(self._real, name)

    def __enter__(self):
        self._real.__enter__()
        return self

    def __exit__(self, *a):
        return self._real.__exit__(*a)

    def __iter__(self):
        return iter(self._real)


def _open(file, mode='r', *a, **k):
    f = open(file, mode, *a, **k)  # pylint: disable=consider-using-with,unspecified-encoding
    try:
        inside = isinstance(file, (str, os.PathLike)) and os.path.dirname(os.path.abspath(file)) == os.path.abspath(dawgie.context.data_dbs)
    except Exception:  # pylint: disable=broad-except
        inside = False
    if H.active and inside and any(c in mode for c in 'wax+'):
        return _HalfWriter(f)
    return f


_REAL_ENCODE = dbutil.encode


def _encode(value):
    r = _REAL_ENCODE(value)
    if H.active:
        H.uname = r[1]
        H.pc = 'digested'
        step('Digest')
        site('encoded')
        if H.plan == 'stagedlost':
            # the environment takes the staged file away between encode() and the request to the server
            os.unlink(r[0])
            H.cur = None
            H.lost = True
    return r


dbutil.tempfile = Shim(tempfile, mkstemp=_mkstemp)
dbutil.pickle = Shim(pickle, dump=_dump)
dbutil.subprocess = Shim(subprocess, check_output=_check_output)
dbutil.shutil = Shim(shutil, move=_move, copyfile=_copyfile, copy=_copy, copy2=_copy2, copyfileobj=_copyfileobj)
dbutil.os = Shim(os, chmod=_chmod, unlink=_unlink, remove=_unlink, rename=_atomic(os.rename), replace=_atomic(os.replace), link=_atomic(os.link), path=Shim(os.path, exists=_exists))
dbutil.open = _open
dbutil.encode = _encode

_REAL_SEND = comms.Worker._send
_REAL_DO = comms.Worker.do


def _send(self, response):
    armed = H.active and H.in_set
    if armed:
        site('presend')
    r = _REAL_SEND(self, response)
    if armed:
        site('sent')
    return r


def _do(self, request):
    H.in_set = H.active and request.func == Func.set
    try:
        return type(self)._verif_do(self, request)
    finally:
        H.in_set = False


comms.Worker._send = _send
comms.Worker._verif_do = _REAL_DO
comms.Worker.do = _do


class HeldTable(collections.abc.MutableMapping):
    '''the prime table with a write-behind layer (the storage medium, not DAWGIE):
    an assignment made while H.reach is false stays in memory until close/sync'''

    def __init__(self, real):
        self.real = real
        self.held = {}

    def __getitem__(self, k):
        return self.held[k] if k in self.held else self.real[k]

    def __setitem__(self, k, v):
        if H.reach:
            self.held.pop(k, None)
            self.real[k] = v
        else:
            self.held[k] = v
        if H.active and H.pc != 'idle':
            H.pc = 'recorded'
            step('Record', reach=H.reach)
            site('setitem')

    def __delitem__(self, k):
        self.held.pop(k, None)
        del self.real[k]

    def __iter__(self):
        seen = set()
        for k in self.real.keys():
            seen.add(k)
            yield k
        for k in self.held:
            if k not in seen:
                yield k

    def __len__(self):
        return len(set(self.real.keys()) | set(self.held))

    def sync(self):
        for k, v in self.held.items():
            self.real[k] = v
        self.held.clear()
        self.real.sync()

    def close(self):
        for k, v in self.held.items():
            self.real[k] = v
        self.held.clear()
        self.real.close()


# ---------------------------------------------------------------- mutants
def _mutate_method(cls, name, old, new):
    '''re-compile a method of the real class with one textual change (name mangling kept)'''
    fn = getattr(cls, '_verif_' + name, None) or getattr(cls, name)
    src = textwrap.dedent(inspect.getsource(fn))
    assert old in src, (name, old)
    src = f'class {cls.__name__}:\n' + textwrap.indent(src.replace(old, new), '    ')
    ns = dict(sys.modules[cls.__module__].__dict__)
    exec(compile(src, f'<mutant {name}>', 'exec'), ns)  # pylint: disable=exec-used
    return ns[cls.__name__].__dict__[name]


def _mutate_function(mod, name, old, new, real=None):
    src = textwrap.dedent(inspect.getsource(real or getattr(mod, name)))
    assert old in src, (name, old)
    exec(compile(src.replace(old, new), f'<mutant {name}>', 'exec'), mod.__dict__)  # pylint: disable=exec-used
    return mod.__dict__[name]


def install_mutant(name):
    '''called in the child only'''
    if not name:
        return
    if name == 'record_first':
        # catalogue entry first, file second (text as in the dedented source of Worker.do)
        old = (
            '        value, exists = dawgie.db.util.move(*request.value)\n'
            '        key = str(request.keyset)\n'
            '        DBI().tables[request.table.value][key] = value\n'
        )
        new = (
            '        key = str(request.keyset)\n'
            '        DBI().tables[request.table.value][key] = request.value[1]\n'
            '        value, exists = dawgie.db.util.move(*request.value)\n'
        )
        comms.Worker._verif_do = _mutate_method(comms.Worker, 'do', old, new)
    elif name == 'no_exists_check':
        # move() overwrites and always reports "was not there"
        _mutate_function(dbutil, 'move', 'exists = os.path.exists(nfn)', 'exists = os.path.exists(nfn) and False')
    elif name == 'keep_both':
        # identical content is stored again under another name
        _mutate_function(dbutil, 'move', 'os.unlink(fn)', "shutil.move(fn, nfn + '_2')")
    elif name == 'md5_only':
        global _REAL_ENCODE  # pylint: disable=global-statement
        _REAL_ENCODE = _mutate_function(dbutil, 'encode', "result = '_'.join([m, s])", 'result = m', real=_REAL_ENCODE)
        dbutil.encode = _encode
    else:
        raise ValueError('unknown mutant ' + name)


# ------------------------------------------------------------ child bodies
def parse_key(k):
    tn, an, run = k.split('.')
    return tn, an, int(run)


def install_xdev():
    '''the store directory is on another file system than the staging directory'''
    import errno

    def rename(src, dst, *a, **k):
        raise OSError(errno.EXDEV, 'Invalid cross-device link', src, None, dst)

    def copyfile(src, dst, *a, **k):
        with open(src, 'rb') as f:
            data = f.read()
        with open(dst, 'wb') as f:
            f.write(data[: len(data) // 2])
            f.flush()
            site('midcopy')
            f.write(data[len(data) // 2 :])
        return dst

    shutil.os = Shim(os, rename=rename)
    shutil.copyfile = copyfile
    H.xdev = True


def child_segment(ops, logfn, xdev=False):
    '''one life of the database process'''
    H.log = open(logfn, 'ab', buffering=0)  # pylint: disable=consider-using-with
    install_mutant(MUTANT)
    if xdev:
        install_xdev()
    # the database was opened from the files by the parent immediately before the fork
    dbi = DBI()
    tabs = dbi._DBI__tables  # pylint: disable=protected-access
    dbi._DBI__tables = tabs._replace(prime=HeldTable(tabs.prime))  # pylint: disable=protected-access
    H.active = True
    H.pc, H.uk, H.uc, H.uname, H.uex, H.cur = 'idle', '-', '-', '-', False, None
    step('Open')
    for op in ops[1:]:
        if op['op'] == 'upd':
            tn, an, run = parse_key(op['k'])
            H.plan, H.reach = op['site'], op['reach']
            H.uk, H.uc, H.uname, H.uex, H.cur, H.ndigest = op['k'], op['c'], '-', False, None, 0
            bot = dawgie.Task('tk', 0, run, tn)
            ds = model.Interface(Alg(an, SV(Val(op['c']))), bot, tn)
            failing = {'movefail': 'MoveFails', 'stagedlost': 'StagedLost'}.get(op['site'])
            H.lost = False
            try:
                ds._update()  # pylint: disable=protected-access
            except OSError:
                if not failing:
                    raise
                # the update ended with an error; the database process lives on
                H.pc, H.uk, H.uc, H.uname, H.uex, H.cur, H.lost = 'idle', '-', '-', '-', False, None, False
                H.plan, H.reach = 'none', True
                step(failing, site=op['site'])
                continue
            H.lost = False
            flags = bot.new_values()
            assert len(flags) == 1, flags
            H.pc, H.uk, H.uc, H.uname, H.uex, H.cur = 'idle', '-', '-', '-', False, None
            H.plan, H.reach = 'none', True
            step('Answer', isnew=flags[0][1])
        elif op['op'] == 'crash':
            os._exit(EXIT_CRASH)
        elif op['op'] == 'close':
            break
        else:
            raise ValueError(op)
    H.active = False
    DBI().close()
    os._exit(0)


def child_purge():
    '''dawgie/db/tools/purge.py as its own process, the pipeline being down'''
    import dawgie.db.shelve.comms as cm

    cm.DBSerializer.open = staticmethod(lambda: None)  # no listener (network environment)
    os.environ['DAWGIE_DOCKERIZED_AE_GIT_REVISION'] = 'rev0'  # context.override would ask git otherwise
    c = dawgie.context
    sys.argv = ['purge', '-l', 'purge.log',
                '--context-db-impl', 'shelve', '--context-db-path', c.db_path, '--context-db-name', c.db_name,
                '--context-data-dbs', c.data_dbs, '--context-data-stg', c.data_stg, '--context-data-log', c.data_log]  # fmt: skip
    try:
        runpy.run_path(os.path.join(os.path.dirname(dawgie.__file__), 'db', 'tools', 'purge.py'), run_name='__main__')
    except SystemExit as ex:  # "Aborting purge becuase found NO keys!!!" -> sys.exit(-1)
        if ex.code not in (0, None, -1):
            raise
    if DBI().is_open:
        DBI().close()
    os._exit(0)


def in_child(fn, *args):
    sys.stdout.flush()
    sys.stderr.flush()
    pid = os.fork()
    if pid == 0:
        gc.disable()
        try:
            fn(*args)
        except BaseException:  # pylint: disable=broad-except
            traceback.print_exc()
            sys.stderr.flush()
            os._exit(3)
        os._exit(0)
    _pid, status = os.waitpid(pid, 0)
    rc = os.waitstatus_to_exitcode(status)
    if rc not in (0, EXIT_CRASH):
        raise RuntimeError(f'child failed rc={rc}')
    return rc


# ---------------------------------------------------------------- one job
def segments(h):
    segs = []
    for op in h:
        if op['op'] == 'open':
            segs.append(['seg', [op]])
        elif op['op'] == 'purge':
            segs.append(['purge', [op]])
        else:
            segs[-1][1].append(op)
    return segs


def run_job(job, root):
    base = os.path.join(root, f'j{job["id"]}')
    c = dawgie.context
    c.db_path, c.data_dbs, c.data_stg, c.data_log = (os.path.join(base, d) for d in ('db', 'dbs', 'stg', 'logs'))
    for d in (c.db_path, c.data_dbs, c.data_stg, c.data_log):
        os.makedirs(d)
    DBI().open()  # creates the empty tables ...
    DBI().close()  # ... and writes them, so that no later handle of this process has anything to write
    steps = [{'ev': 'Init', 'st': state_from_files(), 'obs': {'site': 'none', 'isnew': False, 'reach': True}}]
    logfn = os.path.join(base, 'child.ndjson')
    for kind, ops in segments(job['h']):
        if kind == 'purge':
            DBI().close()  # the pipeline is down while purge runs
            in_child(child_purge)
            steps.append({'ev': 'Purge', 'st': state_from_files(), 'obs': {'site': 'none', 'isnew': False, 'reach': True}})
            continue
        open(logfn, 'wb').close()
        if not DBI().is_open:
            DBI().open()
        # this life of the process starts from the files as they are now: the handle it inherits was
        # opened after the previous life ended
        rc = in_child(child_segment, ops, logfn, bool(job.get('xdev')))
        with open(logfn, 'rb') as f:
            for ln in f:
                steps.append(json.loads(ln))
        last = ops[-1]
        if rc == EXIT_CRASH:
            sitename = last['site'] if last['op'] in ('upd', 'crash') else '?'
            steps.append({'ev': 'Crash', 'st': state_from_files(), 'obs': {'site': sitename, 'isnew': False, 'reach': True}})
        else:
            steps.append({'ev': 'Close', 'st': state_from_files(), 'obs': {'site': 'none', 'isnew': False, 'reach': True}})
    DBI().close()
    corrupt(steps)
    shutil.rmtree(base, True)
    return {'tid': job['id'], 'digest': digest_table(), 'steps': steps}


def corrupt(steps):
    if not CORRUPT:
        return
    if CORRUPT == 'isnew_flip':
        for s in steps:
            if s['ev'] == 'Answer':
                s['obs']['isnew'] = not s['obs']['isnew']
                return
    elif CORRUPT == 'blob_drop':
        for s in steps:
            if s['ev'] in ('Crash', 'Close') and s['st']['prime'] and s['st']['blobs']:
                names = {p[1] for p in s['st']['prime']}
                s['st']['blobs'] = [b for b in s['st']['blobs'] if b['n'] not in names][:]
                return
    elif CORRUPT == 'digest_swap':
        for s in steps:
            if s['st']['blobs']:
                s['st']['blobs'][0]['h'] = s['st']['blobs'][0]['h'][::-1]
                return
    else:
        raise ValueError('unknown corruption ' + CORRUPT)


def warm_up(root):
    '''one throw-away update in this process, so that the children inherit every lazily
    imported module and cache instead of building them again after each fork'''
    base = os.path.join(root, 'warm')
    c = dawgie.context
    c.db_path, c.data_dbs, c.data_stg, c.data_log = (os.path.join(base, d) for d in ('db', 'dbs', 'stg', 'logs'))
    for d in (c.db_path, c.data_dbs, c.data_stg, c.data_log):
        os.makedirs(d)
    state_from_files()
    for cid in ('c1', 'c1'):
        bot = dawgie.Task('tk', 0, 1, 'T1')
        model.Interface(Alg('A', SV(Val(cid))), bot, 'T1')._update()  # pylint: disable=protected-access
    tabs = DBI().tables
    HeldTable(tabs.prime)
    snapshot()
    json.dumps(digest_table())
    state_from_files()
    DBI().close()
    bridge.CONNS.clear()
    shutil.rmtree(base, True)


def main():
    with open(sys.argv[1], 'rt', encoding='utf-8') as f:
        jobs = json.load(f)['jobs']
    root = tempfile.mkdtemp(prefix='sc', dir=WORK)
    warm_up(root)
    gc.collect()
    gc.freeze()  # nothing the children inherit is ever traversed (= written) by a collector
    deadline = float(os.environ.get('VERIF_C07_DEADLINE', '0') or 0)
    with open(sys.argv[2], 'wt', encoding='utf-8') as out:
        for job in jobs:
            if deadline and not job.get('must') and time.time() > deadline:
                continue
            out.write(json.dumps(run_job(job, root)) + '\n')
            out.flush()
    shutil.rmtree(root, True)


if __name__ == '__main__':
    main()
