'''Framing / handshake harness (C14): the REAL protocol objects
   farm  : dawgie.pl.farm.Hand
   db    : dawgie.db.shelve.comms.Worker
   log   : dawgie.pl.logger.LogSink
optionally behind the REAL legacy handshake wrapper security.TwistedWrapper
(use_tls() False), fed with real pickled messages cut into the chunks TLC chose.
What reaches the application (Hand._process, Worker.do, the log handler) is
recorded after every chunk.  gpg is replaced by a stub whose verdicts are the
validity bits of the schedule.

usage: python -m harness.frame_h <jobs.json> <out.ndjson>
job = {id, channel, hs, bits, lens (abstract payload lengths), chunks (abstract) | cuts (real positions), la, lb}
'''

import json
import pickle
import struct
import sys
import types

from vlib import boot

boot.boot()

import dawgie.context  # noqa: E402
import dawgie.db.shelve.comms as comms  # noqa: E402
import dawgie.pl.farm as farm  # noqa: E402
import dawgie.pl.logger as logger  # noqa: E402
import dawgie.pl.message as message  # noqa: E402
import dawgie.security as security  # noqa: E402
from dawgie.db.shelve.enums import Func  # noqa: E402


class PGP:
    '''stub of the gnupg object: signatures are a 5-byte tag'''

    @staticmethod
    def verify(data):
        return types.SimpleNamespace(valid=bytes(data).startswith(b'SIG1:'))

    @staticmethod
    def decrypt(data):
        return types.SimpleNamespace(data=bytes(data)[5:])


security._PGP = PGP


class Transport:
    def __init__(self):
        self.out = b''
        self.closed = False

    def write(self, b):
        if not self.closed:
            self.out += b

    def loseConnection(self):
        self.closed = True


class Fsm:
    @staticmethod
    def is_pipeline_active():
        return True


def app_messages(channel, lens):
    '''real pickled messages; payload sizes grow with the abstract lengths so that different lengths stay different'''
    msgs = []
    n = len(lens)
    for i, ln in enumerate(lens, 1):
        pad = 'x' * (7 * ln)
        if channel == 'farm':
            b = message.dumps(message.make(typ=message.Type.register, inc=i, rev=pad))
        elif channel == 'db':
            # what a peer can legitimately put on one connection: acquire then release, or a single request
            func = Func.acquire if (n > 1 and i < n) else (Func.release if n > 1 else Func.get)
            b = pickle.dumps(comms.COMMAND(func, None, None, (i, pad)), pickle.HIGHEST_PROTOCOL)
        else:
            b = pickle.dumps({'msg': i, 'name': pad, 'levelno': 20, 'levelname': 'INFO', 'args': None}, 2)
        msgs.append(struct.pack('>I', len(b)) + b)
    return msgs


def make_protocol(channel, delivered, hs):
    security.use_tls = (lambda: False) if hs else (lambda: True)
    addr = ('peer', 1)
    if channel == 'farm':
        p = farm.Hand(addr)
        p._process = lambda msg: delivered.append(msg.incarnation)
    elif channel == 'db':
        p = comms.Worker(addr)
        p.do = lambda req: delivered.append(req.value[0])
    else:
        handler = types.SimpleNamespace(handle=lambda rec: delivered.append(rec.msg), flush=lambda: None)
        p = logger.LogSink(handler, addr)
    p.transport = Transport()
    return p


def map_pos(pos, asegs, rsegs):
    '''abstract stream position -> real stream position (segment by segment, interior proportionally)'''
    real = 0
    for a, r in zip(asegs, rsegs):
        if pos >= a:
            pos -= a
            real += r
            continue
        if pos > 0:
            if a == r:
                real += pos
            else:
                real += min(r - 1, max(1, (pos * r) // a))
        return real
    return real


class SegSocket:
    '''a blocking socket whose recv(n) returns what the kernel has: at most n bytes and never beyond the segment
    that arrived last (a short read at every segment boundary)'''

    class Drained(Exception):
        pass

    def __init__(self, segments):
        self.segments = [bytes(x) for x in segments if x]
        self.i = 0  # segment being consumed
        self.calls = 0

    def recv(self, n):
        self.calls += 1
        if self.calls > 100000:
            raise SegSocket.Drained()
        while self.i < len(self.segments) and not self.segments[self.i]:
            self.i += 1
        if self.i >= len(self.segments):
            raise SegSocket.Drained()  # the real call would block for ever: nothing more is coming
        if n <= 0:
            return b''
        out, self.segments[self.i] = self.segments[self.i][:n], self.segments[self.i][n:]
        return out


def run_recv(job):
    '''channel `recv`: the REAL blocking reader dawgie.pl.message.receive (farm workers, database lock client)
    pulling real messages off a socket that delivers the stream in the segments TLC chose'''
    lens = job['lens']
    msgs = app_messages('farm', lens)
    app = b''.join(msgs)
    if 'chunks' in job:
        a_abs = [x for ln in lens for x in (4, ln)]
        a_real = [x for m in msgs for x in (4, len(m) - 4)]
        c, bounds = 0, []
        for k in job['chunks']:
            c += k
            bounds.append(c)
        cuts = sorted({map_pos(b, a_abs, a_real) for b in bounds})
    else:
        cuts = sorted(job.get('cuts', []))
    cuts = [c for c in cuts if 0 < c < len(app)]
    segs, prev = [], 0
    for c in cuts + [len(app)]:
        segs.append(app[prev:c])
        prev = c
    sock = SegSocket(segs)
    got = []  # (segment index at completion, incarnation)
    exc = ''
    try:
        while True:
            m = message.receive(sock)
            got.append((min(sock.i, len(segs) - 1), m.incarnation))
    except SegSocket.Drained:
        pass
    except Exception as ex:  # pylint: disable=broad-except
        exc = type(ex).__name__
    steps = [{'fed': 0, 'delivered': [], 'closed': False, 'closed_by_app': False, 'last': False, 'exc': ''}]
    fed = 0
    for i, sg in enumerate(segs):
        fed += len(sg)
        steps.append({'fed': fed, 'delivered': [inc for k, inc in got if k <= i], 'closed': False, 'closed_by_app': False, 'last': False, 'exc': exc if i + 1 == len(segs) else ''})
    steps[-1]['last'] = True
    return {'tid': job['id'], 'channel': 'recv', 'hs': False, 'bits': job['bits'], 'sizes': [len(m) for m in msgs], 'hslen': 0, 'steps': steps}


OTHER = 5000000


def run_pair(job):
    '''two connections of the same protocol class served by one process, their chunks arriving interleaved:
    each connection must deliver exactly its own messages (no framing state is shared between connections)'''
    dawgie.context.fsm = Fsm()
    channel, lens = job['channel'], job['lens']
    conns = []
    for k in range(2):
        delivered = []
        proto = make_protocol(channel, delivered, False)
        msgs = app_messages(channel, lens if k == 0 else list(reversed(lens)))
        app = b''.join(msgs)
        if 'chunks' in job and k == 0:
            a_abs = [x for ln in lens for x in (4, ln)]
            a_real = [x for m in msgs for x in (4, len(m) - 4)]
            c, bounds = 0, []
            for n in job['chunks']:
                c += n
                bounds.append(c)
            cuts = sorted({map_pos(b, a_abs, a_real) for b in bounds})
        else:
            cuts = sorted(job.get('cuts', []))
        if k == 1:
            # the other connection is cut where the first one is not: in the middle of every length prefix and body
            cuts = sorted({2, 4 + (len(msgs[0]) - 4) // 2, len(msgs[0]) + 2})
        cuts = [x for x in cuts if 0 < x < len(app)]
        pieces, prev = [], 0
        for x in cuts + [len(app)]:
            pieces.append(app[prev:x])
            prev = x
        conns.append({'proto': proto, 'delivered': delivered, 'msgs': msgs, 'pieces': pieces, 'fed': 0, 'exc': '',
                      'steps': [{'fed': 0, 'delivered': [], 'closed': False, 'closed_by_app': False, 'last': False, 'exc': ''}]})
    turn = 0
    while any(c['pieces'] for c in conns):
        c = conns[turn % 2]
        turn += 1
        if not c['pieces']:
            continue
        data = c['pieces'].pop(0)
        if not c['proto'].transport.closed:
            try:
                c['proto'].dataReceived(data)
            except Exception as ex:  # pylint: disable=broad-except
                c['exc'] = type(ex).__name__
            c['fed'] += len(data)
        closed = c['proto'].transport.closed
        by_app = bool(channel == 'db' and closed and c['delivered'] and len(c['delivered']) == len(lens))
        # the second connection numbers its messages like the first (1..n in ITS order of sending)
        c['steps'].append({'fed': c['fed'], 'delivered': list(c['delivered']), 'closed': closed, 'closed_by_app': by_app, 'last': False, 'exc': c['exc']})
    out = []
    for k, c in enumerate(conns):
        c['steps'][-1]['last'] = True
        out.append({'tid': job['id'] + (OTHER if k else 0), 'channel': channel, 'hs': False, 'bits': job['bits'], 'sizes': [len(m) for m in c['msgs']], 'hslen': 0, 'steps': c['steps']})
    return out


def run_job(job):
    if job['channel'] == 'recv':
        return run_recv(job)
    if job.get('pair'):
        return run_pair(job)
    dawgie.context.fsm = Fsm()
    channel, hs, bits, lens = job['channel'], job['hs'], job['bits'], job['lens']
    delivered = []
    proto = make_protocol(channel, delivered, hs)
    msgs = app_messages(channel, lens)
    app = b''.join(msgs)
    steps = []
    state = {'fed': 0, 'exc': ''}

    def snap(last):
        closed = proto.transport.closed
        by_app = bool(channel == 'db' and closed and delivered and len(delivered) == len(lens))
        steps.append({'fed': state['fed'], 'delivered': list(delivered), 'closed': closed, 'closed_by_app': by_app, 'last': last, 'exc': state['exc']})

    def feed(data):
        if not data or proto.transport.closed:
            return
        try:
            proto.dataReceived(data)
        except Exception as ex:  # pylint: disable=broad-except
            state['exc'] = type(ex).__name__
        state['fed'] += len(data)

    snap(False)
    hslen = 0
    if hs:
        ident = b' machine: x\ntemporal: t\nusername: u\n'
        sa = (b'SIG1:' if bits['sigA'] else b'BAD1:') + ident
        pa = struct.pack('>I', 4 if bits['p1'] else 5) + struct.pack('>I', len(sa)) + sa
        la, lb = job['la'], job['lb']
        a_abs = [4, 4, la]
        a_real = [4, 4, len(sa)]
        tot_a_abs = sum(a_abs)
    # cumulative abstract boundaries
    if 'chunks' in job:
        bounds = []
        c = 0
        for k in job['chunks']:
            c += k
            bounds.append(c)
    else:
        bounds = None
    if hs:
        # part A: must be completely delivered before the client can know the challenge
        if bounds is not None:
            cuts_a = sorted({map_pos(b, a_abs, a_real) for b in bounds if b < tot_a_abs})
        else:
            cuts_a = sorted(c for c in job.get('cuts_a', []))
        prev = 0
        for c in cuts_a + [len(pa)]:
            if c > prev:
                feed(pa[prev:c])
                prev = c
                snap(False)
            if proto.transport.closed:
                break
        hslen = len(pa)
        if not proto.transport.closed:
            out = proto.transport.out
            n = struct.unpack('>I', out[:4])[0] if len(out) >= 4 else 0
            challenge = out[4 : 4 + n]
            echo = challenge if bits['echo'] else b'timestamp: never\nunique id: 0'
            sb = (b'SIG1:' if bits['sigB'] else b'BAD1:') + echo
            pb = struct.pack('>I', 4 if bits['p4'] else 5) + struct.pack('>I', len(sb)) + sb
            hslen += len(pb)
            rest = pb + app
            b_abs = [8, job['lb']] + [x for ln in lens for x in (4, ln)]
            b_real = [8, len(sb)] + [x for m in msgs for x in (4, len(m) - 4)]
            if bounds is not None:
                cuts_b = sorted({map_pos(b - tot_a_abs, b_abs, b_real) for b in bounds if b > tot_a_abs})
            else:
                cuts_b = sorted(job.get('cuts', []))
        else:
            rest, cuts_b = b'', []
    else:
        rest = app
        if bounds is not None:
            a_abs2 = [x for ln in lens for x in (4, ln)]
            a_real2 = [x for m in msgs for x in (4, len(m) - 4)]
            cuts_b = sorted({map_pos(b, a_abs2, a_real2) for b in bounds})
        else:
            cuts_b = sorted(job.get('cuts', []))
    prev = 0
    cuts_b = [c for c in cuts_b if 0 < c < len(rest)]
    for c in cuts_b + [len(rest)]:
        if proto.transport.closed:
            break
        if c > prev:
            feed(rest[prev:c])
            prev = c
            snap(False)
    # mark the final record
    steps[-1]['last'] = True
    if len(steps) == 1:
        steps.append(dict(steps[0], last=True))
    return {
        'tid': job['id'],
        'channel': channel,
        'hs': hs,
        'bits': bits,
        'sizes': [len(m) for m in msgs],
        'hslen': hslen if hs else 0,
        'steps': steps,
    }


def main():
    with open(sys.argv[1], 'rt', encoding='utf-8') as f:
        jobs = json.load(f)['jobs']
    import logging

    logging.disable(logging.CRITICAL)
    with open(sys.argv[2], 'wt', encoding='utf-8') as out:
        for job in jobs:
            res = run_job(job)
            for t in res if isinstance(res, list) else [res]:
                out.write(json.dumps(t) + '\n')


if __name__ == '__main__':
    main()
