'''Database lock harness (C13): REAL dawgie.db.shelve.comms.Worker protocol
objects (one per client connection, each with its own virtual clock so that any
poll order is realisable), real pickled COMMANDs through dataReceived in small
chunks, disconnects through connectionLost; optionally the REAL blocking client
functions comms.acquire / comms.release on the other end of the in-memory socket.

usage: python -m harness.dblock_h <jobs.json> <out.ndjson>
'''

import json
import pickle
import struct
import sys

from vlib import boot, bridge

boot.boot()

import dawgie.context  # noqa: E402
import dawgie.db.shelve.comms as comms  # noqa: E402
from dawgie.db.shelve.enums import Func, Mutex  # noqa: E402
from dawgie.db.shelve.state import DBI  # noqa: E402


def frames(conn, pos):
    '''decode the status messages written to a client transport since pos'''
    data = b''.join(conn.written)
    out = []
    while len(data) - pos >= 4:
        n = struct.unpack('>I', data[pos : pos + 4])[0]
        if len(data) - pos - 4 < n:
            break
        v = pickle.loads(data[pos + 4 : pos + 4 + n])
        pos += 4 + n
        out.append(v)
    return out, pos


def msg_of(v):
    if isinstance(v, Mutex):
        return 'granted' if v == Mutex.unlock else 'busy'
    if v is True:
        return 'released'
    if v is False:
        return 'notheld'
    return 'other'


class World:
    def __init__(self, clients, chunk):
        bridge.install(chunker=bridge.fixed_chunks(chunk) if chunk else None)
        dawgie.context.db_lock = False
        if not DBI().is_open:
            DBI().open()
        self.clients = clients
        self.conns = {}
        self.pos = {}
        self.socks = {}

    def conn(self, c):
        if c not in self.conns:
            self.conns[c] = bridge.Conn(address=('client', c), chunker=bridge.STATE['chunker'])
            self.conns[c].defer_lost = True  # connectionLost after a server-side close is a separate event
            self.pos[c] = 0
        return self.conns[c]

    def send_cmd(self, c, func, value=None):
        m = pickle.dumps(comms.COMMAND(func, None, None, value), pickle.HIGHEST_PROTOCOL)
        self.conn(c).send(struct.pack('>I', len(m)) + m)

    def told(self):
        out = []
        for c, conn in sorted(self.conns.items()):
            vs, self.pos[c] = frames(conn, self.pos[c])
            out.extend({'c': c, 'msg': msg_of(v)} for v in vs)
        return out

    def snapshot(self):
        def ph(c):
            if c not in self.conns:
                return 'open'
            conn = self.conns[c]
            return 'closed' if conn.lost else 'closing' if conn.server_closed else 'open'

        return {
            'lock': bool(dawgie.context.db_lock),
            'has': {str(c): bool(self.conns[c].has_lock) if c in self.conns else False for c in self.clients},
            'ph': {str(c): ph(c) for c in self.clients},
            'stopped': {str(c): bool(getattr(self.conns[c].worker, '_Worker__looping_call_stopped')) if c in self.conns else False for c in self.clients},
            'req': {str(c): bool(getattr(self.conns[c], 'asked', False)) if c in self.conns else False for c in self.clients},
        }


def client_name(job, c):
    '''the name a client gives is free text (comms.acquire(name)): every third history uses an empty / missing one'''
    v = (int(job['id']) // 3) % 3
    if v == 1 and c == 1:
        return ''
    if v == 2 and c == 2:
        return None
    return f'client{c}'


def run_job(job):
    w = World(job['clients'], job.get('chunk', 0))
    steps = [{'ev': 'Init', 'args': {'c': 0}, 'st': w.snapshot(), 'obs': {'told': [], 'client_acquired': False}}]
    skipped = 0
    for e in job['events']:
        ev, c = e['ev'], e['c']
        obs = {'told': [], 'client_acquired': False}
        st0 = w.snapshot()
        if ev == 'Request':
            if st0['ph'][str(c)] != 'open' or st0['req'][str(c)]:
                skipped += 1
                continue
            conn = w.conn(c)
            conn.asked = True
            if e.get('real'):
                # the REAL blocking client: returns only when told Mutex.unlock; other connections never move here
                bridge.STATE['on_starve'] = lambda cn: (_ for _ in ()).throw(TimeoutError('would block'))
                orig = bridge.connect

                def connect(_a, conn=conn):
                    return bridge.FakeSocket(conn, bridge.STATE['on_starve'])

                dawgie.security.connect = connect
                try:
                    w.socks[c] = comms.acquire(client_name(job, c))
                    obs['client_acquired'] = True
                except TimeoutError:
                    pass
                finally:
                    dawgie.security.connect = orig
            else:
                w.send_cmd(c, Func.acquire, client_name(job, c))
        elif ev == 'Poll':
            if not st0['req'][str(c)]:
                skipped += 1
                continue
            w.conns[c].poll(3)
        elif ev == 'Release':
            if st0['ph'][str(c)] != 'open':
                skipped += 1
                continue
            if e.get('real') and c in w.socks:
                comms.release(w.socks.pop(c))
            else:
                w.send_cmd(c, Func.release)
        elif ev == 'Disconnect':
            if st0['ph'][str(c)] == 'closed':
                skipped += 1
                continue
            if st0['ph'][str(c)] == 'closing':
                w.conn(c).deliver_lost()
            else:
                w.conn(c).drop()
        elif ev == 'Reopen':
            if not st0['has'][str(c)] or st0['ph'][str(c)] != 'open':
                skipped += 1
                continue
            # what Worker._do_copy and the archive step do while they hold the lock
            DBI().close()
            DBI().open()
        else:
            raise ValueError(ev)
        obs['told'] = w.told()
        steps.append({'ev': ev, 'args': {'c': c}, 'st': w.snapshot(), 'obs': obs})
    # quiescence: every connection goes away
    for c in job['clients']:
        if c in w.conns and not w.conns[c].lost:
            if w.conns[c].server_closed:
                w.conns[c].deliver_lost()
            else:
                w.conns[c].drop()
            steps.append({'ev': 'Disconnect', 'args': {'c': c}, 'st': w.snapshot(), 'obs': {'told': w.told(), 'client_acquired': False}})
    steps.append({'ev': 'Quiesce', 'args': {'c': 0}, 'st': w.snapshot(), 'obs': {'told': [], 'client_acquired': False}})
    return {'tid': job['id'], 'steps': steps, 'final': {'skipped': skipped}}


def main():
    with open(sys.argv[1], 'rt', encoding='utf-8') as f:
        jobs = json.load(f)['jobs']
    import logging

    logging.disable(logging.CRITICAL)
    with open(sys.argv[2], 'wt', encoding='utf-8') as out:
        for job in jobs:
            out.write(json.dumps(run_job(job)) + '\n')
    DBI().close()


if __name__ == '__main__':
    main()
